// C15 — subprocess I/O is complete and deadlock-free for any payload and child timing.
// E-PROC: run_process / Subprocess::communicate / the Subprocess life cycle really fork and exec a scripted helper
// child (harness/C15_child.c) that performs one step per command; the parent's waitpid, poll, read, write, kill,
// gettimeofday, fork, pipe and close are interposed at link time (-Wl,--wrap), see C15_proc.hh.  Environment answers
// (choice points of the explorer):
//   * at each of the parent's waitpid/poll/read/write calls: how many child steps run first (default 0: the child
//     moves only when the parent would otherwise idle; alternatives 1, 2, all);
//   * wherever the parent would sleep (blocking waitpid with a live child, poll with a non-zero timeout and nothing
//     ready) and at every non-blocking read/write of run_process (which names EINTR explicitly): the call is
//     interrupted by a signal and fails with EINTR (default: no signal; at most 2 per call).
// Every choice sequence with at most `bound` non-default answers is executed (C15_explore.hh).  Time is virtual: each
// wrapped system call costs 1 us, a sleeping poll its timeout, and a parent that spins (identical poll rounds that return
// at once, nothing done in between, child unable to move) is fast-forwarded to the expiry of its timeout and beyond.
// A further environment dimension (round 3): the caller's own descriptors 0/1/2, any subset closed.
// Round 5: signal traffic in the calling process at fixed virtual times (never / once / one every period from a ladder
// around run_process' 1000 ms poll interval, several phases each): a sleep of the parent into which a signal falls ends
// with EINTR at exactly the signal's time; children may sleep until a virtual time (T steps); "a timeout ends the child"
// has an upper bound (timeout + slack of virtual time), beyond which the execution is stopped and reported.
// One scenario is a HISTORY of one to five calls made in the same process, each with its own scripted child.
#include "C15_proc.hh"
#include "C15_explore.hh"
#include "C15_oracle.hh"

namespace {

struct Scenario {
  std::string name;
  std::vector<Call> calls;
  int bound_quick, bound_thorough;
  std::string group = "";  // evidence counter under which the executions are summed (default: the scenario's own name)
  unsigned slices = 0;     // 0: by the deviation bound (1/4/16); the round-5 scenarios have small trees and run as one slice
};

// ---- Round 5: signals in the calling process at fixed virtual times ---------------------------------------------------
// Period ladder 1 ms, 10 ms, 100 ms, 999 ms, 1000 ms, 1001 ms, 5 s (run_process polls with a 1000 ms timeout); for each
// period every phase of {1 us, half a period, period - 1 us, and the three phases that put a signal 1 us before / exactly
// at / 1 us after the reference time `ref` (the expiry of the timeout, or the child's own exit time when there is no
// timeout)}; "once": a single signal 1 us / ref/2 / ref - 1 ms / ref + 1 ms / ref + 500 ms after the call began; never.
struct SigMode { bool on; uint64_t period, phase; };
const uint64_t kSigPeriods[] = {1000, 10000, 100000, 999000, 1000000, 1001000, 5000000};
std::vector<SigMode> sig_modes(uint64_t ref) {
  std::vector<SigMode> m;
  m.push_back({false, 0, 0});
  std::set<uint64_t> once = {1, ref / 2, ref > 1000 ? ref - 1000 : 0, ref + 1000, ref + 500000};
  once.erase(0);
  for (uint64_t ph : once) m.push_back({true, 0, ph});
  for (uint64_t p : kSigPeriods) {
    std::set<uint64_t> phases = {1, p / 2, p - 1, (ref + p - 1) % p, ref % p, (ref + 1) % p};
    for (uint64_t ph : phases) m.push_back({true, p, ph});
  }
  return m;
}
std::string sig_name(const SigMode& m) {
  if (!m.on) return "no signals";
  if (!m.period) return vf::fmt("one signal at %llu us", (unsigned long long)m.phase);
  return vf::fmt("signals every %llu us from %llu us", (unsigned long long)m.period, (unsigned long long)m.phase);
}
// a child that writes one byte to stdout every `every` us until `until`, then does `last`
std::vector<Step> ticking(std::vector<Step> sc, uint64_t every, uint64_t until, Step last) {
  for (uint64_t t = every; t <= until; t += every) { sc.push_back({ST_T, (int64_t)t}); sc.push_back({ST_W1, 1}); }
  sc.push_back(last);
  return sc;
}

Call mk(Api api, bool has_stdin, size_t payload, std::vector<Step> script, bool check, uint64_t timeout, bool reads_to_eof, int want, int variant = 0, int ctx = 0) {
  Call c;
  c.api = api; c.has_stdin = has_stdin; c.payload = payload; c.script = std::move(script); c.check = check; c.timeout = timeout;
  c.reads_to_eof = reads_to_eof; c.want_status = want; c.variant = variant; c.ctx = ctx;
  return c;
}
Call life(void (*body)(Life&), const char* name, std::vector<Step> script, size_t payload = 0) {
  Call c;
  c.api = API_SUB; c.body = body; c.body_name = name; c.script = std::move(script); c.payload = payload;
  return c;
}

std::vector<Step> chunked(size_t payload, size_t chunk, int code) {
  std::vector<Step> sc;
  for (size_t done = 0; done < payload; done += chunk) { sc.push_back({ST_R, (int64_t)chunk}); sc.push_back({ST_W1, (int64_t)chunk}); }
  sc.push_back({ST_RALL, 0});
  sc.push_back({ST_X, code});
  return sc;
}

// Round 5: every blocking call of the parent x {never, one signal, periodic signals from the ladder x phases} x children whose
// behaviour depends on (virtual) time x {run_process with a timeout, communicate with a deadline, Subprocess wait/kill
// paths} x timeout ladder {0, 1 us, 1 ms, 1 s, 5 s, (2^31 + 1000) ms, 2^32 ms}.
void signal_scenarios(std::vector<Scenario>& v, bool thorough) {
  const int64_t MS = 1000, S = 1000000;
  struct Kid { std::string name; std::vector<Step> script; bool has_stdin; size_t payload; bool reads_to_eof; int want; bool may_time_out; bool heavy; };
  auto emit = [&](const std::string& fam, Api api, uint64_t timeout, const Kid& k, uint64_t ref) {
    for (auto& m : sig_modes(ref)) {
      Call c = mk(api, api == API_COMM || k.has_stdin, k.payload, k.script, false, timeout, k.reads_to_eof, k.want);
      c.may_time_out = k.may_time_out;
      c.sig_mode = m.on; c.sig_period = m.period; c.sig_phase = m.phase;
      // executions under 1 ms / 10 ms signals make thousands of system calls each: no child-runs-ahead deviations in quick
      bool dense = m.on && m.period && m.period <= 10000 && (ref >= 1000000 || k.heavy);
      int bq = dense || k.heavy ? 0 : 1, bt = dense ? (k.heavy ? 0 : 1) : (k.heavy ? 1 : 2);
      std::string group = vf::fmt("sig: %s: child %s; timeout %llu us", fam.c_str(), k.name.c_str(), (unsigned long long)timeout);
      v.push_back({group + "; " + sig_name(m), {std::move(c)}, bq, bt, group + " (x signal modes)", 1});
    }
  };
  // a child that "never stops talking" keeps ticking until after the latest moment at which an overrun is reported
  // (timeout + 20 s + 2 periods of at most 5 s + the system-call allowance of less than 1 s)
  const uint64_t TICK_ON = TIMEOUT_SLACK + 2 * 5 * S + 2 * S;
  const uint64_t HUGE1 = ((1ull << 31) + 1000) * 1000, HUGE2 = (1ull << 32) * 1000;  // timeouts above INT_MAX milliseconds
  for (uint64_t T : {(uint64_t)1, (uint64_t)MS, (uint64_t)S, (uint64_t)(5 * S)}) {
    int64_t D = (int64_t)T;
    bool big = T >= (uint64_t)S;
    // ---- run_process with a timeout ----
    std::vector<Kid> run_kids = {
      {"writes 9 bytes, then silent forever", {{ST_W1, 9}, {ST_Z, 0}}, false, 0, false, -1, false, false},
      {"ignores SIGTERM, silent forever (SIGKILL must follow)", {{ST_I, SIGTERM}, {ST_Z, 0}}, false, 0, false, -1, false, false},
      {"silent, exits 2 ms after the timeout expires", {{ST_W1, 4}, {ST_T, D + 2 * MS}, {ST_W2, 2}, {ST_X, 3}}, false, 0, false, W(3), true, false},
      {"closes stdout and stderr, stays alive", {{ST_W1, 10}, {ST_W2, 7}, {ST_C, 1}, {ST_C, 2}, {ST_Z, 0}}, false, 0, false, -1, false, false},
      {"one byte every 300 ms, never exits", ticking({}, 300 * MS, T + TICK_ON, {ST_Z, 0}), false, 0, false, -1, false, true},
    };
    if (big) run_kids.push_back({"silent, exits 2 ms before the timeout expires", {{ST_W1, 4}, {ST_T, D - 2 * MS}, {ST_W2, 2}, {ST_X, 3}}, false, 0, false, W(3), false, false});
    if (thorough) run_kids.push_back({"silent forever, payload 3 never read", {{ST_Z, 0}}, true, 3, false, -1, false, false});
    for (auto& k : run_kids) emit("run", API_RUN, T, k, T);
    // ---- Subprocess::communicate with a deadline ----
    std::vector<Kid> comm_kids = {
      {"reads all, writes 10 bytes, then silent forever", {{ST_RALL, 0}, {ST_W1, 10}, {ST_Z, 0}}, true, 10, true, -1, false, false},
      {"silent, exits 2 ms after the deadline", {{ST_RALL, 0}, {ST_W1, 10}, {ST_T, D + 2 * MS}, {ST_W1, 2}, {ST_X, 3}}, true, 10, true, W(3), true, false},
      {"closes stdout, lingers, exits 2 ms after the deadline (parent blocks in waitpid)", {{ST_RALL, 0}, {ST_W1, 10}, {ST_C, 1}, {ST_T, D + 2 * MS}, {ST_X, 5}}, true, 10, true, W(5), true, false},
      {"one byte every 300 ms, never exits", ticking({{ST_RALL, 0}}, 300 * MS, T + TICK_ON, {ST_Z, 0}), true, 10, true, -1, false, true},
    };
    if (big) {
      comm_kids.push_back({"silent, exits 2 ms before the deadline", {{ST_RALL, 0}, {ST_W1, 10}, {ST_T, D - 2 * MS}, {ST_W1, 2}, {ST_X, 3}}, true, 10, true, W(3), false, false});
      comm_kids.push_back({"closes stdout, lingers, exits 2 ms before the deadline (parent blocks in waitpid)", {{ST_RALL, 0}, {ST_W1, 10}, {ST_C, 1}, {ST_T, D - 2 * MS}, {ST_X, 5}}, true, 10, true, W(5), false, false});
    }
    for (auto& k : comm_kids) emit("comm", API_COMM, T, k, T);
  }
  // ---- no timeout, and timeouts above INT_MAX milliseconds: the child ends on its own after 3 s ----
  for (uint64_t T : {(uint64_t)0, HUGE1, HUGE2}) {
    std::vector<Kid> run_kids = {
      {"silent for 3 s, then writes and exits 3", {{ST_W1, 4}, {ST_T, 3 * S}, {ST_W2, 2}, {ST_X, 3}}, false, 0, false, W(3), false, false},
      {"one byte every 300 ms for 3 s, then exits 0", ticking({}, 300 * MS, 3 * S, {ST_X, 0}), false, 0, false, 0, false, true},
    };
    for (auto& k : run_kids) emit("run", API_RUN, T, k, 3 * S);
    std::vector<Kid> comm_kids = {
      {"silent for 3 s, then writes and exits 3", {{ST_RALL, 0}, {ST_W1, 10}, {ST_T, 3 * S}, {ST_W1, 2}, {ST_X, 3}}, true, 10, true, W(3), false, false},
      {"closes stdout, lingers for 3 s, exits 5 (parent blocks in waitpid)", {{ST_RALL, 0}, {ST_W1, 10}, {ST_C, 1}, {ST_T, 3 * S}, {ST_X, 5}}, true, 10, true, W(5), false, false},
      {"one byte every 300 ms for 3 s, then exits 0", ticking({{ST_RALL, 0}}, 300 * MS, 3 * S, {ST_X, 0}), true, 10, true, 0, false, true},
    };
    for (auto& k : comm_kids) emit("comm", API_COMM, T, k, 3 * S);
  }
  // ---- Subprocess wait / kill / destructor paths ----
  struct LifeKid { void (*body)(Life&); const char* body_name; std::string name; std::vector<Step> script; size_t payload; };
  std::vector<LifeKid> lives = {
    {life_close_stdin_wait, "close(sp.stdin_fd()); sp.wait()", "close stdin, blocking wait(); child exits 2 after 2 s", {{ST_RALL, 0}, {ST_W1, 10}, {ST_T, 2 * S}, {ST_X, 2}}, 0},
    {life_poll_wait, "sp.wait(true) x4; sp.wait(); sp.wait(true)", "wait(true) x4, wait(), wait(true); child exits 5 after 2 s", {{ST_T, 2 * S}, {ST_X, 5}}, 0},
    {life_destroy_running, "{ Subprocess sp(cmd); }", "destroy while the child hangs", {{ST_W1, 5}, {ST_Z, 0}}, 0},
    {life_kill_then_wait, "sp.kill(SIGTERM); sp.wait() x3", "kill(SIGTERM), wait() x3; child hangs", {{ST_W1, 5}, {ST_Z, 0}}, 0},
    {life_move_ctor, "Subprocess b(std::move(a)); ~a; b.communicate(); b.wait()", "move-construct, communicate, wait; child exits 4 after 2 s", {{ST_RALL, 0}, {ST_W1, 20}, {ST_T, 2 * S}, {ST_W1, 3}, {ST_X, 4}}, 10},
  };
  for (auto& lk : lives)
    for (auto& m : sig_modes(2 * S)) {
      Call c = life(lk.body, lk.body_name, lk.script, lk.payload);
      c.sig_mode = m.on; c.sig_period = m.period; c.sig_phase = m.phase;
      bool dense = m.on && m.period && m.period <= 10000;
      std::string group = "sig: life: " + lk.name;
      v.push_back({group + "; " + sig_name(m), {std::move(c)}, dense ? 0 : 1, dense ? 1 : 2, group + " (x signal modes)", 1});
    }
}

std::vector<Scenario> scenarios(bool thorough) {
  std::vector<Scenario> v;
  auto one = [&](const std::string& name, Call c, int bq, int bt) { v.push_back({name, {std::move(c)}, bq, bt}); };
  auto run = [&](const std::string& name, bool has_stdin, size_t payload, std::vector<Step> script, bool check, uint64_t timeout, int bq, int bt, bool reads_to_eof, int want, int variant = 0, int ctx = 0) {
    one(name, mk(API_RUN, has_stdin, payload, std::move(script), check, timeout, reads_to_eof, want, variant, ctx), bq, bt);
  };
  auto comm = [&](const std::string& name, size_t payload, std::vector<Step> script, uint64_t deadline, int bq, int bt, bool reads_to_eof, int want, int variant = 0, int ctx = 0) {
    one(name, mk(API_COMM, true, payload, std::move(script), false, deadline, reads_to_eof, want, variant, ctx), bq, bt);
  };
  const uint64_t K31 = 1ull << 31, K32 = 1ull << 32, K63 = 1ull << 63;

  // ================= run_process =================
  for (size_t pl : {(size_t)0, (size_t)1, (size_t)4095, (size_t)4096, (size_t)65535, (size_t)65536, (size_t)65537, (size_t)200000, (size_t)1048576}) {
    bool big = pl > 65536;
    run(vf::fmt("run: read-all-then-write, payload %zu", pl), true, pl, {{ST_RALL, 0}, {ST_W1, 5}, {ST_W2, 3}, {ST_X, 7}}, false, 0, big ? 1 : 2, big ? 2 : 3, true, W(7));
    if (pl == 0 || pl == 4096 || pl == 65537 || (thorough && pl != 1048576))
      run(vf::fmt("run: write-then-read, payload %zu", pl), true, pl, {{ST_W1, 3000}, {ST_RALL, 0}, {ST_W2, 10}, {ST_X, 0}}, false, 0, big ? 1 : 2, big ? 2 : 3, true, 0);
  }
  if (thorough) for (size_t pl : {(size_t)2, (size_t)4097, (size_t)8192, (size_t)131071, (size_t)131072, (size_t)131073, (size_t)4194304})
    run(vf::fmt("run: read-all-then-write, payload %zu", pl), true, pl, {{ST_RALL, 0}, {ST_W1, 5}, {ST_W2, 3}, {ST_X, 7}}, false, 0, 1, pl > 65536 ? 1 : 2, true, W(7));
  run("run: no stdin, child exits at once", false, 0, {{ST_X, 0}}, false, 0, 3, 4, false, 0);
  run("run: no stdin, write then exit immediately", false, 0, {{ST_W1, 6000}, {ST_X, 0}}, false, 0, 3, 4, false, 0);
  run("run: no stdin, write-pause-write", false, 0, {{ST_W1, 3000}, {ST_W2, 100}, {ST_W1, 3000}, {ST_X, 0}}, false, 0, 2, 3, false, 0);
  run("run: interleaved", true, 10000, {{ST_R, 4096}, {ST_W1, 100}, {ST_R, 4096}, {ST_W2, 100}, {ST_RALL, 0}, {ST_W1, 50}, {ST_X, 3}}, false, 0, 2, 3, true, W(3));
  run("run: slow reader", true, 70000, {{ST_R, 1}, {ST_R, 1}, {ST_R, 100}, {ST_RALL, 0}, {ST_X, 0}}, false, 0, 1, 2, true, 0);
  run("run: 200 KB on stdout and stderr", false, 0, {{ST_W1, 200000}, {ST_W2, 200000}, {ST_X, 0}}, false, 0, 1, 2, false, 0);
  run("run: stdout and stderr alternating 70 KB", true, 5, {{ST_W2, 70000}, {ST_W1, 70000}, {ST_RALL, 0}, {ST_W2, 70000}, {ST_X, 1}}, false, 0, 1, 2, true, W(1));
  run("run: child closes stdin early, payload 200000", true, 200000, {{ST_C, 0}, {ST_W1, 10}, {ST_X, 0}}, false, 0, 1, 2, false, 0);
  run("run: child exits without reading, payload 200000", true, 200000, {{ST_W1, 10}, {ST_X, 5}}, false, 0, 1, 2, false, W(5));
  run("run: child reads 4096 then exits while the parent still writes, payload 200000", true, 200000, {{ST_R, 4096}, {ST_W2, 7}, {ST_X, 0}}, false, 0, 1, 2, false, 0);
  // output sizes around one pipe-full and around run_process' read block
  for (int64_t n : {(int64_t)65535, (int64_t)65536, (int64_t)65537, (int64_t)131072, (int64_t)131073})
    if (thorough || n == 65536 || n == 131073)
      run(vf::fmt("run: no stdin, %lld bytes on stdout and on stderr, exit at once", (long long)n), false, 0, {{ST_W1, n}, {ST_W2, n}, {ST_X, 0}}, false, 0, 1, 2, false, 0);
  for (int code : {0, 1, 255}) {
    run(vf::fmt("run: exit code %d, check=false", code), true, 3, {{ST_RALL, 0}, {ST_W1, 4}, {ST_X, code}}, false, 0, 2, 3, true, W(code));
    run(vf::fmt("run: exit code %d, check=true", code), true, 3, {{ST_RALL, 0}, {ST_W2, 4}, {ST_X, code}}, true, 0, 2, 3, true, W(code));
  }
  run("run: child killed by SIGTERM", true, 3, {{ST_RALL, 0}, {ST_W1, 4}, {ST_K, SIGTERM}}, false, 0, 2, 3, true, SIGTERM);
  run("run: child killed by SIGKILL, check=true", false, 0, {{ST_W1, 4}, {ST_K, SIGKILL}}, true, 0, 2, 3, false, SIGKILL);
  // every exit code, and every terminating signal that needs no special set-up
  for (int code = 0; code < 256; code++)
    run(vf::fmt("run: every exit code: %d, check=%d", code, code & 1), false, 0, {{ST_W1, 4}, {ST_X, code}}, (code & 1) != 0, 0, 1, 2, false, W(code));
  {
    int i = 0;
    for (int sig : {SIGHUP, SIGINT, SIGQUIT, SIGILL, SIGABRT, SIGBUS, SIGFPE, SIGKILL, SIGUSR1, SIGSEGV, SIGUSR2, SIGPIPE, SIGALRM, SIGTERM, SIGXCPU, SIGVTALRM, SIGSYS})
      run(vf::fmt("run: child dies by signal %d, check=%d", sig, i & 1), false, 0, {{ST_W2, 4}, {ST_K, sig}}, (i++ & 1) != 0, 0, 2, 3, false, sig);
  }
  // timeouts
  run("run: child hangs, timeout 2.5 s", true, 3, {{ST_W1, 9}, {ST_Z, 0}}, false, 2500000, 2, 3, false, -1);
  run("run: child hangs, timeout 1 us", false, 0, {{ST_W1, 9}, {ST_Z, 0}}, false, 1, 2, 3, false, -1);
  // Round 3: children that close their output streams and then exit / hang past the timeout / ignore SIGTERM and hang.
  // On HEAD run_process spins on POLLHUP without sleeping; the time model fast-forwards a spinning parent whose child
  // cannot move (C15_proc.hh), so "a timeout ends the child" is decided for these children too.
  for (int closes : {3, 1, 2})           // bit 0: stdout, bit 1: stderr
    for (int after : {0, 1, 2})          // 0 lingers then exits 3; 1 hangs; 2 ignores SIGTERM and hangs
      for (int in : {0, 1, 2}) {         // 0 no stdin; 1 payload 5000 read to EOF before the streams are closed; 2 payload 3 never read
        if (in == 2 && !(closes == 3 || thorough)) continue;
        std::vector<Step> sc;
        if (after == 2) sc.push_back({ST_I, SIGTERM});
        sc.push_back({ST_W1, 10});
        sc.push_back({ST_W2, 7});
        if (in == 1) sc.push_back({ST_RALL, 0});
        if (closes & 1) sc.push_back({ST_C, 1});
        if (closes & 2) sc.push_back({ST_C, 2});
        if (after == 0) { sc.push_back({ST_P, 0}); sc.push_back({ST_P, 0}); sc.push_back({ST_X, 3}); }
        else sc.push_back({ST_Z, 0});
        const char* cn = closes == 3 ? "stdout and stderr" : closes == 1 ? "stdout" : "stderr";
        const char* an = after == 0 ? "lingers, exits 3" : after == 1 ? "hangs past the timeout" : "ignores SIGTERM and hangs past the timeout (SIGKILL follows)";
        const char* in_n = in == 0 ? "no stdin" : in == 1 ? "payload 5000 read first" : "payload 3 never read";
        for (uint64_t t : {(uint64_t)2500000, (uint64_t)0, (uint64_t)700}) {
          if (t == 0 && (after != 0 || !thorough)) continue;  // a child that hangs needs a timeout; exits without one: round-2 scenarios, thorough
          if (t == 700 && !(after == 1 && in != 2)) continue;  // a timeout below one poll interval
          run(vf::fmt("run: child closes %s, then %s; %s; timeout %llu us", cn, an, in_n, (unsigned long long)t), in != 0, in == 1 ? 5000 : in == 2 ? 3 : 0, sc, false, t, after == 0 ? 1 : 2, after == 0 ? 2 : 3, in == 1, after == 0 ? W(3) : -1);
        }
      }
  run("run: child ignores SIGTERM and hangs, timeout 2.5 s (SIGKILL follows)", false, 0, {{ST_I, SIGTERM}, {ST_W1, 9}, {ST_Z, 0}}, false, 2500000, 2, 3, false, -1);
  run("run: child finishes well inside a timeout", true, 3, {{ST_RALL, 0}, {ST_W1, 9}, {ST_X, 0}}, false, 30000000, 2, 3, true, 0);
  for (uint64_t t : {(uint64_t)1, K31 - 1, K31, K32 - 1, K32, K63 - 1, K63, UINT64_MAX - 1, UINT64_MAX})
    run(vf::fmt("run: child finishes, timeout %llu us", (unsigned long long)t), true, 3, {{ST_RALL, 0}, {ST_W1, 9}, {ST_P, 0}, {ST_X, 0}}, false, t, 2, 3, true, 0);
  // children that close their output early and linger
  run("run: child closes stdout and stderr early, lingers, then reads and exits", true, 5000, {{ST_W1, 10}, {ST_W2, 10}, {ST_C, 1}, {ST_C, 2}, {ST_P, 0}, {ST_P, 0}, {ST_RALL, 0}, {ST_X, 3}}, false, 0, 2, 3, true, W(3));
  run("run: no stdin, child closes stdout and stderr early and lingers", false, 0, {{ST_W1, 10}, {ST_C, 1}, {ST_C, 2}, {ST_P, 0}, {ST_P, 0}, {ST_X, 0}}, true, 0, 2, 3, false, 0);
  run("run: child closes stderr only, keeps writing stdout", false, 0, {{ST_C, 2}, {ST_W1, 70000}, {ST_P, 0}, {ST_W1, 10}, {ST_X, 0}}, false, 0, 1, 2, false, 0);
  // chunked echo: the child reads a little, echoes it, reads a little more (payload far beyond both pipes' capacity)
  run("run: chunked echo 4096 x 60 (payload 245760)", true, 245760, chunked(245760, 4096, 0), false, 0, 1, 1, true, 0);
  run("run: chunked echo 1 x 12", true, 12, chunked(12, 1, 4), false, 0, 2, 2, true, W(4));
  run("run: chunked echo 1 x 4", true, 4, chunked(4, 1, 4), false, 0, 2, 3, true, W(4));
  // overload / argument variants
  run("run: trailing arguments defaulted (check=true), exit 0", true, 3, {{ST_RALL, 0}, {ST_W1, 4}, {ST_X, 0}}, true, 0, 1, 2, true, 0, V_DEFAULT_ARGS);
  run("run: all arguments defaulted (no stdin, check=true), exit 2", false, 0, {{ST_W2, 4}, {ST_X, 2}}, true, 0, 1, 2, false, W(2), V_DEFAULT_ARGS);
  run("run: cwd and env given", true, 3, {{ST_RALL, 0}, {ST_W1, 4}, {ST_W2, 4}, {ST_X, 6}}, false, 0, 1, 2, true, W(6), V_CWD_ENV);
  run("run: fork fails (don't-care: executed, not compared)", true, 3, {{ST_X, 0}}, false, 0, 0, 0, false, 0, V_FORK_FAILS);
  // calling context
  run("run: inside a catch handler", true, 3, {{ST_RALL, 0}, {ST_W1, 4}, {ST_W2, 3}, {ST_X, 1}}, false, 0, 1, 2, true, W(1), 0, CTX_IN_CATCH);
  run("run: inside a catch handler, check=true throws", true, 3, {{ST_RALL, 0}, {ST_W1, 4}, {ST_X, 1}}, true, 0, 1, 2, true, W(1), 0, CTX_IN_CATCH);
  run("run: in a destructor during unwinding", true, 3, {{ST_RALL, 0}, {ST_W1, 4}, {ST_W2, 3}, {ST_X, 1}}, false, 0, 1, 2, true, W(1), 0, CTX_UNWINDING);

  // ================= Subprocess::communicate =================
  for (uint64_t dl : {(uint64_t)0, (uint64_t)5000000}) {
    const char* d = dl ? "deadline 5 s" : "no deadline";
    for (size_t pl : {(size_t)0, (size_t)10, (size_t)4096, (size_t)65537, (size_t)1048576}) {
      bool big = pl > 65536;
      if (big && pl == 1048576 && !thorough && dl) continue;
      comm(vf::fmt("comm: cat-like echo of %zu bytes, %s", pl, d), pl, pl == 0 ? std::vector<Step>{{ST_RALL, 0}, {ST_W1, 10}, {ST_X, 0}} : big ? std::vector<Step>{{ST_R, 65536}, {ST_W1, 65536}, {ST_R, 65536}, {ST_W1, 65536}, {ST_RALL, 0}, {ST_W1, 70000}, {ST_X, 0}} : std::vector<Step>{{ST_RALL, 0}, {ST_W1, (int64_t)pl}, {ST_X, 0}}, dl, big ? 1 : 2, pl == 1048576 ? 1 : big ? 2 : 3, true, 0);
    }
    comm(vf::fmt("comm: chunked echo 4096 x 60 (payload 245760), %s", d), 245760, chunked(245760, 4096, 0), dl, 1, 1, true, 0);
    comm(vf::fmt("comm: chunked echo 1000 x 9 then 70000 more output, %s", d), 9000, [&] { auto sc = chunked(9000, 1000, 0); sc.insert(sc.end() - 1, Step{ST_W1, 70000}); return sc; }(), dl, 1, 2, true, 0);
    comm(vf::fmt("comm: read all, write 3000, write 3000, exit, %s", d), 10, {{ST_RALL, 0}, {ST_W1, 3000}, {ST_W1, 3000}, {ST_X, 0}}, dl, 2, 3, true, 0);
    comm(vf::fmt("comm: write 100000 then exit 2, %s", d), 0, {{ST_W1, 100000}, {ST_X, 2}}, dl, 1, 2, false, W(2));
    comm(vf::fmt("comm: child exits at once, %s", d), 5, {{ST_X, 0}}, dl, 3, 4, false, 0);
    comm(vf::fmt("comm: child closes stdout early then reads, %s", d), 5000, {{ST_W1, 10}, {ST_C, 1}, {ST_RALL, 0}, {ST_X, 0}}, dl, 2, 3, true, 0);
    // the child closes stdout and lingers: the parent has nothing left to poll and blocks in waitpid
    comm(vf::fmt("comm: child reads all, writes, closes stdout, lingers, exit 5, %s", d), 10, {{ST_RALL, 0}, {ST_W1, 10}, {ST_C, 1}, {ST_P, 0}, {ST_P, 0}, {ST_X, 5}}, dl, 2, 3, true, W(5));
    comm(vf::fmt("comm: empty payload, child closes stdout at once and lingers, %s", d), 0, {{ST_C, 1}, {ST_P, 0}, {ST_W2, 20}, {ST_P, 0}, {ST_X, 0}}, dl, 2, 3, false, 0);
    comm(vf::fmt("comm: child reads 4096 then exits while the parent still writes, payload 200000, %s", d), 200000, {{ST_R, 4096}, {ST_W1, 7}, {ST_X, 0}}, dl, 1, 2, false, 0);
    comm(vf::fmt("comm: child closes stdin early, lingers writing 70000, payload 200000, %s", d), 200000, {{ST_C, 0}, {ST_W1, 70000}, {ST_P, 0}, {ST_X, 0}}, dl, 1, 2, false, 0);
  }
  for (size_t pl : {(size_t)1, (size_t)4095, (size_t)4097, (size_t)8192, (size_t)65536})
    if (thorough || pl == 4097 || pl == 8192)
      comm(vf::fmt("comm: cat-like echo of %zu bytes, no deadline", pl), pl, {{ST_RALL, 0}, {ST_W1, (int64_t)pl}, {ST_X, 0}}, 0, 1, 2, true, 0);
  comm("comm: (ptr,len) overload, cat-like echo of 10 bytes", 10, {{ST_RALL, 0}, {ST_W1, 10}, {ST_X, 0}}, 0, 2, 3, true, 0, V_PTRLEN);
  comm("comm: (ptr,len) overload, echo of 65537 bytes, deadline 5 s", 65537, {{ST_R, 65536}, {ST_W1, 65536}, {ST_RALL, 0}, {ST_W1, 1}, {ST_X, 9}}, 5000000, 1, 2, true, W(9), V_PTRLEN);
  comm("comm: (ptr,len) overload, empty payload", 0, {{ST_RALL, 0}, {ST_W1, 10}, {ST_X, 0}}, 0, 1, 2, true, 0, V_PTRLEN);
  comm("comm: child writes to stderr too (nobody reads it)", 10, {{ST_RALL, 0}, {ST_W2, 100}, {ST_W1, 10}, {ST_W2, 100}, {ST_X, 0}}, 0, 2, 3, true, 0);
  comm("comm: stderr_fd=/dev/null, 200000 bytes of stderr", 10, {{ST_RALL, 0}, {ST_W2, 200000}, {ST_W1, 10}, {ST_X, 0}}, 0, 1, 2, true, 0, V_STDERR_DEVNULL);
  comm("comm: stdin_fd=/dev/null, empty payload", 0, {{ST_RALL, 0}, {ST_W1, 5000}, {ST_X, 3}}, 0, 2, 3, true, W(3), V_STDIN_DEVNULL);
  comm("comm: child hangs, deadline 5 s (must time out, child ended and reaped)", 10, {{ST_RALL, 0}, {ST_W1, 10}, {ST_Z, 0}}, 5000000, 2, 3, true, -1);
  comm("comm: empty payload, child hangs, deadline 5 s (must time out, child ended and reaped)", 0, {{ST_RALL, 0}, {ST_W1, 10}, {ST_Z, 0}}, 5000000, 2, 3, true, -1);
  comm("comm: (ptr,len) overload, empty payload, child hangs, deadline 5 s (must time out)", 0, {{ST_W1, 10}, {ST_Z, 0}}, 5000000, 1, 2, false, -1, V_PTRLEN);
  comm("comm: exit code 255", 3, {{ST_RALL, 0}, {ST_W1, 4}, {ST_X, 255}}, 0, 1, 2, true, W(255));
  comm("comm: child dies by SIGSEGV", 3, {{ST_RALL, 0}, {ST_W1, 4}, {ST_K, SIGSEGV}}, 0, 1, 2, true, SIGSEGV);
  comm("comm: child dies by SIGKILL, deadline 5 s", 3, {{ST_W1, 4}, {ST_K, SIGKILL}}, 5000000, 1, 2, false, SIGKILL);
  for (uint64_t t : {(uint64_t)1000, K31 - 1, K31, K32 - 1, K32, K63 - 1, K63, UINT64_MAX - 1, UINT64_MAX})
    comm(vf::fmt("comm: cat-like echo of 10 bytes, deadline %llu us", (unsigned long long)t), 10, {{ST_RALL, 0}, {ST_W1, 10}, {ST_P, 0}, {ST_X, 0}}, t, 2, 3, true, 0);
  comm("comm: inside a catch handler", 10, {{ST_RALL, 0}, {ST_W1, 10}, {ST_X, 1}}, 0, 1, 2, true, W(1), 0, CTX_IN_CATCH);
  comm("comm: in a destructor during unwinding, child lingers after closing stdout", 10, {{ST_RALL, 0}, {ST_W1, 10}, {ST_C, 1}, {ST_P, 0}, {ST_X, 1}}, 0, 1, 2, true, W(1), 0, CTX_UNWINDING);

  // ================= Round 3: the caller's own descriptors 0/1/2 are closed (daemon, `prog <&-`) =================
  // The pipes the Subprocess constructor creates then get the numbers 0..2 themselves.  Every non-empty subset.
  for (int mask = 1; mask < 8; mask++) {
    std::string mn = std::string("caller's fds {") + (mask & 1 ? "0" : "") + (mask & 2 ? "1" : "") + (mask & 4 ? "2" : "") + "} closed";
    auto closed = [&](Call c) { c.closed_fds = mask; return c; };
    one("run: " + mn + ", payload 3, read-all-then-write", closed(mk(API_RUN, true, 3, {{ST_RALL, 0}, {ST_W1, 5}, {ST_W2, 3}, {ST_X, 7}}, false, 0, true, W(7))), 1, 2);
    one("run: " + mn + ", no stdin, write both streams", closed(mk(API_RUN, false, 0, {{ST_W1, 6000}, {ST_W2, 100}, {ST_X, 0}}, true, 0, false, 0)), 1, 2);
    one("run: " + mn + ", payload 70000, echo 70000", closed(mk(API_RUN, true, 70000, {{ST_RALL, 0}, {ST_W1, 70000}, {ST_W2, 10}, {ST_X, 1}}, false, 0, true, W(1))), 1, 1);
    one("comm: " + mn + ", cat-like echo of 10 bytes", closed(mk(API_COMM, true, 10, {{ST_RALL, 0}, {ST_W1, 10}, {ST_W2, 4}, {ST_X, 0}}, false, 0, true, 0)), 1, 2);
    one("comm: " + mn + ", empty payload, (ptr,len) overload, deadline 5 s", closed(mk(API_COMM, true, 0, {{ST_RALL, 0}, {ST_W1, 5000}, {ST_X, 2}}, false, 5000000, true, W(2), V_PTRLEN)), 1, 2);
    if (mask == 1 || mask == 7 || thorough) {
      one("comm: " + mn + ", echo of 65537 bytes, deadline 5 s", closed(mk(API_COMM, true, 65537, {{ST_R, 65536}, {ST_W1, 65536}, {ST_RALL, 0}, {ST_W1, 1}, {ST_X, 9}}, false, 5000000, true, W(9))), 1, 1);
      one("run: " + mn + ", child hangs, timeout 2.5 s", closed(mk(API_RUN, true, 3, {{ST_W1, 9}, {ST_Z, 0}}, false, 2500000, false, -1)), 1, 2);
      one("life: " + mn + ", destroy while the child hangs", closed(life(life_destroy_running, "{ Subprocess sp(cmd); }", {{ST_W1, 5}, {ST_Z, 0}})), 1, 2);
      one("life: " + mn + ", move-construct, destroy the source, communicate, wait", closed(life(life_move_ctor, "Subprocess b(std::move(a)); ~a; b.communicate(); b.wait()", {{ST_RALL, 0}, {ST_W1, 20}, {ST_X, 4}}, 10)), 1, 2);
    }
  }

  // ================= Subprocess life cycle =================
  one("life: default-constructed object created and destroyed", life(life_default_only, "Subprocess(); ~Subprocess()", {}), 0, 0);
  one("life: destroy while the child hangs (no wait)", life(life_destroy_running, "{ Subprocess sp(cmd); }", {{ST_W1, 5}, {ST_Z, 0}}), 2, 3);
  one("life: destroy while the child is about to exit on its own", life(life_destroy_running, "{ Subprocess sp(cmd); }", {{ST_W1, 5}, {ST_P, 0}, {ST_X, 3}}), 3, 4);
  one("life: destroy while the child is about to die by a signal", life(life_destroy_running, "{ Subprocess sp(cmd); }", {{ST_K, SIGINT}}), 3, 4);
  one("life: kill(SIGTERM), wait(), wait(true), wait()", life(life_kill_then_wait, "sp.kill(SIGTERM); sp.wait() x3", {{ST_W1, 5}, {ST_Z, 0}}), 2, 3);
  one("life: kill(SIGTERM) then wait, child about to exit", life(life_kill_then_wait, "sp.kill(SIGTERM); sp.wait() x3", {{ST_P, 0}, {ST_P, 0}, {ST_Z, 0}}), 2, 3);
  one("life: kill(SIGKILL) then destroy, child hangs", life(life_kill_then_destroy, "sp.kill(SIGKILL); ~Subprocess()", {{ST_Z, 0}}), 2, 3);
  one("life: kill(SIGKILL) then destroy, child about to exit", life(life_kill_then_destroy, "sp.kill(SIGKILL); ~Subprocess()", {{ST_P, 0}, {ST_X, 0}}), 2, 3);
  one("life: wait(true) x4, wait(), wait(true); child exits 5", life(life_poll_wait, "sp.wait(true) x4; sp.wait(); sp.wait(true)", {{ST_P, 0}, {ST_P, 0}, {ST_X, 5}}), 3, 4);
  one("life: wait(true) x4, wait(), wait(true); child dies by SIGUSR1", life(life_poll_wait, "sp.wait(true) x4; sp.wait(); sp.wait(true)", {{ST_W1, 3}, {ST_K, SIGUSR1}}), 3, 4);
  one("life: close stdin, blocking wait()", life(life_close_stdin_wait, "close(sp.stdin_fd()); sp.wait()", {{ST_RALL, 0}, {ST_W1, 10}, {ST_P, 0}, {ST_X, 2}}), 2, 3);
  one("life: move-construct, destroy the source, communicate, wait", life(life_move_ctor, "Subprocess b(std::move(a)); ~a; b.communicate(); b.wait()", {{ST_RALL, 0}, {ST_W1, 20}, {ST_X, 4}}, 10), 2, 3);
  one("life: move-assign to a default-constructed object, destroy the source, communicate, wait", life(life_move_assign, "Subprocess c; c = std::move(a); ~a; c.communicate(ptr,len); c.wait()", {{ST_RALL, 0}, {ST_W1, 20}, {ST_X, 4}}, 10), 2, 3);

  {
    Call c = life(life_destroy_running, "{ Subprocess sp(cmd); }", {{ST_W1, 5}, {ST_Z, 0}});
    c.ctx = CTX_UNWINDING;
    one("life: destroy while the child hangs, in a destructor during unwinding", c, 1, 2);
    c.ctx = CTX_IN_CATCH;
    one("life: destroy while the child hangs, inside a catch handler", c, 1, 2);
  }

  // ================= histories: several calls in one process (state carried between calls, leftover descriptors) =====
  Call r_small = mk(API_RUN, true, 3, {{ST_RALL, 0}, {ST_W1, 4}, {ST_X, 0}}, false, 0, true, 0);
  Call r_large = mk(API_RUN, true, 70000, {{ST_RALL, 0}, {ST_W1, 70000}, {ST_W2, 10}, {ST_X, 1}}, false, 0, true, W(1));
  Call r_nostdin = mk(API_RUN, false, 0, {{ST_W1, 6000}, {ST_W2, 5}, {ST_X, 0}}, false, 0, false, 0);
  Call r_wtr = mk(API_RUN, true, 4096, {{ST_W1, 3000}, {ST_RALL, 0}, {ST_W2, 10}, {ST_X, 0}}, false, 0, true, 0);
  Call r_throw = mk(API_RUN, true, 3, {{ST_RALL, 0}, {ST_W2, 4}, {ST_X, 1}}, true, 0, true, W(1));
  Call r_timeout = mk(API_RUN, true, 3, {{ST_W1, 9}, {ST_Z, 0}}, false, 2500000, false, -1);
  Call r_epipe = mk(API_RUN, true, 200000, {{ST_W1, 10}, {ST_X, 5}}, false, 0, false, W(5));
  Call c_small = mk(API_COMM, true, 10, {{ST_RALL, 0}, {ST_W1, 10}, {ST_X, 0}}, false, 0, true, 0);
  Call c_large = mk(API_COMM, true, 65537, {{ST_R, 65536}, {ST_W1, 65536}, {ST_RALL, 0}, {ST_W1, 1}, {ST_X, 9}}, false, 5000000, true, W(9));
  Call c_linger = mk(API_COMM, true, 10, {{ST_RALL, 0}, {ST_W1, 10}, {ST_C, 1}, {ST_P, 0}, {ST_X, 5}}, false, 0, true, W(5));
  Call c_timeout = mk(API_COMM, true, 10, {{ST_RALL, 0}, {ST_W1, 10}, {ST_Z, 0}}, false, 5000000, true, -1);
  Call l_destroy = life(life_destroy_running, "{ Subprocess sp(cmd); }", {{ST_W1, 5}, {ST_Z, 0}});
  v.push_back({"hist: run small, run large", {r_small, r_large}, 2, 2});
  v.push_back({"hist: run large, run small", {r_large, r_small}, 2, 2});
  v.push_back({"hist: run no-stdin, run write-then-read, run no-stdin (A-B-A)", {r_nostdin, r_wtr, r_nostdin}, 2, 2});
  v.push_back({"hist: run small, run no-stdin, run small (A-B-A)", {r_small, r_nostdin, r_small}, 2, 2});
  v.push_back({"hist: run check=true throws, run small", {r_throw, r_small}, 2, 2});
  v.push_back({"hist: run timeout kills the child, run small", {r_timeout, r_small}, 2, 2});
  v.push_back({"hist: run timeout kills the child, run small, run timeout kills the child", {r_timeout, r_small, r_timeout}, 2, 2});
  v.push_back({"hist: run EPIPE (child exits without reading), run large", {r_epipe, r_large}, 1, 1});
  v.push_back({"hist: run small x5 (descriptor table identical after every call)", {r_small, r_small, r_small, r_small, r_small}, 1, 1});
  v.push_back({"hist: comm small, comm large", {c_small, c_large}, 1, 2});
  v.push_back({"hist: comm large, comm small", {c_large, c_small}, 1, 2});
  v.push_back({"hist: comm lingering child, comm small, comm lingering child", {c_linger, c_small, c_linger}, 1, 2});
  v.push_back({"hist: comm times out, comm small", {c_timeout, c_small}, 2, 2});
  v.push_back({"hist: comm small, run small, comm small", {c_small, r_small, c_small}, 2, 2});
  v.push_back({"hist: run large, comm large, run small", {r_large, c_large, r_small}, 1, 1});
  v.push_back({"hist: destroy a hanging child, run small, destroy a hanging child", {l_destroy, r_small, l_destroy}, 2, 2});
  {
    // Round 3 histories: the descriptor table of the caller changes between calls; a spinning call is followed by others
    Call r_small_no0 = r_small, r_small_none = r_small, c_small_no01 = c_small;
    r_small_no0.closed_fds = 1; r_small_none.closed_fds = 7; c_small_no01.closed_fds = 3;
    Call r_closed_hang = mk(API_RUN, false, 0, {{ST_W1, 10}, {ST_C, 1}, {ST_C, 2}, {ST_Z, 0}}, false, 2500000, false, -1);
    v.push_back({"hist: run small with fd 0 closed x3 (descriptor table identical after every call)", {r_small_no0, r_small_no0, r_small_no0}, 1, 1});
    v.push_back({"hist: run small, run small with fds 0-2 closed, run small", {r_small, r_small_none, r_small}, 1, 2});
    v.push_back({"hist: comm small with fds 0,1 closed, run small with fd 0 closed, comm small", {c_small_no01, r_small_no0, c_small}, 1, 2});
    v.push_back({"hist: run child closes both streams and hangs (timeout), run small, the same again", {r_closed_hang, r_small, r_closed_hang}, 1, 2});
  }
  {
    // Round 5 histories: calls under periodic signals followed by calls without (and back)
    Call r_sig_hang = mk(API_RUN, false, 0, {{ST_W1, 9}, {ST_Z, 0}}, false, 1000000, false, -1);
    r_sig_hang.sig_mode = true; r_sig_hang.sig_period = 100000; r_sig_hang.sig_phase = 1;
    Call c_sig_hang = mk(API_COMM, true, 10, {{ST_RALL, 0}, {ST_W1, 10}, {ST_Z, 0}}, false, 1000000, true, -1);
    c_sig_hang.sig_mode = true; c_sig_hang.sig_period = 10000; c_sig_hang.sig_phase = 5000;
    Call r_sig_small = r_small;
    r_sig_small.sig_mode = true; r_sig_small.sig_period = 1000; r_sig_small.sig_phase = 0;
    v.push_back({"hist: run timeout under 100 ms signals, run small, comm deadline under 10 ms signals, comm small", {r_sig_hang, r_small, c_sig_hang, c_small}, 1, 1});
    v.push_back({"hist: comm deadline under 10 ms signals, run small under 1 ms signals, run timeout under 100 ms signals", {c_sig_hang, r_sig_small, r_sig_hang}, 1, 1});
  }
  signal_scenarios(v, thorough);
  return v;
}

unsigned slices_for(int bound) { return bound <= 0 ? 1 : bound == 1 ? 4 : 16; }

std::string describe(const Scenario& sc, int bound) {
  std::string s = sc.name + " :: ";
  for (size_t i = 0; i < sc.calls.size(); i++) s += (i ? " ; THEN " : "") + describe_call(sc.calls[i]);
  s += vf::fmt("; environment answers: child runs {0,1,2,all} steps ahead at each parent waitpid/poll/read/write, EINTR where the parent would sleep (and at run_process' non-blocking read/write; not when signals arrive at fixed times: those alone interrupt every sleep they fall into), <=%d non-default answers per execution", bound);
  return s;
}

}  // namespace

VF_SECTION(schedules, 16, 16, 300) {
  signal(SIGPIPE, SIG_IGN);
  struct rlimit nocore = {0, 0};
  setrlimit(RLIMIT_CORE, &nocore);  // children that die by SIGSEGV/SIGABRT/... must not dump core (and the status has no core bit)
  const char* vc = getenv("VF_AUX_vchild");
  if (!vc) { fprintf(stderr, "VF_AUX_vchild not set\n"); _exit(3); }
  std::string vchild = vc;
  bool timing = getenv("C15_TIMING") != nullptr;
  auto scs = scenarios(r.thorough());
  uint64_t nscen = 0;
  for (auto& sc : scs) {
    int bound = r.thorough() ? sc.bound_thorough : sc.bound_quick;
    unsigned ns = sc.slices ? sc.slices : slices_for(bound);
    nscen++;
    for (unsigned slice = 0; slice < ns; slice++) {
      if (!r.take()) continue;
      r.note(sc.calls[0].api == API_RUN ? "run_process" : sc.calls[0].api == API_COMM ? "communicate" : "Subprocess");
      std::string cd;
      if (r.wants_desc()) { cd = describe(sc, bound) + vf::fmt(" [slice %u of %u of the schedule tree]", slice + 1, ns); r.desc(cd); }
      int amb = r.ambient_errno();
      std::set<int> fds_before = list_fds();
      bool fd_table_changed = false;
      // the explorer's own horizon on choice points (default 20000) follows the cap on system calls (<= 2 choice points each)
      size_t cap = SYSCALL_CAP;
      for (auto& c : sc.calls) cap = std::max(cap, syscall_cap_for(c));
      g_env.horizon = std::max<size_t>(20000, 2 * cap * sc.calls.size() + 1000);
      auto run_once = [&]() -> Outcome {
        r.beat();
        Outcome o;
        for (size_t i = 0; i < sc.calls.size(); i++) {
          o = run_call(sc.calls[i], vchild, amb);
          if (!o.fail.empty()) {
            if (sc.calls.size() > 1) o.fail = vf::fmt("call %zu of %zu: ", i + 1, sc.calls.size()) + o.fail;
            break;
          }
        }
        if (list_fds() != fds_before) fd_table_changed = true;  // run_call restores the table whatever happened: engine self-check
        return o;
      };
      struct timespec t0, t1;
      clock_gettime(CLOCK_MONOTONIC, &t0);
      auto st = c15::explore_slice(g_env, run_once, bound, r.thorough() ? 400000 : 60000, slice, ns);
      clock_gettime(CLOCK_MONOTONIC, &t1);
      if (timing) fprintf(stderr, "TIMING %8.0f ms %7llu exec  %s [%u/%u]\n", (t1.tv_sec - t0.tv_sec) * 1e3 + (t1.tv_nsec - t0.tv_nsec) / 1e6, (unsigned long long)st.executions, sc.name.c_str(), slice + 1, ns);
      r.states += st.executions;
      r.transitions += st.choice_points;
      r.counters["executions"] += st.executions;
      r.counters["executions: " + (sc.group.empty() ? sc.name : sc.group)] += st.executions;
      if (slice == 0) r.counters["scenarios"]++;
      if (g_sig_stats.calls_with_signals) {
        r.counters["signals: calls executed under a signal schedule"] += g_sig_stats.calls_with_signals;
        r.counters["signals: calls in which at least one sleep was interrupted (EINTR at the signal's time)"] += g_sig_stats.calls_interrupted;
        r.counters["signals: EINTR answers given"] += g_sig_stats.eintr_answers;
        r.counters["signals: calls in which the child was ended by the parent (timeout, destructor, kill)"] += g_sig_stats.ended_by_timeout;
        r.counters["signals: calls in which the child ended on its own"] += g_sig_stats.ended_on_their_own;
      }
      g_sig_stats = SigStats();
      r.nontriv();
      if (fd_table_changed) r.fail("engine:descriptor-table-not-restored", [&] { return describe(sc, bound); });
      if (!st.complete && st.found.empty()) { r.exhaustive = false; r.ok("execution-cap-hit"); continue; }
      if (st.found.empty()) {
        r.ok(st.executions < 100 ? "lt-100-schedules" : st.executions < 2000 ? "lt-2000-schedules" : "ge-2000-schedules");
        continue;
      }
      if (cd.empty()) cd = describe(sc, bound) + vf::fmt(" [slice %u of %u of the schedule tree]", slice + 1, ns);
      for (auto& f : st.found) {
        std::string key = f.key;
        bool engine = key.find("engine") != std::string::npos;
        if (!engine) {
          // replay-before-report: the same choice sequence must fail the same way
          g_env.begin(f.choices);
          Outcome again = run_once();
          if (again.key != key) { engine = true; key = "nonreproducible:" + key; }
        }
        r.fail(engine ? "engine:" + key : key, [&] { return cd + " :: " + f.failure + vf::fmt(" :: found with %d non-default answers after %llu executions of this slice (%llu failing executions with this key); answers (index/options per choice point) = [ ", f.level, (unsigned long long)f.exec_no, (unsigned long long)f.count) + f.trace + "]"; });
      }
    }
  }
  r.bound = r.thorough() ? vf::fmt("%llu scenarios, each with every sequence of <=0..4 non-default environment answers (per scenario, see samples)", (unsigned long long)nscen)
                         : vf::fmt("%llu scenarios, each with every sequence of <=0..3 non-default environment answers (per scenario, see samples)", (unsigned long long)nscen);
}

VF_MAIN()
