// C15 — subprocess I/O is complete and deadlock-free for any payload and child timing.
// E-PROC: run_process / Subprocess::communicate really fork and exec a scripted helper child
// (harness/C15_child.c) that performs one step per command; the parent's waitpid, poll, read,
// write, kill, gettimeofday, fork, pipe and close are interposed at link time (-Wl,--wrap).  At
// each of the parent's waitpid/poll/read/write calls the explorer chooses how many child steps
// run first (default 0: the child moves only when the parent would otherwise idle); every choice
// sequence with at most `bound` non-default answers is executed (engine/env.hh).  Time is virtual.
#include <dirent.h>
#include <errno.h>
#include <fcntl.h>
#include <poll.h>
#include <signal.h>
#include <string.h>
#include <sys/time.h>
#include <sys/wait.h>
#include <unistd.h>

#include <set>
#include <string>
#include <vector>

#include "Process.hh"
#include "env.hh"
#include "vf.hh"

using namespace phosg;

extern "C" {
pid_t __real_waitpid(pid_t, int*, int);
int __real_poll(struct pollfd*, nfds_t, int);
ssize_t __real_read(int, void*, size_t);
ssize_t __real_write(int, const void*, size_t);
int __real_kill(pid_t, int);
int __real_gettimeofday(struct timeval*, void*);
pid_t __real_fork(void);
int __real_pipe(int*);
int __real_close(int);
}

namespace {

constexpr int CMD_FD = 200, ACK_FD = 201;

struct ProcAbort { std::string why; };
[[noreturn]] void do_abort(const std::string& why);

enum StepKind { ST_R, ST_RALL, ST_W1, ST_W2, ST_C, ST_X, ST_K, ST_Z };
struct Step { StepKind k; int64_t arg; };

struct Cmd { int32_t op; int32_t arg; };
struct Ack { int64_t result; uint64_t hash; int64_t total; };

struct Proc {
  bool active = false;
  pid_t pid = -1;
  bool alive = false;          // forked and not yet terminated
  std::set<int> owned;         // pipe descriptors created by the code under test
  int cmd_w = -1, ack_r = -1;
  std::vector<Step> script;
  size_t pc = 0;
  int64_t w_remaining = -1;
  int64_t in_total = 0;
  uint64_t in_hash = 1469598103934665603ull;
  bool in_eof = false;
  int64_t out_total[3] = {0, 0, 0};
  uint64_t vclock = 0;          // virtual microseconds elapsed
  struct timeval base {};
  size_t syscalls = 0;
  size_t child_steps = 0;
  int polls_without_child_progress = 0;
  bool killed_by_parent = false;
  int kill_signal = 0;
} P;

vfe::Env g_env;

[[noreturn]] void do_abort(const std::string& why) {
  P.active = false;  // everything after this point (including destructors during unwinding) uses the real calls
  throw ProcAbort{why};
}

void wait_waitable() {
  siginfo_t info;
  memset(&info, 0, sizeof(info));
  while (waitid(P_PID, P.pid, &info, WEXITED | WNOWAIT) < 0 && errno == EINTR) {}
  P.alive = false;
}

Ack command(int op, int arg) {
  Cmd c{op, arg};
  if (__real_write(P.cmd_w, &c, sizeof(c)) != (ssize_t)sizeof(c)) do_abort("ENGINE: cannot send a command to the helper child");
  Ack a{};
  size_t got = 0;
  while (got < sizeof(a)) {
    ssize_t r = __real_read(P.ack_r, (char*)&a + got, sizeof(a) - got);
    if (r < 0 && errno == EINTR) continue;
    if (r <= 0) do_abort("ENGINE: helper child closed the acknowledgement pipe (did it exec?)");
    got += r;
  }
  return a;
}

// Performs the child's next scripted step if it can make progress.  Returns false when the child
// is blocked (no data to read / no room to write), idle forever (Z), finished or dead.
bool child_step() {
  if (!P.alive || P.pc >= P.script.size()) return false;
  Step& s = P.script[P.pc];
  switch (s.k) {
    case ST_R:
    case ST_RALL: {
      Ack a = command('R', s.k == ST_R ? (int)s.arg : 65536);
      if (a.result == -1) return false;
      if (a.result < 0) do_abort("ENGINE: helper child read error");
      P.in_total = a.total;
      P.in_hash = a.hash;
      if (a.result == 0) { P.in_eof = true; P.pc++; }
      else if (s.k == ST_R) P.pc++;
      break;
    }
    case ST_W1:
    case ST_W2: {
      int st = s.k == ST_W1 ? 1 : 2;
      if (P.w_remaining < 0) P.w_remaining = s.arg;
      if (P.w_remaining == 0) { P.w_remaining = -1; P.pc++; break; }
      Ack a = command('0' + st, (int)std::min<int64_t>(P.w_remaining, 65536));
      if (a.result == -1) return false;
      if (a.result == -2) { P.w_remaining = -1; P.pc++; break; }  // reader gone: the child gives up on this write
      P.out_total[st] = a.total;
      P.w_remaining -= a.result;
      if (P.w_remaining == 0) { P.w_remaining = -1; P.pc++; }
      break;
    }
    case ST_C: command('C', (int)s.arg); P.pc++; break;
    case ST_X: command('X', (int)s.arg); wait_waitable(); P.pc++; break;
    case ST_K: command('K', (int)s.arg); wait_waitable(); P.pc++; break;
    case ST_Z: return false;
  }
  P.child_steps++;
  P.polls_without_child_progress = 0;
  return true;
}

bool owned_fd(int fd) { return P.active && P.owned.count(fd); }

// Choice point in front of one of the parent's system calls: let the child run ahead.
void pre_syscall() {
  if (++P.syscalls > 6000) do_abort("livelock: more than 6000 system calls by the parent in one call");
  bool can = P.alive && P.pc < P.script.size() && P.script[P.pc].k != ST_Z;
  int c = g_env.choose(can ? 4 : 1);
  int k = c == 3 ? 1000000 : c;
  for (int i = 0; i < k; i++) if (!child_step()) break;
}

bool is_blocking(int fd) {
  int fl = fcntl(fd, F_GETFL, 0);
  return fl >= 0 && !(fl & O_NONBLOCK);
}
void set_nb(int fd, bool nb) {
  int fl = fcntl(fd, F_GETFL, 0);
  if (fl >= 0) fcntl(fd, F_SETFL, nb ? (fl | O_NONBLOCK) : (fl & ~O_NONBLOCK));
}

}  // namespace

extern "C" pid_t __wrap_fork(void) {
  pid_t p = __real_fork();
  if (P.active && p > 0) { P.pid = p; P.alive = true; }
  if (p == 0) P.active = false;  // in the child: plain system calls until exec
  return p;
}

extern "C" int __wrap_pipe(int* fds) {
  int r = __real_pipe(fds);
  if (P.active && r == 0) { P.owned.insert(fds[0]); P.owned.insert(fds[1]); }
  return r;
}

extern "C" int __wrap_close(int fd) {
  if (P.active) P.owned.erase(fd);
  return __real_close(fd);
}

extern "C" int __wrap_gettimeofday(struct timeval* tv, void* tz) {
  if (!P.active) return __real_gettimeofday(tv, tz);
  if (++P.syscalls > 6000) do_abort("livelock: more than 6000 system calls by the parent in one call");
  uint64_t t = (uint64_t)P.base.tv_sec * 1000000 + P.base.tv_usec + P.vclock;
  tv->tv_sec = t / 1000000;
  tv->tv_usec = t % 1000000;
  return 0;
}

extern "C" pid_t __wrap_waitpid(pid_t pid, int* status, int flags) {
  if (!P.active || pid != P.pid) return __real_waitpid(pid, status, flags);
  pre_syscall();
  if (!(flags & WNOHANG)) {
    // blocking wait: the parent sleeps until the child terminates, so the child runs on its own
    while (P.alive) {
      if (!child_step()) do_abort("deadlock: the parent blocks in waitpid() while the child is blocked (" + std::string(P.pc < P.script.size() && (P.script[P.pc].k == ST_W1 || P.script[P.pc].k == ST_W2) ? "writing to a full pipe nobody reads" : P.pc < P.script.size() && P.script[P.pc].k == ST_Z ? "idle forever" : "waiting for input that never comes") + ")");
    }
  }
  return __real_waitpid(pid, status, flags);
}

extern "C" int __wrap_poll(struct pollfd* fds, nfds_t n, int timeout) {
  bool mine = false;
  for (nfds_t i = 0; i < n; i++) mine |= owned_fd(fds[i].fd);
  if (!P.active || (!mine && n > 0)) return __real_poll(fds, n, timeout);
  pre_syscall();
  // fairness: a parent that keeps polling without sleeping (e.g. on a POLLERR it does not act on)
  // must not starve the child, which a real kernel would keep running meanwhile
  if (++P.polls_without_child_progress >= 3) child_step();
  for (;;) {
    int rc = __real_poll(fds, n, 0);
    if (rc != 0 || timeout == 0) return rc;
    // nothing ready: the parent would sleep, so the child gets to move
    if (child_step()) continue;
    if (timeout < 0) do_abort("deadlock: the parent sleeps in poll() without a timeout while the child cannot make progress");
    P.vclock += (uint64_t)timeout * 1000;
    return 0;
  }
}

extern "C" ssize_t __wrap_read(int fd, void* buf, size_t n) {
  if (!owned_fd(fd)) return __real_read(fd, buf, n);
  pre_syscall();
  if (!is_blocking(fd)) return __real_read(fd, buf, n);
  set_nb(fd, true);
  ssize_t r;
  for (;;) {
    r = __real_read(fd, buf, n);
    if (r >= 0 || (errno != EAGAIN && errno != EWOULDBLOCK)) break;
    if (!child_step()) { set_nb(fd, false); do_abort("deadlock: the parent blocks in read() on a pipe the child will never write to or close"); }
  }
  int e = errno;
  set_nb(fd, false);
  errno = e;
  return r;
}

extern "C" ssize_t __wrap_write(int fd, const void* buf, size_t n) {
  if (!owned_fd(fd)) return __real_write(fd, buf, n);
  pre_syscall();
  if (!is_blocking(fd)) return __real_write(fd, buf, n);
  // a blocking write returns only when everything is written (or on error)
  set_nb(fd, true);
  size_t done = 0;
  ssize_t r = 0;
  while (done < n) {
    r = __real_write(fd, (const char*)buf + done, n - done);
    if (r > 0) { done += r; continue; }
    if (r < 0 && (errno == EAGAIN || errno == EWOULDBLOCK)) {
      if (!child_step()) { set_nb(fd, false); do_abort(vf::fmt("deadlock: the parent blocks in write() (%zu of %zu bytes written, pipe full) while the child is blocked too", done, n)); }
      continue;
    }
    break;
  }
  int e = errno;
  set_nb(fd, false);
  errno = e;
  if (done > 0) return (ssize_t)done;
  return r;
}

extern "C" int __wrap_kill(pid_t pid, int sig) {
  int r = __real_kill(pid, sig);
  if (P.active && pid == P.pid && r == 0 && P.alive && (sig == SIGKILL || sig == SIGTERM)) {
    P.killed_by_parent = true;
    P.kill_signal = sig;
    wait_waitable();
  }
  return r;
}

namespace {

std::set<int> list_fds() {
  std::set<int> s;
  DIR* d = opendir("/proc/self/fd");
  if (!d) return s;
  int dfd = dirfd(d);
  while (struct dirent* e = readdir(d)) {
    if (e->d_name[0] == '.') continue;
    int fd = atoi(e->d_name);
    if (fd != dfd) s.insert(fd);
  }
  closedir(d);
  return s;
}

unsigned char pattern(int stream, int64_t off) { return (unsigned char)((off * 31 + stream * 7 + (off >> 8)) & 0xFF); }
std::string expect_stream(int stream, int64_t n) {
  std::string s((size_t)n, 0);
  for (int64_t i = 0; i < n; i++) s[i] = (char)pattern(stream, i);
  return s;
}
std::string payload_of(size_t n) {
  std::string s(n, 0);
  for (size_t i = 0; i < n; i++) s[i] = (char)((i * 13 + (i >> 9) + 1) & 0xFF);
  return s;
}
uint64_t fnv(const std::string& s) {
  uint64_t h = 1469598103934665603ull;
  for (unsigned char c : s) h = (h ^ c) * 1099511628211ull;
  return h;
}

enum Api { API_RUN, API_COMM };
struct Scenario {
  std::string name;
  Api api;
  bool has_stdin;
  size_t payload;
  std::vector<Step> script;
  bool check;
  uint64_t timeout;   // run_process timeout / communicate deadline (virtual microseconds), 0 none
  int bound_quick, bound_thorough;
  bool reads_to_eof;
  int want_status;    // wait status the script produces (-1: killed by the timeout -> SIGTERM)
};

std::string describe_script(const std::vector<Step>& sc) {
  std::string s;
  for (auto& st : sc) {
    switch (st.k) {
      case ST_R: s += vf::fmt("R(%lld) ", (long long)st.arg); break;
      case ST_RALL: s += "R*EOF "; break;
      case ST_W1: s += vf::fmt("W1(%lld) ", (long long)st.arg); break;
      case ST_W2: s += vf::fmt("W2(%lld) ", (long long)st.arg); break;
      case ST_C: s += vf::fmt("C%lld ", (long long)st.arg); break;
      case ST_X: s += vf::fmt("X(%lld) ", (long long)st.arg); break;
      case ST_K: s += vf::fmt("K(%lld) ", (long long)st.arg); break;
      case ST_Z: s += "Z "; break;
    }
  }
  return s;
}

struct Outcome { std::string fail, key; };

Outcome run_scenario(const Scenario& sc, const std::string& vchild) {
  Outcome o;
  int cp[2], ap[2];
  if (__real_pipe(cp) || __real_pipe(ap)) { o.fail = "ENGINE: pipe"; o.key = "engine"; return o; }
  // child ends at fixed numbers (inherited across exec); parent ends close-on-exec
  dup2(cp[0], CMD_FD);
  dup2(ap[1], ACK_FD);
  __real_close(cp[0]);
  __real_close(ap[1]);
  fcntl(cp[1], F_SETFD, FD_CLOEXEC);
  fcntl(ap[0], F_SETFD, FD_CLOEXEC);
  P = Proc();
  P.cmd_w = cp[1];
  P.ack_r = ap[0];
  P.script = sc.script;
  __real_gettimeofday(&P.base, nullptr);
  std::string payload = payload_of(sc.payload);
  std::set<int> before = list_fds();
  SubprocessResult res;
  std::string comm_out, threw, aborted;
  int comm_status = -2;
  bool returned = false;
  P.active = true;
  try {
    if (sc.api == API_RUN) {
      res = run_process({vchild}, sc.has_stdin ? &payload : nullptr, sc.check, nullptr, nullptr, sc.timeout);
    } else {
      Subprocess sp({vchild});
      comm_out = sp.communicate(payload, sc.timeout);
      comm_status = sp.wait();
    }
    returned = true;
  } catch (const ProcAbort& a) {
    aborted = a.why;
  } catch (const std::exception& e) {
    threw = e.what();
  }
  pid_t pid = P.pid;
  size_t steps_done = P.pc;
  P.active = false;
  // ---- oracle ----
  auto finish = [&](const std::string& key, const std::string& why) {
    if (o.fail.empty()) { o.key = key; o.fail = why; }
  };
  const char* api = sc.api == API_RUN ? "run_process" : "communicate";
  if (!aborted.empty()) {
    finish(std::string(api) + ":" + (aborted.rfind("ENGINE", 0) == 0 ? "engine" : aborted.substr(0, aborted.find(':'))), aborted);
  } else {
    bool script_done = steps_done >= sc.script.size() || (sc.want_status == -1);
    int want = sc.want_status == -1 ? SIGTERM : sc.want_status;
    if (sc.api == API_RUN) {
      bool must_throw = sc.check && want != 0;
      if (!threw.empty() && !must_throw) finish("run_process:unexpected-exception", "threw: " + threw.substr(0, 200));
      else if (threw.empty() && must_throw) finish("run_process:check-did-not-throw", vf::fmt("check=true and the child's wait status is %d, but no exception", want));
      if (returned) {
        if (!script_done) finish("run_process:returned-before-child-finished", vf::fmt("returned after %zu of %zu child steps", steps_done, sc.script.size()));
        if (res.exit_status != want) finish("run_process:wrong-exit-status", vf::fmt("exit_status=%d, the child's wait status is %d", res.exit_status, want));
        std::string w1 = expect_stream(1, P.out_total[1]), w2 = expect_stream(2, P.out_total[2]);
        if (res.stdout_contents != w1) finish(res.stdout_contents.size() < w1.size() ? "run_process:stdout-truncated" : "run_process:stdout-wrong", vf::fmt("stdout_contents has %zu bytes, the child wrote %zu to stdout%s", res.stdout_contents.size(), w1.size(), res.stdout_contents.size() == w1.size() ? " (content differs)" : ""));
        if (res.stderr_contents != w2) finish(res.stderr_contents.size() < w2.size() ? "run_process:stderr-truncated" : "run_process:stderr-wrong", vf::fmt("stderr_contents has %zu bytes, the child wrote %zu to stderr%s", res.stderr_contents.size(), w2.size(), res.stderr_contents.size() == w2.size() ? " (content differs)" : ""));
      }
      if ((returned || !threw.empty()) && sc.reads_to_eof && sc.has_stdin && want == sc.want_status) {
        if (!P.in_eof) finish("run_process:stdin-not-closed", "the child read to end of input but never saw EOF on stdin");
        else if ((size_t)P.in_total != payload.size() || P.in_hash != fnv(payload)) finish("run_process:payload-not-delivered", vf::fmt("the child received %lld bytes of the %zu-byte payload%s", (long long)P.in_total, payload.size(), (size_t)P.in_total == payload.size() ? " (content differs)" : ""));
      }
    } else {
      if (!threw.empty()) finish(threw.find("timed out") != std::string::npos ? "communicate:spurious-timeout" : "communicate:unexpected-exception", "threw: " + threw.substr(0, 200) + vf::fmt(" (virtual time elapsed: %llu us, deadline %llu us)", (unsigned long long)P.vclock, (unsigned long long)sc.timeout));
      if (returned) {
        std::string w1 = expect_stream(1, P.out_total[1]);
        if (!script_done) finish("communicate:returned-before-child-finished", vf::fmt("returned after %zu of %zu child steps", steps_done, sc.script.size()));
        if (comm_out != w1) finish(comm_out.size() < w1.size() ? "communicate:stdout-truncated" : "communicate:stdout-wrong", vf::fmt("communicate returned %zu bytes, the child wrote %zu to stdout", comm_out.size(), w1.size()));
        if (comm_status != want) finish("communicate:wrong-exit-status", vf::fmt("wait() = %d, the child's wait status is %d", comm_status, want));
        if (sc.reads_to_eof && ((size_t)P.in_total != payload.size() || P.in_hash != fnv(payload) || !P.in_eof)) finish("communicate:payload-not-delivered", vf::fmt("the child received %lld bytes of the %zu-byte payload, eof=%d", (long long)P.in_total, payload.size(), (int)P.in_eof));
      }
    }
    // reaped?
    if (pid > 0 && (returned || !threw.empty())) {
      int st;
      pid_t w = __real_waitpid(pid, &st, WNOHANG);
      if (!(w == -1 && errno == ECHILD)) finish(std::string(api) + ":child-not-reaped", w == 0 ? "the child is still running after the call" : "the child was a zombie after the call (not waited for)");
    }
    // descriptors
    if (sc.api == API_RUN && (returned || !threw.empty())) {
      std::set<int> after = list_fds();
      if (after != before) {
        std::string extra;
        for (int fd : after) if (!before.count(fd)) extra += std::to_string(fd) + " ";
        finish("run_process:descriptor-leak", "descriptors left open after the call: " + extra);
      }
    }
  }
  // ---- cleanup (whatever happened) ----
  if (pid > 0) {
    __real_kill(pid, SIGKILL);
    int st;
    while (__real_waitpid(pid, &st, 0) < 0 && errno == EINTR) {}
  }
  __real_close(CMD_FD);
  __real_close(ACK_FD);
  __real_close(cp[1]);
  __real_close(ap[0]);
  for (int fd : list_fds()) if (!before.count(fd) && fd != cp[1] && fd != ap[0]) __real_close(fd);
  return o;
}

std::vector<Scenario> scenarios(bool thorough) {
  std::vector<Scenario> v;
  auto W = [](int c) { return c << 8; };
  // ---- run_process ----
  for (size_t pl : {(size_t)0, (size_t)1, (size_t)4095, (size_t)4096, (size_t)65535, (size_t)65536, (size_t)65537, (size_t)200000, (size_t)1048576}) {
    bool big = pl > 65536;
    v.push_back({vf::fmt("run: read-all-then-write, payload %zu", pl), API_RUN, true, pl, {{ST_RALL, 0}, {ST_W1, 5}, {ST_W2, 3}, {ST_X, 7}}, false, 0, big ? 1 : 2, big ? 2 : 3, true, W(7)});
    if (pl == 0 || pl == 4096 || pl == 65537 || (thorough && pl != 1048576))
      v.push_back({vf::fmt("run: write-then-read, payload %zu", pl), API_RUN, true, pl, {{ST_W1, 3000}, {ST_RALL, 0}, {ST_W2, 10}, {ST_X, 0}}, false, 0, big ? 1 : 2, big ? 2 : 3, true, 0});
  }
  v.push_back({"run: no stdin, child exits at once", API_RUN, false, 0, {{ST_X, 0}}, false, 0, 3, 4, false, 0});
  v.push_back({"run: no stdin, write then exit immediately", API_RUN, false, 0, {{ST_W1, 6000}, {ST_X, 0}}, false, 0, 3, 4, false, 0});
  v.push_back({"run: no stdin, write-pause-write", API_RUN, false, 0, {{ST_W1, 3000}, {ST_W2, 100}, {ST_W1, 3000}, {ST_X, 0}}, false, 0, 2, 3, false, 0});
  v.push_back({"run: interleaved", API_RUN, true, 10000, {{ST_R, 4096}, {ST_W1, 100}, {ST_R, 4096}, {ST_W2, 100}, {ST_RALL, 0}, {ST_W1, 50}, {ST_X, 3}}, false, 0, 2, 3, true, W(3)});
  v.push_back({"run: slow reader", API_RUN, true, 70000, {{ST_R, 1}, {ST_R, 1}, {ST_R, 100}, {ST_RALL, 0}, {ST_X, 0}}, false, 0, 1, 2, true, 0});
  v.push_back({"run: 200 KB on stdout and stderr", API_RUN, false, 0, {{ST_W1, 200000}, {ST_W2, 200000}, {ST_X, 0}}, false, 0, 1, 2, false, 0});
  v.push_back({"run: stdout and stderr alternating 70 KB", API_RUN, true, 5, {{ST_W2, 70000}, {ST_W1, 70000}, {ST_RALL, 0}, {ST_W2, 70000}, {ST_X, 1}}, false, 0, 1, 2, true, W(1)});
  v.push_back({"run: child closes stdin early, payload 200000", API_RUN, true, 200000, {{ST_C, 0}, {ST_W1, 10}, {ST_X, 0}}, false, 0, 1, 2, false, 0});
  v.push_back({"run: child exits without reading, payload 200000", API_RUN, true, 200000, {{ST_W1, 10}, {ST_X, 5}}, false, 0, 1, 2, false, W(5)});
  for (int code : {0, 1, 255}) {
    v.push_back({vf::fmt("run: exit code %d, check=false", code), API_RUN, true, 3, {{ST_RALL, 0}, {ST_W1, 4}, {ST_X, code}}, false, 0, 2, 3, true, W(code)});
    v.push_back({vf::fmt("run: exit code %d, check=true", code), API_RUN, true, 3, {{ST_RALL, 0}, {ST_W2, 4}, {ST_X, code}}, true, 0, 2, 3, true, W(code)});
  }
  v.push_back({"run: child killed by SIGTERM", API_RUN, true, 3, {{ST_RALL, 0}, {ST_W1, 4}, {ST_K, SIGTERM}}, false, 0, 2, 3, true, SIGTERM});
  v.push_back({"run: child killed by SIGKILL, check=true", API_RUN, false, 0, {{ST_W1, 4}, {ST_K, SIGKILL}}, true, 0, 2, 3, false, SIGKILL});
  v.push_back({"run: child hangs, timeout 2.5 s", API_RUN, true, 3, {{ST_W1, 9}, {ST_Z, 0}}, false, 2500000, 2, 3, false, -1});
  v.push_back({"run: child finishes well inside a timeout", API_RUN, true, 3, {{ST_RALL, 0}, {ST_W1, 9}, {ST_X, 0}}, false, 30000000, 2, 3, true, 0});
  // chunked echo: the child reads a little, echoes it, reads a little more (payload far beyond both pipes' capacity)
  auto chunked = [](size_t payload, size_t chunk, int code) {
    std::vector<Step> sc;
    for (size_t done = 0; done < payload; done += chunk) { sc.push_back({ST_R, (int64_t)chunk}); sc.push_back({ST_W1, (int64_t)chunk}); }
    sc.push_back({ST_RALL, 0});
    sc.push_back({ST_X, code});
    return sc;
  };
  v.push_back({"run: chunked echo 4096 x 60 (payload 245760)", API_RUN, true, 245760, chunked(245760, 4096, 0), false, 0, 1, 2, true, 0});
  v.push_back({"run: chunked echo 1 x 12", API_RUN, true, 12, chunked(12, 1, 4), false, 0, 2, 3, true, W(4)});
  // ---- Subprocess::communicate ----
  for (uint64_t dl : {(uint64_t)0, (uint64_t)5000000}) {
    const char* d = dl ? "deadline 5 s" : "no deadline";
    for (size_t pl : {(size_t)0, (size_t)10, (size_t)4096, (size_t)65537, (size_t)1048576}) {
      bool big = pl > 65536;
      if (big && pl == 1048576 && !thorough && dl) continue;
      v.push_back({vf::fmt("comm: cat-like echo of %zu bytes, %s", pl, d), API_COMM, true, pl, pl == 0 ? std::vector<Step>{{ST_RALL, 0}, {ST_W1, 10}, {ST_X, 0}} : big ? std::vector<Step>{{ST_R, 65536}, {ST_W1, 65536}, {ST_R, 65536}, {ST_W1, 65536}, {ST_RALL, 0}, {ST_W1, 70000}, {ST_X, 0}} : std::vector<Step>{{ST_RALL, 0}, {ST_W1, (int64_t)pl}, {ST_X, 0}}, false, dl, big ? 1 : 2, big ? 2 : 3, true, 0});
    }
    v.push_back({vf::fmt("comm: chunked echo 4096 x 60 (payload 245760), %s", d), API_COMM, true, 245760, chunked(245760, 4096, 0), false, dl, 1, 2, true, 0});
    v.push_back({vf::fmt("comm: chunked echo 1000 x 9 then 70000 more output, %s", d), API_COMM, true, 9000, [&] { auto sc = chunked(9000, 1000, 0); sc.insert(sc.end() - 1, Step{ST_W1, 70000}); return sc; }(), false, dl, 1, 2, true, 0});
    v.push_back({vf::fmt("comm: read all, write 3000, write 3000, exit, %s", d), API_COMM, true, 10, {{ST_RALL, 0}, {ST_W1, 3000}, {ST_W1, 3000}, {ST_X, 0}}, false, dl, 2, 3, true, 0});
    v.push_back({vf::fmt("comm: write 100000 then exit 2, %s", d), API_COMM, true, 0, {{ST_W1, 100000}, {ST_X, 2}}, false, dl, 1, 2, false, W(2)});
    v.push_back({vf::fmt("comm: child exits at once, %s", d), API_COMM, true, 5, {{ST_X, 0}}, false, dl, 3, 4, false, 0});
    v.push_back({vf::fmt("comm: child closes stdout early then reads, %s", d), API_COMM, true, 5000, {{ST_W1, 10}, {ST_C, 1}, {ST_RALL, 0}, {ST_X, 0}}, false, dl, 2, 3, true, 0});
  }
  return v;
}

}  // namespace

VF_SECTION(schedules, 16, 16, 300) {
  signal(SIGPIPE, SIG_IGN);
  const char* vc = getenv("VF_AUX_vchild");
  if (!vc) { fprintf(stderr, "VF_AUX_vchild not set\n"); _exit(3); }
  std::string vchild = vc;
  auto scs = scenarios(r.thorough());
  for (auto& sc : scs) {
    if (!r.take()) continue;
    r.note(sc.api == API_RUN ? "run_process" : "communicate");
    int bound = r.thorough() ? sc.bound_thorough : sc.bound_quick;
    std::string cd = vf::fmt("%s :: child script [ %s], check=%d, timeout/deadline=%llu us(virtual); child may run {0,1,2,all} steps ahead at each parent waitpid/poll/read/write, <=%d such deviations", sc.name.c_str(), describe_script(sc.script).c_str(), (int)sc.check, (unsigned long long)sc.timeout, bound);
    if (r.wants_desc()) r.desc(cd);
    Outcome last;
    auto st = vfe::explore(g_env, [&] { r.beat(); last = run_scenario(sc, vchild); return last.fail; }, bound, r.thorough() ? 400000 : 60000);
    r.states += st.executions;
    r.transitions += st.choice_points;
    r.counters["executions"] += st.executions;
    r.counters["executions: " + sc.name] = st.executions;
    if (!st.complete && st.failure.empty()) { r.exhaustive = false; r.ok("execution-cap-hit"); }
    r.nontriv();
    if (!st.failure.empty()) {
      std::string key = last.key;
      bool engine = st.failure.rfind("ENGINE", 0) == 0;
      if (!engine) {
        // replay-before-report: the same choice sequence must fail the same way
        g_env.begin(st.failing_choices);
        Outcome again = run_scenario(sc, vchild);
        if (again.key != key) { engine = true; key = "engine-nonreproducible"; }
      }
      r.fail(engine ? "engine:" + key : key, [&] { return cd + " :: " + st.failure + vf::fmt(" :: found at deviation level %llu after %llu executions; choices (index/options per parent syscall) = [ ", (unsigned long long)st.max_deviations + 0, (unsigned long long)st.executions) + st.failing_trace + "]"; });
    } else r.ok(st.executions < 100 ? "lt-100-schedules" : st.executions < 2000 ? "lt-2000-schedules" : "ge-2000-schedules");
  }
  r.bound = r.thorough() ? "every scenario with <=2..4 run-ahead deviations (per scenario, see samples)" : "every scenario with <=1..3 run-ahead deviations (per scenario, see samples)";
}

VF_MAIN()
