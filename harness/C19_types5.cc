// C19 (part, round 5, continued from C19_types3.cc - class types): the TYPE of the predicate as an enumerated dimension of expect(v) / expect_msg(v, msg) /
// expect_generic(v, ...) / expect(!v).
//
// Every scalar type that converts to bool and every kind of class type that does (implicit / explicit operator bool,
// conversion through another scalar, proxy references, smart pointers), with values chosen so that ANY intermediate
// conversion (to int, long, unsigned, float ...) instead of the direct conversion to bool changes the verdict for at
// least one of them: 2^k for every bit k of the type (including the 128-bit types, i.e. values whose low 64 bits are
// all clear), fractions of magnitude below 1, denormals, NaN, infinities, values beyond the range of every integer type.
// Oracle: throws iff (v ? true : false) is false.  Ill-formed forms are handled by the feature tests of C19_pred.hh.
#include <float.h>

#include <atomic>
#include <bitset>
#include <deque>

#include "C19_pred.hh"

using namespace phosg;
using namespace c19;

namespace {

using c19::sv;

// ---- class types ------------------------------------------------------------------------------------------
struct ExplicitBool {
  int v;
  explicit operator bool() const { return v != 0; }
};
struct AsDouble {  // converts through a floating-point value: 0.5 is true
  double v;
  operator double() const { return v; }
};
struct AsU128 {  // converts through a 128-bit integer
  unsigned __int128 v;
  operator unsigned __int128() const { return v; }
};
struct AsVoidPtr {  // the pre-C++11 "safe bool" idiom
  const void* p;
  operator const void*() const { return p; }
};
struct BoolAndInt {  // operator bool is the exact match and decides; the int conversion says the opposite
  bool b;
  operator bool() const { return b; }
  operator int() const { return b ? 0 : 1; }
};
struct Member {
  int field;
  void method() {}
};
enum Big : uint64_t { BIG_ZERO = 0, BIG_ONE = 1, BIG_2_32 = 1ull << 32, BIG_2_63 = 1ull << 63 };
enum Small : int8_t { SMALL_ZERO = 0, SMALL_MIN = -128, SMALL_ONE = 1 };
void a_function() {}

std::string sv(const ExplicitBool& a) { return vf::fmt("ExplicitBool{%d}", a.v); }
std::string sv(const AsDouble& a) { return vf::fmt("AsDouble{%g}", a.v); }
std::string sv(const AsU128& a) { return "AsU128{" + c19::sv(a.v) + "}"; }
std::string sv(const AsVoidPtr& a) { return a.p ? "AsVoidPtr{non-null}" : "AsVoidPtr{null}"; }
std::string sv(const BoolAndInt& a) { return vf::fmt("BoolAndInt{bool %d, int %d}", (int)a.b, a.b ? 0 : 1); }

template <class T>
std::string hexfloat(T v) {
  return vf::fmt("%La", (long double)v);
}

// 0, 1, -1, extremes and 2^k for every bit k of T
template <class T>
std::vector<T> bits_of() {
  constexpr int W = sizeof(T) * 8;
  std::vector<T> out = {(T)0, (T)1, (T)-1};
  using U = std::conditional_t<sizeof(T) == 16, unsigned __int128, unsigned long long>;
  for (int k = 1; k < W; k++) out.push_back((T)((U)1 << k));
  out.push_back((T)(((U)1 << (W - 1)) - 1));                  // all bits below the top one
  if (W > 32) out.push_back((T)(((U)1 << (W - 1)) | ((U)1 << (W / 2))));  // two high bits, low half clear
  return out;
}

// zeros, the smallest and largest magnitudes, fractions below 1 of both signs, values beyond every integer range,
// infinities, NaNs
template <class T>
std::vector<T> floats_of(T min_normal, T denorm_min, T eps, T max) {
  T inf = std::numeric_limits<T>::infinity();
  T nan = std::numeric_limits<T>::quiet_NaN();
  return {(T)0.0, -(T)0.0, denorm_min, -denorm_min, min_normal, -min_normal, (T)1e-9, (T)0.25, (T)0.5, (T)1 - eps / 2, (T)1, (T)1.5, (T)-0.25, (T)-0.5, -((T)1 - eps / 2), (T)-1, eps,
      (T)2147483648.0, (T)4294967296.0, (T)9223372036854775808.0, (T)18446744073709551616.0, (T)-9223372036854775808.0, (T)3.0e38, max, -max, inf, -inf, nan, -nan};
}

}  // namespace

VF_SECTION(predicate_classes, 2, 2, 120) {
  const auto& C = all_ctx();
  auto plain = [](const auto& v) { return sv(v); };
  // ---- class types ----
  check_pred<ExplicitBool>(r, "class with explicit operator bool", {{0}, {1}, {256}}, C);
  check_pred<AsDouble>(r, "class with operator double", {{0.0}, {-0.0}, {0.5}, {-0.25}, {1e-320}, {1.0}, {1e300}, {__builtin_nan("")}}, C);
  check_pred<AsU128>(r, "class with operator unsigned __int128", {{0}, {1}, {(unsigned __int128)1 << 64}, {(unsigned __int128)1 << 127}, {(unsigned __int128)1 << 32}}, C);
  check_pred<AsVoidPtr>(r, "class with operator const void*", {{nullptr}, {&g_arr[0]}}, C);
  check_pred<BoolAndInt>(r, "class with operator bool and operator int", {{false}, {true}}, C);
  check_pred_with<std::optional<int>>(r, "std::optional<int>", std::vector<std::optional<int>>{std::nullopt, 0, 1}, C, plain);
  check_pred_with<std::shared_ptr<int>>(r, "std::shared_ptr<int>", std::vector<std::shared_ptr<int>>{nullptr, std::make_shared<int>(0)}, C, plain);
  {
    std::vector<std::unique_ptr<int>> ups;
    ups.emplace_back();
    ups.emplace_back(new int(0));
    check_pred_with<std::unique_ptr<int>>(r, "std::unique_ptr<int>", ups, C, [](const std::unique_ptr<int>& p) { return std::string(p ? "up(0)" : "up(null)"); });
  }
  check_pred_with<std::function<void()>>(r, "std::function<void()>", std::vector<std::function<void()>>{nullptr, a_function}, C, [](const std::function<void()>& f) { return std::string(f ? "function(target)" : "function(empty)"); });
  check_pred_with<std::error_code>(r, "std::error_code", std::vector<std::error_code>{std::error_code(), std::make_error_code(std::errc::invalid_argument)}, C, [](const std::error_code& e) { return vf::fmt("error_code(%d)", e.value()); });
  check_pred_with<std::true_type>(r, "std::true_type", std::vector<std::true_type>(1), C, [](std::true_type) { return std::string("{}"); });
  check_pred_with<std::false_type>(r, "std::false_type", std::vector<std::false_type>(1), C, [](std::false_type) { return std::string("{}"); });
  {
    static double d0 = 0.0, dh = 0.5, dn = -0.25;
    using RW = std::reference_wrapper<double>;
    check_pred_with<RW>(r, "std::reference_wrapper<double>", std::vector<RW>{d0, dh, dn}, C, [](const RW& w) { return vf::fmt("ref(%g)", w.get()); });
  }
  {
    std::deque<std::atomic<long long>> as(4);
    as[1].store(1);
    as[2].store(1ll << 32);
    as[3].store(INT64_MIN);
    check_pred_with<std::atomic<long long>>(r, "std::atomic<long long>", as, C, [](const std::atomic<long long>& a) { return vf::fmt("atomic(%lld)", a.load()); });
    std::deque<std::atomic<bool>> ab(2);
    ab[1].store(true);
    check_pred_with<std::atomic<bool>>(r, "std::atomic<bool>", ab, C, [](const std::atomic<bool>& a) { return vf::fmt("atomic(%d)", (int)a.load()); });
  }
  {
    // proxy references: the object converts through its own operator bool
    static std::bitset<8> bs(0x80);
    using BR = std::bitset<8>::reference;
    check_pred_with<BR>(r, "std::bitset<8>::reference", std::vector<BR>{bs[0], bs[7]}, C, [](const BR& b) { return std::string(b ? "bit(1)" : "bit(0)"); });
    static std::vector<bool> vb = {false, true};
    using VR = std::vector<bool>::reference;
    check_pred_with<VR>(r, "std::vector<bool>::reference", std::vector<VR>{vb[0], vb[1]}, C, [](const VR& b) { return std::string(b ? "bit(1)" : "bit(0)"); });
  }
  r.bound = "expect(v), expect_msg(v, msg), expect_generic(v, ...), expect(!v) x 10 execution contexts for predicates v of class type: implicit / explicit operator bool, operator double (0.5, -0.25, denormal, NaN), operator unsigned __int128 (2^64, 2^127), operator const void*, operator bool + contradicting operator int; "
            "std::optional, shared_ptr, unique_ptr, std::function, error_code, true_type, false_type, reference_wrapper<double>, atomic<long long>, atomic<bool>, bitset<8>::reference, vector<bool>::reference; each macro form behind a feature test (ill-formed for an implicitly convertible type = finding; for an only contextually convertible type = not applicable)";
}
