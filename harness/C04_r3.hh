// C04_r3.hh — round-3 section of the C04 harness (included by C04.cc after C04_r2.hh; same TU).
//
//   rejected : call histories in which a step THROWS.  The alphabet of throwing steps is a set of texts covering every
//              place JSON::parse can give up (inside a string / a key / a number / an escape, after a colon, between
//              elements, mid-comment, mid-literal, at nesting depth 1..3 and 300, trailing data, empty input, texts only
//              strict mode rejects) x both parser modes x the three entry points, plus accessor calls that throw
//              type_error / out_of_range.  (JSON::serialize has no reachable throw: its only `throw` is the default arm
//              of the switch over the variant index.)
//              (i)   every ordered pair (throwing step, round-trip step) as  RT ; THROW ; RT-inside-the-handler ; RT
//                    (every second pair also runs the round trip in a destructor while the exception propagates)
//              (ii)  every ordered pair of throwing texts followed by a round trip   THROW1 ; THROW2 ; RT
//              (iii) the same throwing step 2, 3 and 64 times in a row, then a round trip
//              every history ends with the round trip of one probe value that contains a key, strings, every number form,
//              the three literals and nested containers.
//              Every round-trip step is judged by the memoryless oracle of the property: serialize(v, o) is parsed back
//              (mode, entry point) without an exception to a value structurally equal to v with the same int/float
//              kinds, and its sorted re-serialisation equals the sorted serialisation of v.  What the throwing step
//              itself does (throw or accept, which exception) is NOT compared - that is property C05's domain - only
//              counted.
#pragma once

namespace {

struct RejText {
  std::string text;
  const char* where;  // where the parser gives up (documentation only)
};

std::vector<RejText> rejected_texts() {
  std::vector<RejText> t = {
      // ---- inside a string value, after 0 / a few / many characters of it were read
      {"\"\\q\"", "string: invalid escape, nothing read yet"},
      {"\"abc\\q\"", "string: invalid escape after 3 characters"},
      {"\"abc\\u0100\"", "string: \\u escape above 00FF"},
      {"\"abc\\uD83D\\uDE00\"", "string: surrogate pair"},
      {"\"abc\\u12\"", "string: \\u escape cut short by the closing quote"},
      {"\"\\uD83D\"", "string: lone high surrogate, then the closing quote"},
      {"\"ab\\uD83D\\q\"", "string: lone high surrogate, then an invalid escape"},
      {"\"\\uD83Dabc", "string: lone high surrogate, text ends inside the literal"},
      {"\"\\uDE00\\u0041", "string: lone low surrogate, text ends"},
      {"\"abc\\u00", "string: text ends inside a \\u escape"},
      {"\"abc\\xZ1\"", "string: \\x escape with a non-hex digit"},
      {"\"abc\\x4", "string: text ends inside a \\x escape"},
      {"\"abc", "string: text ends inside the literal"},
      {"\"abc\\", "string: text ends after the backslash"},
      {"\"", "string: text ends after the opening quote"},
      {"\"" + std::string(100, 'L') + "\\q\"", "string: invalid escape after 100 characters (beyond the small-string buffer)"},
      {"\"" + std::string(5000, 'M'), "string: text ends after 5000 characters"},
      {"\"ab\\u00e9cd\\n\\x41\\w\"", "string: invalid escape after valid escapes"},
      {std::string("\"a\0b\\q\"", 7), "string: invalid escape after an embedded NUL"},
      {"\"\xff\xfe\\q\"", "string: invalid escape after bytes >= 0x80"},
      {"\"abc\\\n\"", "string: backslash-newline"},
      // ---- inside / around a dictionary key, depth 1
      {"{\"key\\q\": 1}", "key: invalid escape"},
      {"{\"key", "key: text ends inside the key"},
      {"{\"key\\u0100\": 1}", "key: \\u escape above 00FF"},
      {"{\"k\\x", "key: text ends inside a \\x escape"},
      {"{\"a\"", "dict: text ends after the key"},
      {"{\"a\":", "dict: text ends after the colon"},
      {"{\"a\" 1}", "dict: no colon"},
      {"{\"a\":}", "dict: no value after the colon"},
      {"{\"a\":1", "dict: text ends after a value"},
      {"{\"a\":1 \"b\":2}", "dict: no comma"},
      {"{\"a\":1,", "dict: text ends after a comma"},
      {"{1:2}", "dict: key is a number"},
      {"{[\"a\"]:2}", "dict: key is a list"},
      {"{null:2}", "dict: key is a literal"},
      {"{\"a\":1,,}", "dict: two commas"},
      {"{,}", "dict: comma first"},
      {"{", "dict: text ends after the brace"},
      {"{\"a\":1]", "dict: closed by a bracket"},
      {"{\"a\":\"x\",\"b\":\"val\\q\"}", "dict: invalid escape in the second value, after completed strings"},
      {"{\"a\":\"x\",\"bcd\\q\":1}", "dict: invalid escape in the second key"},
      {"{\"a\":\"unterminated}", "dict: value string never closed"},
      {"}", "stray closing brace"},
      // ---- lists, depth 1
      {"[", "list: text ends after the bracket"},
      {"[1", "list: text ends after an element"},
      {"[1,", "list: text ends after a comma"},
      {"[1 2]", "list: no comma"},
      {"[1,,2]", "list: two commas"},
      {"[,]", "list: comma first"},
      {"[1}", "list: closed by a brace"},
      {"[\"a\", \"b\\q\"]", "list: invalid escape in the second string"},
      {"[\"a\", \"b", "list: text ends inside the second string"},
      {"]", "stray closing bracket"},
      // ---- numbers
      {"-", "number: sign only"},
      {"+", "number: plus sign only"},
      {"+1", "number: leading plus"},
      {"1e", "number: text ends after the exponent letter"},
      {"1e+", "number: text ends after the exponent sign"},
      {"1.5e-", "number: text ends after the exponent sign of a float"},
      {"-1e", "number: negative, text ends after the exponent letter"},
      {"1.5e", "number: fraction, text ends after the exponent letter"},
      {"-2.5E", "number: negative fraction, text ends after the exponent letter"},
      {"-0.000001e", "number: leading fraction zeros, text ends after the exponent letter"},
      {"-1" + std::string(310, '0') + "e", "number: 311 integer digits, text ends after the exponent letter"},
      {"[7,-1e", "number: negative, text ends after the exponent letter inside a list"},
      {"{\"a\":-1.5e", "number: negative fraction, text ends after the exponent letter after a colon"},
      {"-0x1Fg", "number: negative hex followed by a letter"},
      {"-x", "number: sign followed by a letter"},
      {"--1", "number: two signs"},
      {"1.2.3", "number: two points"},
      {"1.", "number: text ends after the point"},
      {".5", "number: no integer part"},
      {"0x", "number: hex prefix only"},
      {"0xG", "number: hex prefix and a non-hex digit"},
      {"-0x", "number: negative hex prefix only"},
      {"12abc", "number: letters after the digits"},
      {"1e5x", "number: letter after the exponent"},
      {"[1e", "number: text ends in an exponent inside a list"},
      {"{\"a\":1e", "number: text ends in an exponent after a colon"},
      {"[-", "number: sign only inside a list"},
      // ---- literals n / t / f
      {"nul", "literal: null cut short"},
      {"tru", "literal: true cut short"},
      {"fals", "literal: false cut short"},
      {"nulll", "literal: null with an extra letter"},
      {"truex", "literal: true with an extra letter"},
      {"x", "unknown sentinel"},
      {"N", "unknown sentinel (upper case)"},
      {"[nul]", "literal cut short inside a list"},
      {"{\"a\":tru}", "literal cut short after a colon"},
      {"[fals", "literal cut short, text ends"},
      {std::string(1, '\0'), "NUL byte"},
      {"\xff", "byte 0xFF"},
      {"\xef\xbb\xbf[]", "byte-order mark"},
      // ---- comments
      {"// only a comment", "comment: text ends inside the comment, no value"},
      {"[1, // comment", "comment: text ends inside a comment after a comma"},
      {"[1 // c\n 2]", "comment between elements without a comma"},
      {"{\"a\": // c", "comment: text ends inside a comment after a colon"},
      {"/ 1", "single slash"},
      {"/* c */ 1", "block comment"},
      {"\"abc\\q // c", "comment opener after an invalid escape"},
      // ---- trailing data, empty input
      {"1 2", "trailing data after a number"},
      {"{} {}", "trailing data after a dictionary"},
      {"[] x", "trailing data after a list"},
      {"\"a\" \"b\"", "trailing string after a string"},
      {"\"abc\"x", "trailing letter after a string"},
      {"null null", "trailing literal"},
      {"[1]]", "trailing bracket"},
      {"{\"a\":\"b\"} \"c\\q", "trailing data that ends inside a string"},
      {"", "empty input"},
      {" ", "blank input"},
      {"\n\t\r ", "white space only"},
      // ---- texts only strict mode rejects (parser extensions)
      {"[1,]", "strict only: trailing comma in a list"},
      {"{\"a\":1,}", "strict only: trailing comma in a dictionary"},
      {"0x10", "strict only: hex integer"},
      {"-0x1F", "strict only: negative hex integer"},
      {"n", "strict only: one-character null"},
      {"t", "strict only: one-character true"},
      {"f", "strict only: one-character false"},
      {"[n,t,f]", "strict only: one-character constants in a list"},
      {"// c\n1", "strict only: leading comment"},
      {"[1,// c\n2]", "strict only: comment inside a list"},
      {"{\"a\"// c\n:\"b\"}", "strict only: comment after a key"},
      {"[\"abc\",// c\n\"d\"]", "strict only: comment after a completed string"},
      {"1 // c", "strict only: trailing comment"},
      // ---- nesting depth 2 and 3
      {"[[\"ab\\q\"]]", "depth 2: invalid escape"},
      {"[{\"k\": [\"ab\\q", "depth 3: invalid escape, text ends"},
      {"{\"a\":{\"b\":{\"c\\q\":1}}}", "depth 3: invalid escape in a key"},
      {"{\"a\":[1,{\"b\":\"x\\u0100\"}]}", "depth 3: \\u escape above 00FF"},
      {"[[1 2]]", "depth 2: no comma"},
      {"[[[1 2]]]", "depth 3: no comma"},
      {"[[", "depth 2: text ends"},
      {"[[[", "depth 3: text ends"},
      {"{\"a\":{", "depth 2: text ends after a brace"},
      {"{\"a\":{\"b\":{", "depth 3: text ends after a brace"},
      {"[1,[2,[3,", "depth 3: text ends after a comma"},
      {"{\"a\":[{\"b\":tru}]}", "depth 3: literal cut short"},
      {"[[\"abc", "depth 2: text ends inside a string"},
      {"[[[\"abc", "depth 3: text ends inside a string"},
      {"{\"k1\":{\"k2", "depth 2: text ends inside a key"},
      {"{\"k1\":{\"k2\":{\"k3", "depth 3: text ends inside a key"},
      {"[[[1e", "depth 3: text ends inside a number"},
      {"[[[nul]]]", "depth 3: literal cut short"},
      {"[[[1]]] x", "depth 3: trailing data"},
      {"[[[1,]]]", "depth 3, strict only: trailing comma"},
      {"[[[// c", "depth 3: text ends inside a comment"},
      {"{\"a\":[{\"b\":1 \"c\":2}]}", "depth 3: no comma in a dictionary"},
      {"{\"a\":[{\"b\" 1}]}", "depth 3: no colon"},
      {"{\"a\":[{2:1}]}", "depth 3: key is a number"},
      {"[[[1]]", "depth 3: one closing bracket missing"},
      {"{\"a\":{\"b\":{\"c\":\"d\"}}", "depth 3: one closing brace missing"},
  };
  // ---- far deeper than anything else in the alphabet (a counter that is not restored on the way out adds up)
  std::string s;
  for (int k = 0; k < 300; k++) s += '[';
  t.push_back({s, "depth 300: text ends after 300 brackets"});
  t.push_back({s + "\"abc\\q", "depth 300: invalid escape"});
  s.clear();
  for (int k = 0; k < 300; k++) s += "{\"a\":";
  t.push_back({s, "depth 300: text ends after 300 x {\"a\":"});
  return t;
}

const char* entry_name(int entry) {
  return entry == 0 ? "parse(const std::string&)" : entry == 1 ? "parse(const char*, size)" : "parse(StringReader&)";
}

// the three entry points; whatever they throw propagates
JSON parse_via(const std::string& t, bool strict, int entry) {
  switch (entry) {
    case 0:
      return JSON::parse(t, strict);
    case 1: {
      std::unique_ptr<char[]> blk(new char[t.size()]);  // exact size, no terminator: red zones on both sides
      memcpy(blk.get(), t.data(), t.size());
      return JSON::parse(blk.get(), t.size(), strict);
    }
    default: {
      StringReader sr(t);
      return JSON::parse(sr, strict);
    }
  }
}

struct ThrowStep {
  int kind = 0;  // 0 = parse of a rejected text, 1 = accessor that throws
  size_t text = 0;
  bool strict = false;
  int entry = 0;
  int accessor = 0;
  std::string name;
};

constexpr int kAccessors = 8;
const char* accessor_name(int a) {
  static const char* n[kAccessors] = {"JSON(\"s\").as_int()", "JSON(1).as_string()", "[1].at(7)", "{\"a\":1}.at(\"missing\")", "{\"a\":\"s\"}.get_int(\"a\")", "JSON(1.5).as_list()", "JSON(null).as_dict()", "[\"x\"].at(0).as_bool()"};
  return n[a];
}
void run_accessor(int a) {
  static const JSON s("s"), i((int64_t)1), f(1.5), nul(nullptr), l = JSON::list({JSON((int64_t)1)}), ls = JSON::list({JSON("x")}), d = JSON::dict({{"a", JSON((int64_t)1)}}), ds = JSON::dict({{"a", JSON("s")}});
  switch (a) {
    case 0: (void)s.as_int(); break;
    case 1: (void)i.as_string(); break;
    case 2: (void)l.at(7); break;
    case 3: (void)d.at("missing"); break;
    case 4: (void)ds.get_int("a"); break;
    case 5: (void)f.as_list(); break;
    case 6: (void)nul.as_dict(); break;
    default: (void)ls.at(0).as_bool(); break;
  }
}

struct RtStep {
  size_t value = 0;
  uint32_t options = 0;
  bool strict = false;
  int entry = 0;
  std::string name;
  std::string text, sorted_text;  // what serialize(o) / serialize(o | SORT) gave before any throwing step of this process
};

std::vector<Val> rt_values() {
  std::vector<Val> v = history_values();
  v.push_back(Val::dict({{"name", sval("phosg")}, {"items", Val::list({ival(1), sval("two"), Val::dict({{"k", sval("v")}})})}, {"nested", Val::dict({{"a", Val::dict({{"b", sval("c")}})}})}}));
  v.push_back(Val::list({ival(1), sval("s")}));
  v.push_back(Val::dict({{"", sval("")}}));
  v.push_back(sval(std::string("\x01\xff\"\\/\0q", 7)));
  v.push_back(Val::dict({{std::string(40, 'K'), Val::list({Val::boolean(true)})}}));
  v.push_back(Val::list({Val::real(-2.5e-7), Val::real(1e20), Val::real(1.5), ival(-7), ival(INT64_MAX)}));
  v.push_back(Val::list({Val::null(), Val::boolean(true), Val::boolean(false)}));
  v.push_back(Val::dict({{"a", Val::dict({{"b", Val::dict({{"c", Val::list({Val::list({Val::list({sval("deep")})})})}})}})}}));
  // the probe (last): a single dictionary entry whose key is the first string of the text, then every kind of value
  v.push_back(Val::dict({{"probe key", Val::list({sval("str\n\x01\xe9"), ival(-12), Val::real(2.5), Val::real(1e-7), Val::null(), Val::boolean(true), Val::boolean(false), Val::list(), Val::dict({{"k", sval("")}})})}}));
  return v;
}

struct RejectedCtx {
  std::vector<Val> hv;
  std::vector<JSON> js;
  std::vector<RejText> texts;
  std::vector<ThrowStep> throws;      // every (text, mode, entry point) + the accessors
  std::vector<RtStep> rts, rts_small;
  RtStep probe;  // last step of every history: one value with a key, strings, every number form, the three literals and nesting
};

// one round-trip step, judged without reference to any other call; "" if the property holds for it
std::string rt_check(const RejectedCtx& cx, const RtStep& s, std::string& kind) {
  const JSON& j = cx.js[s.value];
  const Val& v = cx.hv[s.value];
  std::string t;
  try {
    t = j.serialize(s.options);
  } catch (const std::exception& e) {
    kind = "serialize-throws";
    return std::string("serialize threw ") + e.what();
  }
  JSON p;
  try {
    p = parse_via(t, s.strict, s.entry);
  } catch (const std::exception& e) {
    kind = "parse-rejects";
    return "serialize gave " + brief(t) + ", " + entry_name(s.entry) + (s.strict ? " in strict mode" : "") + " threw " + e.what();
  }
  std::string d = jref::differs(p, v, FTOL, true);
  if (!d.empty()) {
    kind = "wrong-value";
    return "serialize gave " + brief(t) + ", parsed back as " + brief(p.serialize(SORT)) + " (" + d + ")";
  }
  std::string again = p.serialize(s.options | SORT), want = j.serialize(s.options | SORT);
  if (again != want) {
    kind = "reserialize-differs";
    return "sorted re-serialisation of the parsed value is " + brief(again) + ", of the original " + brief(want);
  }
  // not entailed by the memoryless statement alone, but by determinism of serialize on an unchanged const object
  if (t != s.text || want != s.sorted_text) {
    kind = "serialize-text-changed";
    return "serialize now gives " + brief(t) + ", before any throwing call it gave " + brief(s.text);
  }
  return "";
}

// runs the throwing step; returns true if it threw.  `inside` is run in the handler, while the exception is alive;
// `unwinding` (if given) in a destructor while the library's exception propagates through the caller's frame.
template <class F>
bool run_throw_step(const RejectedCtx& cx, const ThrowStep& ts, F&& inside, const std::function<void()>* unwinding = nullptr) {
  try {
    struct Probe {
      const std::function<void()>* fn;
      int before;
      ~Probe() { if (fn && std::uncaught_exceptions() > before) (*fn)(); }  // *fn never lets an exception escape
    } probe{unwinding, std::uncaught_exceptions()};
    if (ts.kind == 0) {
      JSON ignored = parse_via(cx.texts[ts.text].text, ts.strict, ts.entry);
      (void)ignored;
    } else {
      run_accessor(ts.accessor);
    }
    return false;
  } catch (const std::exception&) {
    inside();
    return true;
  }
}

void rejected_setup(RejectedCtx& cx, bool thorough) {
  cx.hv = rt_values();
  for (auto& v : cx.hv) cx.js.push_back(build(v));
  {
    RtStep& s = cx.probe;
    s.value = cx.hv.size() - 1;
    s.text = s.sorted_text = cx.js[s.value].serialize(SORT);
    s.options = SORT;
    s.name = "round trip of the probe value " + show_val(cx.hv[s.value]) + " through parse(const std::string&)";
  }
  cx.texts = rejected_texts();
  for (size_t k = 0; k < cx.texts.size(); k++)
    for (int strict = 0; strict < 2; strict++)
      for (int entry = 0; entry < 3; entry++) {
        ThrowStep ts;
        ts.text = k;
        ts.strict = strict;
        ts.entry = entry;
        ts.name = std::string(entry_name(entry)) + (strict ? " strict" : "") + " of " + brief(cx.texts[k].text) + " [" + cx.texts[k].where + "]";
        cx.throws.push_back(ts);
      }
  for (int a = 0; a < kAccessors; a++) {
    ThrowStep ts;
    ts.kind = 1;
    ts.accessor = a;
    ts.name = accessor_name(a);
    cx.throws.push_back(ts);
  }
  const uint32_t F = JSON::SerializeOption::FORMAT, HEXESC = JSON::SerializeOption::HEX_ESCAPE_CODES;
  std::vector<uint32_t> opts;
  if (thorough) for (uint32_t o = 0; o < 64; o++) opts.push_back(o);
  else opts = {0u, F | SORT, HEXESC | 3u, 63u};
  for (int small = 0; small < 2; small++)
    for (size_t i = 0; i + 1 < cx.hv.size(); i++) {
      // reduced alphabet for (ii)/(iii): a dictionary, a dictionary with nested keys and strings, a string of awkward bytes, a list of numbers;
      // one parser mode and one entry point each (rotating)
      if (small && !(i == 11 || i == 14 || i == 17 || i == 19)) continue;
      for (uint32_t o : (small ? std::vector<uint32_t>{0u, 63u} : opts))
        for (int strict = 0; strict < 2; strict++) {
          if (strict && (o & NONSTANDARD)) continue;
          if (small && !(o & NONSTANDARD) && strict != (int)(i % 2)) continue;
          for (int entry = 0; entry < 3; entry++) {
            if (small && entry != (int)((i + (o ? 1 : 0)) % 3)) continue;
            RtStep s;
            s.value = i;
            s.options = o;
            s.strict = strict;
            s.entry = entry;
            s.text = cx.js[i].serialize(o);
            s.sorted_text = cx.js[i].serialize(o | SORT);
            s.name = "round trip of " + show_val(cx.hv[i]) + " under " + opt_names(o) + " through " + entry_name(entry) + (strict ? " strict" : "");
            (small ? cx.rts_small : cx.rts).push_back(s);
          }
        }
    }
}

}  // namespace

VF_SECTION(rejected, 16, 16, 120) {
  r.note("JSON::parse/serialize (histories with throwing steps)");
  RejectedCtx cx;
  rejected_setup(cx, r.thorough());
  auto fail_rt = [&](const std::string& kind, const std::string& history, const std::string& what) {
    r.fail("rejected:round-trip-after-throwing-call:" + kind, [&] { return history + ": " + what; });
  };
  // case 0: every round-trip step before any throwing call of this process
  if (r.take()) {
    r.nontriv();
    if (r.wants_desc()) r.desc(vf::fmt("every one of the %zu round-trip steps before any throwing call", cx.rts.size() + cx.rts_small.size()));
    bool bad = false;
    for (int small = 0; small < 2; small++)
      for (auto& s : (small ? cx.rts_small : cx.rts)) {
        std::string kind, e = rt_check(cx, s, kind);
        r.transitions += 2;
        if (!e.empty()) {
          bad = true;
          r.fail("rejected:round-trip-fails-before-any-throwing-call:" + kind, [&] { return s.name + ": " + e; });
        }
      }
    {
      std::string kind, e = rt_check(cx, cx.probe, kind);
      if (!e.empty()) {
        bad = true;
        r.fail("rejected:round-trip-fails-before-any-throwing-call:" + kind, [&] { return cx.probe.name + ": " + e; });
      }
    }
    if (!bad) r.ok("round-trip-steps-before-any-throwing-call:hold");
  }
  // (i) RT ; THROW ; RT inside the handler ; RT   for every ordered pair (throwing step, round-trip step)
  for (size_t a = 0; a < cx.throws.size(); a++)
    for (size_t b = 0; b < cx.rts.size(); b++) {
      if (!r.take()) continue;
      const ThrowStep& ts = cx.throws[a];
      const RtStep& s = cx.rts[b];
      if (r.wants_desc()) r.desc(s.name + "; then " + ts.name + "; then the same round trip inside the handler and after it");
      r.nontriv();
      std::string kind, err, pos;
      r.poison_errno();
      err = rt_check(cx, s, kind);
      if (!err.empty()) pos = "BEFORE the throwing call of this case (state left by an earlier case)";
      r.poison_errno();
      const std::function<void()> unwinding = [&] {
        if (!err.empty()) return;
        err = rt_check(cx, s, kind);
        if (!err.empty()) pos = "in a destructor of the caller while the exception propagates";
      };
      bool threw = run_throw_step(cx, ts, [&] {
        if (!err.empty()) return;
        err = rt_check(cx, s, kind);
        if (!err.empty()) pos = "inside the handler of the exception";
      }, (a + b) % 2 ? &unwinding : nullptr);
      if (err.empty()) {
        r.poison_errno();
        err = rt_check(cx, s, kind);
        if (!err.empty()) pos = threw ? "after the handler" : "after the call (which did not throw)";
      }
      const RtStep* at = &s;
      if (err.empty()) {
        // last step: the probe.  It also returns a parser that keeps a one-shot residue to its clean state, so that the next
        // case starts like this one did (a residue that survives it is reported by the next case as "BEFORE ...").
        r.poison_errno();
        err = rt_check(cx, cx.probe, kind);
        if (!err.empty()) { pos = "as the last step"; at = &cx.probe; }
      }
      r.transitions += (threw ? 9 : 7) + (threw && (a + b) % 2 ? 2 : 0);
      if (!err.empty()) fail_rt(kind, ts.name + ", then " + (at == &s ? s.name : s.name + ", then " + at->name) + " " + pos, err);
      else r.ok(threw ? "call-threw:round-trips-before-inside-after-hold" : "call-did-not-throw(not compared):round-trips-before-and-after-hold");
    }
  // (ii) THROW1 ; THROW2 ; RT  for every ordered pair of rejected texts (mode / entry point of the two steps rotate with the indices;
  //      thorough: all six variants of the second step)
  {
    const size_t nt = cx.texts.size();
    const int variants = r.thorough() ? 6 : 1;
    for (size_t a = 0; a < nt; a++)
      for (size_t b = 0; b < nt; b++)
        for (int var = 0; var < variants; var++)
          for (size_t c = 0; c < cx.rts_small.size(); c++) {
            if (!r.take()) continue;
            size_t va = (a + b) % 6, vb = r.thorough() ? (size_t)var : (a * 5 + b + 3) % 6;
            const ThrowStep& t1 = cx.throws[a * 6 + va];
            const ThrowStep& t2 = cx.throws[b * 6 + vb];
            const RtStep& s = cx.rts_small[c];
            if (r.wants_desc()) r.desc(t1.name + "; then " + t2.name + "; then " + s.name);
            r.nontriv();
            r.poison_errno();
            bool th1 = run_throw_step(cx, t1, [] {});
            r.poison_errno();
            bool th2 = run_throw_step(cx, t2, [] {});
            r.poison_errno();
            std::string kind, err = rt_check(cx, s, kind);
            bool at_probe = false;
            if (err.empty()) {
              r.poison_errno();
              err = rt_check(cx, cx.probe, kind);
              at_probe = !err.empty();
            }
            r.transitions += 6;
            if (!err.empty()) fail_rt(kind, t1.name + ", then " + t2.name + ", then " + s.name + (at_probe ? ", then " + cx.probe.name : ""), err);
            else r.ok(th1 && th2 ? "two-calls-threw:round-trip-holds" : "two-calls(not both threw, not compared):round-trip-holds");
          }
  }
  // (iii) the same throwing step k times in a row, then a round trip
  {
    static const int kReps[] = {2, 3, 64};
    for (size_t a = 0; a < cx.throws.size(); a++)
      for (int k : kReps)
        for (size_t c = 0; c < cx.rts_small.size(); c++) {
          if (!r.take()) continue;
          const ThrowStep& ts = cx.throws[a];
          const RtStep& s = cx.rts_small[c];
          if (r.wants_desc()) r.desc(vf::fmt("%d x ", k) + ts.name + "; then " + s.name);
          r.nontriv();
          bool threw = false;
          for (int n = 0; n < k; n++) {
            r.poison_errno();
            threw = run_throw_step(cx, ts, [] {});
            if ((n & 15) == 15) r.beat();
          }
          r.poison_errno();
          std::string kind, err = rt_check(cx, s, kind);
          bool at_probe = false;
          if (err.empty()) {
            r.poison_errno();
            err = rt_check(cx, cx.probe, kind);
            at_probe = !err.empty();
          }
          r.transitions += k + 4;
          if (!err.empty()) fail_rt(kind, vf::fmt("%d x ", k) + ts.name + ", then " + s.name + (at_probe ? ", then " + cx.probe.name : ""), err);
          else r.ok(threw ? "repeated-throwing-call:round-trip-holds" : "repeated-call-did-not-throw(not compared):round-trip-holds");
        }
  }
  // last case: how many of the throwing steps throw on this tree (evidence against vacuity; not compared).  It comes last so that
  // it cannot leave anything behind for another case of its shard.
  if (r.take()) {
    r.nontriv();
    if (r.wants_desc()) r.desc(vf::fmt("every one of the %zu throwing steps once (counted, not compared), then the probe round trip", cx.throws.size()));
    uint64_t threw = 0, strict_string_threw = 0;
    for (auto& ts : cx.throws) {
      bool th = run_throw_step(cx, ts, [] {});
      r.transitions++;
      threw += th;
      if (ts.kind == 0 && ts.strict && ts.entry == 0) strict_string_threw += th;
    }
    r.counters["throwing_steps"] += cx.throws.size();
    r.counters["throwing_steps_that_threw_on_this_tree"] += threw;
    r.counters["rejected_texts"] += cx.texts.size();
    r.counters["rejected_texts_refused_by_strict_parse(string)"] += strict_string_threw;
    std::string kind, err = rt_check(cx, cx.probe, kind);
    if (!err.empty()) fail_rt(kind, "every throwing step once, then " + cx.probe.name, err);
    else r.ok("every-throwing-step-once:round-trip-holds");
  }
  r.bound = vf::fmt("%zu rejected texts (every place the parser gives up: string, key, escape, number, after a colon, between elements, comment, literal, depth 1..3 and 300, trailing data, empty input, strict-only) "
                    "x {default, strict} x 3 entry points + %d throwing accessor calls = %zu throwing steps; %zu round-trip steps (%zu values x %s option sets x {default, strict where standard} x 3 entry points): "
                    "every ordered pair as RT; THROW; RT in the handler (every second pair: first in a destructor during unwinding); RT (%zu); every ordered pair of rejected texts followed by one of %zu round trips (%zu); every throwing step 2, 3 and 64 times in a row followed by a round trip (%zu); "
                    "every history ends with the round trip of one probe value (key, strings, int, floats, three literals, nested containers)",
      cx.texts.size(), kAccessors, cx.throws.size(), cx.rts.size(), cx.hv.size() - 1, r.thorough() ? "all 64" : "4", cx.throws.size() * cx.rts.size(), cx.rts_small.size(),
      cx.texts.size() * cx.texts.size() * (r.thorough() ? 6 : 1) * cx.rts_small.size(), cx.throws.size() * 3 * cx.rts_small.size());
}
