// C13 round 2 — iterator members, calling contexts, two live trees.
//
//   iter     every member of KDTree::Iterator (pre/post increment, *, ->, ==, !=, copy, assignment onto an
//            iterator that already designates another position, range-for) on every tree built by <= 4 inserts
//            (optionally one erase) from a 5-entry alphabet; erase_advance at every subset of visits in the
//            it++ / *it style
//   ctx      the whole observer sweep and the destruction of the tree inside a catch handler, during stack
//            unwinding, after a rethrow, on a fresh thread; two live trees queried alternately, then one of
//            them modified and the other one compared again
#include <future>
#include <thread>

#include "C13_gen.hh"

using namespace c13;

namespace {

using V2 = Vector2<int64_t>;
using Tree = KDTree<V2, int64_t>;
using Ck = Checker<V2, int64_t>;
using M = Model<V2, int64_t>;
using E = std::pair<V2, int64_t>;

const std::vector<E>& alphabet5() {
  static const std::vector<E> a = {{V2(0, 0), 0}, {V2(0, 1), 0}, {V2(1, 0), 0}, {V2(1, 1), 0}, {V2(0, 0), 1}};
  return a;
}

std::string show_seq(const std::vector<uint32_t>& seq) {
  std::string s = "insert";
  for (uint32_t i : seq) s += " " + show_pt(alphabet5()[i].first) + "=" + show_v(alphabet5()[i].second);
  return s;
}

void fill(Ck& ck, Tree& t, M& m, const std::vector<uint32_t>& seq) {
  for (size_t i = 0; i < seq.size(); i++) ck.insert(t, m, alphabet5()[seq[i]].first, alphabet5()[seq[i]].second, (i & 1) != 0);
}

void setup(Ck& ck) {
  ck.all_probes({0, 1, 2});
  ck.all_boxes({0, 1, 2}, true);
}

// all sequences over the 5-entry alphabet with length <= maxlen, shortest first
template <class F>
void all_seqs(int maxlen, F&& f) {
  for (int len = 0; len <= maxlen; len++) {
    std::vector<uint32_t> radix((size_t)len, 5);
    for (vf::Odometer o(radix); !o.done; o.step()) {
      std::vector<uint32_t> seq(o.d.rbegin(), o.d.rend());
      f(seq);
    }
  }
}

struct Unwind {};

template <class F>
struct AtExit {
  F f;
  ~AtExit() { f(); }
};

}  // namespace

VF_SECTION(iter, 16, 16, 120) {
  Ck ck(r);
  setup(ck);
  int maxlen = r.thorough() ? 5 : 4;
  using It = Tree::Iterator;
  all_seqs(maxlen, [&](const std::vector<uint32_t>& seq) {
    for (int er = -1; er < (int)seq.size(); er++) {
      if (!r.take()) continue;
      std::string erased = er >= 0 ? ", erase " + show_pt(alphabet5()[seq[(size_t)er]].first) + "=" + show_v(alphabet5()[seq[(size_t)er]].second) : "";
      if (r.wants_desc()) r.desc(show_seq(seq) + erased);
      ck.hist = [&] { return show_seq(seq) + erased; };
      r.note("iter");
      Holder<Tree> h;
      M m;
      Tree& t = *h.t;
      fill(ck, t, m, seq);
      if (er >= 0) ck.erase(t, m, alphabet5()[seq[(size_t)er]].first, alphabet5()[seq[(size_t)er]].second);
      if (!ck.scan(t, m, er >= 0 ? "erase" : "insert")) { ck.destroy(h); continue; }
      size_t n = m.items.size();
      // positions
      std::vector<It> pos;
      {
        It it = t.begin();
        const It end = t.end();
        while (it != end && pos.size() <= n + 2) { pos.push_back(it); ++it; }
        pos.push_back(it);
      }
      if (pos.size() != n + 1) {
        ck.fail("iterate:visits", [&] { return vf::fmt("begin()..end() has %zu positions, the model holds %zu entries", pos.size() - 1, n); });
        ck.destroy(h);
        continue;
      }
      std::vector<E> seen;
      for (size_t i = 0; i < n; i++) {
        const E& a = *pos[i];
        if (!(same_pt(a.first, pos[i]->first) && a.second == pos[i]->second))
          ck.fail("iterator:dereference", [&] { return vf::fmt("*it and it-> disagree at position %zu", i); });
        seen.push_back(a);
      }
      if (Ck::cmp_multiset(seen, m.items) != 0) ck.fail("iterate:visits", [&] { return "dereferencing the saved positions gives " + M::show_list(seen) + ", model = " + m.show(); });
      // equality: two iterators are equal iff they designate the same position
      bool eq_ok = true;
      for (size_t i = 0; i <= n; i++)
        for (size_t j = 0; j <= n; j++) {
          bool e1 = pos[i] == pos[j], e2 = pos[i] != pos[j];
          if (e1 != (i == j) || e2 == e1) eq_ok = false;
        }
      It b1 = t.begin(), b2 = t.begin(), e1 = t.end(), e2 = t.end();
      if (!(b1 == b2) || !(e1 == e2) || (b1 == e1) != (n == 0) || (b1 != e1) != (n != 0)) eq_ok = false;
      if (!eq_ok) ck.fail("iterator:equality", [&] { return std::string("== / != between saved positions of one traversal (and begin(), end()) do not mean 'same position'"); });
      // multi-pass, post-increment, assignment onto an iterator that holds another position
      for (size_t i = 0; i <= n; i++) {
        It c = pos[i];
        size_t k = i;
        bool same = true;
        while (c != pos[n] && k < n + 2) {
          if (k >= n || !(same_pt(c->first, seen[k].first) && c->second == seen[k].second)) same = false;
          ++c;
          k++;
        }
        if (!same || k != n) ck.fail("iterator:multi-pass", [&] { return vf::fmt("a copy of the iterator at position %zu, advanced on its own, does not repeat the rest of the traversal", i); });
        if (i < n) {
          It p = pos[i];
          It old = p++;
          if (!(old == pos[i]) || !(p == pos[i + 1]) || !(same_pt((*old).first, seen[i].first) && (*old).second == seen[i].second) ||
              (i + 1 < n && !(same_pt((*p).first, seen[i + 1].first) && (*p).second == seen[i + 1].second)))
            ck.fail("iterator:post-increment", [&] { return vf::fmt("it++ at position %zu: the returned iterator must be the old position and it the next one", i); });
        }
        for (size_t j = 0; j <= n; j++) {
          It x = pos[i];
          x = pos[j];
          size_t steps = 0;
          bool okv = (x == pos[j]) && (j == n || (same_pt(x->first, seen[j].first) && x->second == seen[j].second));
          while (x != pos[n] && steps < n + 2) { ++x; steps++; }
          if (!okv || steps != n - j) ck.fail("iterator:assignment", [&] { return vf::fmt("iterator at position %zu assigned the one at position %zu does not behave like position %zu", i, j, j); });
        }
      }
      pos.clear();
      // erase_advance at every subset of visits, it++ / *it style, each on a rebuilt tree
      ck.destroy(h);
      for (uint64_t mask = 1; mask < (1ull << n); mask++) {
        Holder<Tree> h2;
        M m2;
        fill(ck, *h2.t, m2, seq);
        if (er >= 0) ck.erase(*h2.t, m2, alphabet5()[seq[(size_t)er]].first, alphabet5()[seq[(size_t)er]].second);
        auto prev = ck.hist;
        ck.hist = [&] { return show_seq(seq) + erased + vf::fmt(", traversal in it++ style with erase_advance at visit mask %llx", (unsigned long long)mask); };
        if (ck.traverse(*h2.t, m2, mask, POST_STAR) && ck.scan(*h2.t, m2, "erase_advance")) ck.sweep(*h2.t, m2, (mask & 1) != 0, RANGE_FOR);
        ck.hist = prev;
        ck.destroy(h2);
      }
      if (n >= 2) r.nontriv();
      r.ok(vf::fmt("tree of %zu entries", n));
      ck.hist = nullptr;
    }
  });
  r.counters["observer_calls_compared"] += ck.calls;
  r.bound = vf::fmt("every tree built by <= %d inserts from 5 entries (2x2 grid, one duplicate point with a second value), optionally one erase: all iterator members at all positions / ordered position pairs; erase_advance at every subset of visits in it++ style", maxlen);
}

VF_SECTION(ctx, 16, 16, 120) {
  Ck ck(r);
  setup(ck);
  int maxlen = r.thorough() ? 4 : 3;
  static const char* names[] = {"forward then reverse sweep", "inside a catch handler for out_of_range", "in a destructor during stack unwinding (tree destroyed by the same unwinding)",
      "in the outer handler after a rethrow", "tree built, observed and destroyed on a fresh thread", "tree built on the main thread, observed on a fresh thread",
      "observed on a second thread, modified on the main thread, observed again on the same second thread"};
  all_seqs(maxlen, [&](const std::vector<uint32_t>& seq) {
    for (int c = 0; c < 7; c++) {
      if (!r.take()) continue;
      if (r.wants_desc()) r.desc(show_seq(seq) + ", observers " + names[c]);
      ck.hist = [&] { return show_seq(seq) + ", observers " + names[c]; };
      r.note(std::string("ctx ") + names[c]);
      // an emptied or never-filled tree is destroyed by unwinding only where that is known to be survivable
      bool stack_ok = !seq.empty() || Holder<Tree>::empty_dtor_state() == 1;
      switch (c) {
        case 0: {
          Holder<Tree> h; M m;
          fill(ck, *h.t, m, seq);
          ck.sweep(*h.t, m, false, PRE_ARROW);
          ck.sweep(*h.t, m, true, POST_STAR);
          ck.destroy(h);
          break;
        }
        case 1: {
          Holder<Tree> h; M m;
          fill(ck, *h.t, m, seq);
          try {
            throw std::out_of_range("outer exception being handled");
          } catch (const std::out_of_range&) {
            ck.sweep(*h.t, m, false, RANGE_FOR);
            ck.destroy(h);
          }
          break;
        }
        case 2: {
          if (!stack_ok) { Holder<Tree> h; ck.destroy(h); break; }
          try {
            Tree t;  // destroyed by the unwinding below
            M m;
            fill(ck, t, m, seq);
            auto body = [&] { ck.sweep(t, m, true, PRE_ARROW); };
            AtExit<decltype(body)> guard{body};
            throw Unwind();
          } catch (const Unwind&) {
          }
          break;
        }
        case 3: {
          Holder<Tree> h; M m;
          fill(ck, *h.t, m, seq);
          try {
            try {
              throw std::out_of_range("first");
            } catch (const std::out_of_range&) {
              ck.check_point(*h.t, m, V2(2, 2));  // absent: at() throws out_of_range inside the handler
              throw;
            }
          } catch (const std::out_of_range&) {
            ck.sweep(*h.t, m, false, POST_STAR);
          }
          ck.destroy(h);
          break;
        }
        case 4: {
          std::thread th([&] {
            Holder<Tree> h; M m;
            fill(ck, *h.t, m, seq);
            ck.sweep(*h.t, m, false, PRE_ARROW);
            ck.destroy(h);
          });
          th.join();
          break;
        }
        case 5: {
          Holder<Tree> h; M m;
          fill(ck, *h.t, m, seq);
          std::thread th([&] { ck.sweep(*h.t, m, true, RANGE_FOR); });
          th.join();
          ck.sweep(*h.t, m, false, PRE_ARROW);
          ck.destroy(h);
          break;
        }
        default: {
          // hand-over through promise/future pairs: the two threads never touch the tree at the same time
          Holder<Tree> h; M m;
          fill(ck, *h.t, m, seq);
          std::promise<void> observed, modified;
          std::thread th([&] {
            ck.sweep(*h.t, m, false, PRE_ARROW);
            observed.set_value();
            modified.get_future().wait();
            ck.sweep(*h.t, m, true, POST_STAR);
          });
          observed.get_future().wait();
          bool ok;
          if (!seq.empty()) { ck.erase(*h.t, m, alphabet5()[seq[0]].first, alphabet5()[seq[0]].second); ok = ck.scan(*h.t, m, "erase"); }
          else { ck.insert(*h.t, m, V2(1, 1), 0, false); ok = ck.scan(*h.t, m, "insert"); }
          (void)ok;
          modified.set_value();
          th.join();
          ck.sweep(*h.t, m, false, RANGE_FOR);
          ck.destroy(h);
          break;
        }
      }
      // a clean-up skipped because of the context has no other symptom.  One scan costs ~30 ms, so only the contexts that
      // destroy the tree in a special situation are scanned (the plain ones are what the E-BFS workers scan per slice)
      if (c == 1 || c == 2 || c == 4 || c == 6) ck.leak_check();
      if (seq.size() >= 2) r.nontriv();
      r.ok(names[c]);
      ck.hist = nullptr;
    }
  });
  // two live trees: every tree of <= maxlen inserts next to every tree of <= 2 inserts
  std::vector<std::vector<uint32_t>> small;
  all_seqs(2, [&](const std::vector<uint32_t>& s) { small.push_back(s); });
  all_seqs(maxlen, [&](const std::vector<uint32_t>& seq) {
    for (auto& other : small) {
      if (!r.take()) continue;
      if (r.wants_desc()) r.desc("tree A: " + show_seq(seq) + "; tree B: " + show_seq(other) + "; alternating observers");
      ck.hist = [&] { return "two live trees, A: " + show_seq(seq) + "; B: " + show_seq(other) + "; observers alternate between A and B, then A loses its first entry and B is observed again"; };
      r.note("ctx two live trees");
      Holder<Tree> ha, hb;
      M ma, mb;
      fill(ck, *ha.t, ma, seq);
      fill(ck, *hb.t, mb, other);
      if (ha.t->size() != ma.items.size() || hb.t->size() != mb.items.size()) ck.fail("size", [&] { return vf::fmt("sizes %zu / %zu, models %zu / %zu", ha.t->size(), hb.t->size(), ma.items.size(), mb.items.size()); });
      for (auto& p : ck.probes) { ck.check_point(*ha.t, ma, p); ck.check_point(*hb.t, mb, p); }
      for (auto& b : ck.boxes) { ck.check_box(*ha.t, ma, b.first, b.second); ck.check_box(*hb.t, mb, b.first, b.second); }
      if (!seq.empty()) ck.erase(*ha.t, ma, alphabet5()[seq[0]].first, alphabet5()[seq[0]].second);
      if (ck.scan(*hb.t, mb, "erase-on-another-tree")) ck.sweep(*hb.t, mb, true, POST_STAR);
      if (ck.scan(*ha.t, ma, "erase")) ck.sweep(*ha.t, ma, false, PRE_ARROW);
      ck.destroy(ha);  // A first: B must survive the destruction of A
      ck.sweep(*hb.t, mb, false, RANGE_FOR);
      ck.destroy(hb);
      if (seq.size() >= 2) r.nontriv();
      r.ok("two live trees");
      ck.hist = nullptr;
    }
  });
  r.counters["observer_calls_compared"] += ck.calls;
  r.bound = vf::fmt("every tree built by <= %d inserts from 5 entries x 7 calling contexts (plain, catch handler, unwinding, after rethrow, fresh thread, observers on another thread, second thread before and after a modification on the main thread), all observers over 9 points and 81 boxes; "
                    "every such tree next to every tree of <= 2 inserts, observers alternating, one modified, the other compared again", maxlen);
  if (ck.leak_seen) r.finish_now();
}
