// C13 round 2 — boundary coordinate pairs: uint32_t, int64_t and uint64_t coordinates (see C13_pairs.hh).
#include "C13_pairs.hh"
using namespace c13;
VF_SECTION(pairs_32_64, 16, 16, 120) {
  bool th = r.thorough();
  (void)th;
  std::string b;
  run_pairs<Vector2<uint32_t>>(r, boundary_alphabet<uint32_t>(), th ? 4 : 2, b);
  run_pairs<Vector2<int64_t>>(r, boundary_alphabet<int64_t>(), th ? 4 : 0, b);
  run_pairs<Vector2<uint64_t>>(r, boundary_alphabet<uint64_t>(), th ? 4 : 0, b);
  r.bound = "every ordered pair (a,b) of the boundary alphabet (2^k-1, 2^k, 2^k+1 for every k up to the width, their negatives, 0, the limits; 8-bit in the thorough tier: all 256 values) as the two coordinate values of a 4-point tree: " + b;
}
