// C13 round 5 — coordinate worlds of the chain / bushy sections (see C13_chain.hh): 1-D, Vector4<int64_t>, Vector3<double>.
#include "C13_chain.hh"

namespace c13chain {
TreeIf* make_world_tu3(int k) {
  switch (k) {
    case 0: return new TreeImpl<P1<int64_t>>("P1<int64_t>");
    case 1: return new TreeImpl<Vector4<int64_t>>("Vector4<int64_t>");
    default: return new TreeImpl<Vector3<double>>("Vector3<double>");
  }
}
}  // namespace c13chain
