// C13 round 2 — boundary coordinate pairs: four dimensions (see C13_pairs.hh).
#include "C13_pairs.hh"
using namespace c13;
VF_SECTION(pairs_4d, 16, 16, 120) {
  bool th = r.thorough();
  (void)th;
  std::string b;
  std::vector<int> k4 = th ? std::vector<int>{0, 1, 7, 8, 15, 16, 31, 32, 33, 52, 53, 62, 63} : std::vector<int>{0, 31, 32, 63};
  run_pairs<Vector4<int64_t>>(r, boundary_alphabet<int64_t>(k4), 2, b);
  run_pairs<Vector4<double>>(r, boundary_alphabet<double>(), th ? 2 : 1, b);
  r.bound = "every ordered pair (a,b) of a boundary alphabet (quick: k in {0,31,32,63}; thorough: 13 exponents) as the two coordinate values of a tree holding (a,a,a,a), the 4 points with one b, (b,b,b,b); all 16 probe points, all 256 boxes: " + b;
}
