// C08, variant "preempt" — concurrent calls of the string helpers under every schedule with <= 1-2 preemptions
// (harness/preempt_pure.hh).  src/Strings.cc is the instrumented source; the templates of Strings.hh instantiated in this
// TU (join, strip_*) are instrumented too because this TU is built with the same flag (props_d/C08.py).
#include "preempt_pure.hh"

#include <deque>

#include "Strings.hh"

using namespace phosg;

static std::string show_vec(const std::vector<std::string>& v) {
  std::string s = "[";
  for (auto& x : v) s += vf::show(x) + ",";
  return s + "]";
}

static std::vector<pp::Call> make_calls() {
  std::vector<pp::Call> calls;
  auto add = [&](const char* name, const char* group, std::function<std::string()> f) { calls.push_back({name, group, pp::guarded(f)}); };
  add("toupper(\"aBc-z\")", "toupper", [] { return toupper(std::string("aBc-z")); });
  add("tolower(\"QrS_Z\")", "tolower", [] { return tolower(std::string("QrS_Z")); });
  add("toupper(\"xyz!q\")", "toupper", [] { return toupper(std::string("xyz!q")); });
  add("tolower(\"ABC-d\")", "tolower", [] { return tolower(std::string("ABC-d")); });
  add("strip_whitespace(\"\\n x y\\t\")", "strip_whitespace", [] { std::string s = "\n x y\t"; strip_whitespace(s); return s; });
  add("escape_quotes(\"\\x01\\x7f\")", "escape_quotes", [] { return escape_quotes(std::string("\x01\x7f")); });
  add("str_replace_all(\"aXbXXc\",\"X\",\"yz\")", "str_replace_all", [] { return str_replace_all(std::string("aXbXXc"), "X", "yz"); });
  add("str_replace_all(\"aaaa\",\"aa\",\"b\")", "str_replace_all", [] { return str_replace_all(std::string("aaaa"), "aa", "b"); });
  add("split(\"a,b,,c\", ',')", "split", [] { return show_vec(split(std::string("a,b,,c"), ',')); });
  add("split(\",x,\", ',', 1)", "split", [] { return show_vec(split(std::string(",x,"), ',', 1)); });
  add("split_context(\"a,(b,c),'d,e'\", ',')", "split_context", [] { return show_vec(split_context(std::string("a,(b,c),'d,e'"), ',')); });
  add("split_context(\"[x,y],z\", ',')", "split_context", [] { return show_vec(split_context(std::string("[x,y],z"), ',')); });
  add("split_args(\"a \\\"b c\\\" d\\\\ e\")", "split_args", [] { return show_vec(split_args(std::string("a \"b c\" d\\ e"))); });
  add("split_args(\"'p q' r\")", "split_args", [] { return show_vec(split_args(std::string("'p q' r"))); });
  add("join({\"a\",\"\",\"b\"}, \",\")", "join", [] { std::vector<std::string> v = {"a", "", "b"}; std::string d = ","; return join(v, d); });
  add("join(deque{\"x\",\"y\"}, \"--\")", "join", [] { std::deque<std::string> v = {"x", "y"}; std::string d = "--"; return join(v, d); });
  add("strip_whitespace(\" \\t a b \\n\")", "strip_whitespace", [] { std::string s = " \t a b \n"; strip_whitespace(s); return s; });
  add("strip_trailing_zeroes(\"ab\\0\\0\")", "strip_trailing_zeroes", [] { std::string s("ab\0\0", 4); strip_trailing_zeroes(s); return s; });
  add("strip_multiline_comments(\"a/*b*/c/*\", true)", "strip_multiline_comments", [] { std::string s = "a/*b*/c/*"; strip_multiline_comments(s, true); return s; });
  add("string_printf(\"%s-%d\", \"x\", 42)", "string_printf", [] { return string_printf("%s-%d", "x", 42); });
  add("string_printf(\"%*d\", 300, 7)", "string_printf", [] { return string_printf("%*d", 300, 7); });
  add("skip_whitespace(\"  a\", 0)", "skip_whitespace", [] { return std::to_string(skip_whitespace(std::string("  a"), 0)); });
  add("skip_word(\"ab  cd\", 0)", "skip_word", [] { return std::to_string(skip_word(std::string("ab  cd"), 0)); });
  add("escape_quotes(\"a\\\"b\")", "escape_quotes", [] { return escape_quotes(std::string("a\"b")); });
  return calls;
}

VF_SECTION(concurrent_pairs, 16, 16, 300) {
  std::vector<pp::Call> calls = make_calls();
  pp::run_pairs(r, calls, r.thorough() ? 400 : 150, r.thorough() ? 150 : 0);
  r.bound = "every unordered pair (and every call with itself) of 24 calls of the C08 string functions run concurrently: every schedule with <= 2 preemptions for same-function pairs whose calls have <= 150 (thorough 400) scheduling points (thorough: also cross pairs <= 150), <= 1 preemption otherwise; basic-block granularity of Strings.cc and the templates instantiated in the harness TU";
}

// First calls: each call with itself and with the next call of the same function (thorough: every same-function pair),
// each schedule in a freshly forked process.
VF_SECTION(concurrent_cold, 16, 16, 600) {
  std::vector<pp::Call> calls = make_calls();
  pp::run_pairs_cold(r, calls, r.thorough());
  r.bound = "first calls: every call above with itself and with the next call of the same function (thorough: every same-function pair), each schedule in a freshly forked process that has never called the library: every schedule with <= 1 preemption at basic-block granularity";
}
VF_MAIN()
