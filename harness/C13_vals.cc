// C13 round 2 — non-trivial value types: operation sequences on one object with heap-allocated and with
// instance-counting values (see C13_seq.hh), and every argument form of emplace.
#include "C13_seq.hh"

using namespace c13;

// heap-allocated values: delete_node moves values between nodes
VF_SECTION(seq_string, 16, 16, 120) {
  using P = Vector2<int64_t>;
  SeqWorld<P, std::string> w;
  w.name = "Vector2<int64_t> with 40-byte string values";
  std::string a(40, 'a'), b(40, 'b');
  w.entries = {{P(0, 0), a}, {P(0, 0), b}, {P(0, 1), a}, {P(1, 0), a}};
  w.probe_vals = {0, 1};
  w.corner_vals = {0, 1, 2};
  run_world(r, w, r.thorough() ? 5 : 4, r.thorough() ? 4 : 3);
}

// values that count their live instances and remember being moved from; inserted through emplace
VF_SECTION(seq_tracked, 16, 16, 120) {
  using P = Vector2<int64_t>;
  SeqWorld<P, Tracked> w;
  w.name = "Vector2<int64_t> with instance-counting values";
  w.entries = {{P(0, 0), Tracked(1)}, {P(0, 0), Tracked(2)}, {P(1, 0), Tracked(1)}, {P(0, 1), Tracked(1)}};
  w.probe_vals = {0, 1};
  w.corner_vals = {0, 1, 2};
  w.emplace = true;
  run_world(r, w, r.thorough() ? 5 : 4, r.thorough() ? 4 : 3);
}

// ---- emplace argument forms ----------------------------------------------------------------------------
#ifdef C13_HAVE_EMPLACE
namespace {
using V2 = Vector2<int64_t>;
template <class Val>
struct Forms;
template <>
struct Forms<std::string> {
  static constexpr int N = 6;
  static const char* name(int f) {
    static const char* n[] = {"emplace(p)", "emplace(p, 40, 'x')", "emplace(p, \"literal\")", "emplace(p, std::move(s))", "emplace(p, s)", "insert(p, s)"};
    return n[f];
  }
  // returns the value the new entry must hold
  template <class T>
  static std::string apply(T& t, const V2& p, int f, typename T::Iterator& out) {
    std::string s(48, (char)('A' + f));
    switch (f) {
      case 0: out = t.emplace(p); return std::string();
      case 1: out = t.emplace(p, 40, 'x'); return std::string(40, 'x');
      case 2: out = t.emplace(p, "literal"); return std::string("literal");
      case 3: { std::string tmp = s; out = t.emplace(p, std::move(tmp)); return s; }
      case 4: out = t.emplace(p, s); return s;
      default: out = t.insert(p, s); return s;
    }
  }
};
template <>
struct Forms<Tracked> {
  static constexpr int N = 6;
  static const char* name(int f) {
    static const char* n[] = {"emplace(p)", "emplace(p, 3, 4)", "emplace(p, int64_t 7)", "emplace(p, std::move(v))", "emplace(p, v)", "insert(p, v)"};
    return n[f];
  }
  template <class T>
  static Tracked apply(T& t, const V2& p, int f, typename T::Iterator& out) {
    Tracked v(100 + f);
    switch (f) {
      case 0: out = t.emplace(p); return Tracked();
      case 1: out = t.emplace(p, 3, 4); return Tracked(34);
      case 2: out = t.emplace(p, (int64_t)7); return Tracked(7);
      case 3: { Tracked tmp = v; out = t.emplace(p, std::move(tmp)); return v; }
      case 4: out = t.emplace(p, v); return v;
      default: out = t.insert(p, v); return v;
    }
  }
};

template <class Val>
void run_forms(vf::Run& r, const char* vname, int maxlen) {
  using T = KDTree<V2, Val>;
  using F = Forms<Val>;
  Checker<V2, Val> ck(r);
  ck.all_probes({0, 1});
  ck.all_boxes({0, 1, 2}, false);
  static const V2 pts[3] = {V2(0, 0), V2(0, 1), V2(1, 0)};
  const uint32_t nops = (uint32_t)F::N * 3;
  for (int len = 1; len <= maxlen; len++) {
    std::vector<uint32_t> radix((size_t)len, nops);
    for (vf::Odometer o(radix); !o.done; o.step()) {
      if (!r.take()) continue;
      std::vector<uint32_t> seq(o.d.rbegin(), o.d.rend());
      auto describe = [&] {
        std::string s = std::string("KDTree<Vector2<int64_t>, ") + vname + ">:";
        for (uint32_t op : seq) s += std::string(" ") + F::name((int)(op / 3)) + " with p=" + show_pt(pts[op % 3]);
        return s;
      };
      if (r.wants_desc()) r.desc(describe());
      ck.hist = describe;
      r.note(std::string("emplace forms ") + vname);
      int64_t base = Tracked::live();
      {
        Holder<T> h;
        Model<V2, Val> m;
        bool ok = true;
        for (size_t i = 0; i < seq.size() && ok; i++) {
          int f = (int)(seq[i] / 3);
          const V2& p = pts[seq[i] % 3];
          typename T::Iterator it = h.t->end();
          Val expect{};
          std::string oc = outcome([&] { expect = F::apply(*h.t, p, f, it); });
          if (oc != "ok") { ck.fail("emplace:throws", [&] { return std::string(F::name(f)) + " threw " + oc; }); ok = false; break; }
          m.items.emplace_back(p, expect);
          if (it == h.t->end() || !same_pt(it->first, p) || !(it->second == expect))
            ck.fail("emplace:returned-iterator", [&] { return std::string(F::name(f)) + " with p=" + show_pt(p) + ": the returned iterator does not designate the new entry with value " + show_v(expect); });
          ok = ck.scan(*h.t, m, "emplace");
        }
        if (ok) ck.sweep(*h.t, m, false, PRE_ARROW);
        // every entry can be erased by its value, newest first
        while (ok && !m.items.empty()) {
          auto e = m.items.back();
          ck.erase(*h.t, m, e.first, e.second);
          ok = ck.scan(*h.t, m, "erase");
        }
        ck.destroy(h);
      }
      if (Tracked::live() != base) {
        int64_t n = Tracked::live() - base;
        ck.fail("values:live-count", [&] { return vf::fmt("%lld value objects are alive after the tree and the model were destroyed (expected 0)", (long long)n); });
        Tracked::live() = base;
      }
      if (seq.size() >= 2) r.nontriv();
      r.ok(std::string(vname) + vf::fmt(" values, %zu calls", seq.size()));
      ck.hist = nullptr;
    }
  }
  r.counters["observer_calls_compared"] += ck.calls;
}
}  // namespace
#endif

VF_SECTION(emplace, 8, 16, 120) {
#ifdef C13_HAVE_EMPLACE
  int maxlen = r.thorough() ? 4 : 3;
  run_forms<std::string>(r, "std::string", maxlen);
  run_forms<Tracked>(r, "instance-counting value", maxlen);
  r.bound = vf::fmt("every sequence of 1..%d calls over 6 insertion forms (emplace with no / two / one converted / rvalue / lvalue value arguments, insert) x 3 points, for std::string values and for instance-counting values; "
                    "structure, returned iterator, all observers, erase of every entry by value, live value count", maxlen);
#else
  r.notes.push_back("KDTree::emplace cannot be instantiated on this tree: the emplace argument forms were not executed");
  r.exhaustive = false;
  r.bound = "nothing (emplace does not compile)";
#endif
}
