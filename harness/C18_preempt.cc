// C18, variant "preempt" — concurrent time / duration / size formatting calls (harness/preempt_pure.hh).
// Instrumented: src/Time.cc, src/Strings.cc.
#include "preempt_pure.hh"

#include <sys/time.h>

#include "Strings.hh"
#include "Time.hh"

using namespace phosg;

static std::vector<pp::Call> make_calls() {
  std::vector<pp::Call> calls;
  auto add = [&](const char* name, const char* group, std::function<std::string()> f) { calls.push_back({name, group, pp::guarded(f)}); };
  add("format_duration(999999)", "format_duration", [] { return format_duration(999999); });
  add("format_duration(65000000, 0)", "format_duration", [] { return format_duration(65000000, 0); });
  add("format_duration(3723004005, 3)", "format_duration", [] { return format_duration(3723004005ull, 3); });
  add("format_duration(90061000001, 6)", "format_duration", [] { return format_duration(90061000001ull, 6); });
  add("format_time(0)", "format_time", [] { return format_time(0); });
  add("format_time(951782400123456) (2000-02-29)", "format_time", [] { return format_time(951782400123456ull); });
  add("format_time(253402300799999999) (9999-12-31)", "format_time", [] { return format_time(253402300799999999ull); });
  add("format_size(1023)", "format_size", [] { return format_size(1023); });
  add("format_size(1536, true)", "format_size", [] { return format_size(1536, true); });
  add("format_size(2^40+2^39)", "format_size", [] { return format_size((1ull << 40) + (1ull << 39)); });
  add("parse_size(\"1.5 MB\")", "parse_size", [] { return std::to_string(parse_size("1.5 MB")); });
  add("parse_size(\"12\")", "parse_size", [] { return std::to_string(parse_size("12")); });
  add("usecs_to_timeval(1999999)", "usecs_to_timeval", [] { struct timeval tv = usecs_to_timeval(1999999); return std::to_string(tv.tv_sec) + "." + std::to_string(tv.tv_usec); });
  return calls;
}

VF_SECTION(concurrent_pairs, 16, 16, 300) {
  std::vector<pp::Call> calls = make_calls();
  pp::run_pairs(r, calls, r.thorough() ? 400 : 150, r.thorough() ? 150 : 0);
  r.bound = "every unordered pair (and every call with itself) of 13 format_duration / format_time / format_size / parse_size / usecs_to_timeval calls run concurrently: every schedule with <= 2 preemptions for same-function pairs with <= 150 (thorough 400) scheduling points per call (thorough: cross pairs <= 150 too), <= 1 preemption otherwise; basic-block granularity of Time.cc and Strings.cc (libc's gmtime/strftime are atomic steps)";
}

// First calls: each call with itself and with the next call of the same function (thorough: every same-function pair),
// each schedule in a freshly forked process.
VF_SECTION(concurrent_cold, 16, 16, 600) {
  std::vector<pp::Call> calls = make_calls();
  pp::run_pairs_cold(r, calls, r.thorough());
  r.bound = "first calls: every call above with itself and with the next call of the same function (thorough: every same-function pair), each schedule in a freshly forked process that has never called the library: every schedule with <= 1 preemption at basic-block granularity";
}
VF_MAIN()
