// C04_r2.hh — round-2 sections of the C04 harness (included by C04.cc after its helpers; same TU).
//
//   assign   : every ordered pair (dst, src) of a pool of small trees: copy-assign over a NON-FRESH destination built
//              three ways, move-assign, swap, assignment into a child position, triples x = a; x = b; x = c,
//              self-assignment, copies made by resize/insert/list()/dict()/vector<JSON>
//   compare  : operator== / != on every ordered pair of pool values and integer/float boundary values against
//              structural equality; comparison with every native type
//   ctors    : every constructor overload / integral instantiation / alternative construction route
//   history  : histories of two and three calls (serialize with different option sets, parse of different texts,
//              mixed) - every result must be what the same call gives in isolation
//   context  : the same calls inside a catch handler, inside a destructor during unwinding, under each ambient errno
//   ops      : histories of mutating members on non-fresh containers against a reference model, then
//              serialize -> parse identity and copy equality on the final state
//   ints     : 2^k-1, 2^k, 2^k+1 and 10^k-1, 10^k, 10^k+1 and their negatives x 64 option sets
//   wide     : long strings, wide lists/dictionaries, indent_level > 0
#pragma once

namespace {

// ---- reference equality -------------------------------------------------------------------------------
// dontcare is set for int/float cross comparisons whose integer is not exactly representable as a double
bool ref_equal(const Val& a, const Val& b, bool& dontcare) {
  if ((a.k == Val::INT && b.k == Val::FLT) || (a.k == Val::FLT && b.k == Val::INT)) {
    int64_t i = a.k == Val::INT ? a.i : b.i;
    double d = a.k == Val::FLT ? a.d : b.d;
    if (i > (1LL << 53) || i < -(1LL << 53)) { dontcare = true; return false; }
    return (double)i == d;
  }
  if (a.k != b.k) return false;
  switch (a.k) {
    case Val::NUL: return true;
    case Val::BOOL: return a.b == b.b;
    case Val::INT: return a.i == b.i;
    case Val::FLT: return a.d == b.d;
    case Val::STR: return a.s == b.s;
    case Val::LIST:
      if (a.items.size() != b.items.size()) {
        // a difference in an earlier element decides before the length does; any don't-care there propagates
        return false;
      }
      for (size_t k = 0; k < a.items.size(); k++) if (!ref_equal(a.items[k], b.items[k], dontcare)) return false;
      return true;
    case Val::DICT:
      if (a.members.size() != b.members.size()) return false;
      for (auto& m : a.members) {
        const Val* f = nullptr;
        for (auto& g : b.members) if (g.first == m.first) f = &g.second;
        if (!f || !ref_equal(m.second, *f, dontcare)) return false;
      }
      return true;
  }
  return false;
}

Val ival(int64_t x) { return Val::integer(x); }
Val sval(const std::string& s) { return Val::str(s); }

// pool of small trees: every kind, empty/non-empty containers, lists of different lengths, dictionaries sharing keys
// with different values / different kinds / nested dictionaries sharing keys at depth 2 and 3, tables big enough to
// rehash, strings beyond the small-string buffer
std::vector<Val> make_pool() {
  std::vector<Val> p = {
      Val::null(), Val::boolean(true), Val::boolean(false), ival(0), ival(1), ival(-1), ival(INT64_MIN), ival(INT64_MAX),
      Val::real(1.5), Val::real(-2.5e-7), Val::real(1e20), sval(""), sval("a"), sval(std::string(1, '\0')), sval("\x80\n\"\x7f"),
      sval(std::string(40, 'L') + std::string("\0\xff", 2)),
      Val::list(), Val::list({Val::null()}), Val::list({ival(1)}), Val::list({ival(1), ival(2)}), Val::list({ival(1), ival(2), ival(3)}),
      Val::list({sval("a"), Val::list({ival(2)})}), Val::list({Val::list(), Val::dict()}),
      Val::dict(), Val::dict({{"a", ival(1)}}), Val::dict({{"a", ival(2)}}), Val::dict({{"a", sval("x")}}), Val::dict({{"a", Val::list({ival(1)})}}),
      Val::dict({{"a", Val::dict({{"b", ival(1)}})}}), Val::dict({{"a", Val::dict({{"b", ival(2)}})}}),
      Val::dict({{"a", Val::dict({{"b", ival(1)}, {"c", ival(2)}})}}),
      Val::dict({{"a", ival(1)}, {"b", ival(2)}}), Val::dict({{"b", ival(2)}}), Val::dict({{"a", ival(1)}, {"b", ival(2)}, {"c", ival(3)}}),
      Val::dict({{"a", ival(9)}, {"b", ival(2)}, {"c", Val::real(3.5)}}),
      Val::dict({{"", Val::null()}}), Val::dict({{"\xe9\n", Val::list({Val::real(1.5)})}}),
      Val::dict({{"a", Val::dict({{"a", Val::dict({{"a", ival(1)}})}})}}), Val::dict({{"a", Val::dict({{"a", Val::dict({{"a", ival(2)}})}})}}),
      Val::dict({{"a", Val::list({Val::dict({{"a", ival(1)}})})}}), Val::dict({{"a", Val::list({Val::dict({{"a", sval("1")}})})}}),
  };
  Val big1 = Val::dict(), big2 = Val::dict(), longlist = Val::list();
  for (int k = 0; k < 20; k++) {
    big1.members.push_back({"k" + std::to_string(k), ival(k)});
    big2.members.push_back({"k" + std::to_string(k), k % 2 ? ival(100 + k) : sval("v" + std::to_string(k))});
    longlist.items.push_back(k % 3 ? ival(k) : Val::list({ival(k)}));
  }
  p.push_back(big1);
  p.push_back(big2);
  p.push_back(longlist);
  return p;
}

bool same_kind(const JSON& a, const JSON& b) {
  return a.is_null() == b.is_null() && a.is_bool() == b.is_bool() && a.is_int() == b.is_int() && a.is_float() == b.is_float() &&
      a.is_string() == b.is_string() && a.is_list() == b.is_list() && a.is_dict() == b.is_dict();
}

// a destination in a non-initial state, reached by three different routes
JSON make_dst(const Val& vd, int route) {
  switch (route) {
    case 0: return build(vd);
    case 1: return JSON::parse(build(vd).serialize(0));  // came out of an earlier parse
    default: {
      JSON t = build(vd);
      JSON c = JSON::list({JSON("placeholder")});
      c = t;  // came out of an earlier assignment
      return c;
    }
  }
}

// x must hold exactly vs: structure, kinds, operator== with a fresh build, sorted text; "" if fine
std::string holds(const JSON& x, const Val& vs, const JSON& fresh, const std::string& text) {
  std::string d = jref::differs(x, vs, 0.0, true);
  if (!d.empty()) return "structure differs (" + d + "), it is " + brief(x.serialize(SORT));
  if (!same_kind(x, fresh)) return "is_*() kind differs";
  if (!(x == fresh) || !(fresh == x) || (x != fresh)) return "operator== says it differs from a fresh build of the same value";
  if (x.serialize(SORT) != text) return "serialises as " + brief(x.serialize(SORT));
  return "";
}

void check_assign_pair(vf::Run& r, const Val& vd, const Val& vs, const std::string& td, const std::string& ts) {
  auto desc = [&](const std::string& what) { return [&, what] { return vf::fmt("dst %s, src %s: %s", show_val(vd).c_str(), show_val(vs).c_str(), what.c_str()); }; };
  const JSON fresh_s = build(vs), fresh_d = build(vd);
  for (int route = 0; route < 3; route++) {
    JSON a = make_dst(vd, route);
    const JSON b = build(vs);
    r.poison_errno();
    a = b;
    r.transitions++;
    std::string e = holds(a, vs, fresh_s, ts);
    if (!e.empty()) { r.fail("copy-assign-over-value:copy-differs-from-source", desc("after a = b, a: " + e)); continue; }
    if (!(a == b) || !(b == a)) r.fail("copy-assign-over-value:copy-differs-from-source", desc("after a = b, a == b is false"));
    e = holds(b, vs, fresh_s, ts);
    if (!e.empty()) r.fail("copy-assign-over-value:source-changed", desc("after a = b, b: " + e));
    // (1)+(6) the copy must itself round-trip
    for (uint32_t o : {0u, (uint32_t)(SORT | JSON::SerializeOption::FORMAT), 63u}) {
      Parsed p = try_parse(a.serialize(o), false);
      if (!p.ok || !jref::differs(p.value, vs, FTOL, true).empty())
        r.fail("copy-assign-over-value:copy-does-not-round-trip", desc("parse(a.serialize(" + opt_names(o) + ")) " + (p.ok ? "is " + brief(p.value.serialize(SORT)) : "threw " + p.exc)));
    }
    mutate_all(a);
    e = holds(b, vs, fresh_s, ts);
    if (!e.empty()) r.fail("copy-assign-over-value:shallow", desc("mutating the assigned copy changed the source; b: " + e));
  }
  {
    JSON a = build(vd), b = build(vs);
    a = b;
    if (holds(a, vs, fresh_s, ts).empty()) {  // a wrong copy is reported above, not as sharing
      mutate_all(b);
      std::string e = holds(a, vs, fresh_s, ts);
      if (!e.empty()) r.fail("copy-assign-over-value:shallow", desc("mutating the source changed the assigned copy; a: " + e));
    }
  }
  {
    JSON a = build(vd), b = build(vs);
    a = std::move(b);
    r.transitions++;
    std::string e = holds(a, vs, fresh_s, ts);
    if (!e.empty()) r.fail("move-assign-over-value:wrong-value", desc("after a = std::move(b), a: " + e));
    JSON c = make_dst(vd, 1);
    c = build(vs);
    e = holds(c, vs, fresh_s, ts);
    if (!e.empty()) r.fail("move-assign-over-value:wrong-value", desc("after c = JSON(temporary), c: " + e));
    JSON m(std::move(a));
    e = holds(m, vs, fresh_s, ts);
    if (!e.empty()) r.fail("move-assign-over-value:wrong-value", desc("after JSON m(std::move(a)), m: " + e));
  }
  {
    JSON a = build(vd), b = build(vs);
    a.swap(b);
    r.transitions++;
    std::string e = holds(a, vs, fresh_s, ts);
    if (e.empty()) e = holds(b, vd, fresh_d, td);
    if (!e.empty()) r.fail("swap:wrong-value", desc("after a.swap(b): " + e));
  }
  // assignment into every child position of the destination (non-initial state at depth)
  if ((vd.k == Val::LIST && !vd.items.empty()) || (vd.k == Val::DICT && !vd.members.empty())) {
    size_t n = vd.k == Val::LIST ? vd.items.size() : vd.members.size();
    for (size_t pos = 0; pos < n && pos < 3; pos++) {
      JSON a = make_dst(vd, pos % 3);
      const JSON b = build(vs);
      Val model = vd;
      if (vd.k == Val::LIST) { a.at(pos) = b; model.items[pos] = vs; }
      else { a.at(vd.members[pos].first) = b; model.members[pos].second = vs; }
      r.transitions++;
      const JSON fm = build(model);
      std::string e = holds(a, model, fm, fm.serialize(SORT));
      if (!e.empty()) { r.fail("copy-assign-into-child:wrong-value", desc(vf::fmt("after a.at(child %zu) = b, a: ", pos) + e)); continue; }
      Parsed p = try_parse(a.serialize(SORT), false);
      if (!p.ok || !jref::differs(p.value, model, FTOL, true).empty()) r.fail("copy-assign-into-child:does-not-round-trip", desc("parse(a.serialize()) differs from a"));
      e = holds(b, vs, fresh_s, ts);
      if (!e.empty()) r.fail("copy-assign-over-value:source-changed", desc("after a.at(child) = b, b: " + e));
    }
  }
}

// per value: self-assignment and the copies other members make
void check_assign_single(vf::Run& r, const Val& v, const std::string& t) {
  auto desc = [&](const std::string& what) { return [&, what] { return vf::fmt("value %s: %s", show_val(v).c_str(), what.c_str()); }; };
  const JSON fresh = build(v);
  {
    JSON a = build(v);
    const JSON& alias = a;
    a = alias;  // self-assignment through a reference
    r.transitions++;
    std::string e = holds(a, v, fresh, t);
    if (!e.empty()) r.fail("copy-assign-self:value-changed", desc("after a = a, a: " + e));
  }
  const JSON b = build(v);
  auto src_intact = [&](const char* how) {
    std::string e = holds(b, v, fresh, t);
    if (!e.empty()) r.fail("member-copy:shallow-or-source-changed", desc(std::string(how) + " changed its source; b: " + e));
  };
  {
    JSON l = JSON::list({JSON(1)});
    l.resize(3, b);  // two deep copies of b
    Val m = Val::list({ival(1), v, v});
    const JSON fm = build(m);
    std::string e = holds(l, m, fm, fm.serialize(SORT));
    if (!e.empty()) r.fail("member-copy:wrong-value", desc("after l.resize(3, b), l: " + e));
    else {
      mutate_all(l.at(1));
      if (!holds(l.at(2), v, fresh, t).empty()) r.fail("member-copy:shallow-or-source-changed", desc("the two elements added by resize(3, b) share state"));
    }
    src_intact("resize(n, b)");
  }
  {
    JSON d = JSON::dict({{"old", JSON(1)}});
    auto ins = d.insert("k", b);
    auto ins2 = d.insert("k", JSON("second insert must not overwrite"));
    Val m = Val::dict({{"old", ival(1)}, {"k", v}});
    const JSON fm = build(m);
    std::string e = holds(d, m, fm, fm.serialize(SORT));
    if (!ins.second || ins2.second) e = "insert() reported the wrong 'inserted' flag";
    if (!e.empty()) r.fail("member-copy:wrong-value", desc("after d.insert(\"k\", b), d: " + e));
    mutate_all(d);
    src_intact("insert(key, b)");
  }
  {
    JSON l = JSON::list({b, b});
    JSON d = JSON::dict({{"x", b}, {"y", b}});
    std::vector<JSON> vec = {b, b};
    JSON lv(vec);
    Val ml = Val::list({v, v}), md = Val::dict({{"x", v}, {"y", v}});
    const JSON fl = build(ml), fd = build(md);
    std::string e = holds(l, ml, fl, fl.serialize(SORT));
    if (e.empty()) e = holds(lv, ml, fl, fl.serialize(SORT));
    if (e.empty()) e = holds(d, md, fd, fd.serialize(SORT));
    if (!e.empty()) r.fail("member-copy:wrong-value", desc("JSON::list({b, b}) / JSON(vector<JSON>{b, b}) / JSON::dict({{x, b}, {y, b}}): " + e));
    mutate_all(l);
    mutate_all(lv);
    mutate_all(d);
    for (auto& x : vec) if (!holds(x, v, fresh, t).empty()) r.fail("member-copy:shallow-or-source-changed", desc("JSON(vector<JSON>) shares state with the vector's elements"));
    src_intact("list()/dict()/JSON(vector<JSON>)");
  }
  // don't-care class (executed in a child, never compared): assignment from a sub-tree of the destination itself.
  // JSON.hh neither allows nor forbids it; the count of abnormal outcomes goes to the evidence as a note only.
  if ((v.k == Val::LIST && !v.items.empty()) || (v.k == Val::DICT && !v.members.empty())) {
    int st = vf::in_child([&] {
      JSON a = build(v);
      const Val& child = v.k == Val::LIST ? v.items[0] : v.members[0].second;
      if (v.k == Val::LIST) a = a.at(0);
      else a = a.at(v.members[0].first);
      _exit(jref::differs(a, child, 0.0, true).empty() ? 0 : 9);
    });
    r.counters["dontcare_assign_from_own_subtree_cases"]++;
    if (!(WIFEXITED(st) && WEXITSTATUS(st) == 0)) r.counters["dontcare_assign_from_own_subtree_abnormal"]++;
  }
}

}  // namespace

VF_SECTION(assign, 16, 16, 120) {
  r.note("JSON::operator=(const JSON&)");
  std::vector<Val> pool = make_pool();
  std::vector<std::string> text;
  for (auto& v : pool) text.push_back(build(v).serialize(SORT));
  for (size_t i = 0; i < pool.size(); i++) {
    if (!r.take()) continue;
    if (r.wants_desc()) r.desc("self-assignment and member copies of " + show_val(pool[i]));
    r.nontriv();
    size_t before = r.viol.size();
    check_assign_single(r, pool[i], text[i]);
    if (r.viol.size() == before) r.ok("single-value:all-oracles-hold");
  }
  for (size_t d = 0; d < pool.size(); d++)
    for (size_t s = 0; s < pool.size(); s++) {
      if (!r.take()) continue;
      if (r.wants_desc()) r.desc("dst " + show_val(pool[d]) + " <- src " + show_val(pool[s]));
      r.nontriv();
      uint64_t before = 0;
      for (auto& kv : r.viol) before += kv.second.count;
      check_assign_pair(r, pool[d], pool[s], text[d], text[s]);
      uint64_t after = 0;
      for (auto& kv : r.viol) after += kv.second.count;
      if (after == before) r.ok(std::string(pool[d].k == Val::DICT ? "dict" : pool[d].k == Val::LIST ? "list" : "scalar") + "<-" + (pool[s].k == Val::DICT ? "dict" : pool[s].k == Val::LIST ? "list" : "scalar") + ":all-oracles-hold");
    }
  // x = a; x = b; x = c on one object (every ordered triple of a sub-pool; thorough: the whole pool)
  std::vector<size_t> sub;
  for (size_t i = 0; i < pool.size(); i++) {
    const Val& v = pool[i];
    bool container = v.k == Val::DICT || v.k == Val::LIST;
    bool scalar_rep = (v.k == Val::NUL) || (v.k == Val::INT && v.i == 1) || (v.k == Val::FLT && v.d == 1.5) || (v.k == Val::STR && v.s == "a");
    bool big_table = v.k == Val::DICT && v.members.size() == 20;
    if (r.thorough() || (container && v.nodes() <= 4) || scalar_rep || big_table) sub.push_back(i);
  }
  for (size_t a : sub)
    for (size_t b : sub)
      for (size_t c : sub) {
        if (!r.take()) continue;
        if (r.wants_desc()) r.desc("x = " + show_val(pool[a]) + "; x = " + show_val(pool[b]) + "; x = " + show_val(pool[c]));
        r.nontriv();
        JSON x = JSON::dict({{"a", JSON("initial")}, {"k1", JSON(0)}});
        const JSON ja = build(pool[a]), jb = build(pool[b]), jc = build(pool[c]);
        std::string e;
        x = ja;
        e = holds(x, pool[a], ja, text[a]);
        if (e.empty()) { x = jb; e = holds(x, pool[b], jb, text[b]); }
        if (e.empty()) { x = jc; e = holds(x, pool[c], jc, text[c]); }
        if (e.empty() && (!holds(ja, pool[a], ja, text[a]).empty() || !holds(jb, pool[b], jb, text[b]).empty())) e = "an earlier source changed";
        r.transitions += 3;
        if (!e.empty()) r.fail("copy-assign-chain:wrong-value", [&] { return "x = " + show_val(pool[a]) + "; x = " + show_val(pool[b]) + "; x = " + show_val(pool[c]) + ": " + e; });
        else r.ok("chain-of-three:all-oracles-hold");
      }
  r.bound = vf::fmt("pool of %zu small trees (every kind; dictionaries sharing keys with different values/kinds, nested to depth 3, 20-entry tables); per value: self-assignment, resize/insert/list()/dict()/vector<JSON> copies; "
                    "all %zu ordered (dst, src) pairs x {copy-assign over dst built fresh / parsed / assigned, move-assign, move-construct, swap, assignment into each of <=3 child positions}; all %zu ordered triples of a %zu-value sub-pool assigned in sequence to one object",
      pool.size(), pool.size() * pool.size(), sub.size() * sub.size() * sub.size(), sub.size());
}

// ======================================================================================================
// boundary integers / floats (class 4) and the equality relation (binary: in pairs)
// ======================================================================================================
namespace {

std::vector<int64_t> boundary_ints() {
  std::set<int64_t> s = {0, INT64_MIN, INT64_MAX, INT64_MIN + 1, INT64_MAX - 1};
  auto add = [&](__int128 x) {
    for (__int128 y : {x - 1, x, x + 1})
      for (__int128 z : {y, -y})
        if (z >= (__int128)INT64_MIN && z <= (__int128)INT64_MAX) s.insert((int64_t)z);
  };
  for (int k = 0; k <= 63; k++) add((__int128)1 << k);
  __int128 p = 1;
  for (int k = 0; k <= 18; k++) { add(p); p *= 10; }
  // by magnitude, so that the simplest failing value is reported first
  std::vector<int64_t> v(s.begin(), s.end());
  std::stable_sort(v.begin(), v.end(), [](int64_t a, int64_t b) {
    unsigned __int128 ma = a < 0 ? (unsigned __int128)(-(__int128)a) : (unsigned __int128)a, mb = b < 0 ? (unsigned __int128)(-(__int128)b) : (unsigned __int128)b;
    return ma < mb;
  });
  return v;
}

template <class T>
std::vector<T> boundary_values_of() {
  std::set<__int128> s;
  const __int128 lo = (__int128)std::numeric_limits<T>::min(), hi = (__int128)std::numeric_limits<T>::max();
  auto add = [&](__int128 x) {
    for (__int128 y : {x - 1, x, x + 1})
      for (__int128 z : {y, -y})
        if (z >= lo && z <= hi) s.insert(z);
  };
  for (int k = 0; k <= 64; k++) add((__int128)1 << k);
  s.insert(lo);
  s.insert(hi);
  std::vector<T> v;
  for (__int128 x : s) v.push_back((T)x);
  return v;
}

}  // namespace

VF_SECTION(ints, 16, 16, 120) {
  Ctx cx;
  cx.entry_points = true;
  cx.dat = jref::dat_open(r.section, r.shard);
  r.note("JSON::serialize/parse (boundary integers)");
  std::vector<int64_t> xs = boundary_ints();
  for (int shape = 0; shape < 3; shape++)
    for (int64_t x : xs) {
      if (!r.take()) continue;
      Val v = shape == 0 ? ival(x) : shape == 1 ? Val::list({ival(x), ival(-1), ival(x)}) : Val::dict({{std::to_string(x), ival(x)}});
      check_value(r, v, cx);
    }
  if (cx.dat) fclose(cx.dat);
  r.bound = vf::fmt("%zu int64 values: 0, +-(2^k-1), +-2^k, +-(2^k+1) for k = 0..63, +-(10^k-1), +-10^k, +-(10^k+1) for k = 0..18, INT64_MIN/MAX and neighbours; each alone, as [x, -1, x] and as {\"<x>\": x}; x 64 option sets x three parse entry points",
      xs.size());
}

namespace {

// comparison of one JSON value with native C++ values; every expectation follows from "equal iff same kind and same
// value, integers and floats compared numerically" (JSON.hh: "int and float ... implicitly convertible to each other")
template <class T>
void compare_integral(vf::Run& r, const JSON& j, const Val& v, const char* tname) {
  for (T x : boundary_values_of<T>()) {
    bool expect, dontcare = false;
    if (v.k == Val::INT) expect = ((__int128)v.i == (__int128)x);
    else if (v.k == Val::FLT) {
      __int128 xi = (__int128)x;
      if (xi > ((__int128)1 << 53) || xi < -((__int128)1 << 53)) dontcare = true;
      expect = (v.d == (double)x);
    } else expect = false;
    bool eq = (j == x), ne = (j != x);
    r.transitions++;
    if (dontcare) continue;
    if (eq != expect || ne == expect)
      r.fail(expect ? "operator==(native):equal-values-compare-different" : "operator==(native):different-values-compare-equal",
          [&] { return vf::fmt("JSON %s == (%s)%s is %d, != is %d", show_val(v).c_str(), tname, std::to_string((long long)x).c_str(), (int)eq, (int)ne); });
  }
}

void compare_native(vf::Run& r, const JSON& j, const Val& v, const std::vector<Val>& others) {
  auto bad = [&](bool expect, const std::string& what, bool eq, bool ne) {
    r.fail(expect ? "operator==(native):equal-values-compare-different" : "operator==(native):different-values-compare-equal",
        [&] { return vf::fmt("JSON %s == %s is %d, != is %d", show_val(v).c_str(), what.c_str(), (int)eq, (int)ne); });
  };
  {
    bool e = v.k == Val::NUL, eq = (j == nullptr), ne = (j != nullptr);
    if (eq != e || ne == e) bad(e, "nullptr", eq, ne);
  }
  for (bool x : {false, true}) {
    bool e = v.k == Val::BOOL && v.b == x, eq = (j == x), ne = (j != x);
    if (eq != e || ne == e) bad(e, x ? "true" : "false", eq, ne);
  }
  compare_integral<int8_t>(r, j, v, "int8_t");
  compare_integral<uint8_t>(r, j, v, "uint8_t");
  compare_integral<int16_t>(r, j, v, "int16_t");
  compare_integral<uint16_t>(r, j, v, "uint16_t");
  compare_integral<int32_t>(r, j, v, "int32_t");
  compare_integral<uint32_t>(r, j, v, "uint32_t");
  compare_integral<int64_t>(r, j, v, "int64_t");
  compare_integral<long long>(r, j, v, "long long");
  compare_integral<char>(r, j, v, "char");
  compare_integral<wchar_t>(r, j, v, "wchar_t");
  compare_integral<char16_t>(r, j, v, "char16_t");
  // (uint64_t / unsigned long: "int64_t <=> uint64_t" is ill-formed, the comparison does not compile; char32_t == uint32_t range)
  for (const Val& o : others) {
    if (o.k == Val::FLT) {
      bool dontcare = false;
      bool e = (v.k == Val::INT || v.k == Val::FLT) && ref_equal(v, o, dontcare);
      bool eq = (j == o.d), ne = (j != o.d);
      if (!dontcare && (eq != e || ne == e)) bad(e, vf::fmt("(double)%.17g", o.d), eq, ne);
      float f = (float)o.d;
      if ((double)f == o.d) {
        bool eqf = (j == f), nef = (j != f);
        // int64 <=> float converts the integer to float (24-bit mantissa): not compared beyond 2^24
        bool dcf = dontcare || (v.k == Val::INT && (v.i > (1 << 24) || v.i < -(1 << 24)));
        if (!dcf && (eqf != e || nef == e)) bad(e, vf::fmt("(float)%.9g", (double)f), eqf, nef);
      }
    } else if (o.k == Val::STR) {
      bool e = v.k == Val::STR && v.s == o.s;
      bool eq = (j == o.s), ne = (j != o.s);  // std::string overload: whole byte string, embedded NULs included
      if (eq != e || ne == e) bad(e, "std::string " + vf::show(o.s), eq, ne);
      if (o.s.find('\0') == std::string::npos && (v.k != Val::STR || v.s.find('\0') == std::string::npos)) {
        const char* c = o.s.c_str();
        bool eqc = (j == c), nec = (j != c);
        if (eqc != e || nec == e) bad(e, "(const char*)" + vf::show(o.s), eqc, nec);
      }
    } else if (o.k == Val::LIST || o.k == Val::DICT) {
      bool dontcare = false;
      bool e = ref_equal(v, o, dontcare);
      const JSON oj = build(o);
      std::partial_ordering po = o.k == Val::LIST ? (j <=> oj.as_list()) : (j <=> oj.as_dict());
      bool eq = po == std::partial_ordering::equivalent;
      if (!dontcare && eq != e) bad(e, (o.k == Val::LIST ? "list_type " : "dict_type ") + show_val(o), eq, !eq);
    }
    r.transitions++;
  }
}

}  // namespace

VF_SECTION(compare, 16, 16, 120) {
  r.note("JSON::operator<=> / operator==");
  std::vector<Val> vals = make_pool();
  for (auto& s : string_atoms()) vals.push_back(sval(s));
  vals.push_back(sval(std::string("a\0", 2)));
  vals.push_back(sval(std::string("a\0b", 3)));
  vals.push_back(sval("b"));
  vals.push_back(sval("ab"));
  for (int64_t x : boundary_ints()) vals.push_back(ival(x));
  for (int k = 0; k <= 63; k++)
    for (double sgn : {1.0, -1.0}) {
      vals.push_back(Val::real(sgn * ldexp(1.0, k)));
      if (k <= 52) vals.push_back(Val::real(sgn * (ldexp(1.0, k) + 1)));
      if (k >= 1 && k <= 53) vals.push_back(Val::real(sgn * (ldexp(1.0, k) - 1)));
    }
  for (double d : {0.0, 0.5, 1.5, 2.5, -0.5, 1e20, 1e-7, 9.2233720368547758e18, -9.2233720368547758e18, 1e19}) vals.push_back(Val::real(d));
  vals.push_back(Val::list({ival(1), Val::real(2.0)}));
  vals.push_back(Val::list({Val::real(1.0), ival(2)}));
  vals.push_back(Val::dict({{"a", Val::real(1.0)}}));
  vals.push_back(Val::dict({{"A", ival(1)}}));
  vals.push_back(Val::dict({{"a", ival(1)}, {"c", ival(2)}}));
  std::vector<JSON> js;
  for (auto& v : vals) js.push_back(build(v));
  // natives: the pool's floats/strings/containers
  std::vector<Val> natives;
  for (auto& v : vals) if (v.k == Val::STR || v.k == Val::LIST || v.k == Val::DICT) natives.push_back(v);
  for (double d : {0.0, 1.0, -1.0, 1.5, 2.0, 255.0, 9007199254740992.0, 9.2233720368547758e18, -9.2233720368547758e18, 1e20, 1e-7, 0.5}) natives.push_back(Val::real(d));
  uint64_t dc = 0;
  for (size_t a = 0; a < vals.size(); a++) {
    if (!r.take()) continue;
    if (r.wants_desc()) r.desc("JSON " + show_val(vals[a]) + vf::fmt(" compared with each of %zu values and with every native type", vals.size()));
    r.nontriv();
    bool failed = false;
    for (size_t b = 0; b < vals.size(); b++) {
      bool dontcare = false;
      bool e = ref_equal(vals[a], vals[b], dontcare);
      r.poison_errno();
      bool eq = (js[a] == js[b]), ne = (js[a] != js[b]);
      r.transitions++;
      if (dontcare) { dc++; continue; }
      if (eq != e || ne == e) {
        failed = true;
        r.fail(e ? "operator==:equal-values-compare-different" : "operator==:different-values-compare-equal",
            [&] { return vf::fmt("JSON %s == JSON %s is %d, != is %d", show_val(vals[a]).c_str(), show_val(vals[b]).c_str(), (int)eq, (int)ne); });
      }
      // executed, not compared (ordering is not part of the statement)
      (void)(js[a] < js[b]);
      (void)(js[a] <= js[b]);
      (void)(js[a] > js[b]);
      (void)(js[a] >= js[b]);
    }
    size_t before = r.viol.size();
    compare_native(r, js[a], vals[a], natives);
    if (!failed && r.viol.size() == before) r.ok("value-vs-all:equality-is-structural");
  }
  r.counters["dontcare_int_float_pairs_beyond_2^53"] += dc;
  r.bound = vf::fmt("%zu values (assign pool, string atoms incl. embedded NUL / prefix pairs, all boundary integers, doubles 2^k-1, 2^k, 2^k+1 both signs): operator== and != on all %zu ordered pairs; each value == / != nullptr, bool, "
                    "11 integral types at their 2^k boundaries, double, float, std::string, const char*, list_type, dict_type", vals.size(), vals.size() * vals.size());
}

// ======================================================================================================
// constructors / construction routes / accessor routes (class 3)
// ======================================================================================================
enum class C04Enum { ALPHA, BETA_2, EMPTY };
template <>
const char* phosg::name_for_enum<C04Enum>(C04Enum v) {
  switch (v) {
    case C04Enum::ALPHA: return "ALPHA";
    case C04Enum::BETA_2: return "BETA \"2\"\n";
    default: return "";
  }
}
template <>
C04Enum phosg::enum_for_name<C04Enum>(const char* name) {
  if (!strcmp(name, "ALPHA")) return C04Enum::ALPHA;
  if (!strcmp(name, "BETA \"2\"\n")) return C04Enum::BETA_2;
  if (!strcmp(name, "")) return C04Enum::EMPTY;
  throw std::out_of_range("no such C04Enum");
}

namespace {

// one constructed value: structure, then the light round trip (4 option sets) - the full 64-set cross of the same
// values is done by the sections that build through build()
void ctor_case(vf::Run& r, const JSON& j, const Val& want, const std::string& how, bool full, Ctx& cx) {
  if (r.wants_desc()) r.desc(how + " -> " + show_val(want));
  r.nontriv();
  r.transitions++;
  std::string d = jref::differs(j, want, 0.0, true);
  if (!d.empty()) {
    r.fail("constructor:wrong-value", [&] { return how + ": expected " + show_val(want) + ", got " + brief(j.serialize(SORT)) + " (" + d + ")"; });
    return;
  }
  const JSON fresh = build(want);
  if (!(j == fresh) || !(fresh == j)) { r.fail("constructor:wrong-value", [&] { return how + ": not == to the same value built through emplace/emplace_back"; }); return; }
  if (full) { check_value(r, want, cx, &j, "constructed value "); return; }
  bool bad = false;
  for (uint32_t o : {0u, 1u | 2u, (uint32_t)(SORT | JSON::SerializeOption::FORMAT), 63u}) {
    std::string t = j.serialize(o);
    Parsed p = try_parse(t, false);
    r.transitions += 2;
    if (!p.ok || !jref::differs(p.value, want, FTOL, true).empty() || t != fresh.serialize(o)) {
      bad = true;
      r.fail("constructor:does-not-round-trip", [&] { return how + ": serialize(" + opt_names(o) + ") = " + brief(t) + (p.ok ? " parses as " + brief(p.value.serialize(SORT)) : " rejected: " + p.exc); });
    }
  }
  if (!bad) r.ok("constructed:as-expected-and-round-trips");
}

template <class T>
void ctor_integral(vf::Run& r, const char* tname, Ctx& cx) {
  for (T x : boundary_values_of<T>()) {
    if (!r.take()) continue;
    JSON j(x);
    Val want = ival((int64_t)x);
    if constexpr (std::is_unsigned_v<T> && sizeof(T) == 8) {
      if ((uint64_t)x > (uint64_t)INT64_MAX) {  // outside "every int64 integer": only what was stored must round-trip
        if (!j.is_int()) { r.fail("constructor:wrong-value", [&] { return vf::fmt("JSON((%s)%llu) is not an int", tname, (unsigned long long)x); }); continue; }
        want = ival(j.as_int());
      }
    }
    ctor_case(r, j, want, vf::fmt("JSON((%s)%s)", tname, std::to_string(x).c_str()), false, cx);
  }
}

// alternative routes to the same tree
JSON build_init_lists(const Val& v) {  // JSON::list({...}) / JSON::dict({...}) (<= 3 children)
  if (v.k == Val::LIST) {
    std::vector<JSON> c;
    for (auto& x : v.items) c.push_back(build_init_lists(x));
    switch (c.size()) {
      case 0: return JSON::list({});
      case 1: return JSON::list({c[0]});
      case 2: return JSON::list({c[0], c[1]});
      case 3: return JSON::list({c[0], c[1], c[2]});
      default: return JSON(c);
    }
  }
  if (v.k == Val::DICT) {
    std::vector<JSON> c;
    for (auto& m : v.members) c.push_back(build_init_lists(m.second));
    switch (c.size()) {
      case 0: return JSON::dict({});
      case 1: return JSON::dict({{v.members[0].first, c[0]}});
      case 2: return JSON::dict({{v.members[0].first, c[0]}, {v.members[1].first, c[1]}});
      default: {
        JSON d = JSON::dict();
        for (size_t k = 0; k < c.size(); k++) d.insert(v.members[k].first, c[k]);
        return d;
      }
    }
  }
  return build(v);
}
JSON build_insert_resize(const Val& v) {  // resize()+at()= for lists, insert(const&) for dictionaries, string&& keys
  if (v.k == Val::LIST) {
    JSON l = JSON::list();
    l.resize(v.items.size());
    for (size_t k = 0; k < v.items.size(); k++) l.at(k) = build_insert_resize(v.items[k]);
    return l;
  }
  if (v.k == Val::DICT) {
    JSON d = JSON::dict();
    bool flip = false;
    for (auto& m : v.members) {
      if (flip) d.insert(m.first, build_insert_resize(m.second));
      else d.emplace(std::string(m.first), build_insert_resize(m.second));
      flip = !flip;
    }
    return d;
  }
  if (v.k == Val::STR) return JSON(v.s.data(), v.s.size());
  if (v.k == Val::INT && v.i >= INT32_MIN && v.i <= INT32_MAX) return JSON((int32_t)v.i);
  return build(v);
}

// reads the tree through the shorthand accessors only (at / get_* / get / size / empty / count / contains / front / back)
std::string differs_via_accessors(const JSON& j, const Val& v) {
  try {
    if (v.k == Val::LIST) {
      if (j.size() != v.items.size() || j.empty() != v.items.empty()) return "size()/empty()";
      for (size_t k = 0; k < v.items.size(); k++) {
        const Val& c = v.items[k];
        if (c.k == Val::BOOL && (j.get_bool(k) != c.b || j.get_bool(k, !c.b) != c.b)) return "get_bool(index)";
        if (c.k == Val::INT && (j.get_int(k) != c.i || j.get_int(k, c.i + 1) != c.i)) return "get_int(index)";
        if (c.k == Val::FLT && (j.get_float(k) != c.d || j.get_float(k, c.d + 1) != c.d)) return "get_float(index)";
        if (c.k == Val::STR && (j.get_string(k) != c.s || j.get_string(k, "dflt") != c.s)) return "get_string(index)";
        if (c.k == Val::LIST && j.get_list(k).size() != c.items.size()) return "get_list(index)";
        if (c.k == Val::DICT && j.get_dict(k).size() != c.members.size()) return "get_dict(index)";
        std::string d = differs_via_accessors(j.at(k), c);
        if (!d.empty()) return d;
      }
      if (!v.items.empty() && (&j.front() != &j.at(0) || &j.back() != &j.at(v.items.size() - 1))) return "front()/back()";
      if (j.get_int(v.items.size(), -77) != -77 || j.get_bool(v.items.size(), true) != true || j.get_float(v.items.size(), 2.5) != 2.5 || j.get_string(v.items.size(), "dflt") != "dflt")
        return "get_*(size(), default)";
      return "";
    }
    if (v.k == Val::DICT) {
      if (j.size() != v.members.size() || j.empty() != v.members.empty()) return "size()/empty()";
      const JSON dflt("default");
      for (auto& m : v.members) {
        const Val& c = m.second;
        if (j.count(m.first) != 1 || !j.contains(m.first)) return "count()/contains()";
        if (&j.get(m.first, dflt) != &j.at(m.first)) return "get(key, default)";
        if (c.k == Val::BOOL && (j.get_bool(m.first) != c.b || j.get_bool(m.first, !c.b) != c.b)) return "get_bool(key)";
        if (c.k == Val::INT && (j.get_int(m.first) != c.i || j.get_int(m.first, c.i + 1) != c.i)) return "get_int(key)";
        if (c.k == Val::FLT && (j.get_float(m.first) != c.d || j.get_float(m.first, c.d + 1) != c.d)) return "get_float(key)";
        if (c.k == Val::STR && (j.get_string(m.first) != c.s || j.get_string(m.first, "dflt") != c.s)) return "get_string(key)";
        if (c.k == Val::LIST && j.get_list(m.first).size() != c.items.size()) return "get_list(key)";
        if (c.k == Val::DICT && j.get_dict(m.first).size() != c.members.size()) return "get_dict(key)";
        std::string d = differs_via_accessors(j.at(m.first), c);
        if (!d.empty()) return d;
      }
      std::string absent = "\x02 no such key";
      if (j.count(absent) != 0 || j.contains(absent) || &j.get(absent, dflt) != &dflt || j.get_int(absent, -77) != -77 || j.get_bool(absent, true) != true || j.get_float(absent, 2.5) != 2.5 ||
          j.get_string(absent, "dflt") != "dflt")
        return "absent key";
      return "";
    }
    return jref::differs(j, v, 0.0, true);
  } catch (const std::exception& e) {
    return std::string("accessor threw ") + e.what();
  }
}

}  // namespace

VF_SECTION(ctors, 16, 16, 120) {
  Ctx cx;
  cx.dat = jref::dat_open(r.section, r.shard);
  r.note("JSON constructors");
  // --- integral instantiations
  ctor_integral<int8_t>(r, "int8_t", cx);
  ctor_integral<uint8_t>(r, "uint8_t", cx);
  ctor_integral<int16_t>(r, "int16_t", cx);
  ctor_integral<uint16_t>(r, "uint16_t", cx);
  ctor_integral<int32_t>(r, "int32_t", cx);
  ctor_integral<uint32_t>(r, "uint32_t", cx);
  ctor_integral<int64_t>(r, "int64_t", cx);
  ctor_integral<uint64_t>(r, "uint64_t", cx);
  ctor_integral<long long>(r, "long long", cx);
  ctor_integral<unsigned long long>(r, "unsigned long long", cx);
  ctor_integral<char>(r, "char", cx);
  ctor_integral<signed char>(r, "signed char", cx);
  ctor_integral<wchar_t>(r, "wchar_t", cx);
  ctor_integral<char8_t>(r, "char8_t", cx);
  ctor_integral<char16_t>(r, "char16_t", cx);
  ctor_integral<char32_t>(r, "char32_t", cx);
  // --- trivial constants, floating point
  if (r.take()) ctor_case(r, JSON(), Val::null(), "JSON()", true, cx);
  if (r.take()) ctor_case(r, JSON(nullptr), Val::null(), "JSON(nullptr)", true, cx);
  if (r.take()) ctor_case(r, JSON(true), Val::boolean(true), "JSON(true)", true, cx);
  if (r.take()) ctor_case(r, JSON(false), Val::boolean(false), "JSON(false)", true, cx);
  for (auto& fv : float_atoms()) {
    if (!r.take()) continue;
    ctor_case(r, JSON(fv.d), fv, vf::fmt("JSON((double)%.17g)", fv.d), false, cx);
  }
  for (float f : {0.0f, 1.5f, -10.5f, 0.1f, 16777216.0f, 1e20f, 1e-7f, FLT_MAX, FLT_MIN, -FLT_MAX, 3.0f, 999999.5f}) {
    if (!r.take()) continue;
    ctor_case(r, JSON(f), Val::real((double)f), vf::fmt("JSON((float)%.9g)", (double)f), true, cx);
  }
  // --- strings: four overloads for every 0/1-byte string and the string atoms (+ long ones)
  std::vector<std::string> strs = string_atoms();
  for (int c = 0; c < 256; c++) strs.push_back(std::string(1, (char)c));
  strs.push_back(std::string(15, 'q'));
  strs.push_back(std::string(16, 'q'));
  strs.push_back(std::string(300, '\xe9') + std::string("\0tail", 5));
  {
    std::string all;
    for (int c = 0; c < 256; c++) all.push_back((char)c);
    strs.push_back(all);
  }
  for (auto& s : strs)
    for (int how = 0; how < 4; how++) {
      if (!r.take()) continue;
      bool has_nul = s.find('\0') != std::string::npos;
      bool full = s.size() != 1;  // the one-byte strings get the 64-set cross in `strings`
      if (how == 0) ctor_case(r, JSON(s), sval(s), "JSON(const std::string& " + vf::show(s) + ")", full, cx);
      else if (how == 1) {
        std::string tmp = s;
        ctor_case(r, JSON(std::move(tmp)), sval(s), "JSON(std::string&& " + vf::show(s) + ")", full, cx);
      } else if (how == 2) {
        std::unique_ptr<char[]> blk(new char[s.size()]);  // exact size, no terminator
        memcpy(blk.get(), s.data(), s.size());
        ctor_case(r, JSON(blk.get(), s.size()), sval(s), "JSON(const char*, size) " + vf::show(s), full, cx);
      } else if (!has_nul) {
        std::unique_ptr<char[]> blk(new char[s.size() + 1]);
        memcpy(blk.get(), s.c_str(), s.size() + 1);
        ctor_case(r, JSON((const char*)blk.get()), sval(s), "JSON(const char*) " + vf::show(s), full, cx);
      } else r.ok("skipped:const char* cannot carry an embedded NUL");
    }
  // --- enum constructor / get_enum
  for (C04Enum e : {C04Enum::ALPHA, C04Enum::BETA_2, C04Enum::EMPTY}) {
    if (!r.take()) continue;
    JSON j(e);
    ctor_case(r, j, sval(name_for_enum<C04Enum>(e)), vf::fmt("JSON(C04Enum %d)", (int)e), true, cx);
    JSON holder = JSON::dict({{"e", j}});
    JSON back = JSON::parse(holder.serialize(0));
    JSON lst = JSON::list({j});
    if (back.get_enum<C04Enum>("e") != e || back.get_enum<C04Enum>("missing", e) != e || lst.get_enum<C04Enum>(0) != e || lst.get_enum<C04Enum>(5, e) != e)
      r.fail("constructor:wrong-value", [&] { return vf::fmt("enum %d does not come back through serialize -> parse -> get_enum", (int)e); });
  }
  // --- vector<T> and unordered_map<string, T> conversions
  auto list_of = [](std::vector<Val> x) { return Val::list(std::move(x)); };
  if (r.take()) ctor_case(r, JSON(std::vector<int>{}), list_of({}), "JSON(vector<int>{})", true, cx);
  if (r.take()) ctor_case(r, JSON(std::vector<int>{1, -2, INT32_MAX, INT32_MIN}), list_of({ival(1), ival(-2), ival(INT32_MAX), ival(INT32_MIN)}), "JSON(vector<int>)", true, cx);
  if (r.take()) ctor_case(r, JSON(std::vector<int64_t>{INT64_MIN, 0, INT64_MAX}), list_of({ival(INT64_MIN), ival(0), ival(INT64_MAX)}), "JSON(vector<int64_t>)", true, cx);
  if (r.take()) ctor_case(r, JSON(std::vector<uint8_t>{0, 127, 128, 255}), list_of({ival(0), ival(127), ival(128), ival(255)}), "JSON(vector<uint8_t>)", true, cx);
  if (r.take()) ctor_case(r, JSON(std::vector<int8_t>{-128, -1, 127}), list_of({ival(-128), ival(-1), ival(127)}), "JSON(vector<int8_t>)", true, cx);
  if (r.take()) ctor_case(r, JSON(std::vector<uint16_t>{0, 65535}), list_of({ival(0), ival(65535)}), "JSON(vector<uint16_t>)", true, cx);
  if (r.take()) ctor_case(r, JSON(std::vector<uint32_t>{0, 4294967295u}), list_of({ival(0), ival(4294967295LL)}), "JSON(vector<uint32_t>)", true, cx);
  if (r.take()) ctor_case(r, JSON(std::vector<double>{1.5, -1e20, 1e-7}), list_of({Val::real(1.5), Val::real(-1e20), Val::real(1e-7)}), "JSON(vector<double>)", true, cx);
  if (r.take()) ctor_case(r, JSON(std::vector<float>{1.5f, 0.25f}), list_of({Val::real(1.5), Val::real(0.25)}), "JSON(vector<float>)", true, cx);
  if (r.take()) ctor_case(r, JSON(std::vector<bool>{true, false, true}), list_of({Val::boolean(true), Val::boolean(false), Val::boolean(true)}), "JSON(vector<bool>)", true, cx);
  if (r.take()) ctor_case(r, JSON(std::vector<std::string>{"", std::string("a\0b", 3), "\xff\n"}), list_of({sval(""), sval(std::string("a\0b", 3)), sval("\xff\n")}), "JSON(vector<string>)", true, cx);
  if (r.take()) ctor_case(r, JSON(std::vector<const char*>{"x", ""}), list_of({sval("x"), sval("")}), "JSON(vector<const char*>)", true, cx);
  if (r.take()) ctor_case(r, JSON(std::vector<std::nullptr_t>{nullptr, nullptr}), list_of({Val::null(), Val::null()}), "JSON(vector<nullptr_t>)", true, cx);
  if (r.take()) ctor_case(r, JSON(std::vector<std::vector<int>>{{1, 2}, {}, {3}}), list_of({list_of({ival(1), ival(2)}), list_of({}), list_of({ival(3)})}), "JSON(vector<vector<int>>)", true, cx);
  if (r.take()) ctor_case(r, JSON(std::vector<std::unordered_map<std::string, int>>{{{"a", 1}}, {}}), list_of({Val::dict({{"a", ival(1)}}), Val::dict()}), "JSON(vector<unordered_map<string,int>>)", true, cx);
  if (r.take()) ctor_case(r, JSON(std::vector<JSON>{JSON(1), JSON::list({JSON("x")}), JSON::dict()}), list_of({ival(1), list_of({sval("x")}), Val::dict()}), "JSON(vector<JSON>)", true, cx);
  if (r.take()) ctor_case(r, JSON(std::unordered_map<std::string, int>{}), Val::dict(), "JSON(unordered_map<string,int>{})", true, cx);
  if (r.take()) ctor_case(r, JSON(std::unordered_map<std::string, int>{{"a", 1}, {"", -1}, {"\xe9\n", INT32_MIN}}), Val::dict({{"a", ival(1)}, {"", ival(-1)}, {"\xe9\n", ival(INT32_MIN)}}), "JSON(unordered_map<string,int>)", true, cx);
  if (r.take()) ctor_case(r, JSON(std::unordered_map<std::string, int64_t>{{"min", INT64_MIN}, {"max", INT64_MAX}}), Val::dict({{"min", ival(INT64_MIN)}, {"max", ival(INT64_MAX)}}), "JSON(unordered_map<string,int64_t>)", true, cx);
  if (r.take()) ctor_case(r, JSON(std::unordered_map<std::string, uint16_t>{{"k", 65535}}), Val::dict({{"k", ival(65535)}}), "JSON(unordered_map<string,uint16_t>)", true, cx);
  if (r.take()) ctor_case(r, JSON(std::unordered_map<std::string, double>{{"x", 1.5}, {"y", 1e20}}), Val::dict({{"x", Val::real(1.5)}, {"y", Val::real(1e20)}}), "JSON(unordered_map<string,double>)", true, cx);
  if (r.take()) ctor_case(r, JSON(std::unordered_map<std::string, float>{{"x", 0.5f}}), Val::dict({{"x", Val::real(0.5)}}), "JSON(unordered_map<string,float>)", true, cx);
  if (r.take()) ctor_case(r, JSON(std::unordered_map<std::string, bool>{{"t", true}, {"f", false}}), Val::dict({{"t", Val::boolean(true)}, {"f", Val::boolean(false)}}), "JSON(unordered_map<string,bool>)", true, cx);
  if (r.take()) ctor_case(r, JSON(std::unordered_map<std::string, std::string>{{"s", std::string("\0", 1)}, {"e", ""}}), Val::dict({{"s", sval(std::string("\0", 1))}, {"e", sval("")}}), "JSON(unordered_map<string,string>)", true, cx);
  if (r.take()) ctor_case(r, JSON(std::unordered_map<std::string, std::nullptr_t>{{"n", nullptr}}), Val::dict({{"n", Val::null()}}), "JSON(unordered_map<string,nullptr_t>)", true, cx);
  // --- the same small trees through three construction routes and read back through the accessor shorthands
  TreeSpace ts = make_space();
  uint64_t ntrees = 0;
  for (int n = 1; n <= 4; n++) {
    uint64_t c = ts.count(n, 3);
    ntrees += c;
    for (uint64_t idx = 0; idx < c; idx++) {
      if (!r.take()) continue;
      Val v = ts.unrank(n, 3, idx);
      if (r.wants_desc()) r.desc("construction routes of " + show_val(v));
      r.nontriv();
      const JSON a = build(v), b = build_init_lists(v), c2 = build_insert_resize(v);
      const JSON d = JSON::parse(a.serialize(SORT | JSON::SerializeOption::FORMAT));
      r.transitions += 4;
      std::string e;
      if (!jref::differs(b, v, 0.0, true).empty() || !(a == b) || !(b == a)) e = "JSON::list({...}) / JSON::dict({...}) builds " + brief(b.serialize(SORT));
      else if (!jref::differs(c2, v, 0.0, true).empty() || !(a == c2) || !(c2 == a)) e = "resize()+at()= / insert() / emplace(string&&) / JSON(ptr,len) / JSON(int32_t) builds " + brief(c2.serialize(SORT));
      else if (b.serialize(SORT) != a.serialize(SORT) || c2.serialize(63) != a.serialize(63)) e = "equal values built through different routes serialise differently";
      if (!e.empty()) { r.fail("construction-route:wrong-value", [&] { return "value " + show_val(v) + ": " + e; }); continue; }
      e = differs_via_accessors(a, v);
      if (e.empty() && !v.has_float()) e = differs_via_accessors(d, v);
      if (!e.empty()) { r.fail("accessor-route:disagrees-with-as_list/as_dict", [&] { return "value " + show_val(v) + ": " + e; }); continue; }
      r.ok("routes-agree");
    }
  }
  // documented int <-> float accessor conversion on exactly representable values
  if (r.take()) {
    r.nontriv();
    bool ok = JSON(2.0).as_int() == 2 && JSON(-3.0).as_int() == -3 && JSON((int64_t)3).as_float() == 3.0 && JSON(INT64_MIN).as_float() == -9223372036854775808.0;
    if (!ok) r.fail("accessor-route:disagrees-with-as_list/as_dict", [&] { return std::string("as_int() on a float / as_float() on an int does not convert an exactly representable value"); });
    else r.ok("int-float-accessor-conversion");
  }
  if (cx.dat) fclose(cx.dat);
  r.bound = vf::fmt("JSON(T) for 16 integral types at 0, +-(2^k-1), +-2^k, +-(2^k+1), min, max; JSON(), nullptr, bool, double (56 atoms), float (12); const std::string& / std::string&& / (const char*, size) / const char* for %zu strings "
                    "(all 0/1-byte strings, atoms, 15/16/305/256-byte); enum; vector<T> for 16 element types; unordered_map<string,T> for 9 value types; all %llu trees of <= 4 nodes built through emplace / list()+dict() initializer lists / "
                    "resize+at+insert and read back through at/get_*/get/size/empty/count/contains/front/back", strs.size(), (unsigned long long)ntrees);
}

// ======================================================================================================
// histories of calls (class 1) and calling contexts (class 5)
// ======================================================================================================
namespace {

struct HOp {
  bool is_parse = false;
  size_t value = 0;       // index into hv
  uint32_t options = 0;   // serialize: option set
  std::string text;       // parse: input
  bool strict = false;
  std::string expect;     // serialize: the text the call gives in isolation; parse: SORT-serialisation of its result
  std::string name;
};

std::vector<Val> history_values() {
  return {
      Val::null(), Val::boolean(true), ival(255), ival(INT64_MIN), Val::real(1.5), Val::real(1e-7), sval("a"), sval("\x80\n\"\x7f"), Val::list(), Val::dict(),
      Val::list({ival(1), Val::list({Val::real(2.5), sval("x")}), Val::dict({{"k", Val::null()}})}),
      Val::dict({{"b", Val::list({ival(1), ival(2)})}, {"a", Val::dict({{"c", sval("\xff")}})}, {"", ival(-1)}}),
      sval(std::string(100, 'z')), Val::list({Val::boolean(false), Val::real(-1e20), ival(-16)}),
  };
}

// runs one op; returns its observable result ("!..." on an exception) and checks the value where one is expected
std::string run_op(const HOp& op, const std::vector<JSON>& js, const std::vector<Val>& hv, std::string* value_error) {
  try {
    if (!op.is_parse) return js[op.value].serialize(op.options);
    JSON p = JSON::parse(op.text, op.strict);
    if (value_error) {
      std::string d = jref::differs(p, hv[op.value], FTOL, true);
      if (!d.empty()) *value_error = "parsed value differs from the original (" + d + ")";
    }
    return p.serialize(SORT);
  } catch (const std::exception& e) {
    return std::string("!") + e.what();
  }
}

std::vector<HOp> history_ops(const std::vector<JSON>& js, const std::vector<Val>& hv, bool small) {
  std::vector<HOp> ops;
  const uint32_t F = JSON::SerializeOption::FORMAT;
  std::vector<uint32_t> sopts = small ? std::vector<uint32_t>{0u, 63u} : std::vector<uint32_t>{0u, 1u, 2u, F, SORT, 0x10u, 0x20u, 63u};
  std::vector<uint32_t> popts = small ? std::vector<uint32_t>{0u} : std::vector<uint32_t>{0u, 63u, F | SORT};
  for (size_t i = 0; i < hv.size(); i++) {
    if (small && i % 2) continue;
    for (uint32_t o : sopts) {
      HOp op;
      op.value = i;
      op.options = o;
      op.name = "serialize(" + show_val(hv[i]) + ", " + opt_names(o) + ")";
      ops.push_back(op);
    }
    std::set<std::string> seen;
    for (uint32_t o : popts) {
      std::string t = js[i].serialize(o);
      if (!seen.insert(t).second) continue;
      for (int strict = 0; strict < 2; strict++) {
        if (strict && (o & NONSTANDARD)) continue;
        HOp op;
        op.is_parse = true;
        op.value = i;
        op.text = t;
        op.strict = strict;
        op.name = std::string(strict ? "parse-strict(" : "parse(") + brief(t) + ")";
        ops.push_back(op);
      }
    }
  }
  return ops;
}

// in isolation = first, on fresh objects, nothing but the op itself; every op's value is also checked here
bool isolate(vf::Run& r, std::vector<HOp>& ops, const std::vector<Val>& hv) {
  bool fine = true;
  for (auto& op : ops) {
    std::vector<JSON> fresh;
    for (auto& v : hv) fresh.push_back(build(v));
    std::string verr;
    op.expect = run_op(op, fresh, hv, &verr);
    if (op.expect[0] == '!' || !verr.empty()) {
      fine = false;
      r.fail("history:call-fails-in-isolation", [&] { return op.name + ": " + (verr.empty() ? op.expect : verr); });
    }
  }
  return fine;
}

struct UnwindProbe {
  std::function<void()> fn;
  ~UnwindProbe() { fn(); }  // fn never lets an exception escape
};

}  // namespace

VF_SECTION(history, 16, 16, 120) {
  r.note("JSON::serialize/parse (call histories)");
  const std::vector<Val> hv = history_values();
  std::vector<JSON> js;
  for (auto& v : hv) js.push_back(build(v));
  std::vector<HOp> ops = history_ops(js, hv, false), small = history_ops(js, hv, true);
  bool base_ok = true;
  if (r.take()) {
    r.nontriv();
    if (r.wants_desc()) r.desc(vf::fmt("every one of the %zu calls in isolation", ops.size()));
    bool ok_all = isolate(r, ops, hv), ok_small = isolate(r, small, hv);
    base_ok = ok_all && ok_small;
    if (base_ok) r.ok("isolated-calls:as-expected");
  } else {
    vf::Run scratch;  // other shards need the expectations too; failures are reported by the shard that owns case 0
    scratch.slot = &scratch.dummy_slot;
    isolate(scratch, ops, hv);
    isolate(scratch, small, hv);
  }
  auto step = [&](const HOp& op, std::string& err, const char* pos) {
    r.poison_errno();
    std::string verr;
    std::string got = run_op(op, js, hv, &verr);
    r.transitions++;
    if (got != op.expect && err.empty()) err = std::string(pos) + " call " + op.name + " gave " + brief(got) + ", in isolation it gives " + brief(op.expect);
    else if (!verr.empty() && err.empty()) err = std::string(pos) + " call " + op.name + ": " + verr;
  };
  // (a) the same value under every ordered pair of option sets, on the same object and across two objects of the same value
  for (size_t i = 0; i < hv.size(); i++) {
    if (!r.take()) continue;
    if (r.wants_desc()) r.desc("serialize(" + show_val(hv[i]) + ") under all 64 x 64 ordered pairs of option sets");
    r.nontriv();
    const JSON twin = build(hv[i]);
    std::string table[64];
    for (uint32_t o = 0; o < 64; o++) table[o] = build(hv[i]).serialize(o);
    std::string err;
    for (uint32_t o1 = 0; o1 < 64 && err.empty(); o1++)
      for (uint32_t o2 = 0; o2 < 64; o2++) {
        r.poison_errno();
        std::string t1 = js[i].serialize(o1), t2 = js[i].serialize(o2), t3 = twin.serialize(o1);
        r.transitions += 3;
        if (t1 != table[o1] || t2 != table[o2] || t3 != table[o1]) {
          err = "serialize(" + opt_names(o1) + ") then serialize(" + opt_names(o2) + ") then serialize(" + opt_names(o1) + ") on a twin gave " + brief(t1) + ", " + brief(t2) + ", " + brief(t3) +
              "; on fresh objects: " + brief(table[o1]) + ", " + brief(table[o2]);
          break;
        }
      }
    if (!err.empty()) r.fail("history:result-depends-on-earlier-call", [&] { return "value " + show_val(hv[i]) + ": " + err; });
    else r.ok("option-pair-histories:independent");
  }
  // (b) A, B, A for every ordered pair of calls
  for (size_t a = 0; a < ops.size(); a++)
    for (size_t b = 0; b < ops.size(); b++) {
      if (!r.take()) continue;
      if (r.wants_desc()) r.desc(ops[a].name + "; " + ops[b].name + "; " + ops[a].name);
      r.nontriv();
      std::string err;
      step(ops[a], err, "first");
      step(ops[b], err, "second");
      step(ops[a], err, "third");
      if (!err.empty()) r.fail("history:result-depends-on-earlier-call", [&] { return ops[a].name + "; " + ops[b].name + "; " + ops[a].name + ": " + err; });
      else r.ok("A-B-A:independent");
    }
  // (c) every ordered triple over the reduced call alphabet
  for (size_t a = 0; a < small.size(); a++)
    for (size_t b = 0; b < small.size(); b++)
      for (size_t c = 0; c < small.size(); c++) {
        if (!r.take()) continue;
        if (r.wants_desc()) r.desc(small[a].name + "; " + small[b].name + "; " + small[c].name);
        r.nontriv();
        std::string err;
        step(small[a], err, "first");
        step(small[b], err, "second");
        step(small[c], err, "third");
        if (!err.empty()) r.fail("history:result-depends-on-earlier-call", [&] { return small[a].name + "; " + small[b].name + "; " + small[c].name + ": " + err; });
        else r.ok("A-B-C:independent");
      }
  // (d) chains through the text: parse(serialize(parse(serialize(v, o1)), o2)) is still v  (final observable result)
  for (size_t i = 0; i < hv.size(); i++) {
    if (!r.take()) continue;
    if (r.wants_desc()) r.desc("parse(serialize(parse(serialize(" + show_val(hv[i]) + ", o1)), o2)) for all 64 x 64 (o1, o2)");
    r.nontriv();
    std::string err;
    for (uint32_t o1 = 0; o1 < 64 && err.empty(); o1++) {
      Parsed p1 = try_parse(js[i].serialize(o1), false);
      if (!p1.ok) { err = "first parse rejected: " + p1.exc; break; }
      for (uint32_t o2 = 0; o2 < 64; o2++) {
        Parsed p2 = try_parse(p1.value.serialize(o2), false);
        r.transitions += 2;
        std::string d = p2.ok ? jref::differs(p2.value, hv[i], FTOL, true) : "rejected: " + p2.exc;
        if (!d.empty()) { err = "o1 = " + opt_names(o1) + ", o2 = " + opt_names(o2) + ": " + d; break; }
        if (p2.value.serialize(o1 | SORT) != p1.value.serialize(o1 | SORT)) { err = "o1 = " + opt_names(o1) + ", o2 = " + opt_names(o2) + ": the second generation serialises differently from the first"; break; }
      }
    }
    if (!err.empty()) r.fail("history:two-generation-round-trip", [&] { return "value " + show_val(hv[i]) + ": " + err; });
    else r.ok("two-generation-round-trip:identity");
  }
  r.bound = vf::fmt("%zu values; serialize under all 4096 ordered option-set pairs (same object and twin); %zu calls (serialize x 8 option sets, parse / strict parse of 3 texts per value): every ordered pair as A;B;A (%zu); "
                    "every ordered triple of a %zu-call sub-alphabet (%zu); two-generation round trip under all 4096 (o1, o2); ambient errno re-poisoned before every call",
      hv.size(), ops.size(), ops.size() * ops.size(), small.size(), small.size() * small.size() * small.size());
}

VF_SECTION(context, 8, 8, 120) {
  r.note("JSON::serialize/parse (calling contexts)");
  const std::vector<Val> hv = history_values();
  std::vector<JSON> js;
  for (auto& v : hv) js.push_back(build(v));
  std::vector<HOp> ops = history_ops(js, hv, false);
  {
    vf::Run scratch;
    scratch.slot = &scratch.dummy_slot;
    isolate(scratch, ops, hv);  // failures here are reported by section `history`
  }
  static const int kErrnos[] = {0, ERANGE, EINTR, EINVAL, EAGAIN, ENOMEM};
  for (size_t a = 0; a < ops.size(); a++) {
    if (!r.take()) continue;
    const HOp& op = ops[a];
    if (r.wants_desc()) r.desc(op.name + " in a catch handler, during unwinding, in a handler of the library's own parse_error, under 6 errno values");
    r.nontriv();
    std::string err;
    auto check = [&](const char* where) {
      std::string verr;
      std::string got = run_op(op, js, hv, &verr);
      r.transitions++;
      if (err.empty() && got != op.expect) err = std::string(where) + ": gave " + brief(got) + ", plain call gives " + brief(op.expect);
      else if (err.empty() && !verr.empty()) err = std::string(where) + ": " + verr;
    };
    for (int e : kErrnos) {
      errno = e;
      check("with ambient errno preset");
    }
    try {
      throw std::runtime_error("outer");
    } catch (const std::exception&) {
      check("inside a catch handler");
    }
    try {
      UnwindProbe probe{[&] { check("inside a destructor while an exception is propagating"); }};
      throw 42;
    } catch (int) {
    }
    try {
      JSON::parse(std::string("[1, 2"), false);
      err = "parse of an unterminated list did not throw";
    } catch (const std::exception&) {
      check("inside the handler of an exception thrown by JSON::parse itself");
      try {
        UnwindProbe probe{[&] { check("during unwinding nested inside a handler"); }};
        JSON::parse(std::string("\"\\q\""), true);
      } catch (const std::exception&) {
      }
    }
    if (!err.empty()) r.fail("context:result-depends-on-calling-context", [&] { return op.name + " " + err; });
    else r.ok("all-contexts:same-result");
  }
  r.bound = vf::fmt("%zu calls (as in `history`) x {errno = 0, ERANGE, EINTR, EINVAL, EAGAIN, ENOMEM; inside a catch handler; inside a destructor during stack unwinding; inside the handler of a parse_error thrown by the library; unwinding nested in a handler}",
      ops.size());
}

// ======================================================================================================
// mutating members on non-fresh containers against a reference model (classes 2 and 6)
// ======================================================================================================
namespace {

const std::vector<Val>& op_values() {
  static const std::vector<Val> x = {Val::null(), ival(7), sval("s"), Val::list({ival(1)}), Val::dict({{"k", Val::real(1.5)}})};
  return x;
}

struct MOp { const char* name; int code; int arg; };
const std::vector<MOp>& mutation_ops() {
  static const std::vector<MOp> ops = {
      {"emplace_back(null)", 0, 0}, {"emplace_back(7)", 0, 1}, {"emplace_back(\"s\")", 0, 2}, {"emplace_back([1])", 0, 3}, {"emplace_back({k:1.5})", 0, 4},
      {"resize(0)", 1, 0}, {"resize(1)", 1, 1}, {"resize(3)", 1, 3}, {"resize(3, \"s\")", 2, 2}, {"resize(2, [1])", 3, 3},
      {"clear()", 4, 0}, {"at(0) = [1]", 5, 3}, {"back() = \"s\"", 6, 2}, {"front() = {k:1.5}", 7, 4},
      {"emplace(string&& \"a\", 7)", 10, 1}, {"emplace(string&& \"a\", [1])", 10, 3}, {"emplace(const string& \"n\", null)", 11, 0}, {"emplace(const string& \"n\", {k:1.5})", 11, 4},
      {"insert(\"a\", \"s\")", 12, 2}, {"insert(\"m\", [1])", 13, 3}, {"erase(\"a\")", 14, 0}, {"erase(\"zz\")", 15, 0},
      {"at(\"a\") = {k:1.5}", 16, 4}, {"at(\"m\").emplace_back(7)", 17, 1}, {"at(\"a\").swap(at(\"n\"))", 18, 0},
      {"x = JSON(x)", 20, 0}, {"x = list()", 21, 0}, {"x = dict({a:[1]})", 22, 0}, {"x.swap(dict {m:[1], n:\"s\"})", 23, 0}, {"x = parse(x.serialize())", 24, 0},
  };
  return ops;
}

Val* member(Val& m, const std::string& key) {
  for (auto& kv : m.members) if (kv.first == key) return &kv.second;
  return nullptr;
}

// applies op to the real object and to the model; returns "" or what went wrong
std::string apply_op(JSON& j, Val& m, const MOp& op) {
  const Val& xv = op_values()[op.arg];
  const bool is_list = m.k == Val::LIST, is_dict = m.k == Val::DICT;
  auto expect_throw = [&](auto&& fn) -> std::string {
    try {
      fn();
    } catch (const std::exception&) {
      return "";
    }
    return std::string(op.name) + " on this value should have thrown (JSON.hh: type_error / out_of_range)";
  };
  try {
    switch (op.code) {
      case 0:
        if (!is_list) return expect_throw([&] { j.emplace_back(build(xv)); });
        j.emplace_back(build(xv));
        m.items.push_back(xv);
        return "";
      case 1: case 2: case 3: {
        size_t n = op.code == 1 ? (size_t)op.arg : op.code == 2 ? 3 : 2;
        if (!is_list) return expect_throw([&] { j.resize(n); });
        if (op.code == 1) j.resize(n);
        else j.resize(n, build(xv));
        while (m.items.size() > n) m.items.pop_back();
        while (m.items.size() < n) m.items.push_back(op.code == 1 ? Val::null() : xv);
        return "";
      }
      case 4:
        if (!is_list && !is_dict) return expect_throw([&] { j.clear(); });
        j.clear();
        m.items.clear();
        m.members.clear();
        return "";
      case 5:
        if (!is_list || m.items.empty()) return expect_throw([&] { j.at((size_t)0) = build(xv); });
        j.at((size_t)0) = build(xv);
        m.items[0] = xv;
        return "";
      case 6: case 7:
        if (!is_list) return expect_throw([&] { op.code == 6 ? j.back() : j.front(); });
        if (m.items.empty()) return "";  // back()/front() of an empty vector: undefined, not called
        (op.code == 6 ? j.back() : j.front()) = build(xv);
        (op.code == 6 ? m.items.back() : m.items.front()) = xv;
        return "";
      case 10: case 11: case 12: case 13: {
        std::string key = op.code == 10 || op.code == 12 ? "a" : op.code == 11 ? "n" : "m";
        if (!is_dict) return expect_throw([&] { j.insert(key, build(xv)); });
        bool inserted;
        if (op.code == 10) inserted = j.emplace(std::string(key), build(xv)).second;
        else if (op.code == 11) inserted = j.emplace(key, build(xv)).second;
        else { const JSON c = build(xv); inserted = j.insert(key, c).second; }
        bool want = member(m, key) == nullptr;
        if (want) m.members.push_back({key, xv});
        if (inserted != want) return std::string(op.name) + vf::fmt(" returned inserted=%d, the key was %s", (int)inserted, want ? "absent" : "present");
        return "";
      }
      case 14: case 15: {
        std::string key = op.code == 14 ? "a" : "zz";
        if (!is_dict) return expect_throw([&] { j.erase(key); });
        size_t n = j.erase(key), want = 0;
        for (size_t k = 0; k < m.members.size(); k++)
          if (m.members[k].first == key) { m.members.erase(m.members.begin() + k); want = 1; break; }
        if (n != want) return std::string(op.name) + vf::fmt(" returned %zu, expected %zu", n, want);
        return "";
      }
      case 16: {
        Val* c = is_dict ? member(m, "a") : nullptr;
        if (!c) return expect_throw([&] { j.at("a") = build(xv); });
        j.at("a") = build(xv);
        *c = xv;
        return "";
      }
      case 17: {
        Val* c = is_dict ? member(m, "m") : nullptr;
        if (!c || c->k != Val::LIST) return expect_throw([&] { j.at("m").emplace_back(build(xv)); });
        j.at("m").emplace_back(build(xv));
        c->items.push_back(xv);
        return "";
      }
      case 18: {
        Val* a = is_dict ? member(m, "a") : nullptr;
        Val* n = is_dict ? member(m, "n") : nullptr;
        if (!a || !n) return expect_throw([&] { j.at("a").swap(j.at("n")); });
        j.at("a").swap(j.at("n"));
        std::swap(*a, *n);
        return "";
      }
      case 20: { JSON c(j); j = c; return ""; }
      case 21: j = JSON::list(); m = Val::list(); return "";
      case 22: j = JSON::dict({{"a", JSON::list({JSON(1)})}}); m = Val::dict({{"a", Val::list({ival(1)})}}); return "";
      case 23: {
        JSON other = JSON::dict({{"m", JSON::list({JSON(1)})}, {"n", JSON("s")}});
        j.swap(other);
        m = Val::dict({{"m", Val::list({ival(1)})}, {"n", sval("s")}});
        return "";
      }
      case 24: j = JSON::parse(j.serialize(0)); return "";  // floats in the alphabet (1.5) are exact in six digits
    }
  } catch (const std::exception& e) {
    return std::string(op.name) + " threw " + e.what();
  }
  return "unknown op";
}

}  // namespace

VF_SECTION(ops, 16, 16, 120) {
  r.note("JSON mutating members");
  const std::vector<Val> init = {
      Val::list(), Val::list({ival(1), sval("a")}), Val::dict(), Val::dict({{"a", ival(1)}, {"m", Val::list({ival(2)})}}),
      Val::dict({{"n", Val::dict({{"a", ival(1)}})}, {"a", Val::dict({{"a", ival(2)}})}}), sval("scalar"),
  };
  const auto& ops = mutation_ops();
  const int depth = r.thorough() ? 4 : 3;
  uint64_t histories = 0;
  for (int len = 1; len <= depth; len++) {
    uint64_t total = 1;
    for (int k = 0; k < len; k++) total *= ops.size();
    for (size_t s0 = 0; s0 < init.size(); s0++)
      for (uint64_t h = 0; h < total; h++) {
        histories++;
        if (!r.take()) continue;
        std::vector<const MOp*> seq;
        uint64_t x = h;
        for (int k = 0; k < len; k++) { seq.push_back(&ops[x % ops.size()]); x /= ops.size(); }
        auto describe = [&] {
          std::string d = "x = " + show_val(init[s0]);
          for (auto* o : seq) d += std::string("; x.") + o->name;
          return d;
        };
        if (r.wants_desc()) r.desc(describe());
        r.nontriv();
        JSON j = s0 % 2 ? JSON::parse(build(init[s0]).serialize(0)) : build(init[s0]);
        Val m = init[s0];
        std::string err;
        for (auto* o : seq) {
          r.poison_errno();
          err = apply_op(j, m, *o);
          r.transitions++;
          if (err.empty() && !jref::differs(j, m, 0.0, true).empty()) err = std::string("after ") + o->name + " the value is " + brief(j.serialize(SORT)) + ", the std::vector/std::unordered_map model has " + show_val(m);
          if (!err.empty()) break;
        }
        if (!err.empty()) { r.fail("mutation-history:state-differs-from-container-model", [&] { return describe() + ": " + err; }); continue; }
        // final observable result: the reached value is a JSON value like any other
        for (uint32_t o : {0u, (uint32_t)(SORT | JSON::SerializeOption::FORMAT), 63u}) {
          Parsed p = try_parse(j.serialize(o), !(o & NONSTANDARD));
          r.transitions += 2;
          if (!p.ok || !jref::differs(p.value, m, FTOL, true).empty() || !(p.value == j)) {
            err = "serialize(" + opt_names(o) + ") = " + brief(j.serialize(o)) + (p.ok ? " parses as " + brief(p.value.serialize(SORT)) : " rejected: " + p.exc);
            break;
          }
        }
        if (!err.empty()) { r.fail("mutation-history:reached-value-does-not-round-trip", [&] { return describe() + ": " + err; }); continue; }
        JSON c(j), a = JSON::dict({{"a", JSON(0)}, {"m", JSON(0)}});
        a = j;
        const JSON fresh = build(m);
        if (!(c == j) || !(a == j) || !(fresh == j) || !(j == fresh) || c.serialize(SORT) != fresh.serialize(SORT) || a.serialize(SORT) != fresh.serialize(SORT)) {
          r.fail("mutation-history:copy-of-reached-value-differs", [&] { return describe() + ": copies / a fresh build of " + show_val(m) + " do not compare equal to the reached value " + brief(j.serialize(SORT)); });
          continue;
        }
        r.ok(m.k == Val::LIST ? "ends-as-list" : m.k == Val::DICT ? "ends-as-dict" : "ends-as-scalar");
      }
  }
  r.bound = vf::fmt("%llu histories: every sequence of 1..%d of %zu operations (emplace_back, resize with/without fill, clear, at()=, front/back()=, emplace with string&&/const string& key, insert, erase, nested at().emplace_back, "
                    "at().swap(at()), copy of itself, replace by list/dict, swap, re-parse) from %zu initial states (built or parsed); model compared after every step; final state round-trips under 3 option sets and equals its copies",
      (unsigned long long)histories, depth, ops.size(), init.size());
}

// ======================================================================================================
// far-from-usual sizes (class 4)
// ======================================================================================================
VF_SECTION(wide, 8, 8, 240) {
  Ctx cx;
  cx.dat = jref::dat_open(r.section, r.shard);
  r.note("JSON::serialize/parse (large values)");
  const bool T = r.thorough();
  // long strings: every byte value cycling; lengths around the usual buffer boundaries
  std::vector<size_t> lens = {15, 16, 255, 256, 4095, 4096, 65535, 65536};
  if (T) { lens.push_back(1 << 20); }
  for (size_t n : lens)
    for (int as_key = 0; as_key < 2; as_key++) {
      if (!r.take()) continue;
      std::string s(n, '\0');
      for (size_t k = 0; k < n; k++) s[k] = (char)((k * 7 + (k >> 8)) & 0xFF);
      cx.option_mask = n > 65536 ? (ESCAPE_BITS | SORT) : n > 4096 ? (ESCAPE_BITS | SORT | JSON::SerializeOption::FORMAT) : 63;
      check_value(r, as_key ? Val::dict({{s, sval(s)}}) : sval(s), cx);
    }
  // wide containers: counts around 2^8 and 2^16
  std::vector<size_t> counts = {255, 256, 257, 65535, 65536, 65537};
  if (T) counts.push_back(1000000);
  for (size_t n : counts)
    for (int shape = 0; shape < 3; shape++) {
      if (!r.take()) continue;
      // the reference side (duplicate-key test of R_std, Val-vs-Val comparison) is quadratic in the number of keys
      if (shape == 2 && n > 257) n = n <= 65537 ? n / 16 : 16385;  // 4095, 4096, 4096 keys; thorough adds 16 385
      Val v = shape == 2 ? Val::dict() : Val::list();
      for (size_t k = 0; k < n; k++) {
        if (shape == 0) v.items.push_back(ival((int64_t)k - 128));
        else if (shape == 1) v.items.push_back(k % 3 == 0 ? Val::list() : k % 3 == 1 ? Val::real((double)k + 0.5) : sval(std::to_string(k)));
        else v.members.push_back({"k" + std::to_string(k), ival((int64_t)k)});
      }
      cx.option_mask = n > 65537 ? (1u | SORT) : n > 257 ? (1u | 2u | SORT | JSON::SerializeOption::FORMAT) : 63;
      if (shape == 1 && n > 257) cx.option_mask &= ~(uint32_t)JSON::SerializeOption::FORMAT;
      check_value(r, v, cx);
    }
  cx.option_mask = 63;
  // resize() to sizes around 2^8 / 2^16 on a non-empty list, then back down
  for (size_t n : {(size_t)0, (size_t)1, (size_t)2, (size_t)255, (size_t)256, (size_t)65536, (size_t)65537}) {
    if (!r.take()) continue;
    if (r.wants_desc()) r.desc(vf::fmt("[1].resize(%zu, \"f\"), round trip, resize(1)", n));
    r.nontriv();
    JSON l = JSON::list({JSON(1)});
    l.resize(n, JSON("f"));
    Val m = Val::list();
    for (size_t k = 0; k < n; k++) m.items.push_back(k == 0 ? ival(1) : sval("f"));
    Parsed p = try_parse(l.serialize(0), true);
    bool ok = jref::differs(l, m, 0.0, true).empty() && p.ok && jref::differs(p.value, m, 0.0, true).empty();
    l.resize(n ? 1 : 0);
    ok = ok && l.size() == (n ? 1u : 0u) && (n == 0 || l.at((size_t)0) == 1);
    // at() with indexes far outside: executed only (bounds behaviour is not part of this property)
    for (size_t idx : {(size_t)1 << 31, ((size_t)1 << 31) - 1, ((size_t)1 << 32) - 1, (size_t)1 << 32, ((size_t)1 << 63) - 1, (size_t)1 << 63, SIZE_MAX - 1, SIZE_MAX}) {
      try { (void)l.at(idx); } catch (const std::out_of_range&) { r.counters["dontcare_at_far_index_threw"]++; }
    }
    if (!ok) r.fail("resize:wrong-value-or-no-round-trip", [&] { return vf::fmt("[1].resize(%zu, \"f\") does not hold 1 followed by %zu copies of \"f\", or its text does not parse back", n, n ? n - 1 : 0); });
    else r.ok("resize:as-expected");
  }
  // indent_level > 0: more leading blanks, still the same value (round trip only; the text layout is not compared)
  {
    std::vector<Val> vs = history_values();
    for (auto& v : vs)
      for (size_t indent : {(size_t)1, (size_t)2, (size_t)3, (size_t)8, (size_t)17, (size_t)4096}) {
        if (!r.take()) continue;
        if (r.wants_desc()) r.desc(vf::fmt("serialize(o, indent_level = %zu) of ", indent) + show_val(v));
        r.nontriv();
        JSON j = build(v);
        std::string err;
        for (uint32_t o = 0; o < 64 && err.empty(); o++) {
          std::string t = j.serialize(o, indent);
          Parsed p = try_parse(t, !(o & NONSTANDARD));
          r.transitions += 2;
          if (!p.ok) err = "serialize(" + opt_names(o) + vf::fmt(", %zu) = ", indent) + brief(t) + " rejected: " + p.exc;
          else if (!jref::differs(p.value, v, FTOL, true).empty()) err = "serialize(" + opt_names(o) + vf::fmt(", %zu) = ", indent) + brief(t) + " parses as " + brief(p.value.serialize(SORT));
          else if (!(o & JSON::SerializeOption::FORMAT) && (v.k != Val::LIST && v.k != Val::DICT) && t != j.serialize(o)) err = "a scalar's text depends on indent_level";
        }
        // defaulted arguments
        if (err.empty() && (j.serialize() != j.serialize(0) || j.serialize(0) != j.serialize(0, 0))) err = "serialize() / serialize(0) / serialize(0, 0) differ";
        if (!err.empty()) r.fail("indent-level:text-does-not-round-trip", [&] { return "value " + show_val(v) + ": " + err; });
        else r.ok("indent-level:round-trips");
      }
  }
  if (cx.dat) fclose(cx.dat);
  r.bound = vf::fmt("strings of %zu lengths (15..%s bytes, all byte values) as value and key; lists of 255..%s entries (ints, mixed), dictionaries of 255..4 096 (thorough 16 385) keys; resize() to 0, 1, 2, 255, 256, 65536, 65537 and back; "
                    "indent_level in {1, 2, 3, 8, 17, 4096} x 64 option sets on 14 values; option sets reduced for the largest sizes (see notes)", lens.size(), T ? "1 MiB" : "64 KiB", T ? "1 000 000" : "65 537");
}
