// C19: call sites with extreme line numbers and odd file names (#line), included by C19_hist.cc only.
// The file/line an expectation carries must be the call site's even when the line does not fit 16 bits, is
// INT_MAX, or the file name contains blanks and printf conversion characters.
#pragma once
#include "C19_common.hh"

namespace c19 {

// each function: one relation macro and one expect_raises at a fixed (#line) site; `fail` selects the verdict
struct SiteCall {
  const char* name;
  Res (*rel)(bool fail, Site& s);
  Res (*raises)(int beh, Site& s);  // beh: 0 returns, 1 throws runtime_error (match), 2 throws logic_error, 3 throws int
  bool raises_std_exception;        // the expected type at that site is std::exception (logic_error matches too)
};

inline void site_behave(int beh) {
  if (beh == 1) throw std::runtime_error("r");
  if (beh == 2) throw std::logic_error("l");
  if (beh == 3) throw 42;
}

// clang-format off
inline Res site1_rel(bool fail, Site& s) { int a = 1, b = fail ? 2 : 1; return probe([&] {
#line 1 "one.cc"
s.file = __FILE__; s.line = __LINE__; expect_eq(a, b);
#line 24 "harness/C19_sites.hh"
}); }
inline Res site1_raises(int beh, Site& s) { return probe([&] {
#line 1 "one.cc"
s.file = __FILE__; s.line = __LINE__; expect_raises(std::runtime_error, [&] { site_behave(beh); });
#line 29 "harness/C19_sites.hh"
}); }
inline Res site16_rel(bool fail, Site& s) { int a = 1, b = fail ? 2 : 1; return probe([&] {
#line 65535 "/abs/path with blanks/65535.cc"
s.file = __FILE__; s.line = __LINE__; expect_lt(b, a + 1);
#line 34 "harness/C19_sites.hh"
}); }
inline Res site16_raises(int beh, Site& s) { return probe([&] {
#line 65536 "/abs/path with blanks/65536.cc"
s.file = __FILE__; s.line = __LINE__; expect_raises(std::runtime_error, [&] { site_behave(beh); });
#line 39 "harness/C19_sites.hh"
}); }
inline Res site17_rel(bool fail, Site& s) { int a = 1, b = fail ? 2 : 1; return probe([&] {
#line 65536 "100%s sure %n %d.cc"
s.file = __FILE__; s.line = __LINE__; expect_ge(a, b);
#line 44 "harness/C19_sites.hh"
}); }
inline Res site17_raises(int beh, Site& s) { return probe([&] {
#line 16777217 "100%s sure %n %d.cc"
s.file = __FILE__; s.line = __LINE__; expect_raises(std::exception, [&] { site_behave(beh); });
#line 49 "harness/C19_sites.hh"
}); }
inline Res site31_rel(bool fail, Site& s) { int a = 1, b = fail ? 2 : 1; return probe([&] {
#line 2147483647 "max.cc"
s.file = __FILE__; s.line = __LINE__; expect(a == b);
#line 54 "harness/C19_sites.hh"
}); }
inline Res site31_raises(int beh, Site& s) { return probe([&] {
#line 2147483647 "max.cc"
s.file = __FILE__; s.line = __LINE__; expect_raises(std::runtime_error, [&] { site_behave(beh); });
#line 59 "harness/C19_sites.hh"
}); }
inline Res sitemsg_rel(bool fail, Site& s) { int a = 1, b = fail ? 2 : 1; return probe([&] {
#line 2147483646 "a/very/long/directory/name/that/goes/on/and/on/0123456789/0123456789/0123456789/0123456789/0123456789/0123456789/0123456789/0123456789/0123456789/0123456789/0123456789/0123456789/0123456789/0123456789/0123456789/0123456789/0123456789/0123456789/0123456789/0123456789/0123456789/0123456789/0123456789/0123456789/0123456789/0123456789/0123456789/0123456789/0123456789/0123456789/file.cc"
s.file = __FILE__; s.line = __LINE__; expect_msg(a == b, "message with 100% of the usual conversions: %s %d %n %%");
#line 64 "harness/C19_sites.hh"
}); }
// clang-format on

inline const std::vector<SiteCall>& site_calls() {
  static const std::vector<SiteCall> v = {
      {"line 1", site1_rel, site1_raises, false},
      {"line 65535/65536", site16_rel, site16_raises, false},
      {"line 65536/16777217, file name with printf conversions", site17_rel, site17_raises, true},
      {"line 2147483647", site31_rel, site31_raises, false},
      {"line 2147483646, 350-character file name, message with printf conversions", sitemsg_rel, nullptr, false},
  };
  return v;
}

}  // namespace c19
