// C12_core.hh — shared by harness/C12.cc, C12_types.cc, C12_big.cc.
//
// E-BFS over the real LRUSet / LRUMap (DESIGN.md §5 C12).  A state is an operation history replayed on
// fresh objects (two instances X and Y, so that swap is covered); it is identified by a canonical
// string read through the *real* head/next links (white-box) plus total_size.  The abstract space of
// every scope is finite, so the search runs to a FIXPOINT.  In every state reached: the return value /
// exception class of the operation, the list order, sizes, values and total read through the links,
// size()/count()/peek()/empty(), and the white-box link invariant are compared with a reference
// recency list; every state is finally drained with evict_object and destroyed under ASan/LSan.
//
// The merging of states is validated by un-merged runs: every operation sequence up to a length bound
// is executed from scratch with the same per-step oracle, and every state it passes through must be a
// state of the closure at BFS depth <= the number of steps taken.
//
// Round 2: the systems under test are templates over a key codec and a value codec (int, std::string,
// a key type whose std::hash maps everything into one bucket, std::unique_ptr values), sizes are full
// 64-bit quantities, calls can be made in an execution context (catch handler, destructor during
// unwinding, another thread) and with an argument that aliases the container's own stored key.
#pragma once
#include <stdlib.h>
#include <string.h>
#include <unistd.h>

#include <memory>
#include <stdexcept>
#include <string>
#include <system_error>
#include <thread>
#include <utility>
#include <vector>

#include "LRUMap.hh"
#include "LRUSet.hh"
#include "bfs.hh"
#include "vf.hh"

namespace c12 {

// a key whose std::hash puts every key into one bucket (the key itself is a heap string)
struct CKey {
  std::string s;
  bool operator==(const CKey& o) const { return s == o.s; }
};

}  // namespace c12

template <>
struct std::hash<c12::CKey> {
  size_t operator()(const c12::CKey&) const noexcept { return 7; }
};

namespace c12 {

using namespace phosg;

// ---- operations -----------------------------------------------------------------------------------

enum Kind : uint8_t {
  INSERT, INSERT_DEF, INSERT_C, INSERT_C_DEF, INSERT_CM, EMPLACE, EMPLACE_DEF, ERASE, TOUCH, TOUCH_SZ, TOUCH_NEG,
  CHANGE_SIZE, CHANGE_SIZE_F, AT, AT_CONST, AT_WRITE, ITEM_SIZE, EVICT, PEEK, CLEAR, SWAP_XY, SWAP_YX, SWAP_XX
};

struct Op {
  Kind kind = INSERT;
  int k = 0;
  uint64_t s = 0;  // size argument (TOUCH_SZ / TOUCH_NEG: the bit pattern of the ssize_t argument)
  int v = 0;
  bool touch = false;
  bool alias = false;  // the key argument is a reference to the container's own stored key (when it holds the key)
};

inline const char* fn_name(Kind k) {
  switch (k) {
    case INSERT: case INSERT_DEF: return "insert";
    case INSERT_C: case INSERT_C_DEF: case INSERT_CM: return "insert(const&)";
    case EMPLACE: case EMPLACE_DEF: return "emplace";
    case ERASE: return "erase";
    case TOUCH: case TOUCH_SZ: case TOUCH_NEG: return "touch";
    case CHANGE_SIZE: case CHANGE_SIZE_F: return "change_size";
    case AT: case AT_WRITE: return "at";
    case AT_CONST: return "at-const";
    case ITEM_SIZE: return "item_size";
    case EVICT: return "evict_object";
    case PEEK: return "peek";
    case CLEAR: return "clear";
    case SWAP_XY: case SWAP_YX: case SWAP_XX: return "swap";
  }
  return "?";
}

// sizes: small ones decimal, boundary values by name
inline std::string sz(uint64_t s) {
  if (s < 1000000) return vf::fmt("%llu", (unsigned long long)s);
  for (int k = 20; k <= 64; k++) {
    uint64_t p = k == 64 ? 0 : (1ull << k);
    if (s == p - 1) return vf::fmt("2^%d-1", k);
    if (k < 64 && s == p) return vf::fmt("2^%d", k);
    if (s == p - 2) return vf::fmt("2^%d-2", k);
  }
  return vf::fmt("0x%llX", (unsigned long long)s);
}

inline std::string op_text(const Op& o, bool is_map) {
  std::string k = vf::fmt(o.alias ? "stored-key-%d" : "%d", o.k);
  const char* K = k.c_str();
  std::string ss = sz(o.s);
  const char* S = ss.c_str();
  switch (o.kind) {
    case INSERT: return is_map ? vf::fmt("X.insert(%s,%d,%s)", K, o.v, S) : vf::fmt("X.insert(%s,%s)", K, S);
    case INSERT_DEF: return is_map ? vf::fmt("X.insert(%s,%d)", K, o.v) : vf::fmt("X.insert(%s)", K);
    case INSERT_C: return vf::fmt("X.insert(const& %s,const& %d,%s)", K, o.v, S);
    case INSERT_C_DEF: return vf::fmt("X.insert(const& %s,const& %d)", K, o.v);
    case INSERT_CM: return vf::fmt("X.insert(const& %s,rvalue %d,%s)", K, o.v, S);
    case EMPLACE: return is_map ? vf::fmt("X.emplace(%s,%d,%s)", K, o.v, S) : vf::fmt("X.emplace(%s,%s)", K, S);
    case EMPLACE_DEF: return is_map ? vf::fmt("X.emplace(%s,%d)", K, o.v) : vf::fmt("X.emplace(%s)", K);
    case ERASE: return vf::fmt("X.erase(%s)", K);
    case TOUCH: return vf::fmt("X.touch(%s)", K);
    case TOUCH_SZ: return vf::fmt("X.touch(%s,%s)", K, S);
    case TOUCH_NEG: return vf::fmt("X.touch(%s,%lld)", K, (long long)o.s);
    case CHANGE_SIZE: return vf::fmt("X.change_size(%s,%s)", K, S);
    case CHANGE_SIZE_F: return vf::fmt("X.change_size(%s,%s,%s)", K, S, o.touch ? "true" : "false");
    case AT: return vf::fmt("X.at(%s)", K);
    case AT_CONST: return vf::fmt("const X.at(%s)", K);
    case AT_WRITE: return vf::fmt("X.at(%s)=%d", K, o.v);
    case ITEM_SIZE: return vf::fmt("X.item_size(%s)", K);
    case EVICT: return "X.evict_object()";
    case PEEK: return "X.peek()";
    case CLEAR: return "X.clear()";
    case SWAP_XY: return "X.swap(Y)";
    case SWAP_YX: return "Y.swap(X)";
    case SWAP_XX: return "X.swap(X)";
  }
  return "?";
}

// result of one call: void / bool / entry / value / size / exception class
struct Res {
  enum Code { VOID, BOOL, ENTRY, VALUE, SIZE, OUT_OF_RANGE, OTHER_EXCEPTION } code = VOID;
  uint64_t a = 0, b = 0, c = 0;
  bool operator==(const Res& o) const { return code == o.code && a == o.a && b == o.b && c == o.c; }
  std::string str(bool is_map) const {
    switch (code) {
      case VOID: return "(returns)";
      case BOOL: return a ? "true" : "false";
      case ENTRY: return is_map ? vf::fmt("{key %llu, value %llu, size %s}", (unsigned long long)a, (unsigned long long)b, sz(c).c_str()) : vf::fmt("{key %llu, size %s}", (unsigned long long)a, sz(c).c_str());
      case VALUE: return vf::fmt("value %llu", (unsigned long long)a);
      case SIZE: return "size " + sz(a);
      case OUT_OF_RANGE: return "throws out_of_range";
      case OTHER_EXCEPTION: return "throws something other than out_of_range";
    }
    return "?";
  }
};
inline Res rbool(bool b) { Res r; r.code = Res::BOOL; r.a = b; return r; }
inline Res rentry(uint64_t k, uint64_t v, uint64_t s) { Res r; r.code = Res::ENTRY; r.a = k; r.b = v; r.c = s; return r; }
inline Res rvalue(uint64_t v) { Res r; r.code = Res::VALUE; r.a = v; return r; }
inline Res rsize(uint64_t v) { Res r; r.code = Res::SIZE; r.a = v; return r; }
inline Res rcode(Res::Code c) { Res r; r.code = c; return r; }

// ---- the reference model: a recency list, front = most recently used ------------------------------
// (a fixed array instead of std::list only to keep allocation out of the 10^8-step un-merged runs;
//  at most 3 keys exist)

struct Entry {
  int k = 0, v = 0;
  size_t s = 0;
};

struct RecencyList {
  Entry e[4];
  int n = 0;
  // The statement says size() is the sum of the entries' sizes; when that sum does not fit a size_t the
  // demand is void.  `wrapped` is set as soon as the mathematical sum has exceeded SIZE_MAX and stays set
  // until clear(): from then on size()/total_size are don't-care (executed, not compared); order, the
  // entries' own sizes, count and the links are still compared.
  bool wrapped = false;
  int find(int k) const {
    for (int i = 0; i < n; i++) if (e[i].k == k) return i;
    return -1;
  }
  void push_front(const Entry& x) {
    for (int i = n; i > 0; i--) e[i] = e[i - 1];
    e[0] = x;
    n++;
  }
  void remove(int i) {
    for (; i + 1 < n; i++) e[i] = e[i + 1];
    n--;
  }
  void to_front(int i) {
    Entry x = e[i];
    remove(i);
    push_front(x);
  }
  size_t total() const {
    size_t t = 0;
    for (int i = 0; i < n; i++) t += e[i].s;
    return t;
  }
  void note_sum() {
    unsigned __int128 t = 0;
    for (int i = 0; i < n; i++) t += e[i].s;
    if (t > (unsigned __int128)SIZE_MAX) wrapped = true;
  }
};

// Which operations refresh recency is the library's own documented behaviour (LRUSet-inl.hh comment
// "item already existed ... just update the size and move the item to the front of the lru", touch;
// LRUMap.hh: at() touches, insert on an existing key touches, change_size(touch = true), touch();
// emplace on an existing key "returns false" and changes nothing).
inline Res model_apply_raw(RecencyList& X, RecencyList& Y, const Op& o, bool is_map) {
  int i = X.find(o.k);
  switch (o.kind) {
    case INSERT: case INSERT_DEF: case INSERT_C: case INSERT_C_DEF: case INSERT_CM: case EMPLACE: case EMPLACE_DEF: {
      bool def = o.kind == INSERT_DEF || o.kind == INSERT_C_DEF || o.kind == EMPLACE_DEF;
      size_t s = def ? (is_map ? 1 : 0) : (size_t)o.s;  // documented default sizes: LRUSet 0, LRUMap 1
      if (i < 0) {
        Entry x;
        x.k = o.k; x.v = o.v; x.s = s;
        X.push_front(x);
        return rbool(true);
      }
      if (is_map && (o.kind == EMPLACE || o.kind == EMPLACE_DEF)) return rbool(false);  // existing key: untouched
      X.e[i].s = s;
      if (is_map) X.e[i].v = o.v;
      X.to_front(i);
      return rbool(false);
    }
    case ERASE:
      if (i < 0) return rbool(false);
      X.remove(i);
      return rbool(true);
    case TOUCH: case TOUCH_SZ: case TOUCH_NEG:
      if (i < 0) return rbool(false);
      if (o.kind == TOUCH_SZ) X.e[i].s = (size_t)o.s;
      X.to_front(i);  // TOUCH_NEG: the entry's size is adopted from the real object afterwards (don't care)
      return rbool(true);
    case CHANGE_SIZE: case CHANGE_SIZE_F: {
      if (i < 0) return rbool(false);
      X.e[i].s = (size_t)o.s;
      bool touch = is_map && (o.kind == CHANGE_SIZE || o.touch);  // LRUSet::change_size never touches
      if (touch) X.to_front(i);
      return rbool(true);
    }
    case AT: case AT_CONST: case AT_WRITE: {
      if (i < 0) return rcode(Res::OUT_OF_RANGE);
      if (o.kind == AT_WRITE) X.e[i].v = o.v;
      uint64_t v = (uint64_t)X.e[i].v;
      X.to_front(i);
      return o.kind == AT_WRITE ? rcode(Res::VOID) : rvalue(v);
    }
    case ITEM_SIZE:
      if (i < 0) return rcode(Res::OUT_OF_RANGE);
      return rsize(X.e[i].s);
    case EVICT: case PEEK: {
      if (X.n == 0) return rcode(Res::OUT_OF_RANGE);
      Entry x = X.e[X.n - 1];  // least recently used
      if (o.kind == EVICT) X.remove(X.n - 1);
      return rentry((uint64_t)x.k, is_map ? (uint64_t)x.v : 0, x.s);
    }
    case CLEAR: X.n = 0; X.wrapped = false; return rcode(Res::VOID);
    case SWAP_XY: case SWAP_YX: std::swap(X, Y); return rcode(Res::VOID);
    case SWAP_XX: return rcode(Res::VOID);
  }
  return rcode(Res::VOID);
}

// ---- canonical form ------------------------------------------------------------------------------

struct Canon {
  char b[232];
  Canon() { memset(b, 0, sizeof(b)); }
  bool operator==(const Canon& o) const { return memcmp(b, o.b, sizeof(b)) == 0; }
  bool operator!=(const Canon& o) const { return !(*this == o); }
  std::string str() const { return std::string(b); }
};
struct HashCanon {
  uint64_t operator()(const Canon& c) const {
    uint64_t h = 0xCBF29CE484222325ull;
    for (size_t i = 0; i < sizeof(c.b) && c.b[i]; i++) h = (h ^ (unsigned char)c.b[i]) * 0x100000001B3ull;
    return bfs::mix64(h);
  }
};
struct CanonWriter {
  Canon& c;
  size_t n = 0;
  explicit CanonWriter(Canon& cc) : c(cc) {}
  void ch(char x) {
    if (n + 1 >= sizeof(c.b)) {  // a truncated key would merge distinct states: harness bug, never a finding
      fprintf(stderr, "C12 harness: canonical form does not fit %zu bytes\n", sizeof(c.b));
      abort();
    }
    c.b[n++] = x;
  }
  void num(unsigned long long v) {
    char t[24];
    int m = 0;
    do { t[m++] = (char)('0' + v % 10); v /= 10; } while (v);
    while (m) ch(t[--m]);
  }
  void entry(uint64_t k, uint64_t v, size_t s, bool is_map) {
    ch('k'); num(k);
    if (is_map) { ch('v'); num(v); }
    ch('s'); num(s);
    ch(' ');
  }
  void total(size_t t, bool wrapped) {
    ch('|');
    if (wrapped) ch('?');  // don't-care total: not part of the state
    else num(t);
  }
};

inline void model_canon_one(const RecencyList& L, CanonWriter& w, bool is_map) {
  for (int i = 0; i < L.n; i++) w.entry((uint64_t)L.e[i].k, (uint64_t)L.e[i].v, L.e[i].s, is_map);
  w.total(L.total(), L.wrapped);
}

// ---- key / value codecs ----------------------------------------------------------------------------
// make(i): the i-th key (value) of the scope; id(x): back to the small integer (9 / 99: not one of ours,
// e.g. a moved-from or corrupted object)

struct IntKey {
  using K = int;
  static K make(int i) { return i; }
  static uint64_t id(const K& k) { return (uint64_t)(unsigned)k; }
  static const char* name() { return "int"; }
};
struct StrKey {
  using K = std::string;
  // key 0 lives in the small-string buffer, keys 1 and 2 are heap strings that differ in the last byte only
  static const K& ref(int i) {
    static const K t[3] = {"a", "key-with-a-long-common-prefix-that-lives-on-the-heap-1", "key-with-a-long-common-prefix-that-lives-on-the-heap-2"};
    return t[i];
  }
  static K make(int i) { return ref(i); }
  static uint64_t id(const K& k) {
    for (int i = 0; i < 3; i++) if (k == ref(i)) return (uint64_t)i;
    return 9;
  }
  static const char* name() { return "std::string"; }
};
struct CollKey {
  using K = CKey;
  static K make(int i) { return CKey{StrKey::ref(i)}; }
  static uint64_t id(const K& k) { return StrKey::id(k.s); }
  static const char* name() { return "one-bucket-key"; }
};

struct IntVal {
  using V = int;
  static constexpr bool copyable = true;
  static V make(int v) { return v; }
  static uint64_t id(const V& v) { return (uint64_t)(unsigned)v; }
  static const char* name() { return "int"; }
};
struct StrVal {
  using V = std::string;
  static constexpr bool copyable = true;
  static const V& ref(int i) {
    static const V t[2] = {"value-10-long-enough-to-be-allocated-on-the-heap-................", "v11"};
    return t[i];
  }
  static V make(int v) { return ref(v == 10 ? 0 : 1); }
  static uint64_t id(const V& v) { return v == ref(0) ? 10 : v == ref(1) ? 11 : 99; }
  static const char* name() { return "std::string"; }
};
struct UPtrVal {
  using V = std::unique_ptr<int>;
  static constexpr bool copyable = false;
  static V make(int v) { return std::make_unique<int>(v); }
  static uint64_t id(const V& v) { return v ? (uint64_t)(unsigned)*v : 99; }
  static const char* name() { return "std::unique_ptr<int>"; }
};

// ---- the objects ------------------------------------------------------------------------------------

template <class C, bool Heap>
struct WorldT;
template <class C>
struct WorldT<C, false> {
  C X, Y;
  RecencyList MX, MY;
};
// heap objects destroyed through a base pointer: X is an object of a derived class (the containers have
// protected members and a virtual destructor, i.e. they are meant to be derived from), Y the class itself
template <class C>
struct WorldT<C, true> {
  struct Derived : C {
    std::string own = "a member of the derived class that must be destroyed too (heap string)";
    ~Derived() override {}
  };
  C* px;
  C* py;
  C& X;
  C& Y;
  RecencyList MX, MY;
  WorldT() : px(new Derived), py(new C), X(*px), Y(*py) {}
  WorldT(const WorldT&) = delete;
  WorldT& operator=(const WorldT&) = delete;
  ~WorldT() {
    delete px;
    delete py;
  }
};

// the argument for a `const K&` parameter: a fresh key, or the container's own stored key object
template <class C, class K>
const K& key_arg(C& L, const K& fresh, bool alias) {
  if (alias) {
    auto it = L.items.find(fresh);
    if (it != L.items.end()) return it->first;
  }
  return fresh;
}

// white-box walk through the real links; false + problem when the link invariant is broken
template <class C, class KC, class EntryOut>
bool inspect_links(C& L, bool wrapped, CanonWriter& out, std::string& problem, EntryOut&& entry_out) {
  size_t n = L.items.size(), steps = 0, sum = 0;
  if ((L.head == nullptr) != (L.tail == nullptr)) { problem = "head and tail are not null together"; return false; }
  if ((n == 0) != (L.head == nullptr)) { problem = "head is null iff the map is empty does not hold"; return false; }
  if (L.head && L.head->prev) { problem = "head->prev is not null"; return false; }
  if (L.tail && L.tail->next) { problem = "tail->next is not null"; return false; }
  typename C::Item* prev = nullptr;
  for (typename C::Item* i = L.head; i; prev = i, i = i->next) {
    if (++steps > n) { problem = "list is longer than the map (cycle or stale node)"; return false; }
    if (i->prev != prev) { problem = "prev link does not mirror next link"; return false; }
    if (!i->key) { problem = "node has a null key pointer"; return false; }
    auto it = L.items.find(*i->key);
    if (it == L.items.end() || &it->second != i) { problem = "linked node is not the map's node for its key"; return false; }
    if (i->key != &it->first) { problem = "key pointer does not point at the node's own map key"; return false; }
    sum += i->size;
    entry_out(i);
  }
  if (prev != L.tail) { problem = "tail is not the last node reached from head"; return false; }
  if (steps != n) { problem = "list is shorter than the map"; return false; }
  out.total(L.total_size, wrapped);
  if (!wrapped && sum != L.total_size) { problem = vf::fmt("total_size is %zu but the entries sum to %zu", L.total_size, sum); return false; }
  return true;
}

// ---- the systems under test -------------------------------------------------------------------------

template <class KC, bool Heap = false>
struct SetSysT {
  static constexpr bool is_map = false;
  static const char* cname() { return "LRUSet"; }
  static std::string tname() { return std::string("LRUSet<") + KC::name() + ">" + (Heap ? " on the heap, X of a derived class" : ""); }
  using K = typename KC::K;
  using C = LRUSet<K>;
  using World = WorldT<C, Heap>;

  static Res real(World& w, const Op& o) {
    try {
      K fresh = KC::make(o.k);
      switch (o.kind) {
        case INSERT: return rbool(w.X.insert(key_arg(w.X, fresh, o.alias), (size_t)o.s));
        case INSERT_DEF: return rbool(w.X.insert(key_arg(w.X, fresh, o.alias)));
        case EMPLACE: return rbool(w.X.emplace(std::move(fresh), (size_t)o.s));
        case EMPLACE_DEF: return rbool(w.X.emplace(std::move(fresh)));
        case ERASE: return rbool(w.X.erase(key_arg(w.X, fresh, o.alias)));
        case TOUCH: return rbool(w.X.touch(key_arg(w.X, fresh, o.alias)));
        case TOUCH_SZ: case TOUCH_NEG: return rbool(w.X.touch(key_arg(w.X, fresh, o.alias), (ssize_t)o.s));
        case CHANGE_SIZE: return rbool(w.X.change_size(key_arg(w.X, fresh, o.alias), (size_t)o.s));
        case EVICT: { auto p = w.X.evict_object(); return rentry(KC::id(p.first), 0, p.second); }
        case PEEK: { auto p = w.X.peek(); return rentry(KC::id(p.first), 0, p.second); }
        case CLEAR: w.X.clear(); return rcode(Res::VOID);
        case SWAP_XY: w.X.swap(w.Y); return rcode(Res::VOID);
        case SWAP_YX: w.Y.swap(w.X); return rcode(Res::VOID);
        case SWAP_XX: w.X.swap(w.X); return rcode(Res::VOID);
        default: break;
      }
    } catch (const std::out_of_range&) { return rcode(Res::OUT_OF_RANGE);
    } catch (...) { return rcode(Res::OTHER_EXCEPTION); }
    return rcode(Res::VOID);
  }

  static size_t stored_size(C& L, int k) {
    auto it = L.items.find(KC::make(k));
    return it == L.items.end() ? 0 : it->second.size;
  }
  static bool inspect_one(C& L, bool wrapped, CanonWriter& out, std::string& problem) {
    return inspect_links<C, KC>(L, wrapped, out, problem, [&](typename C::Item* i) { out.entry(KC::id(*i->key), 0, i->size, false); });
  }
  static bool observe_one(C& L, const RecencyList& M, const char* which, std::string& what) {
    if (!M.wrapped && L.size() != M.total()) { what = vf::fmt("size:%s.size() == %zu, expected %zu", which, L.size(), M.total()); return false; }
    if (L.count() != (size_t)M.n) { what = vf::fmt("count:%s.count() == %zu, expected %d", which, L.count(), M.n); return false; }
    // peek() on an empty set must throw; that is decided by the PEEK letter of the alphabet (and by the
    // drain of every BFS state), not re-thrown after each of the ~10^8 steps (C++ throws are slow under ASan)
    if (M.n == 0) return true;
    Res got;
    try { auto p = L.peek(); got = rentry(KC::id(p.first), 0, p.second);
    } catch (const std::out_of_range&) { got = rcode(Res::OUT_OF_RANGE);
    } catch (...) { got = rcode(Res::OTHER_EXCEPTION); }
    Res exp = rentry((uint64_t)M.e[M.n - 1].k, 0, M.e[M.n - 1].s);
    if (!(got == exp)) { what = std::string("peek:") + which + ".peek(): " + got.str(false) + ", expected " + exp.str(false); return false; }
    return true;
  }
  static Res evict(C& L) {
    try { auto p = L.evict_object(); return rentry(KC::id(p.first), 0, p.second);
    } catch (const std::out_of_range&) { return rcode(Res::OUT_OF_RANGE);
    } catch (...) { return rcode(Res::OTHER_EXCEPTION); }
  }
};

template <class KC, class VC, bool Heap = false>
struct MapSysT {
  static constexpr bool is_map = true;
  static const char* cname() { return "LRUMap"; }
  static std::string tname() { return std::string("LRUMap<") + KC::name() + "," + VC::name() + ">" + (Heap ? " on the heap, X of a derived class" : ""); }
  using K = typename KC::K;
  using V = typename VC::V;
  using C = LRUMap<K, V>;
  using World = WorldT<C, Heap>;
#ifdef C12_HAVE_INSERT_CONSTREF
  static constexpr bool have_insert_c = VC::copyable;
#else
  static constexpr bool have_insert_c = false;
#endif

  static Res real(World& w, const Op& o) {
    try {
      K fresh = KC::make(o.k);
      V vv = VC::make(o.v);
      switch (o.kind) {
        case INSERT: return rbool(w.X.insert(std::move(fresh), std::move(vv), (size_t)o.s));
        case INSERT_DEF: return rbool(w.X.insert(std::move(fresh), std::move(vv)));
        case INSERT_C: case INSERT_C_DEF: case INSERT_CM: {
          if constexpr (have_insert_c) {
            const K& kr = key_arg(w.X, fresh, o.alias);
            const V& vr = vv;
            if (o.kind == INSERT_C) return rbool(w.X.insert(kr, vr, (size_t)o.s));
            if (o.kind == INSERT_C_DEF) return rbool(w.X.insert(kr, vr));
            // an lvalue key with an rvalue value also selects the (const&, const&) overload: the value must be
            // copied (checked through the stored value) and the call must behave like the plain one
            return rbool(w.X.insert(kr, std::move(vv), (size_t)o.s));
          } else {
            return rcode(Res::OTHER_EXCEPTION);
          }
        }
        case EMPLACE: return rbool(w.X.emplace(std::move(fresh), std::move(vv), (size_t)o.s));
        case EMPLACE_DEF: return rbool(w.X.emplace(std::move(fresh), std::move(vv)));
        case ERASE: return rbool(w.X.erase(key_arg(w.X, fresh, o.alias)));
        case TOUCH: return rbool(w.X.touch(key_arg(w.X, fresh, o.alias)));
        case TOUCH_SZ: case TOUCH_NEG: return rbool(w.X.touch(key_arg(w.X, fresh, o.alias), (ssize_t)o.s));
        case CHANGE_SIZE: return rbool(w.X.change_size(key_arg(w.X, fresh, o.alias), (size_t)o.s));
        case CHANGE_SIZE_F: return rbool(w.X.change_size(key_arg(w.X, fresh, o.alias), (size_t)o.s, o.touch));
        case AT: { V& ref = w.X.at(key_arg(w.X, fresh, o.alias)); return rvalue(VC::id(ref)); }
        case AT_CONST: {
#ifdef C12_HAVE_AT_CONST
          const C& cx = w.X;
          const V& ref = cx.at(key_arg(w.X, fresh, o.alias));
          return rvalue(VC::id(ref));
#else
          return rcode(Res::OTHER_EXCEPTION);
#endif
        }
        case AT_WRITE: w.X.at(key_arg(w.X, fresh, o.alias)) = std::move(vv); return rcode(Res::VOID);
        case ITEM_SIZE: return rsize(w.X.item_size(key_arg(w.X, fresh, o.alias)));
        case EVICT: { auto e = w.X.evict_object(); return rentry(KC::id(e.key), VC::id(e.value), e.size); }
        case CLEAR: w.X.clear(); return rcode(Res::VOID);
        case SWAP_XY: w.X.swap(w.Y); return rcode(Res::VOID);
        case SWAP_YX: w.Y.swap(w.X); return rcode(Res::VOID);
        case SWAP_XX: w.X.swap(w.X); return rcode(Res::VOID);
        default: break;
      }
    } catch (const std::out_of_range&) { return rcode(Res::OUT_OF_RANGE);
    } catch (...) { return rcode(Res::OTHER_EXCEPTION); }
    return rcode(Res::VOID);
  }

  static size_t stored_size(C& L, int k) {
    auto it = L.items.find(KC::make(k));
    return it == L.items.end() ? 0 : it->second.size;
  }
  static bool inspect_one(C& L, bool wrapped, CanonWriter& out, std::string& problem) {
    return inspect_links<C, KC>(L, wrapped, out, problem, [&](typename C::Item* i) { out.entry(KC::id(*i->key), VC::id(i->value), i->size, true); });
  }
  static bool observe_one(C& L, const RecencyList& M, const char* which, std::string& what) {
    if (!M.wrapped && L.size() != M.total()) { what = vf::fmt("size:%s.size() == %zu, expected %zu", which, L.size(), M.total()); return false; }
    if (L.count() != (size_t)M.n) { what = vf::fmt("count:%s.count() == %zu, expected %d", which, L.count(), M.n); return false; }
    if (L.empty() != (M.n == 0)) { what = vf::fmt("empty:%s.empty() == %d with %d entries", which, (int)L.empty(), M.n); return false; }
    return true;
  }
  static Res evict(C& L) {
    try { auto e = L.evict_object(); return rentry(KC::id(e.key), VC::id(e.value), e.size);
    } catch (const std::out_of_range&) { return rcode(Res::OUT_OF_RANGE);
    } catch (...) { return rcode(Res::OTHER_EXCEPTION); }
  }
};

// ---- execution contexts ----------------------------------------------------------------------------------
// f never throws (the systems catch everything themselves)

enum CtxKind { PLAIN = 0, IN_HANDLER = 1, UNWINDING = 2, OTHER_THREAD = 3 };

template <class F>
struct RunInDtor {
  F& f;
  ~RunInDtor() { f(); }
};

inline uint64_t& thread_fallbacks() {
  static uint64_t n = 0;
  return n;
}

template <class F>
void in_context(int ctx, F&& f) {
  switch (ctx) {
    case IN_HANDLER:
      try { throw std::runtime_error("an unrelated failure being handled"); } catch (const std::exception&) { f(); }
      break;
    case UNWINDING:
      try {
        RunInDtor<F> d{f};
        throw std::out_of_range("an unrelated out_of_range propagating while the call is made from a destructor");
      } catch (const std::exception&) {}
      break;
    case OTHER_THREAD: {
      // a thread that cannot be created (EAGAIN on an overloaded machine) must not become a finding
      bool ran = false;
      for (int attempt = 0; attempt < 100 && !ran; attempt++) {
        try {
          std::thread t([&] { f(); });
          t.join();
          ran = true;
        } catch (const std::system_error&) {
          usleep(20000);
        }
      }
      if (!ran) {
        thread_fallbacks()++;
        f();
      }
      break;
    }
    default: f(); break;
  }
}

// context plans for whole sequences: which context the step with index i runs in
enum Plan { ALL_PLAIN = 0, ALL_IN_HANDLER, ALL_UNWINDING, THREAD_ON_ODD_STEPS, THREAD_ON_EVEN_STEPS };
inline int ctx_of(int plan, size_t step) {
  switch (plan) {
    case ALL_IN_HANDLER: return IN_HANDLER;
    case ALL_UNWINDING: return UNWINDING;
    case THREAD_ON_ODD_STEPS: return (step & 1) ? OTHER_THREAD : PLAIN;
    case THREAD_ON_EVEN_STEPS: return (step & 1) ? PLAIN : OTHER_THREAD;
    default: return PLAIN;
  }
}
inline const char* plan_name(int plan) {
  switch (plan) {
    case ALL_IN_HANDLER: return "every call inside a catch handler";
    case ALL_UNWINDING: return "every call from a destructor while an out_of_range is propagating";
    case THREAD_ON_ODD_STEPS: return "calls 2, 4, ... each on a fresh thread, the others on the main thread";
    case THREAD_ON_EVEN_STEPS: return "calls 1, 3, ... each on a fresh thread, the others on the main thread";
    default: return "plain calls";
  }
}

// ---- checker shared by the BFS and the un-merged runs ------------------------------------------------

template <class Sys>
struct Checker {
  using World = typename Sys::World;
  using Table = bfs::Table<Canon, HashCanon>;
  struct Ctx {  // the history text is only rendered when a failure is described
    bool report;
    const std::vector<uint32_t>* hist;
    size_t len;
  };

  vf::Run& r;
  std::vector<Op> alpha;
  std::vector<std::string> names;
  std::string note_buf;
  int plan = ALL_PLAIN;

  Checker(vf::Run& run, std::vector<Op> a) : r(run), alpha(std::move(a)) {
    for (auto& o : alpha) names.push_back(op_text(o, Sys::is_map));
  }

  template <class F>
  void fail(const Ctx& c, const std::string& key, F&& what) {
    if (!c.report) return;
    r.fail(key, [&] { return Sys::tname() + (plan ? std::string(", ") + plan_name(plan) : std::string()) + ": after history [" + describe(*c.hist, c.len) + "]: " + what(); });
  }
  std::string key_of(const Op& o, const char* kind) const { return std::string(Sys::cname()) + "::" + fn_name(o.kind) + ":" + kind; }

  // the operation on the real objects (in the given context) and on the model
  static void apply_both(World& w, const Op& o, int ctx, Res& got, Res& exp) {
    if (ctx == PLAIN) got = Sys::real(w, o);
    else in_context(ctx, [&] { got = Sys::real(w, o); });
    exp = model_apply_raw(w.MX, w.MY, o, Sys::is_map);
    // touch(k, n) with a negative n other than the default -1: only "the entry is refreshed" is demanded; the
    // size the entry ends up with is taken over from the real object
    if (o.kind == TOUCH_NEG && exp.code == Res::BOOL && exp.a) w.MX.e[0].s = Sys::stored_size(w.X, o.k);
    w.MX.note_sum();
    w.MY.note_sum();
  }

  static bool inspect(World& w, Canon& c, std::string& problem) {
    CanonWriter cw(c);
    if (!Sys::inspect_one(w.X, w.MX.wrapped, cw, problem)) { problem = "X: " + problem; return false; }
    cw.ch('/');
    if (!Sys::inspect_one(w.Y, w.MY.wrapped, cw, problem)) { problem = "Y: " + problem; return false; }
    return true;
  }
  static Canon model_canon(const World& w) {
    Canon c;
    CanonWriter cw(c);
    model_canon_one(w.MX, cw, Sys::is_map);
    cw.ch('/');
    model_canon_one(w.MY, cw, Sys::is_map);
    return c;
  }

  void set_note(const Op* o, const std::string* name, const std::string& hs) {
    note_buf.assign("call:");
    note_buf += Sys::cname();
    note_buf += "::";
    note_buf += o ? fn_name(o->kind) : "replay";
    note_buf += ' ';
    if (name) { note_buf += *name; note_buf += ' '; }
    note_buf += "after [";
    note_buf += hs;
    note_buf += ']';
    r.note(note_buf);
  }

  // One operation on the real objects and on the model, followed by every per-step check.
  // false: the objects must not be used any further (invariant broken / diverged from the model).
  bool step(World& w, size_t letter, const Ctx& c, Canon* out) {
    const Op& o = alpha[letter];
    Res got, exp;
    apply_both(w, o, ctx_of(plan, c.len), got, exp);
    if (!(got == exp)) fail(c, key_of(o, "result"), [&] { return names[letter] + ": " + got.str(Sys::is_map) + ", expected " + exp.str(Sys::is_map); });
    Canon cr;
    std::string problem;
    if (!inspect(w, cr, problem)) {
      fail(c, key_of(o, "link-invariant"), [&] { return names[letter] + " leaves " + problem; });
      return false;
    }
    Canon cm = model_canon(w);
    if (cr != cm) {
      fail(c, key_of(o, "state"), [&] { return names[letter] + ": lists read through the real links (head..tail|total_size, X/Y) are [" + cr.str() + "], reference recency list is [" + cm.str() + "]"; });
      return false;
    }
    std::string what;
    if (!Sys::observe_one(w.X, w.MX, "X", what) || !Sys::observe_one(w.Y, w.MY, "Y", what)) {
      size_t colon = what.find(':');
      fail(c, std::string(Sys::cname()) + "::" + what.substr(0, colon) + ":after-" + fn_name(o.kind), [&] { return "after " + names[letter] + ": " + what.substr(colon + 1); });
      return false;
    }
    // observers must not move anything
    Canon c2;
    if (!inspect(w, c2, problem) || c2 != cr) {
      fail(c, std::string(Sys::cname()) + "::observers:change-state", [&] { return "size()/count()/peek()/empty() after " + names[letter] + " changed the lists to [" + c2.str() + "] " + problem; });
      return false;
    }
    if (out) *out = cr;
    return true;
  }

  // Rebuilds a state: operations only, no per-step checks (every step of every stored history was
  // checked when it was first taken; the rebuilt canonical form is compared once per state).
  bool replay(World& w, const std::vector<uint32_t>& h) {
    Res got, exp;
    for (uint32_t l : h) apply_both(w, alpha[l], PLAIN, got, exp);
    return true;
  }

  // final drain: repeated evict_object must hand back the model's entries from least to most recent
  // past_the_end: also demand that one more evict_object on the emptied container throws out_of_range
  void drain_one(typename Sys::C& L, RecencyList& M, const char* which, const Ctx& c, bool past_the_end) {
    for (int guard = 0; guard < 8; guard++) {
      if (!M.n && !past_the_end) break;
      Res exp = M.n ? rentry((uint64_t)M.e[M.n - 1].k, Sys::is_map ? (uint64_t)M.e[M.n - 1].v : 0, M.e[M.n - 1].s) : rcode(Res::OUT_OF_RANGE);
      if (M.n) M.remove(M.n - 1);
      Res got = Sys::evict(L);
      if (!(got == exp)) {
        fail(c, std::string(Sys::cname()) + "::drain:evict_object", [&] { return std::string("draining ") + which + ": evict_object " + got.str(Sys::is_map) + ", expected " + exp.str(Sys::is_map); });
        return;
      }
      if (exp.code == Res::OUT_OF_RANGE) break;
    }
    if ((!M.wrapped && L.size() != 0) || L.count() != 0)
      fail(c, std::string(Sys::cname()) + "::drain:not-empty", [&] { return std::string("after draining ") + which + vf::fmt(": size() == %zu, count() == %zu", L.size(), L.count()); });
  }
  void drain(World& w, const Ctx& c, bool past_the_end) {
    drain_one(w.X, w.MX, "X", c, past_the_end);
    drain_one(w.Y, w.MY, "Y", c, past_the_end);
    Canon cr;
    std::string problem;
    if (!inspect(w, cr, problem)) fail(c, std::string(Sys::cname()) + "::drain:link-invariant", [&] { return "drained containers: " + problem; });
  }

  std::string describe(const std::vector<uint32_t>& h, size_t len) const {
    std::string s;
    for (size_t i = 0; i < len && i < h.size(); i++) { if (i) s += "; "; s += names[h[i]]; }
    return s;
  }

  // ---- search to fixpoint ---------------------------------------------------------------------------
  using Search = bfs::LevelSearch<Canon, HashCanon>;

  static Canon root_key() {
    World w;
    Canon c0;
    std::string problem;
    inspect(w, c0, problem);
    return c0;
  }

  // everything that is done for one state (runs inside a worker process, see bfs.hh)
  void expand(const Search& ls, uint32_t i, const typename Search::Emit& emit, bool mine) {
    std::vector<uint32_t> hist;
    ls.tab.history(i, hist);
    std::string hs = describe(hist, hist.size());
    Ctx c{mine, &hist, hist.size()};
    if (mine && r.wants_desc()) r.desc(vf::fmt("state %u [%s]: ", i, ls.tab.key(i).str().c_str()) + (hs.empty() ? "(fresh containers)" : hs));
    int nx = 0;
    {
      // replay: the canonical form must be reproduced; then drain and destroy
      World w;
      set_note(nullptr, nullptr, hs);
      replay(w, hist);
      Canon cr;
      std::string problem;
      if (!inspect(w, cr, problem) || cr != ls.tab.key(i)) {
        fail(c, std::string(Sys::cname()) + "::replay:canonical-form-differs", [&] { return "stored [" + ls.tab.key(i).str() + "], replay gives [" + cr.str() + "] " + problem; });
        if (mine) r.exhaustive = false;
        return;
      }
      nx = w.MX.n;
      if (mine) {
        r.states++;
        drain(w, c, true);
      }
    }
    for (size_t l = 0; l < alpha.size(); l++) {
      World w;
      replay(w, hist);
      set_note(&alpha[l], &names[l], hs);
      Canon cn;
      if (step(w, l, c, &cn)) emit((uint32_t)l, cn);
      if (mine) {
        r.transitions++;
        r.evals++;
        if (nx >= 2) r.nontriv();
      }
    }
    if (mine) r.ok(vf::fmt("state with %d entries in X", nx));
  }

  void bfs_section(const char* text, int workers) {
    Search ls(r, workers);
    ls.run(root_key(), [&](uint32_t i, const typename Search::Emit& emit, bool mine) { expand(ls, i, emit, mine); });
    if (!ls.replaying()) {
      r.counters["fixpoint_reached"] = ls.stopped_early ? 0 : 1;
      r.counters["states_in_closure"] = ls.tab.size();
      r.counters["max_depth"] = ls.tab.max_depth;
      r.counters["alphabet_size"] = alpha.size();
      r.counters["workers"] = (uint64_t)workers;
      if (ls.stopped_early) r.exhaustive = false;
    }
    r.bound = vf::fmt("%s: fixpoint, %zu states (pairs of lists X/Y), %zu operations applied in each, max BFS depth %u; every state drained and destroyed", text, ls.tab.size(), alpha.size(), ls.tab.max_depth);
  }

  // quiet sequential closure of this alphabet (no reporting): the reference set for the un-merged runs
  void quiet_closure(Table& tab) {
    int saved = plan;
    plan = ALL_PLAIN;
    std::vector<uint32_t> hist;
    tab.add_root(root_key());
    for (uint32_t i = 0; i < tab.size(); i++) {
      tab.history(i, hist);
      Ctx quiet{false, &hist, hist.size()};
      for (size_t l = 0; l < alpha.size(); l++) {
        World w;
        replay(w, hist);
        Canon cn;
        if (step(w, l, quiet, &cn)) tab.add(cn, i, (uint32_t)l);
      }
      if ((i & 63) == 0) r.beat();
    }
    plan = saved;
  }

  // ---- un-merged exhaustive sequences -----------------------------------------------------------------
  // Every sequence over the alphabet with length <= maxlen, each executed from scratch (E-ENUM style,
  // sharded by r.take()); every state passed through must lie in the closure at depth <= steps taken.
  // `plans`: every sequence is run once per context plan.
  void sequences(size_t maxlen, const char* text, const std::vector<int>& plans = {ALL_PLAIN}) {
    Table tab;
    r.note(std::string("unmerged-closure:") + Sys::cname());  // a crash while the reference closure is built names the right container
    quiet_closure(tab);
    r.note(std::string("unmerged:") + Sys::cname());
    uint64_t nseq = 0;
    std::vector<uint32_t> seq;
    const std::string bad_label = vf::fmt("%s: stopped at a violation", text);
    for (size_t len = 0; len <= maxlen; len++) {
      const std::string ok_label = vf::fmt("%s: length-%zu sequence agrees with the model at every step", text, len);
      seq.assign(len, 0);
      for (;;) {
        for (int p : plans) {
          nseq++;
          if (!r.take()) continue;
          plan = p;
          if (r.wants_desc()) r.desc(vf::fmt("%s (%s): ", text, plan_name(p)) + (len ? describe(seq, len) : std::string("(empty sequence)")));
          World w;
          bool ok = true, nontrivial = false;
          for (size_t sidx = 0; sidx < len && ok; sidx++) {
            if (w.MX.n >= 2) nontrivial = true;
            Ctx c{true, &seq, sidx};
            Canon cn;
            ok = step(w, seq[sidx], c, &cn);
            if (ok) {
              int64_t at = tab.set.find(cn);
              if (at < 0 || tab.recs[(size_t)at].depth > sidx + 1) {
                fail(c, std::string(Sys::cname()) + "::unmerged:state-outside-closure", [&] {
                  return names[seq[sidx]] + " reaches [" + cn.str() + "], which " + (at < 0 ? std::string("the merged search never found") : vf::fmt("the merged search only found at depth %u", (unsigned)tab.recs[(size_t)at].depth));
                });
                ok = false;
              }
            }
          }
          if (ok) {
            Ctx c{true, &seq, len};
            drain(w, c, false);
          }
          if (nontrivial) r.nontriv();
          r.ok(ok ? ok_label : bad_label);
          plan = ALL_PLAIN;
        }
        size_t p = 0;
        for (; p < len; p++) {
          if (++seq[p] < alpha.size()) break;
          seq[p] = 0;
        }
        if (p == len) break;
      }
    }
    if (thread_fallbacks()) {
      r.exhaustive = false;
      r.notes.push_back(vf::fmt("%llu calls planned for a fresh thread ran on the main thread because no thread could be created", (unsigned long long)thread_fallbacks()));
      thread_fallbacks() = 0;
    }
    if (!r.bound.empty()) r.bound += "; ";
    std::string pl;
    if (plans.size() != 1 || plans[0] != ALL_PLAIN) {
      pl = ", each in " + std::to_string(plans.size()) + " context plan(s):";
      for (int p : plans) pl += std::string(" [") + plan_name(p) + "]";
    }
    r.bound += vf::fmt("%s: all %llu runs of sequences of length <= %zu over %zu letters, un-merged (closure of this alphabet: %zu states)%s", text, (unsigned long long)nseq, maxlen, alpha.size(), tab.size(), pl.c_str());
  }
};

// ---- alphabets (simplest first) ------------------------------------------------------------------------

inline Op mk(Kind kind, int k = 0, uint64_t s = 0, int v = 0, bool touch = false, bool alias = false) {
  Op o;
  o.kind = kind; o.k = k; o.s = s; o.v = v; o.touch = touch; o.alias = alias;
  return o;
}

inline bool contains(const std::vector<uint64_t>& v, uint64_t x) {
  for (uint64_t y : v) if (y == x) return true;
  return false;
}

// touch(k, n): n travels as an ssize_t; bit patterns >= 2^63 are negative arguments.  -1 is the documented
// default ("leave the size alone") and is the TOUCH letter; other negatives are TOUCH_NEG (size adopted).
inline void push_touch_sized(std::vector<Op>& a, int k, uint64_t s, bool alias = false) {
  if (s <= (uint64_t)INT64_MAX) a.push_back(mk(TOUCH_SZ, k, s, 0, false, alias));
  else if (s != UINT64_MAX) a.push_back(mk(TOUCH_NEG, k, s, 0, false, alias));
}

// LRUSet: every public member.  Default-size letters only when the default size (0) is in scope.
// alias: additional letters whose key argument is the container's own stored key.
inline std::vector<Op> set_alphabet(const std::vector<uint64_t>& sizes, bool with_swap, bool alias = false) {
  std::vector<Op> a;
  bool def = contains(sizes, 0);
  uint64_t big = sizes.back();
  for (int k = 0; k < 3; k++) for (uint64_t s : sizes) a.push_back(mk(INSERT, k, s));
  if (def) for (int k = 0; k < 3; k++) a.push_back(mk(INSERT_DEF, k));
  for (int k = 0; k < 3; k++) for (uint64_t s : sizes) a.push_back(mk(EMPLACE, k, s));
  if (def) for (int k = 0; k < 3; k++) a.push_back(mk(EMPLACE_DEF, k));
  for (int k = 0; k < 3; k++) a.push_back(mk(ERASE, k));
  for (int k = 0; k < 3; k++) a.push_back(mk(TOUCH, k));
  for (int k = 0; k < 3; k++) for (uint64_t s : sizes) push_touch_sized(a, k, s);
  for (int k = 0; k < 3; k++) for (uint64_t s : sizes) a.push_back(mk(CHANGE_SIZE, k, s));
  if (alias) {
    for (int k = 0; k < 3; k++) a.push_back(mk(INSERT, k, big, 0, false, true));
    for (int k = 0; k < 3; k++) a.push_back(mk(ERASE, k, 0, 0, false, true));
    for (int k = 0; k < 3; k++) a.push_back(mk(TOUCH, k, 0, 0, false, true));
    for (int k = 0; k < 3; k++) a.push_back(mk(CHANGE_SIZE, k, big, 0, false, true));
  }
  a.push_back(mk(EVICT));
  a.push_back(mk(PEEK));
  a.push_back(mk(CLEAR));
  if (with_swap) { a.push_back(mk(SWAP_XY)); a.push_back(mk(SWAP_YX)); a.push_back(mk(SWAP_XX)); }
  return a;
}

// LRUMap: every public member.  Default-size letters only when the default size (1) is in scope.
// copyable: the (const&, const&) overloads take part (when the tree under test makes them compile).
inline std::vector<Op> map_alphabet(const std::vector<uint64_t>& sizes, const std::vector<int>& values, bool with_swap, bool alias = false, bool copyable = true) {
  std::vector<Op> a;
  bool def = contains(sizes, 1);
  uint64_t big = sizes.back();
  for (int k = 0; k < 3; k++) for (int v : values) for (uint64_t s : sizes) a.push_back(mk(INSERT, k, s, v));
  if (def) for (int k = 0; k < 3; k++) for (int v : values) a.push_back(mk(INSERT_DEF, k, 0, v));
#ifdef C12_HAVE_INSERT_CONSTREF
  if (copyable) {
    for (int k = 0; k < 3; k++) for (int v : values) for (uint64_t s : sizes) a.push_back(mk(INSERT_C, k, s, v));
    if (def) for (int k = 0; k < 3; k++) a.push_back(mk(INSERT_C_DEF, k, 0, values.back()));
    for (int k = 0; k < 3; k++) a.push_back(mk(INSERT_CM, k, big, values[0]));
    if (alias) for (int k = 0; k < 3; k++) a.push_back(mk(INSERT_C, k, big, values.back(), false, true));
  }
#else
  (void)copyable;
#endif
  for (int k = 0; k < 3; k++) for (int v : values) for (uint64_t s : sizes) a.push_back(mk(EMPLACE, k, s, v));
  if (def) for (int k = 0; k < 3; k++) a.push_back(mk(EMPLACE_DEF, k, 0, values[0]));
  for (int k = 0; k < 3; k++) a.push_back(mk(ERASE, k));
  for (int k = 0; k < 3; k++) a.push_back(mk(AT, k));
#ifdef C12_HAVE_AT_CONST
  for (int k = 0; k < 3; k++) a.push_back(mk(AT_CONST, k));
#endif
  for (int k = 0; k < 3; k++) for (int v : values) a.push_back(mk(AT_WRITE, k, 0, v));
  for (int k = 0; k < 3; k++) a.push_back(mk(ITEM_SIZE, k));
  for (int k = 0; k < 3; k++) for (uint64_t s : sizes) a.push_back(mk(CHANGE_SIZE, k, s));
  for (int k = 0; k < 3; k++) for (uint64_t s : sizes) for (int t = 0; t < 2; t++) a.push_back(mk(CHANGE_SIZE_F, k, s, 0, t != 0));
  for (int k = 0; k < 3; k++) a.push_back(mk(TOUCH, k));
  for (int k = 0; k < 3; k++) for (uint64_t s : sizes) push_touch_sized(a, k, s);
  if (alias) {
    for (int k = 0; k < 3; k++) a.push_back(mk(ERASE, k, 0, 0, false, true));
    for (int k = 0; k < 3; k++) a.push_back(mk(AT, k, 0, 0, false, true));
#ifdef C12_HAVE_AT_CONST
    for (int k = 0; k < 3; k++) a.push_back(mk(AT_CONST, k, 0, 0, false, true));
#endif
    for (int k = 0; k < 3; k++) a.push_back(mk(ITEM_SIZE, k, 0, 0, false, true));
    for (int k = 0; k < 3; k++) a.push_back(mk(TOUCH, k, 0, 0, false, true));
    for (int k = 0; k < 3; k++) a.push_back(mk(CHANGE_SIZE_F, k, big, 0, true, true));
  }
  a.push_back(mk(EVICT));
  a.push_back(mk(CLEAR));
  if (with_swap) { a.push_back(mk(SWAP_XY)); a.push_back(mk(SWAP_YX)); a.push_back(mk(SWAP_XX)); }
  return a;
}

// smaller alphabets for the longer un-merged runs
inline std::vector<Op> set_medium() {  // 33 letters for the length-5 runs
  std::vector<Op> a;
  for (int k = 0; k < 3; k++) for (int s = 1; s < 3; s++) a.push_back(mk(INSERT, k, s));
  for (int k = 0; k < 3; k++) a.push_back(mk(EMPLACE, k, 0));
  for (int k = 0; k < 3; k++) a.push_back(mk(EMPLACE, k, 2));
  for (int k = 0; k < 3; k++) a.push_back(mk(ERASE, k));
  for (int k = 0; k < 3; k++) a.push_back(mk(TOUCH, k));
  for (int k = 0; k < 3; k++) a.push_back(mk(TOUCH_SZ, k, 0));
  for (int k = 0; k < 3; k++) a.push_back(mk(TOUCH_SZ, k, 1));
  for (int k = 0; k < 3; k++) a.push_back(mk(CHANGE_SIZE, k, 2));
  for (int k = 0; k < 3; k++) a.push_back(mk(CHANGE_SIZE, k, 0));
  a.push_back(mk(EVICT));
  a.push_back(mk(PEEK));
  a.push_back(mk(CLEAR));
  return a;
}
inline std::vector<Op> set_reduced() {  // 12 letters for the length-7 runs
  return {mk(INSERT, 0, 1), mk(INSERT, 1, 2), mk(EMPLACE, 2, 0), mk(INSERT, 0, 2), mk(ERASE, 0), mk(ERASE, 1), mk(TOUCH, 0),
      mk(TOUCH_SZ, 1, 1), mk(CHANGE_SIZE, 2, 1), mk(EVICT), mk(SWAP_XY), mk(CLEAR)};
}

inline std::vector<Op> map_medium() {  // ~31 letters for the length-5 runs
  std::vector<Op> a;
  for (int k = 0; k < 3; k++) a.push_back(mk(INSERT, k, 1, 10));
  for (int k = 0; k < 3; k++) a.push_back(mk(INSERT, k, 2, 11));
#ifdef C12_HAVE_INSERT_CONSTREF
  for (int k = 0; k < 3; k++) a.push_back(mk(INSERT_C, k, 2, 11));
#endif
  for (int k = 0; k < 3; k++) a.push_back(mk(EMPLACE, k, 2, 10));
  for (int k = 0; k < 3; k++) a.push_back(mk(ERASE, k));
  for (int k = 0; k < 3; k++) a.push_back(mk(AT, k));
#ifdef C12_HAVE_AT_CONST
  a.push_back(mk(AT_CONST, 0));
#endif
  a.push_back(mk(ITEM_SIZE, 0));
  for (int k = 0; k < 3; k++) a.push_back(mk(CHANGE_SIZE_F, k, 2, 0, false));
  for (int k = 0; k < 3; k++) a.push_back(mk(CHANGE_SIZE_F, k, 1, 0, true));
  for (int k = 0; k < 3; k++) a.push_back(mk(TOUCH, k));
  for (int k = 0; k < 3; k++) a.push_back(mk(TOUCH_SZ, k, 2));
  a.push_back(mk(EVICT));
  a.push_back(mk(CLEAR));
  return a;
}
inline std::vector<Op> map_reduced() {  // 13 letters for the length-7 runs
  std::vector<Op> a = {mk(INSERT, 0, 1, 10), mk(INSERT, 1, 2, 11), mk(EMPLACE, 2, 0, 10), mk(INSERT, 0, 2, 11), mk(EMPLACE, 1, 1, 10), mk(ERASE, 0),
      mk(AT, 1), mk(AT, 0), mk(CHANGE_SIZE_F, 2, 2, 0, false), mk(TOUCH_SZ, 0, 1), mk(EVICT), mk(SWAP_XY), mk(CLEAR)};
#ifdef C12_HAVE_AT_CONST
  a[7] = mk(AT_CONST, 0);
#endif
#ifdef C12_HAVE_INSERT_CONSTREF
  a[3] = mk(INSERT_C, 0, 2, 11);
#endif
  return a;
}

inline void insert_constref_note(vf::Run& r) {
#ifndef C12_HAVE_INSERT_CONSTREF
  r.notes.push_back("LRUMap::insert(const KeyT&, const ValueT&, size_t) is an ill-formed template on this tree (assigns a pair to an iterator; `i.total_size`): it cannot be instantiated, so only insert(KeyT&&, ValueT&&, size_t) is executed (compile-time defect, not decided)");
#else
  r.notes.push_back("LRUMap::insert(const KeyT&, const ValueT&, size_t) compiles on this tree and is part of every LRUMap alphabet");
#endif
#ifndef C12_HAVE_AT_CONST
  r.notes.push_back("LRUMap::at(const KeyT&) const is an ill-formed template on this tree (binds Item& to a const map element): it cannot be instantiated, so only the non-const at() is executed (compile-time defect, not decided)");
#else
  r.notes.push_back("LRUMap::at(const KeyT&) const compiles on this tree and is part of every LRUMap alphabet");
#endif
}

}  // namespace c12
