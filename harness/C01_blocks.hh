// C01_blocks.hh — cstr / line / raw-block call trees and BitWriter/BitReader (included by C01.cc).
#pragma once

namespace {

// ---- cstr / line / raw blocks ---------------------------------------------------------------
enum BCall { B_CSTR, B_CSTR_NA, B_LINE, B_LINE_NA, B_READ1, B_READ2, B_READ9, B_READX1, B_READX2, B_U8, B_NCALLS };
const char* bcall_name[] = {"get_cstr()", "get_cstr(false)", "get_line()", "get_line(false)", "read(1)", "read(2)", "read(9)", "readx(1)", "readx(2)", "get_u8()"};
const char* bcall_key[] = {"get_cstr", "get_cstr", "get_line", "get_line", "read", "read", "read", "readx", "readx", "get_u8"};

struct BExpect {
  bool throws = false;
  std::string value;
  size_t newpos = 0;
};

// list-of-bytes model.  get_line: the line is everything up to the next '\n' (or the end of the
// data), one trailing '\r' is dropped (CRLF), the cursor moves past the '\n' if there is one.
BExpect bmodel(const std::string& s, size_t pos, int c) {
  BExpect e;
  size_t n = s.size();
  e.newpos = pos;
  auto clampread = [&](size_t k) {
    size_t a = std::min(pos, n), b = std::min(pos + k, n);
    e.value = s.substr(a, b - a);
    e.newpos = pos + e.value.size();
  };
  auto exact = [&](size_t k) {
    if (pos + k > n) { e.throws = true; return; }
    e.value = s.substr(pos, k);
    e.newpos = pos + k;
  };
  switch (c) {
    case B_CSTR:
    case B_CSTR_NA: {
      size_t j = pos;
      while (j < n && s[j] != 0) j++;
      if (j >= n) { e.throws = true; break; }
      e.value = s.substr(pos, j - pos);
      if (c == B_CSTR) e.newpos = j + 1;
      break;
    }
    case B_LINE:
    case B_LINE_NA: {
      if (pos >= n) { e.throws = true; break; }
      size_t j = pos;
      while (j < n && s[j] != '\n') j++;
      e.value = s.substr(pos, j - pos);
      if (!e.value.empty() && e.value.back() == '\r') e.value.pop_back();
      if (c == B_LINE) e.newpos = std::min(j + 1, n);
      break;
    }
    case B_READ1: clampread(1); break;
    case B_READ2: clampread(2); break;
    case B_READ9: clampread(9); break;
    case B_READX1: exact(1); break;
    case B_READX2: exact(2); break;
    case B_U8: exact(1); break;
  }
  return e;
}

struct BlockCtx {
  vf::Run& r;
  const std::string& s;
  std::vector<int> path;
  uint64_t nodes = 0;
  bool good = true;
  std::string pathname() const {
    std::string p = "reader over " + vf::show(s) + ": ";
    for (size_t i = 0; i < path.size(); i++) p += (i ? "; " : "") + std::string(bcall_name[path[i]]);
    return p;
  }
};

// Visits every call sequence of length <= depth; oracle verdicts are taken only at sequences of
// length exactly `depth` (the caller iterates depth = 1, 2, 3 so that the shortest failing sequence
// is the one reported; shorter prefixes were judged in the earlier rounds).
void blocks_dfs(BlockCtx& cx, const StringReader& rd, size_t pos, int depth) {
  for (int c = 0; c < B_NCALLS; c++) {
    StringReader q = rd;  // readers are plain (pointer, length, cursor) values
    BExpect e = bmodel(cx.s, pos, c);
    cx.path.push_back(c);
    const bool judge = depth == 1;
    if (judge) cx.nodes++;
    bool threw = false;
    std::string got, exc;
    try {
      switch (c) {
        case B_CSTR: got = q.get_cstr(); break;
        case B_CSTR_NA: got = q.get_cstr(false); break;
        case B_LINE: got = q.get_line(); break;
        case B_LINE_NA: got = q.get_line(false); break;
        case B_READ1: got = q.read(1); break;
        case B_READ2: got = q.read(2); break;
        case B_READ9: got = q.read(9); break;
        case B_READX1: got = q.readx(1); break;
        case B_READX2: got = q.readx(2); break;
        case B_U8: got = std::string(1, (char)q.get_u8()); break;
      }
    } catch (const std::exception& ex) {
      threw = true;
      exc = ex.what();
    }
    std::string key = bcall_key[c];
    bool descend = false;
    if (!judge) {
      // already judged in an earlier round; follow it only if it behaved as modelled
      descend = e.throws ? (threw && q.where() == pos) : (!threw && got == e.value && q.where() == e.newpos);
    } else if (e.throws) {
      // nothing is encoded at the cursor: the statement fixes no value; an exception is the only
      // sound outcome (returning would mean bytes from outside the data)
      if (!threw) {
        cx.r.fail(key + ":returns-without-data", [&] { return cx.pathname() + vf::fmt(" :: at cursor %zu nothing complete is encoded, yet the call returned %s", pos, vf::show(got).c_str()); });
        cx.good = false;
      } else {
        cx.r.hist[std::string(bcall_key[c]) + "/throws-no-data"]++;
        descend = q.where() == pos;
      }
    } else if (threw) {
      cx.r.fail(key + ":throws", [&] { return cx.pathname() + vf::fmt(" :: at cursor %zu expected %s, got exception %s", pos, vf::show(e.value).c_str(), exc.c_str()); });
      cx.good = false;
    } else if (got != e.value) {
      cx.r.fail(key + ":value", [&] { return cx.pathname() + vf::fmt(" :: at cursor %zu returned %s, model %s", pos, vf::show(got).c_str(), vf::show(e.value).c_str()); });
      cx.good = false;
    } else if (q.where() != e.newpos) {
      cx.r.fail(key + ":advance", [&] { return cx.pathname() + vf::fmt(" :: cursor %zu -> %zu, encoded width says %zu (data size %zu)", pos, q.where(), e.newpos, cx.s.size()); });
      cx.good = false;
    } else {
      cx.r.hist[std::string(bcall_key[c]) + "/value+cursor-ok"]++;
      descend = true;
    }
    if (descend && depth > 1) blocks_dfs(cx, q, q.where(), depth - 1);
    cx.path.pop_back();
  }
}

// ---- bits -------------------------------------------------------------------------------------
typedef std::vector<uint8_t> Bits;  // one element per bit

std::string pack_bits(const Bits& b, size_t n) {
  std::string s((n + 7) / 8, '\0');
  for (size_t i = 0; i < n; i++)
    if (b[i]) s[i / 8] = (char)((uint8_t)s[i / 8] + (uint8_t)(128 >> (i % 8)));
  return s;
}
uint64_t bits_value(const Bits& b, size_t off, size_t n) {
  uint64_t v = 0;
  for (size_t i = 0; i < n; i++) v = v * 2 + b[off + i];
  return v;
}
std::string bits_str(const Bits& b) {
  std::string s;
  for (auto x : b) s += x ? '1' : '0';
  return s.empty() ? "(no bits)" : s;
}

bool check_bitreader(vf::Run& r, const Bits& bits, const std::string& packed, bool compositions) {
  const size_t L = bits.size();
  Exact buf(packed.size());
  memcpy(buf.p, packed.data(), packed.size());
  auto bd = [&] { return "bits " + bits_str(bits); };
  BitReader br(buf.p, L);
  if (br.size() != L || br.where() != 0 || br.remaining() != L) {
    r.fail("BitReader:size", [&] { return bd() + vf::fmt(": size()=%zu where()=%zu remaining()=%zu", br.size(), br.where(), br.remaining()); });
    return false;
  }
  for (size_t off = 0; off <= L; off++) {
    for (size_t sz = 0; sz <= 64 && off + sz <= L; sz++) {
      uint64_t want = bits_value(bits, off, sz);
      uint64_t got = br.pread(off, (uint8_t)sz);
      r.counters["bitreader-preads"]++;
      if (got != want) {
        r.fail("BitReader_pread:value", [&] { return bd() + vf::fmt(": pread(%zu, %zu) returned 0x%llX, model 0x%llX", off, sz, (unsigned long long)got, (unsigned long long)want); });
        return false;
      }
    }
  }
  if (br.where() != 0) {
    r.fail("BitReader_pread:advance", [&] { return bd() + vf::fmt(": pread moved the cursor to %zu", br.where()); });
    return false;
  }
  if (!compositions) return true;
  // read sequences: every composition of L into at most 3 positive parts (each <= 64)
  auto run_parts = [&](size_t a, size_t b, size_t c) -> bool {
    BitReader q(buf.p, L);
    size_t parts[3] = {a, b, c}, pos = 0;
    for (size_t p : parts) {
      if (!p) continue;
      if (p > 64) return true;
      uint64_t want = bits_value(bits, pos, p);
      uint64_t peeked = q.read((uint8_t)p, false);
      size_t w0 = q.where();
      uint64_t got = q.read((uint8_t)p);
      r.counters["bitreader-reads"]++;
      if (got != want || peeked != want) {
        r.fail("BitReader_read:value", [&] { return bd() + vf::fmt(": parts %zu/%zu/%zu: read(%zu) at bit %zu returned 0x%llX (advance=false: 0x%llX), model 0x%llX", a, b, c, p, pos, (unsigned long long)got, (unsigned long long)peeked, (unsigned long long)want); });
        return false;
      }
      pos += p;
      if (w0 != pos - p || q.where() != pos) {
        r.fail("BitReader_read:advance", [&] { return bd() + vf::fmt(": parts %zu/%zu/%zu: cursor %zu after advance=false, %zu after read(%zu) at bit %zu", a, b, c, w0, q.where(), p, pos - p); });
        return false;
      }
    }
    if (!q.eof() || q.remaining() != 0) {
      r.fail("BitReader_read:eof", [&] { return bd() + vf::fmt(": all %zu bits read, eof()=%d remaining()=%zu", L, (int)q.eof(), q.remaining()); });
      return false;
    }
    return true;
  };
  if (L == 0) return run_parts(0, 0, 0);
  if (!run_parts(L, 0, 0)) return false;
  for (size_t a = 1; a < L; a++) {
    if (!run_parts(a, L - a, 0)) return false;
    for (size_t b = 1; a + b < L; b++)
      if (!run_parts(a, b, L - a - b)) return false;
  }
  return true;
}

bool check_bitwriter(vf::Run& r, const Bits& bits, std::string* packed_out) {
  const size_t L = bits.size();
  auto bd = [&] { return "bits " + bits_str(bits); };
  BitWriter bw;
  for (size_t i = 0; i < L; i++) bw.write(bits[i] != 0);
  std::string want = pack_bits(bits, L);
  *packed_out = want;
  if (bw.size() != L) {
    r.fail("BitWriter_write:size", [&] { return bd() + vf::fmt(": size() = %zu after %zu writes", bw.size(), L); });
    return false;
  }
  if (bw.str() != want) {
    r.fail("BitWriter_write:bytes", [&] { return bd() + ": str() = " + hexb(bw.str().data(), bw.str().size()) + ", MSB-first packing is " + hexb(want.data(), want.size()); });
    return false;
  }
  for (size_t k = 0; k <= L; k++) {
    BitWriter c = bw;
    c.truncate(k);
    std::string wk = pack_bits(bits, k);
    r.counters["bitwriter-truncates"]++;
    if (c.size() != k || c.str() != wk) {
      r.fail("BitWriter_truncate:bytes", [&] { return bd() + vf::fmt(": truncate(%zu): size()=%zu str()=%s, model %s", k, c.size(), hexb(c.str().data(), c.str().size()).c_str(), hexb(wk.data(), wk.size()).c_str()); });
      return false;
    }
    // the writer must stay usable: the next bit lands at position k
    Bits b2(bits.begin(), bits.begin() + k);
    b2.push_back(1);
    c.write(true);
    std::string w2 = pack_bits(b2, k + 1);
    if (c.size() != k + 1 || c.str() != w2) {
      r.fail("BitWriter_truncate:then-write", [&] { return bd() + vf::fmt(": truncate(%zu); write(1): size()=%zu str()=%s, model %s", k, c.size(), hexb(c.str().data(), c.str().size()).c_str(), hexb(w2.data(), w2.size()).c_str()); });
      return false;
    }
  }
  BitWriter c = bw;
  c.reset();
  c.write(true);
  if (c.size() != 1 || c.str() != std::string("\x80")) {
    r.fail("BitWriter_reset:then-write", [&] { return bd() + vf::fmt(": reset(); write(1): size()=%zu str()=%s", c.size(), hexb(c.str().data(), c.str().size()).c_str()); });
    return false;
  }
  return true;
}

}  // namespace

VF_SECTION(blocks, 16, 16, 180) {
  size_t maxlen = 7;
  r.note("get_cstr/get_line/read/readx/get_u8 call trees");
  vf::all_strings(std::string("a\0\n\r", 4), maxlen, [&](const std::string& s) {
    if (!r.take()) return;
    if (r.wants_desc()) r.desc("reader content " + vf::show(s) + ": every sequence of <= 3 calls");
    Exact buf(s.size());
    memcpy(buf.p, s.data(), s.size());
    StringReader rd(buf.p, s.size());
    BlockCtx cx{r, s, {}, 0, true};
    for (int d = 1; d <= 3; d++) blocks_dfs(cx, rd, 0, d);
    r.transitions += cx.nodes;
    r.states++;
    r.nontriv();
    if (cx.good) r.ok("call-tree-ok");
  });
  r.bound = "reader content = every string over {a, NUL, LF, CR} of length <= 7 (21845); every sequence of <= 3 calls from {get_cstr, get_line (advance true/false), read(1|2|9), readx(1|2), get_u8} (1110 call nodes per string)";
}

VF_SECTION(bits, 16, 16, 180) {
  size_t maxlen = r.thorough() ? 20 : 16;
  r.note("BitWriter/BitReader");
  for (size_t L = 0; L <= maxlen; L++) {
    for (uint64_t v = 0; v < (1ull << L); v++) {
      if (!r.take()) continue;
      Bits bits(L);
      for (size_t i = 0; i < L; i++) bits[i] = (v >> (L - 1 - i)) & 1;
      if (r.wants_desc()) r.desc("bit string " + bits_str(bits));
      r.nontriv();
      std::string packed;
      if (!check_bitwriter(r, bits, &packed)) continue;
      if (!check_bitreader(r, bits, packed, true)) continue;
      r.ok("bits-ok");
    }
  }
  // reads wider than the short strings allow: 72-bit patterns, every in-range (offset, size <= 64)
  static const char* wide[] = {"\x01\x23\x45\x67\x89\xAB\xCD\xEF\x5A", "\xFE\xDC\xBA\x98\x76\x54\x32\x10\xA5", "\xAA\x55\xAA\x55\xAA\x55\xAA\x55\xAA", "\x80\x00\x00\x00\x00\x00\x00\x00\x01"};
  for (const char* wp : wide) {
    for (size_t L = 65; L <= 72; L++) {
      if (!r.take()) continue;
      Bits bits(L);
      for (size_t i = 0; i < L; i++) bits[i] = ((uint8_t)wp[i / 8] >> (7 - i % 8)) & 1;
      if (r.wants_desc()) r.desc("wide bit string " + bits_str(bits));
      r.nontriv();
      std::string packed;
      if (!check_bitwriter(r, bits, &packed)) continue;
      if (!check_bitreader(r, bits, packed, true)) continue;
      r.ok("wide-bits-ok");
    }
  }
  r.bound = vf::fmt("every bit string of length <= %zu: BitWriter::write/size/str/truncate(every k)/reset, BitReader::pread(every in-range offset, size) and read() for every composition of the length into <= 3 parts; plus four 65..72-bit patterns for sizes up to 64", maxlen);
}
