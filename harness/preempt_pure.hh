// preempt_pure.hh — shared driver for the "preempt" variants (E-PREEMPT, engine/preempt.hh) of properties about functions
// that are stated for EVERY input: a result that is right only while no other thread is inside the library is not right
// for every input.  A harness lists *calls* (name, group, thunk returning a canonical observation string).  For every
// unordered pair of calls (including a call paired with itself) the two thunks run concurrently under EVERY schedule with
// at most k preemptions at basic-block granularity of the instrumented phosg sources, and each observation must equal
// the one the same thunk produced alone (differential oracle: the sequential results themselves are judged against the
// independent references by the main sections of the property).
//
// Only the phosg sources named in props_d/<ID>.py (src_cxxflags) are instrumented; everything else is an atomic step.
#pragma once
#define VP_IMPLEMENT
#include "../engine/preempt.hh"

#include <functional>
#include <map>
#include <memory>
#include <string>
#include <vector>

#include "vf.hh"

namespace pp {

struct Call {
  std::string name;   // shown in descriptions
  std::string group;  // function under test: part of the finding key
  std::function<std::string()> fn;
};

// Wraps a thunk so that nothing escapes: exceptions become part of the observation.
template <class F>
std::function<std::string()> guarded(F f) {
  return [f]() -> std::string {
    try {
      return f();
    } catch (const std::exception& e) {
      return std::string("threw ") + typeid(e).name() + ": " + e.what();
    } catch (...) {
      return "threw a non-standard exception";
    }
  };
}

struct Cell {
  std::string out;
};
template <class T>
void fresh(T& x) {  // see C10_preempt.cc: move-assignment keeps heap capacity and changes the instrumented paths
  std::destroy_at(&x);
  new (&x) T();
}

inline long solo_points(vp::Arena& one, const Call& c, std::string* out) {
  Cell cell;
  std::vector<std::function<void()>> jobs = {[&] { cell.out = c.fn(); }};
  std::vector<vp::Seg> segs = {{0, vp::ALL}};
  vp::Result r = one.run(jobs, segs);
  *out = cell.out;
  return r.points[0];
}

// Explores every pair.  bound2_limit: pairs of the same group whose solo point counts are both <= this limit are explored
// with <= 2 preemptions, everything else with <= 1 (thorough: limits and bounds one step wider, see below).
inline void run_pairs(vf::Run& r, const std::vector<Call>& calls, long bound2_limit_same, long bound2_limit_cross) {
  vp::Arena one(1), two(2);
  // warm-up + solo observations (also the determinism self-check: the same thunk alone, twice, same result and points)
  std::vector<std::string> solo(calls.size());
  std::vector<long> pts(calls.size());
  for (size_t i = 0; i < calls.size(); i++) {
    std::string a, b, c;
    (void)calls[i].fn();  // warm-up outside the scheduler: static initialisers run here, never inside a preempted job
    long pa = solo_points(one, calls[i], &a);
    long pb = solo_points(one, calls[i], &b);
    if (a != b || pa != pb) {
      if (r.take()) r.fails("engine:solo-call-not-deterministic", calls[i].name + vf::fmt(": two solo executions differ (points %ld / %ld): ", pa, pb) + vf::show(a) + " vs " + vf::show(b));
      return;
    }
    solo[i] = a;
    pts[i] = pa;
  }
  uint64_t total_points = 0;
  for (size_t i = 0; i < calls.size(); i++)
    for (size_t j = i; j < calls.size(); j++) {
      bool same = calls[i].group == calls[j].group;
      long lim = same ? bound2_limit_same : bound2_limit_cross;
      int bound = (pts[i] <= lim && pts[j] <= lim) ? 2 : 1;
      int nslices = bound == 2 && pts[i] * pts[j] > 20000 ? 4 : 1;
      for (int slice = 0; slice < nslices; slice++) {
        if (!r.take()) continue;
        r.note("concurrent " + calls[i].group + " || " + calls[j].group);
        if (r.wants_desc()) r.desc(calls[i].name + " || " + calls[j].name + vf::fmt(": every schedule with <= %d preemptions (slice %d of %d; %ld and %ld scheduling points alone)", bound, slice, nslices, pts[i], pts[j]));
        Cell cells[2];
        std::vector<std::function<void()>> jobs = {[&] { cells[0].out = calls[i].fn(); }, [&] { cells[1].out = calls[j].fn(); }};
        auto exec = [&](const std::vector<vp::Seg>& segs) {
          fresh(cells[0]);
          fresh(cells[1]);
          return two.run(jobs, segs);
        };
        std::map<std::string, uint64_t> verdicts;
        auto check = [&](const std::vector<vp::Seg>& segs, const vp::Result&) {
          std::string v;
          for (int t = 0; t < 2; t++) {
            size_t k = t == 0 ? i : j;
            bool good = cells[t].out == solo[k];
            v += good ? "=" : "!";
            if (!good)
              r.fail(calls[k].group + ":result-differs-under-concurrency", [&] {
                return "concurrent calls T0=" + calls[i].name + " T1=" + calls[j].name + " under schedule " + vp::show(segs) + vf::fmt(" (segments count basic-block entries): T%d returned ", t) +
                       vf::show(cells[t].out) + ", alone the same call returns " + vf::show(solo[k]);
              });
          }
          verdicts[v]++;
          r.beat();
        };
        vp::Stats st;
        vp::explore(2, bound, exec, check, st, slice, nslices);
        r.states += st.schedules;
        r.transitions += st.points;
        total_points += st.points;
        r.counters["schedules"] += st.schedules;
        r.counters["scheduling_points_executed"] += st.points;
        r.counters[bound == 2 ? "pair_slices_explored_with_2_preemptions" : "pairs_explored_with_1_preemption"]++;
        if (st.max_preemptions > static_cast<uint64_t>(bound)) r.fails("engine:preemption-bound-exceeded", "an execution had more preemptions than the bound");
        for (auto& [k, n] : verdicts) r.hist["executions with per-call verdicts " + k] += n;
        if (pts[i] > 5 && pts[j] > 5) r.nontriv();
        r.ok("pair slice explored");
      }
    }
  (void)total_points;
}

// Cold start: like run_pairs for the pairs of the same group (and every call with itself), bound 1, but every execution —
// also the solo reference run — happens in a freshly forked child of this process, which never calls the thunks itself:
// each schedule contains the FIRST calls of its process (lazily built tables, caches keyed by the first caller).
// wide = false: every call with itself and with the NEXT call of the same group (a chain through each group: every call
// meets a different call of its function as first caller and as second); wide = true: every same-group pair.
inline void run_pairs_cold(vf::Run& r, const std::vector<Call>& calls, bool wide) {
  vp::Arena one(1), two(2);
  std::vector<std::string> solo(calls.size());
  std::vector<bool> have(calls.size(), false);
  auto solo_of = [&](size_t i) -> const std::string* {
    if (!have[i]) {
      Cell cell;
      std::vector<std::function<void()>> jobs = {[&] { cell.out = calls[i].fn(); }};
      std::vector<vp::Seg> segs = {{0, vp::ALL}};
      vp::Forked f = vp::run_forked([&] { vp::Result res = one.run(jobs, segs); return std::make_pair(res, cell.out); });
      if (!f.ok) return nullptr;
      solo[i] = f.payload;
      have[i] = true;
    }
    return &solo[i];
  };
  for (size_t i = 0; i < calls.size(); i++)
    for (size_t j = i; j < calls.size(); j++) {
      if (calls[i].group != calls[j].group) continue;
      if (!wide && j != i) {
        size_t nxt = i + 1;
        while (nxt < calls.size() && calls[nxt].group != calls[i].group) nxt++;
        if (j != nxt) continue;
      }
      if (!r.take()) continue;
      r.note("cold concurrent " + calls[i].group + " || " + calls[j].group);
      if (r.wants_desc()) r.desc("fresh process per schedule: " + calls[i].name + " || " + calls[j].name + ": every schedule with <= 1 preemption");
      const std::string* si = solo_of(i);
      const std::string* sj = solo_of(j);
      if (!si || !sj) {
        r.fails(calls[si ? j : i].group + ":first-call-crash", "the first call in a fresh process died: " + calls[si ? j : i].name);
        continue;
      }
      Cell cells[2];
      std::vector<std::function<void()>> jobs = {[&] { cells[0].out = calls[i].fn(); }, [&] { cells[1].out = calls[j].fn(); }};
      bool died = false;
      auto exec = [&](const std::vector<vp::Seg>& segs) {
        fresh(cells[0]);
        fresh(cells[1]);
        if (died) return vp::Result();
        vp::Forked f = vp::run_forked([&] {
          vp::Result res = two.run(jobs, segs);
          uint32_t n0 = static_cast<uint32_t>(cells[0].out.size());
          return std::make_pair(res, std::string(reinterpret_cast<const char*>(&n0), 4) + cells[0].out + cells[1].out);
        });
        uint32_t n0 = 0;
        if (f.ok && f.payload.size() >= 4) memcpy(&n0, f.payload.data(), 4);
        if (!f.ok || f.payload.size() < 4 + static_cast<size_t>(n0)) {
          died = true;
          r.fail(calls[i].group + ":concurrent-first-calls-crash", [&] {
            return "first calls in a fresh process T0=" + calls[i].name + " T1=" + calls[j].name + " under schedule " + vp::show(segs) + vf::fmt(": the process died (wait status 0x%x)", f.status);
          });
          return vp::Result();
        }
        cells[0].out = f.payload.substr(4, n0);
        cells[1].out = f.payload.substr(4 + n0);
        return f.res;
      };
      std::map<std::string, uint64_t> verdicts;
      auto check = [&](const std::vector<vp::Seg>& segs, const vp::Result&) {
        std::string v;
        for (int t = 0; t < 2; t++) {
          size_t k = t == 0 ? i : j;
          bool good = cells[t].out == solo[k];
          v += good ? "=" : "!";
          if (!good)
            r.fail(calls[k].group + ":first-calls-result-differs-under-concurrency", [&] {
              return "concurrent FIRST calls in a fresh process T0=" + calls[i].name + " T1=" + calls[j].name + " under schedule " + vp::show(segs) +
                     vf::fmt(" (segments count basic-block entries): T%d returned ", t) + vf::show(cells[t].out) + ", alone (also as the first call of a fresh process) the same call returns " + vf::show(solo[k]);
            });
        }
        verdicts[v]++;
        r.beat();
      };
      vp::Stats st;
      vp::explore(2, 1, exec, check, st);
      r.states += st.schedules;
      r.transitions += st.points;
      r.counters["schedules"] += st.schedules;
      r.counters["scheduling_points_executed"] += st.points;
      for (auto& [k, n] : verdicts) r.hist["executions with per-call verdicts " + k] += n;
      r.nontriv();
      r.ok("cold pair explored");
    }
}

}  // namespace pp
