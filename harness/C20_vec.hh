// C20 (vectors) — checker templates shared by harness/C20_vec.cc (small components, order laws) and
// harness/C20_vecw{1,2,3}.cc (other component types and boundary components).  Split over several translation units
// only to keep the build time of the check down (they compile in parallel).
//
// Reference model: the C++ arithmetic operators applied per component to plain std::array<T,N> values, evaluated
// left to right exactly as the definition is written (x0*y0 + x1*y1 + ...), with an explicit "defined" flag: an
// operation whose C++ meaning is undefined (signed overflow in int/int64_t, division by zero, MIN / -1) is neither
// executed on the library nor compared (don't-care).  Narrow types follow the language: the expression is computed in
// int and converted to T (modular, C++20).
#pragma once
#include <algorithm>

#include "C20_common.hh"


namespace c20 {

template <class T>
struct Ref {
  static constexpr bool FP = std::is_floating_point_v<T>;
  typedef decltype(T() + T()) P;  // type the language computes in: int for 8/16-bit T, T otherwise
  struct V {
    bool def;
    P v;
  };
  static V lift(T x) { return V{true, (P)x}; }
  static V bin(char op, V a, V b) {
    if (!a.def || !b.def) return V{false, P()};
    P r = P();
    if constexpr (FP) {
      switch (op) {
        case '+': r = a.v + b.v; break;
        case '-': r = a.v - b.v; break;
        case '*': r = a.v * b.v; break;
        case '/': if (b.v == 0) return V{false, P()}; r = a.v / b.v; break;
        default: return V{false, P()};
      }
      return V{true, r};
    } else if constexpr (std::is_unsigned_v<P>) {
      switch (op) {
        case '+': r = a.v + b.v; break;
        case '-': r = a.v - b.v; break;
        case '*': r = a.v * b.v; break;
        case '/': if (b.v == 0) return V{false, P()}; r = a.v / b.v; break;
        case '%': if (b.v == 0) return V{false, P()}; r = a.v % b.v; break;
      }
      return V{true, r};
    } else {
      bool ovf = false;
      switch (op) {
        case '+': ovf = __builtin_add_overflow(a.v, b.v, &r); break;
        case '-': ovf = __builtin_sub_overflow(a.v, b.v, &r); break;
        case '*': ovf = __builtin_mul_overflow(a.v, b.v, &r); break;
        case '/':
        case '%':
          if (b.v == 0 || (a.v == std::numeric_limits<P>::min() && b.v == (P)-1)) return V{false, P()};
          r = op == '/' ? a.v / b.v : a.v % b.v;
          break;
      }
      return V{!ovf, r};
    }
  }
  static V neg(V a) {
    if constexpr (FP) return V{a.def, -a.v};
    else if constexpr (std::is_unsigned_v<P>) return V{a.def, (P)(0 - a.v)};
    else {
      if (!a.def || a.v == std::numeric_limits<P>::min()) return V{false, P()};
      return V{true, (P)-a.v};
    }
  }
  // T-typed result of a P-typed expression (what the Vector constructor / compound assignment stores)
  static bool narrow(V a, T& out) {
    if (!a.def) return false;
    out = (T)a.v;
    return true;
  }
  static bool same(T a, T b) {
    if constexpr (FP) return a == b || (a != a && b != b);
    else return a == b;
  }
};

template <class T, size_t N>
struct VecCheck {
  typedef typename VecOf<T, N>::type V;
  typedef std::array<T, N> A;
  typedef Ref<T> R;
  typedef typename R::V RV;
  vf::Run& r;
  std::string cls;
  bool bad = false;
  bool exact;  // components are small integers: the exact geometric laws (orthogonality, Lagrange) are decidable
  VecCheck(vf::Run& r, bool exact) : r(r), cls(vf::fmt("Vector%zu<%s>", N, tname<T>())), exact(exact) {}

  struct OptA {
    bool def = true;
    A v{};
  };

  // Floating-point sums of products outside the exact small-integer range: the statement fixes the mathematical value
  // (sum of x_i*y_i), not the order of the roundings.  got is accepted when it lies within 8 ulp-of-the-magnitude of the
  // value computed in long double; where a product or the sum leaves the finite range of T nothing is compared.
  // Returns -1 = not comparable, 0 = differs, 1 = agrees.
  static int fp_close(T got, const long double* x, const long double* y, size_t n, const long double* sign) {
    if constexpr (R::FP) {
      long double sum = 0, mag = 0;
      for (size_t i = 0; i < n; i++) {
        long double p = x[i] * y[i];
        sum += sign[i] * p;
        mag += fabsl(p);
      }
      if (!(mag <= (long double)std::numeric_limits<T>::max() / 4)) return -1;  // also NaN
      long double tol = 8 * (long double)std::numeric_limits<T>::epsilon() * mag + 8 * (long double)std::numeric_limits<T>::denorm_min();
      if (got != got) return 0;
      return fabsl((long double)got - sum) <= tol ? 1 : 0;
    } else {
      (void)got; (void)x; (void)y; (void)n; (void)sign;
      return -1;
    }
  }
  template <class D>
  void expect_dot(const char* op, T got, const A& a, const A& b, D&& ctx) {
    long double x[N], y[N], sg[N];
    for (size_t i = 0; i < N; i++) { x[i] = a[i]; y[i] = b[i]; sg[i] = 1; }
    if (fp_close(got, x, y, N, sg) == 0) {
      bad = true;
      r.fail(vf::fmt("Vector%zu::%s:wrong-value", N, op), [&] { return cls + " " + ctx() + " " + op + vf::fmt(" gave %.17g, which is not within rounding of the sum of the componentwise products", (double)got); });
    }
  }

  template <class D>
  void expect_vec(const char* op, const V& got, const A& want, D&& ctx) {
    A g = comps(got);
    bool eq = true;
    for (size_t i = 0; i < N; i++) eq = eq && R::same(g[i], want[i]);
    if (!eq) {
      bad = true;
      r.fail(vf::fmt("Vector%zu::%s:wrong-value", N, op), [&] { return cls + " " + ctx() + " " + op + " gave " + astr(g) + ", componentwise definition gives " + astr(want); });
    }
  }
  template <class S, class D>
  void expect_val(const char* op, S got, S want, D&& ctx) {
    bool eq;
    if constexpr (std::is_same_v<S, T>) eq = R::same(got, want);
    else eq = got == want;
    if (!eq) {
      bad = true;
      r.fail(vf::fmt("Vector%zu::%s:wrong-value", N, op), [&] {
        if constexpr (std::is_same_v<S, bool>) return cls + " " + ctx() + " " + op + vf::fmt(" gave %d, definition gives %d", (int)got, (int)want);
        else return cls + " " + ctx() + " " + op + " gave " + vstr<S>(got) + ", definition gives " + vstr<S>(want);
      });
    }
  }

  static OptA map2(const A& a, const A& b, char op) {
    OptA o;
    for (size_t i = 0; i < N; i++) o.def = R::narrow(R::bin(op, R::lift(a[i]), R::lift(b[i])), o.v[i]) && o.def;
    return o;
  }
  static OptA map1(const A& a, T s, char op) {
    OptA o;
    for (size_t i = 0; i < N; i++) o.def = R::narrow(R::bin(op, R::lift(a[i]), R::lift(s)), o.v[i]) && o.def;
    return o;
  }
  // x0*y0 + x1*y1 + ... evaluated left to right in the language's computation type
  static RV dotv(const A& a, const A& b) {
    RV acc = R::bin('*', R::lift(a[0]), R::lift(b[0]));
    for (size_t i = 1; i < N; i++) acc = R::bin('+', acc, R::bin('*', R::lift(a[i]), R::lift(b[i])));
    return acc;
  }
  static OptA crossv(const A& a, const A& b) {
    OptA o;
    static const int I1[3] = {1, 2, 0}, I2[3] = {2, 0, 1};
    for (size_t i = 0; i < 3; i++) {
      RV v = R::bin('-', R::bin('*', R::lift(a[I1[i]]), R::lift(b[I2[i]])), R::bin('*', R::lift(a[I2[i]]), R::lift(b[I1[i]])));
      o.def = R::narrow(v, o.v[i]) && o.def;
    }
    return o;
  }

  // binary operators on a pair of vectors
  void pair(const A& ca, const A& cb) {
    bad = false;
    V a = mk<T>(ca), b = mk<T>(cb);
    auto ctx = [&] { return "a=" + astr(ca) + " b=" + astr(cb); };
    OptA sum = map2(ca, cb, '+'), dif = map2(ca, cb, '-');
    if (sum.def) {
      expect_vec("operator+", a + b, sum.v, ctx);
      V t = a;
      V& ref = (t += b);
      expect_vec("operator+=", t, sum.v, ctx);
      if (&ref != &t) { bad = true; r.fail(vf::fmt("Vector%zu::operator+=:returns-other-object", N), [&] { return cls + " " + ctx(); }); }
    }
    if (dif.def) {
      expect_vec("operator-", a - b, dif.v, ctx);
      V u = a;
      V& ref2 = (u -= b);
      expect_vec("operator-=", u, dif.v, ctx);
      if (&ref2 != &u) { bad = true; r.fail(vf::fmt("Vector%zu::operator-=:returns-other-object", N), [&] { return cls + " " + ctx(); }); }
    }
    // multi-step on one object that already holds a value: ((a + b) - b) += b  ==  a + b, when every step is defined
    if (sum.def) {
      OptA back = map2(sum.v, cb, '-');
      if (back.def) {
        V t = a;
        t += b;
        t -= b;
        expect_vec("operator-=(after +=)", t, back.v, ctx);
        t += b;
        OptA again = map2(back.v, cb, '+');
        if (again.def) expect_vec("operator+=(after -=)", t, again.v, ctx);
      }
    }
    // the result object aliases an operand: t = t + b, u = a + u, t = t - b, u = a - u (and cross below)
    if (sum.def) {
      V t = a, u = b;
      t = t + b;
      u = a + u;
      expect_vec("operator+(result-over-left-operand)", t, sum.v, ctx);
      expect_vec("operator+(result-over-right-operand)", u, sum.v, ctx);
    }
    if (dif.def) {
      V t = a, u = b;
      t = t - b;
      u = a - u;
      expect_vec("operator-(result-over-left-operand)", t, dif.v, ctx);
      expect_vec("operator-(result-over-right-operand)", u, dif.v, ctx);
    }
    expect_vec("operands-unchanged", a, ca, ctx);
    expect_vec("operands-unchanged", b, cb, ctx);
    bool eq = true;
    for (size_t i = 0; i < N; i++) eq = eq && (ca[i] == cb[i]);
    expect_val<bool>("operator==", a == b, eq, ctx);
    expect_val<bool>("operator!=", a != b, !eq, ctx);
    expect_val<bool>("operator<", a < b, std::lexicographical_compare(ca.begin(), ca.end(), cb.begin(), cb.end()), ctx);
    RV dot = dotv(ca, cb), dotc = dotv(cb, ca);
    T dt;
    if (R::FP && !exact) {
      expect_dot("dot", a.dot(b), ca, cb, ctx);
      expect_dot("dot(commuted)", b.dot(a), cb, ca, ctx);
    } else {
      if (R::narrow(dot, dt)) expect_val<T>("dot", a.dot(b), dt, ctx);
      if (R::narrow(dotc, dt)) expect_val<T>("dot(commuted)", b.dot(a), dt, ctx);
    }
    if constexpr (N == 3) {
      OptA want = crossv(ca, cb), wantc = crossv(cb, ca);
      if (R::FP && !exact) {
        // each component is a difference of two products: compared within rounding, see fp_close
        static const int I1[3] = {1, 2, 0}, I2[3] = {2, 0, 1};
        A c1 = comps(a.cross(b)), c2 = comps(b.cross(a));
        for (int o = 0; o < 2; o++) {
          const A& p = o ? cb : ca;
          const A& q = o ? ca : cb;
          const A& got = o ? c2 : c1;
          for (size_t i = 0; i < 3; i++) {
            long double x[2] = {(long double)p[I1[i]], (long double)p[I2[i]]}, y[2] = {(long double)q[I2[i]], (long double)q[I1[i]]}, sg[2] = {1, -1};
            if (fp_close(got[i], x, y, 2, sg) == 0) {
              bad = true;
              r.fail("Vector3::cross:wrong-value", [&] { return cls + " " + ctx() + (o ? " b.cross(a)" : " a.cross(b)") + " gave " + astr(got) + vf::fmt(": component %zu is not within rounding of the right-hand-rule formula", i); });
            }
          }
        }
        want.def = wantc.def = false;
      }
      if (want.def) {
        V c = a.cross(b);
        A cc = comps(c);
        expect_vec("cross", c, want.v, ctx);
        {
          V t = a, u = b;
          t = t.cross(b);
          u = a.cross(u);
          expect_vec("cross(result-over-left-operand)", t, want.v, ctx);
          expect_vec("cross(result-over-right-operand)", u, want.v, ctx);
        }
        // orthogonal to both operands; Lagrange identity |a x b|^2 = |a|^2 |b|^2 - (a.b)^2 (rules out the zero vector).
        // Decided where the arithmetic is exact: 32/64-bit integer T with every intermediate defined (unsigned: ring
        // identities modulo 2^w), or small-integer FP values.  8/16-bit T stores the components reduced modulo 2^w.
        if ((!R::FP && sizeof(T) >= 4) || (R::FP && exact)) {
          RV da = dotv(cc, ca), db = dotv(cc, cb);
          if (da.def && db.def && (da.v != 0 || db.v != 0)) { bad = true; r.fail("Vector3::cross:not-orthogonal", [&] { return cls + " " + ctx() + " cross=" + astr(cc) + vf::fmt(" cross.a=%g cross.b=%g", (double)da.v, (double)db.v); }); }
          RV n2 = dotv(cc, cc), rhs = R::bin('-', R::bin('*', dotv(ca, ca), dotv(cb, cb)), R::bin('*', dot, dot));
          if (n2.def && rhs.def && n2.v != rhs.v) { bad = true; r.fail("Vector3::cross:wrong-magnitude", [&] { return cls + " " + ctx() + " cross=" + astr(cc); }); }
        }
      }
      if (wantc.def) {
        expect_vec("cross(commuted)", b.cross(a), wantc.v, ctx);
        if (want.def) {
          // anticommutative: b x a == -(a x b) wherever the negation is defined
          A cba = comps(b.cross(a));
          bool anti = true;
          for (size_t i = 0; i < 3; i++) {
            T n;
            if (R::narrow(R::neg(R::lift(want.v[i])), n)) anti = anti && R::same(cba[i], n);
          }
          if (!anti) { bad = true; r.fail("Vector3::cross:not-anticommutative", [&] { return cls + " " + ctx(); }); }
        }
      }
    }
    r.nontriv();
    if (!bad) r.ok(eq ? "pair: equal vectors" : (a < b) ? "pair: a<b" : "pair: a>b");
  }

  // unary operators, accessors, self-aliasing and vector (op) scalar for one vector and one scalar
  void unary(const A& ca, T s) {
    bad = false;
    V a = mk<T>(ca);
    auto ctx = [&] { return "a=" + astr(ca) + " s=" + vstr<T>(s); };
    OptA neg;
    bool allzero = true;
    for (size_t i = 0; i < N; i++) {
      neg.def = R::narrow(R::neg(R::lift(ca[i])), neg.v[i]) && neg.def;
      allzero = allzero && ca[i] == 0;
    }
    if (neg.def) expect_vec("operator-(unary)", -a, neg.v, ctx);
    expect_val<bool>("operator!", !a, allzero, ctx);
    for (size_t i = 0; i < N; i++) expect_val<T>("at", a.at(i), ca[i], ctx);
    expect_val<size_t>("dimensions", V::dimensions(), N, ctx);
    RV n2v = dotv(ca, ca);
    T n2;
    if (R::FP && !exact) {
      expect_dot("norm2", a.norm2(), ca, ca, ctx);
      expect_dot("dot(self)", a.dot(a), ca, ca, ctx);
      // norm() against the library's own norm2 (sqrt is correctly rounded): within rounding of sqrt(norm2)
      double n = a.norm(), want = sqrt((double)a.norm2());
      double tol = (std::is_same_v<T, float> ? 1e-6 : 1e-12) * (1 + fabs(want));
      if (!(n == want || (n != n && want != want) || fabs(n - want) <= tol)) { bad = true; r.fail(vf::fmt("Vector%zu::norm:wrong-value", N), [&] { return cls + " " + ctx() + vf::fmt(" norm()=%.17g sqrt(norm2())=%.17g", n, want); }); }
    } else if (R::narrow(n2v, n2)) {
      expect_val<T>("norm2", a.norm2(), n2, ctx);
      expect_val<T>("dot(self)", a.dot(a), n2, ctx);
      double n = a.norm(), want = sqrt((double)n2);
      double tol = (std::is_same_v<T, float> ? 1e-6 : 1e-12) * (1 + fabs(want));
      if (!(n == want || (n != n && want != want) || fabs(n - want) <= tol)) { bad = true; r.fail(vf::fmt("Vector%zu::norm:wrong-value", N), [&] { return cls + " " + ctx() + vf::fmt(" norm()=%.17g sqrt(sum of squares)=%.17g", n, want); }); }
    }
    {
      // executed only: the statement does not define norm1 (the library returns the plain sum)
      RV s1 = R::lift(ca[0]);
      for (size_t i = 1; i < N; i++) s1 = R::bin('+', s1, R::lift(ca[i]));
      if (s1.def) (void)a.norm1();
    }
    // self-aliasing: the right operand is the object itself
    {
      OptA dbl = map2(ca, ca, '+'), zero = map2(ca, ca, '-');
      if (dbl.def) { V t = a; t += t; expect_vec("operator+=(self)", t, dbl.v, ctx); expect_vec("operator+(self)", a + a, dbl.v, ctx); }
      if (zero.def) { V t = a; t -= t; expect_vec("operator-=(self)", t, zero.v, ctx); expect_vec("operator-(self)", a - a, zero.v, ctx); }
      bool selfeq = true;
      for (size_t i = 0; i < N; i++) selfeq = selfeq && (ca[i] == ca[i]);
      expect_val<bool>("operator==", a == a, selfeq, ctx);
      expect_val<bool>("operator!=", a != a, !selfeq, ctx);
      expect_val<bool>("operator<", a < a, false, ctx);
      if constexpr (N == 3) {
        OptA cz = crossv(ca, ca);
        if (cz.def && !(R::FP && !exact)) expect_vec("cross(self)", a.cross(a), cz.v, ctx);
      }
    }
    struct { char op; const char *bin, *cmp; } OPS[5] = {{'+', "operator+(scalar)", "operator+=(scalar)"}, {'-', "operator-(scalar)", "operator-=(scalar)"},
        {'*', "operator*(scalar)", "operator*=(scalar)"}, {'/', "operator/(scalar)", "operator/=(scalar)"}, {'%', "operator%(scalar)", "operator%=(scalar)"}};
    for (auto& o : OPS) {
      if (o.op == '%' && R::FP) continue;
      OptA want = map1(ca, s, o.op);
      if (!want.def) continue;
      V t = a, res;
      V* ref = nullptr;
      switch (o.op) {
        case '+': res = a + s; ref = &(t += s); break;
        case '-': res = a - s; ref = &(t -= s); break;
        case '*': res = a * s; ref = &(t *= s); break;
        case '/': res = a / s; ref = &(t /= s); break;
        case '%':
          if constexpr (!R::FP) { res = a % s; ref = &(t %= s); }
          break;
      }
      expect_vec(o.bin, res, want.v, ctx);
      expect_vec(o.cmp, t, want.v, ctx);
      if (ref != &t) { bad = true; r.fail(vf::fmt("Vector%zu::%s:returns-other-object", N, o.cmp), [&] { return cls + " " + ctx(); }); }
    }
    expect_vec("operands-unchanged", a, ca, ctx);
    // widening constructors
    if constexpr (N == 3) {
      V w(phosg::Vector2<T>(ca[0], ca[1]), ca[2]);
      expect_vec("Vector3(Vector2,z)", w, ca, ctx);
    }
    if constexpr (N == 4) {
      V w(phosg::Vector2<T>(ca[0], ca[1]), ca[2], ca[3]);
      expect_vec("Vector4(Vector2,z,w)", w, ca, ctx);
      V w3(phosg::Vector3<T>(ca[0], ca[1], ca[2]), ca[3]);
      expect_vec("Vector4(Vector3,w)", w3, ca, ctx);
    }
    {
      V z;
      A zero{};
      expect_vec("default-constructor", z, zero, ctx);
      // assignment over an object that already holds another value, and self-assignment
      V t = mk<T>(ca);
      t = z;
      expect_vec("assignment", t, zero, ctx);
      t = a;
      V& self = t;
      t = self;
      expect_vec("assignment", t, ca, ctx);
    }
    r.nontriv();
    if (!bad) r.ok(s == 0 ? "unary+scalar: s=0 (division not executed)" : "unary+scalar");
  }

  // ---- aliased operands ---------------------------------------------------------------------------------------------
  // The operand expression names (part of) the object that is being updated: v op= v.x / v.y / v.z / v.w (every
  // component, through its primary name, through each alias name of the union and through at(i)), the non-assigning
  // operator with the same operand whose result is assigned back (v = v op v.x), and the object itself as the vector
  // operand with the result assigned back (v = v + v, v = v - v, v = -v, v = v.cross(v)).  Reference semantics: the
  // value of the operand is taken BEFORE the operation (v /= s divides every component by the same number s).
  static constexpr int n_names() { return N == 3 ? 3 : 2; }  // ways to name a component as an lvalue
  static const T& comp_ref(const V& v, size_t i, int form) {
    if constexpr (N == 2) {
      if (form == 0) return i == 0 ? v.x : v.y;
      return i == 0 ? v.a : v.b;
    } else if constexpr (N == 3) {
      if (form == 0) return i == 0 ? v.x : (i == 1 ? v.y : v.z);
      if (form == 1) return i == 0 ? v.rx : (i == 1 ? v.ry : v.rz);
      return i == 0 ? v.r : (i == 1 ? v.g : v.b);
    } else {
      if (form == 0) return i == 0 ? v.x : (i == 1 ? v.y : (i == 2 ? v.z : v.w));
      return i == 0 ? v.r : (i == 1 ? v.g : (i == 2 ? v.b : v.a));
    }
  }
  static std::string comp_name(size_t i, int form) {
    static const char* N2[2][2] = {{"x", "y"}, {"a", "b"}};
    static const char* N3[3][3] = {{"x", "y", "z"}, {"rx", "ry", "rz"}, {"r", "g", "b"}};
    static const char* N4[2][4] = {{"x", "y", "z", "w"}, {"r", "g", "b", "a"}};
    if (form == n_names()) return vf::fmt("at(%zu)", i);
    if constexpr (N == 2) return N2[form][i];
    else if constexpr (N == 3) return N3[form][i];
    else return N4[form][i];
  }
  // s is handed on exactly as received: when the library takes its scalar by reference, it binds to the caller's lvalue
  static V* compound(V& t, char op, const T& s) {
    switch (op) {
      case '+': return &(t += s);
      case '-': return &(t -= s);
      case '*': return &(t *= s);
      case '/': return &(t /= s);
      case '%':
        if constexpr (!R::FP) return &(t %= s);
        break;
    }
    return nullptr;
  }
  static V binary(const V& t, char op, const T& s) {
    switch (op) {
      case '+': return t + s;
      case '-': return t - s;
      case '*': return t * s;
      case '/': return t / s;
      case '%':
        if constexpr (!R::FP) return t % s;
        break;
    }
    return t;
  }

  void aliased(const A& ca) {
    bad = false;
    const V a = mk<T>(ca);
    size_t compared = 0;
    static const struct { char op; const char* sym; } OPS[5] = {{'+', "+"}, {'-', "-"}, {'*', "*"}, {'/', "/"}, {'%', "%"}};
    for (auto& o : OPS) {
      if (o.op == '%' && R::FP) continue;
      for (size_t i = 0; i < N; i++) {
        for (int form = 0; form <= n_names(); form++) {  // the last form is at(i)
          const bool via_at = form == n_names();
          V t = a, u = a;
          const T s = via_at ? t.at(i) : comp_ref(t, i, form);  // value of the operand before the operation
          OptA want = map1(ca, s, o.op);
          if (!want.def) continue;  // division by zero / signed overflow: neither executed nor compared
          compared++;
          auto ctx = [&] { return "v=" + astr(ca) + vf::fmt(", operand v.%s (= %s, taken before the operation)", comp_name(i, form).c_str(), vstr<T>(s).c_str()); };
          std::string cname = vf::fmt("operator%s=(scalar-aliases-a-component)", o.sym);
          std::string bname = vf::fmt("operator%s(scalar-aliases-a-component,result-assigned-back)", o.sym);
          V* ref = nullptr;
          int sig = trapped([&] { ref = via_at ? compound(t, o.op, t.at(i)) : compound(t, o.op, comp_ref(t, i, form)); });
          if (sig) {
            bad = true;
            r.fail(vf::fmt("Vector%zu::", N) + cname + ":arithmetic-trap", [&] { return cls + " " + ctx() + vf::fmt(": v %s= v.%s raised signal %d (%s); the componentwise definition gives ", o.sym, comp_name(i, form).c_str(), sig, strsignal(sig)) + astr(want.v); });
          } else {
            expect_vec(cname.c_str(), t, want.v, ctx);
            if (ref != &t) { bad = true; r.fail(vf::fmt("Vector%zu::", N) + cname + ":returns-other-object", [&] { return cls + " " + ctx(); }); }
          }
          sig = trapped([&] { u = via_at ? binary(u, o.op, u.at(i)) : binary(u, o.op, comp_ref(u, i, form)); });
          if (sig) {
            bad = true;
            r.fail(vf::fmt("Vector%zu::", N) + bname + ":arithmetic-trap", [&] { return cls + " " + ctx() + vf::fmt(": v = v %s v.%s raised signal %d (%s)", o.sym, comp_name(i, form).c_str(), sig, strsignal(sig)); });
          } else expect_vec(bname.c_str(), u, want.v, ctx);
        }
      }
    }
    // the object itself as the vector operand, result assigned back
    {
      auto ctx = [&] { return "v=" + astr(ca); };
      OptA dbl = map2(ca, ca, '+'), zero = map2(ca, ca, '-'), neg;
      for (size_t i = 0; i < N; i++) neg.def = R::narrow(R::neg(R::lift(ca[i])), neg.v[i]) && neg.def;
      if (dbl.def) { V t = a; t = t + t; expect_vec("operator+(v=v+v)", t, dbl.v, ctx); compared++; }
      if (zero.def) { V t = a; t = t - t; expect_vec("operator-(v=v-v)", t, zero.v, ctx); compared++; }
      if (neg.def) { V t = a; t = -t; expect_vec("operator-(unary,v=-v)", t, neg.v, ctx); compared++; }
      if constexpr (N == 3) {
        OptA cz = crossv(ca, ca);
        if (cz.def && !(R::FP && !exact)) { V t = a; t = t.cross(t); expect_vec("cross(v=v.cross(v))", t, cz.v, ctx); compared++; }
      }
      {
        V t = a;
        const V& same = t;
        t = same;  // self-assignment
        expect_vec("assignment(v=v)", t, ca, ctx);
      }
    }
    r.nontriv();
    if (!bad) r.ok(compared ? "aliased operands" : "aliased operands: no defined operation");
  }

  // operator< is a strict weak order consistent with == (one triple)
  void triple(const A& ca, const A& cb, const A& cc) {
    bad = false;
    V a = mk<T>(ca), b = mk<T>(cb), c = mk<T>(cc);
    auto ctx = [&] { return "a=" + astr(ca) + " b=" + astr(cb) + " c=" + astr(cc); };
    auto flag = [&](const char* law) { bad = true; r.fail(vf::fmt("Vector%zu::operator<:%s", N, law), [&] { return cls + " " + ctx(); }); };
    bool ab = a < b, ba = b < a, bc = b < c, cb_ = c < b, ac = a < c, ca_ = c < a;
    if (a < a || b < b || c < c) flag("not-irreflexive");
    if ((ab && ba) || (bc && cb_) || (ac && ca_)) flag("not-asymmetric");
    if (ab && bc && !ac) flag("not-transitive");
    bool iab = !ab && !ba, ibc = !bc && !cb_, iac = !ac && !ca_;
    if (iab && ibc && !iac) flag("incomparability-not-transitive");
    if (iab != (a == b) || ibc != (b == c) || iac != (a == c)) flag("incomparable-differs-from-==");
    if (ab != (ca < cb) || bc != (cb < cc) || ac != (ca < cc)) flag("not-lexicographic");
    r.nontriv();
    if (!bad) r.ok(iab && ibc ? "triple: all equal" : (ab && bc) ? "triple: ascending chain" : "triple: other");
  }
};

template <class T>
std::vector<T> range_alphabet(int lo, int hi) {
  std::vector<T> v;
  for (int i = lo; i <= hi; i++) v.push_back((T)i);
  return v;
}

template <class T, size_t N>
std::vector<std::array<T, N>> all_vectors(const std::vector<T>& al) {
  std::vector<std::array<T, N>> out;
  for (vf::Odometer o(std::vector<uint32_t>(N, (uint32_t)al.size())); !o.done; o.step()) {
    std::array<T, N> a;
    for (size_t i = 0; i < N; i++) a[i] = al[o.d[i]];
    out.push_back(a);
  }
  return out;
}

// `alias_al`: component alphabet of the vectors on which the aliased-operand forms run (defaults to `al`)
template <class T, size_t N>
void vec_pairs(vf::Run& r, const std::vector<T>& al, const std::vector<T>& scalars, bool exact, const char* what, const std::vector<T>* alias_al = nullptr) {
  r.note(vf::fmt("Vector%zu<%s> %s", N, tname<T>(), what));
  VecCheck<T, N> ck(r, exact);
  auto all = all_vectors<T, N>(al);
  // aliased operands: every vector x every scalar compound / binary operator x every component x every way to name it
  for (auto& a : all_vectors<T, N>(alias_al ? *alias_al : al)) {
    if (!r.take()) continue;
    if (r.wants_desc()) r.desc(vf::fmt("Vector%zu<%s> v=%s: v op= v.<component> and v = v op v.<component> for op in + - * / %%, every component by each of its names and through at(i); v = v + v, v = v - v, v = -v, v = v.cross(v), v = v", N, tname<T>(), astr(a).c_str()));
    ck.aliased(a);
  }
  // vector (op) scalar and unary operators: every vector x every scalar
  for (auto& a : all) {
    for (T s : scalars) {
      if (!r.take()) continue;
      if (r.wants_desc()) r.desc(vf::fmt("Vector%zu<%s> a=%s scalar %s: unary -, !, at, norm2, norm, self-aliased += -= + - == < cross, + - * / %% with scalar, constructors, assignment", N, tname<T>(), astr(a).c_str(), vstr<T>(s).c_str()));
      ck.unary(a, s);
    }
  }
  // all ordered pairs
  for (auto& a : all) {
    for (auto& b : all) {
      if (!r.take()) continue;
      if (r.wants_desc()) r.desc(vf::fmt("Vector%zu<%s> a=%s b=%s: + - += -= == != < dot%s", N, tname<T>(), astr(a).c_str(), astr(b).c_str(), N == 3 ? " cross" : ""));
      ck.pair(a, b);
    }
  }
}

template <class T, size_t N>
void vec_triples(vf::Run& r, const std::vector<T>& al) {
  r.note(vf::fmt("Vector%zu<%s>::operator<", N, tname<T>()));
  VecCheck<T, N> ck(r, true);
  auto all = all_vectors<T, N>(al);
  for (size_t i = 0; i < all.size(); i++) {
    for (size_t j = 0; j < all.size(); j++) {
      for (size_t k = 0; k < all.size(); k++) {
        if (!r.take()) continue;
        if (r.wants_desc()) r.desc(vf::fmt("Vector%zu<%s> operator< on triple %s %s %s", N, tname<T>(), astr(all[i]).c_str(), astr(all[j]).c_str(), astr(all[k]).c_str()));
        ck.triple(all[i], all[j], all[k]);
      }
    }
  }
}

// ---- boundary alphabets per component type, most telling values first (shorter prefixes are used for N = 3, 4) -------
template <class T>
std::vector<T> wide_alphabet() {
  typedef std::numeric_limits<T> L;
  std::vector<T> v;
  if constexpr (std::is_same_v<T, double>) {
    double inf = L::infinity();
    v = {0.0, -0.0, 1.0, -inf, inf, 9007199254740993.0 /* 2^53 (+1 rounds away) */, -1e308, 0.1, 1e308, -1.0, 4503599627370497.0 /* 2^52+1 */, -2147483649.0, 5e-324};
  } else if constexpr (std::is_same_v<T, float>) {
    float inf = L::infinity();
    v = {0.0f, -0.0f, 1.0f, -inf, inf, 16777216.0f, -3e38f, 0.1f, 3e38f, -1.0f, 8388609.0f, 1e-45f};
  } else if constexpr (std::is_same_v<T, int64_t>) {
    const int64_t a = 1ll << 31, b = 1ll << 52;
    v = {0, -(b + 1), a + 1, 1, -a, b, -1, L::max(), L::min(), -(a + 1), a, b + 1, -b, 3037000499ll, 2, L::max() - 1, L::min() + 1};
  } else if constexpr (std::is_same_v<T, uint64_t>) {
    v = {0, L::max(), (1ull << 32) + 1, 1, 1ull << 63, (1ull << 32) - 1, 2, 1ull << 32, L::max() - 1, (1ull << 63) - 1, (1ull << 52) + 1, 3};
  } else if constexpr (L::is_signed) {
    T h = (T)((T)1 << (sizeof(T) * 4 - 1));  // about sqrt(max)/1.4: 2^(w/2-1)
    v = {0, L::min(), L::max(), 1, -1, (T)(h + 1), (T)-h, 2, (T)(L::max() - 1), (T)(L::min() + 1), (T)(2 * h), 3};
  } else {
    T h = (T)((T)1 << (sizeof(T) * 4));  // 2^(w/2)
    v = {0, L::max(), 1, (T)(L::max() / 2 + 1), (T)(h + 1), 2, (T)(L::max() / 2), (T)(h - 1), (T)(L::max() - 1), h, 3};
  }
  return v;
}

template <class T>
std::vector<T> prefix(const std::vector<T>& v, size_t n) { return std::vector<T>(v.begin(), v.begin() + std::min(n, v.size())); }

template <class T>
void wide_type(vf::Run& r) {
  auto al = wide_alphabet<T>();
  bool th = r.thorough();
  vec_pairs<T, 2>(r, al, al, false, "boundary components");
  vec_pairs<T, 3>(r, prefix(al, th ? 7 : 5), al, false, "boundary components");
  vec_pairs<T, 4>(r, prefix(al, th ? 5 : 4), al, false, "boundary components");
}

template <class T>
void wide_order(vf::Run& r) {
  auto al = wide_alphabet<T>();
  vec_triples<T, 2>(r, prefix(al, 6));
  vec_triples<T, 3>(r, prefix(al, 3));
  vec_triples<T, 4>(r, prefix(al, 2));
}

}  // namespace c20
