// C13 round 2 — operation sequences on one object: Vector2<int64_t> and Vector3<int64_t> worlds (see C13_seq.hh).
#include "C13_seq.hh"

using namespace c13;

namespace {
using V2 = Vector2<int64_t>;
using V3 = Vector3<int64_t>;
}  // namespace

// 2x2 grid, one value: ties on both axes, duplicates are identical entries
VF_SECTION(seq_grid2, 16, 16, 120) {
  SeqWorld<V2, int64_t> w;
  w.name = "Vector2<int64_t> 2x2 grid";
  w.entries = {{V2(0, 0), 0}, {V2(0, 1), 0}, {V2(1, 0), 0}, {V2(1, 1), 0}};
  w.probe_vals = {0, 1, 2};
  w.corner_vals = {0, 1, 2};
  run_world(r, w, r.thorough() ? 6 : 5, r.thorough() ? 5 : 4);
}

// one point carrying three different values plus a neighbour on the same x; inserted through emplace
VF_SECTION(seq_dup3, 16, 16, 120) {
  SeqWorld<V2, int64_t> w;
  w.name = "Vector2<int64_t> point (1,1) with values 0,1,2 and (1,0)";
  w.entries = {{V2(1, 1), 0}, {V2(1, 1), 1}, {V2(1, 1), 2}, {V2(1, 0), 0}};
  w.probe_vals = {0, 1, 2};
  w.corner_vals = {0, 1, 2};
  w.emplace = true;
  run_world(r, w, r.thorough() ? 5 : 4, r.thorough() ? 5 : 4);
}

// Vector3: four corners of the cube, pairwise sharing exactly one coordinate
VF_SECTION(seq_v3, 16, 16, 120) {
  SeqWorld<V3, int64_t> w;
  w.name = "Vector3<int64_t> cube corners";
  w.entries = {{V3(0, 0, 0), 0}, {V3(0, 1, 1), 0}, {V3(1, 0, 1), 0}, {V3(1, 1, 0), 0}};
  w.probe_vals = {0, 1};
  w.corner_vals = {0, 1, 2};
  w.box_mode = 1;
  run_world(r, w, r.thorough() ? 5 : 4, r.thorough() ? 4 : 3);
}
