// C03_common.hh — shared by all harness/C03*.cc (one harness binary, eight translation units so they
// compile in parallel).  Everything lives in an anonymous namespace.
#pragma once
#include <math.h>
#include <string.h>

#include <algorithm>
#include <limits>
#include <new>
#include <string>
#include <type_traits>
#include <vector>

#include "Encoding.hh"
#include "vf.hh"

using namespace phosg;

// Hot helpers are force-inlined in the sweep sections; the operand-type matrix instantiates them for
// ~200 (wrapper, operand type) pairs and defines C03_NO_FORCE_INLINE to keep compile time down.
#ifdef C03_NO_FORCE_INLINE
#define C03_HOT
#else
#define C03_HOT __attribute__((always_inline))
#endif

namespace {

enum Order { ORD_BE, ORD_LE };
#if defined(__BYTE_ORDER__) && (__BYTE_ORDER__ == __ORDER_LITTLE_ENDIAN__)
constexpr Order ORD_RE = ORD_BE;  // "reverse" of the host
constexpr Order ORD_HOST = ORD_LE;
#else
constexpr Order ORD_RE = ORD_LE;
constexpr Order ORD_HOST = ORD_BE;
#endif
const char* order_name(Order o) { return o == ORD_BE ? "big-endian" : "little-endian"; }

template <size_t N> struct UIntFor;
template <> struct UIntFor<1> { using type = uint8_t; };
template <> struct UIntFor<2> { using type = uint16_t; };
template <> struct UIntFor<4> { using type = uint32_t; };
template <> struct UIntFor<8> { using type = uint64_t; };

template <class T>
C03_HOT inline uint64_t bits_of(T v) {
  typename UIntFor<sizeof(T)>::type u;
  memcpy(&u, &v, sizeof(T));
  return u;
}
template <class T>
C03_HOT inline T from_bits(uint64_t b) {
  typename UIntFor<sizeof(T)>::type u = static_cast<typename UIntFor<sizeof(T)>::type>(b);
  T v;
  memcpy(&v, &u, sizeof(T));
  return v;
}

// Independent encoder: value -> the integer whose in-memory image is the sizeof(T) bytes of the value
// in the named order (compiler intrinsic, not phosg).
template <class T>
C03_HOT inline typename UIntFor<sizeof(T)>::type encode_u(T v, Order o) {
  typename UIntFor<sizeof(T)>::type u;
  memcpy(&u, &v, sizeof(T));
  if (o != ORD_HOST) {
    if constexpr (sizeof(T) == 2) u = __builtin_bswap16(u);
    else if constexpr (sizeof(T) == 4) u = __builtin_bswap32(u);
    else if constexpr (sizeof(T) == 8) u = __builtin_bswap64(u);
  }
  return u;
}

// Independent lane reversal of the low n bytes (byte loop; used for the bswap helpers).
inline uint64_t rev_lanes(uint64_t v, int n) {
  uint64_t r = 0;
  for (int i = 0; i < n; i++) r |= ((v >> (8 * i)) & 0xFFull) << (8 * (n - 1 - i));
  return r;
}
// Independent sign extension of the low `bits` bits to 64 bits (arithmetic, not mask-or).
inline int64_t sext(uint64_t v, int bits) {
  if (bits < 64) v &= (1ull << bits) - 1;
  int64_t x = static_cast<int64_t>(v);
  if (bits < 64 && ((v >> (bits - 1)) & 1)) x -= (static_cast<int64_t>(1) << bits);
  return x;
}

std::string hexv(uint64_t b, size_t bytes) { return vf::fmt("0x%0*llX", (int)(bytes * 2), (unsigned long long)b); }
std::string hexbytes(uint64_t img, size_t n) {
  uint8_t p[8];
  memcpy(p, &img, 8);  // host is little-endian or big-endian: the image was taken with memcpy of the low n bytes
  if (ORD_HOST == ORD_BE) memmove(p, p + 8 - n, n);
  std::string s;
  for (size_t i = 0; i < n; i++) s += vf::fmt("%s%02X", i ? " " : "", p[i]);
  return s;
}

enum Op {
  OP_CTOR, OP_ASSIGN, OP_STORE,
  OP_ADD, OP_SUB, OP_MUL, OP_DIV, OP_MOD, OP_AND, OP_OR, OP_XOR,
  OP_SHL, OP_SHR,
  OP_PREINC, OP_POSTINC, OP_PREDEC, OP_POSTDEC,
  NOPS
};
// stable key stems (replay file names are derived from keys; punctuation would collide there)
const char* op_key[NOPS] = {"ctor", "assign", "store", "add_assign", "sub_assign", "mul_assign", "div_assign", "mod_assign",
    "and_assign", "or_assign", "xor_assign", "shl_assign", "shr_assign", "preinc", "postinc", "predec", "postdec"};
const char* op_name[NOPS] = {"ctor", "operator=", "store", "operator+=", "operator-=", "operator*=", "operator/=", "operator%=",
    "operator&=", "operator|=", "operator^=", "operator<<=", "operator>>=", "operator++()", "operator++(int)", "operator--()", "operator--(int)"};

template <class W>
struct __attribute__((packed)) Cell {
  uint8_t pre;
  W w;
  uint8_t post;
};

const char* fail_kind(int f) {
  switch (f) {
    case 1: return "stored-value";
    case 2: return "returned-value";
    case 3: return "writes-outside-object";
    default: return "returned-reference";
  }
}

struct Obs {
  int fail = 0;  // 0 ok, 1 stored value, 2 returned value, 3 wrote outside its bytes, 4 returned reference is not the object
  bool skipped = false;
  uint64_t want, want_ret, got_load, got_conv, got_ret, got_rawval;
  uint64_t raw_img, want_raw_img;  // memory images (host integers) of the object bytes observed / expected
  uint8_t pre, post;
};

// Compares everything observable about the wrapper with the native result.
template <class W, class T>
C03_HOT inline void finish(Cell<W>& c, Order o, T n, T ret_n, T ret_w, bool ref_ok, bool nan_relax, Obs& ob) {
  using U = typename UIntFor<sizeof(T)>::type;
  W& w = c.w;
  T ld = w.load();
  T cv = static_cast<T>(w);
  if constexpr (std::is_floating_point_v<T>) {
    // NaN produced by arithmetic: only NaN-ness is demanded (payload/sign of a computed NaN is not
    // part of "what the operator yields"); a stored NaN (ctor/=/store) stays bit-exact.
    if (nan_relax && n != n && ld != ld) n = ld;
    if (nan_relax && ret_n != ret_n && ret_w != ret_w) ret_n = ret_w;
  }
  // everything is computed in locals; the observation record is only filled in for a failing case
  uint64_t want = bits_of(n), want_ret = bits_of(ret_n), got_load = bits_of(ld), got_conv = bits_of(cv), got_ret = bits_of(ret_w);
  U want_img = encode_u(n, o);
  U raw_img;
  memcpy(&raw_img, reinterpret_cast<const void*>(&w), sizeof(T));  // the object's bytes
  auto rawv = w.load_raw();
  static_assert(sizeof(rawv) == sizeof(T), "StoredT must have the size of ExposedT");
  U rawv_img;
  memcpy(&rawv_img, &rawv, sizeof(T));
  int f;
  if (c.pre != 0xC3 || c.post != 0x3C) f = 3;
  else if (got_load != want || got_conv != want || raw_img != want_img || rawv_img != want_img) f = 1;
  else if (got_ret != want_ret) f = 2;
  else if (!ref_ok) f = 4;
  else f = 0;
  ob.fail = f;
  if (__builtin_expect(f != 0, 0)) {
    ob.want = want;
    ob.want_ret = want_ret;
    ob.got_load = got_load;
    ob.got_conv = got_conv;
    ob.got_ret = got_ret;
    ob.raw_img = raw_img;
    ob.want_raw_img = want_img;
    ob.got_rawval = rawv_img;
    ob.pre = c.pre;
    ob.post = c.post;
  }
}

template <class W, class T>
C03_HOT inline void install(Cell<W>& c, Order o, T before) {
  c.pre = 0xC3;
  c.post = 0x3C;
  auto img = encode_u(before, o);
  memcpy(reinterpret_cast<void*>(&c.w), &img, sizeof(T));
}

// ctor / operator=(T) / store(T): prior state `prior`, new value `nv`.
template <class W, class T>
C03_HOT inline void run_assign(Cell<W>& c, Order o, int op, T prior, T nv, Obs& ob) {
  ob.skipped = false;
  install<W, T>(c, o, prior);
  T ret_w = nv;
  bool ref_ok = true;
  switch (op) {
    case OP_CTOR:
      new (reinterpret_cast<void*>(&c.w)) W(nv);
      break;
    case OP_ASSIGN: {
      auto&& rr = (c.w = nv);
      ref_ok = (reinterpret_cast<const void*>(&rr) == reinterpret_cast<const void*>(&c.w));
      ret_w = static_cast<T>(rr);
      break;
    }
    default:
      c.w.store(nv);
      break;
  }
  finish<W, T>(c, o, nv, nv, ret_w, ref_ok, false, ob);
}

// width of the type the built-in operators carry a T operand in (integral promotion: int for 8/16-bit T)
template <class T>
constexpr unsigned promoted_bits() { return sizeof(decltype(+T())) * 8; }

template <class T, class D>
C03_HOT inline bool binop_defined(int op, T a, D d) {
  if constexpr (std::is_floating_point_v<T>) {
    if (!(op == OP_ADD || op == OP_SUB || op == OP_MUL || op == OP_DIV)) return false;
    using P = decltype(a + d);  // float op double is carried out in double and narrowed on the store
    if constexpr (sizeof(P) > sizeof(T)) {
      P pa = a, pd = d, res = op == OP_ADD ? pa + pd : (op == OP_SUB ? pa - pd : (op == OP_MUL ? pa * pd : pa / pd));
      // a finite result beyond T's range has no defined narrowing conversion
      if (res == res && res - res == 0 && (res > static_cast<P>(std::numeric_limits<T>::max()) || res < static_cast<P>(std::numeric_limits<T>::lowest()))) return false;
    }
    return true;
  } else if constexpr (std::is_floating_point_v<D>) {
    // integer wrapper, float/double operand: carried out in P = float/double, converted back to T; the
    // conversion is defined only when the truncated result fits T (conservative bounds: not compared otherwise)
    if (!(op == OP_ADD || op == OP_SUB || op == OP_MUL || op == OP_DIV)) return false;
    using P = decltype(a + d);
    P pa = static_cast<P>(a), pd = d, res = op == OP_ADD ? pa + pd : (op == OP_SUB ? pa - pd : (op == OP_MUL ? pa * pd : pa / pd));
    constexpr int w = sizeof(T) * 8;
    if (!(res == res)) return false;
    if constexpr (std::is_signed_v<T>) return res >= -ldexp(static_cast<P>(1), w - 1) && res < ldexp(static_cast<P>(1), w - 1);
    else return res > static_cast<P>(-1) && res < ldexp(static_cast<P>(1), w);
  } else {
    using P = decltype(a + d);  // type the arithmetic is carried out in
    P pa = static_cast<P>(a), pd = static_cast<P>(d), tmp;
    switch (op) {
      case OP_ADD: return std::is_unsigned_v<P> || !__builtin_add_overflow(pa, pd, &tmp);
      case OP_SUB: return std::is_unsigned_v<P> || !__builtin_sub_overflow(pa, pd, &tmp);
      case OP_MUL: return std::is_unsigned_v<P> || !__builtin_mul_overflow(pa, pd, &tmp);
      case OP_DIV:
      case OP_MOD:
        if (pd == 0) return false;
        if constexpr (std::is_signed_v<P>) {
          if (pa == std::numeric_limits<P>::min() && pd == static_cast<P>(-1)) return false;
        }
        return true;
      case OP_SHL:
      case OP_SHR:
        // [expr.shift]: undefined iff the count is negative or >= the width of the PROMOTED left operand
        // (int for the 8/16-bit types: counts 8..31 / 16..31 are defined); C++20: a signed left operand of
        // << yields the value congruent modulo 2^N, and the narrowing back to T is modular too, so every
        // in-range count is compared for signed types as well
        return d >= 0 && static_cast<uint64_t>(d) < promoted_bits<T>();
      default: return true;
    }
  }
}

// x op= d on either a native T or a wrapper; returns the value of the expression.
template <class T, class X, class D>
C03_HOT inline T apply_binop(int op, X& x, D d, bool& ref_ok) {
#define VF_BIN(OPTOK)                                                                              \
  {                                                                                                \
    auto&& rr = (x OPTOK d); /* auto&&: a by-value return still compiles and is judged */                                                                        \
    ref_ok = (reinterpret_cast<const void*>(&rr) == reinterpret_cast<const void*>(&x));            \
    return static_cast<T>(rr);                                                                     \
  }
  switch (op) {
    case OP_ADD: VF_BIN(+=)
    case OP_SUB: VF_BIN(-=)
    case OP_MUL: VF_BIN(*=)
    case OP_DIV: VF_BIN(/=)
    default: break;
  }
  if constexpr (std::is_integral_v<T> && std::is_integral_v<D>) {
    switch (op) {
      case OP_MOD: VF_BIN(%=)
      case OP_AND: VF_BIN(&=)
      case OP_OR: VF_BIN(|=)
      case OP_XOR: VF_BIN(^=)
      case OP_SHL: VF_BIN(<<=)
      case OP_SHR: VF_BIN(>>=)
      default: break;
    }
  }
#undef VF_BIN
  __builtin_trap();
}

template <class W, class T, class D>
C03_HOT inline void run_binop(Cell<W>& c, Order o, int op, T before, D d, Obs& ob) {
  ob.skipped = false;
  if (!binop_defined<T, D>(op, before, d)) {
    ob.skipped = true;
    ob.fail = 0;
    return;
  }
  install<W, T>(c, o, before);
  T n = before;
  bool ref_n = true, ref_w = true;
  T ret_n = apply_binop<T, T, D>(op, n, d, ref_n);
  T ret_w = apply_binop<T, W, D>(op, c.w, d, ref_w);
  finish<W, T>(c, o, n, ret_n, ret_w, ref_w, true, ob);
}

template <class T>
C03_HOT inline bool incdec_defined(int op, T a) {
  if constexpr (std::is_integral_v<T> && std::is_signed_v<T> && sizeof(T) >= sizeof(int)) {
    if (op == OP_PREINC || op == OP_POSTINC) return a != std::numeric_limits<T>::max();
    return a != std::numeric_limits<T>::min();
  }
  return true;
}

template <class W, class T>
C03_HOT inline void run_incdec(Cell<W>& c, Order o, int op, T before, Obs& ob) {
  ob.skipped = false;
  if (!incdec_defined<T>(op, before)) {
    ob.skipped = true;
    ob.fail = 0;
    return;
  }
  install<W, T>(c, o, before);
  T n = before;
  T ret_n, ret_w;
  switch (op) {
    case OP_PREINC: ret_n = ++n; ret_w = ++c.w; break;
    case OP_POSTINC: ret_n = n++; ret_w = c.w++; break;
    case OP_PREDEC: ret_n = --n; ret_w = --c.w; break;
    default: ret_n = n--; ret_w = c.w--; break;
  }
  finish<W, T>(c, o, n, ret_n, ret_w, true, true, ob);
}

template <class T>
std::string show_val(uint64_t bits) {
  if constexpr (std::is_floating_point_v<T>) return vf::fmt("%s(%.9g)", hexv(bits, sizeof(T)).c_str(), (double)from_bits<T>(bits));
  else if constexpr (std::is_signed_v<T>) return vf::fmt("%s(%lld)", hexv(bits, sizeof(T)).c_str(), (long long)from_bits<T>(bits));
  else return hexv(bits, sizeof(T));
}

template <class T>
std::string describe_head(const char* wname, Order o, int op, uint64_t before_bits, const std::string& operand, const Obs& ob) {
  std::string s = vf::fmt("%s (%s %d-bit) holding %s: %s", wname, order_name(o), (int)sizeof(T) * 8, show_val<T>(before_bits).c_str(), op_name[op]);
  if (!operand.empty()) s += " operand " + operand;
  if (ob.skipped) return s + " [native result undefined: not compared]";
  return s;
}
// full observation; only valid for a failing case (finish() fills the record only then)
template <class T>
std::string describe(const char* wname, Order o, int op, uint64_t before_bits, const std::string& operand, const Obs& ob) {
  std::string s = describe_head<T>(wname, o, op, before_bits, operand, ob);
  if (ob.skipped || !ob.fail) return s;
  s += vf::fmt(" | native: value %s, expression yields %s | wrapper: load() %s, conversion %s, raw bytes [%s] (expected [%s]), load_raw() %s, expression yields %s, canaries %02X/%02X",
      show_val<T>(ob.want).c_str(), show_val<T>(ob.want_ret).c_str(), show_val<T>(ob.got_load).c_str(), show_val<T>(ob.got_conv).c_str(),
      hexbytes(ob.raw_img, sizeof(T)).c_str(), hexbytes(ob.want_raw_img, sizeof(T)).c_str(), hexv(ob.got_rawval, sizeof(T)).c_str(), show_val<T>(ob.got_ret).c_str(), ob.pre, ob.post);
  return s;
}

struct Tally {
  uint64_t ok[NOPS] = {0}, skipped[NOPS] = {0}, failed[NOPS][5] = {{0}};
  // first failure of a kind goes through r.fail (describes the minimal case); repeats are only counted
  template <class F>
  inline void fail(vf::Run& r, int op, int kind, F&& describe_fn) {
    if (failed[op][kind]++ == 0) r.fail(std::string(op_key[op]) + ":" + fail_kind(kind), describe_fn);
  }
  void flush(vf::Run& r, const char* prefix) {
    for (int i = 0; i < NOPS; i++) {
      for (int k = 0; k < 5; k++) {
        if (failed[i][k] > 1) {
          std::string key = std::string(op_key[i]) + ":" + fail_kind(k);
          r.viol[key].count += failed[i][k] - 1;
          r.hist["VIOLATION:" + key] += failed[i][k] - 1;
        }
      }
    }
    for (int i = 0; i < NOPS; i++) {
      if (ok[i]) r.hist[std::string(prefix) + op_name[i] + ":equals-native"] += ok[i];
      if (skipped[i]) r.hist[std::string(prefix) + op_name[i] + ":native-undefined(not compared)"] += skipped[i];
    }
  }
};

template <class T, class OperandFn>
inline void account(vf::Run& r, Tally& t, int op, const Obs& ob, const char* wname, Order o, uint64_t before_bits, OperandFn&& operand_fn) {
  if (ob.skipped) {
    t.skipped[op]++;
    return;
  }
  r.nontriv();
  if (ob.fail) t.fail(r, op, ob.fail, [&] { return describe<T>(wname, o, op, before_bits, operand_fn(), ob); });
  else t.ok[op]++;
}

// ---- value sets -------------------------------------------------------------------------------
const uint8_t L9[9] = {0x00, 0x01, 0x7F, 0x80, 0xFF, 0x02, 0x81, 0xFE, 0xA5};
const uint8_t L5[5] = {0x00, 0x01, 0x7F, 0x80, 0xFF};

// all byte-lane combinations from `lanes` over `nbytes` bytes, then walking one / walking zero,
// then the all-distinct pattern and its complement.  Simplest (all-zero) first.
std::vector<uint64_t> lane_set(const uint8_t* lanes, size_t nl, int nbytes) {
  std::vector<uint64_t> v;
  uint64_t total = 1;
  for (int i = 0; i < nbytes; i++) total *= nl;
  v.reserve(total + 2 * nbytes * 8 + 2);
  for (uint64_t k = 0; k < total; k++) {
    uint64_t x = k, val = 0;
    for (int i = 0; i < nbytes; i++) {
      val |= static_cast<uint64_t>(lanes[x % nl]) << (8 * i);
      x /= nl;
    }
    v.push_back(val);
  }
  uint64_t mask = nbytes == 8 ? ~0ull : ((1ull << (8 * nbytes)) - 1);
  for (int b = 0; b < nbytes * 8; b++) v.push_back(1ull << b);
  for (int b = 0; b < nbytes * 8; b++) v.push_back(~(1ull << b) & mask);
  v.push_back(0x0102030405060708ull & mask);
  v.push_back(~0x0102030405060708ull & mask);
  return v;
}

// v plus every 2^k-1, 2^k, 2^k+1 and two's-complement negative (k = 0..bits) that v does not contain yet
inline std::vector<uint64_t> with_pow2(std::vector<uint64_t> v, int bits) {
  const uint64_t mask = bits == 64 ? ~0ull : ((1ull << bits) - 1);
  std::vector<uint64_t> sorted = v;
  std::sort(sorted.begin(), sorted.end());
  std::vector<uint64_t> added;
  for (int k = 0; k <= bits; k++)
    for (int d = -1; d <= 1; d++) {
      uint64_t u = ((k < 64 ? (1ull << k) : 0ull) + static_cast<uint64_t>(static_cast<int64_t>(d))) & mask;
      for (uint64_t x : {u, static_cast<uint64_t>((0ull - u) & mask)}) {
        if (std::binary_search(sorted.begin(), sorted.end(), x)) continue;
        bool seen = false;
        for (uint64_t y : added) seen = seen || y == x;
        if (!seen) added.push_back(x);
      }
    }
  v.insert(v.end(), added.begin(), added.end());
  return v;
}

template <class T>
std::vector<T> typed(const std::vector<uint64_t>& bits) {
  std::vector<T> v;
  v.reserve(bits.size());
  for (uint64_t b : bits) v.push_back(from_bits<T>(b));
  return v;
}

// Integer wrapper driver: per-case take().
template <class W, class T, class D>
void drive_int(vf::Run& r, const char* wname, Order o, const std::vector<T>& values, const std::vector<T>& assign_values,
    const std::vector<D>& operands, const std::vector<int>& shifts) {
  r.note(wname);
  Tally t;
  Cell<W> cell;
  Obs ob;
  if (r.take()) {
    if (r.wants_desc()) r.desc(vf::fmt("sizeof(%s) == sizeof(native) == %zu", wname, sizeof(T)));
    r.nontriv();
    if (sizeof(W) != sizeof(T) || sizeof(Cell<W>) != sizeof(T) + 2) r.fail("layout:sizeof", [&] { return vf::fmt("sizeof(%s) = %zu, packed cell = %zu, native = %zu", wname, sizeof(W), sizeof(Cell<W>), sizeof(T)); });
    else r.ok("layout:sizeof-equals-native");
  }
  for (int op = OP_CTOR; op <= OP_STORE; op++) {
    for (T nv : assign_values) {
      if (!r.take()) continue;
      T prior = from_bits<T>(~bits_of(nv));
      run_assign<W, T>(cell, o, op, prior, nv, ob);
      if (r.wants_desc()) r.desc(describe_head<T>(wname, o, op, bits_of(prior), show_val<T>(bits_of(nv)), ob));
      account<T>(r, t, op, ob, wname, o, bits_of(prior), [&] { return std::string(show_val<T>(bits_of(nv))); });
    }
  }
  for (int op = OP_ADD; op <= OP_XOR; op++) {
    for (D d : operands) {
      for (T v : values) {
        if (!r.take()) continue;
          run_binop<W, T, D>(cell, o, op, v, d, ob);
        if (r.wants_desc()) r.desc(describe_head<T>(wname, o, op, bits_of(v), vf::fmt("%lld", (long long)d), ob));
        account<T>(r, t, op, ob, wname, o, bits_of(v), [&] { return std::string(vf::fmt("%lld (0x%llX)", (long long)d, (unsigned long long)d)); });
      }
    }
  }
  for (int op = OP_SHL; op <= OP_SHR; op++) {
    for (int d : shifts) {
      for (T v : values) {
        if (!r.take()) continue;
          run_binop<W, T, int>(cell, o, op, v, d, ob);
        account<T>(r, t, op, ob, wname, o, bits_of(v), [&] { return std::string(vf::fmt("%d", d)); });
      }
    }
  }
  for (int op = OP_PREINC; op <= OP_POSTDEC; op++) {
    for (T v : values) {
      if (!r.take()) continue;
      run_incdec<W, T>(cell, o, op, v, ob);
      account<T>(r, t, op, ob, wname, o, bits_of(v), [&] { return std::string(""); });
    }
  }
  t.flush(r, (std::string(wname) + "/").c_str());
}

// Float wrapper driver.
template <class W, class T>
void drive_float(vf::Run& r, const char* wname, Order o, const std::vector<T>& values, const std::vector<T>& operands) {
  r.note(wname);
  Tally t;
  Cell<W> cell;
  Obs ob;
  if (r.take()) {
    r.nontriv();
    if (sizeof(W) != sizeof(T) || sizeof(Cell<W>) != sizeof(T) + 2) r.fail("layout:sizeof", [&] { return vf::fmt("sizeof(%s) = %zu, packed cell = %zu, native = %zu", wname, sizeof(W), sizeof(Cell<W>), sizeof(T)); });
    else r.ok("layout:sizeof-equals-native");
  }
  for (int op = OP_CTOR; op <= OP_STORE; op++) {
    for (T nv : values) {
      if (!r.take()) continue;
      T prior = from_bits<T>(~bits_of(nv));
      run_assign<W, T>(cell, o, op, prior, nv, ob);
      if (r.wants_desc()) r.desc(describe_head<T>(wname, o, op, bits_of(prior), show_val<T>(bits_of(nv)), ob));
      account<T>(r, t, op, ob, wname, o, bits_of(prior), [&] { return std::string(show_val<T>(bits_of(nv))); });
    }
  }
  for (int op = OP_ADD; op <= OP_DIV; op++) {
    for (T d : operands) {
      for (T v : values) {
        if (!r.take()) continue;
          run_binop<W, T, T>(cell, o, op, v, d, ob);
        account<T>(r, t, op, ob, wname, o, bits_of(v), [&] { return std::string(show_val<T>(bits_of(d))); });
      }
    }
  }
  for (int op = OP_PREINC; op <= OP_POSTDEC; op++) {
    for (T v : values) {
      if (!r.take()) continue;
      run_incdec<W, T>(cell, o, op, v, ob);
      account<T>(r, t, op, ob, wname, o, bits_of(v), [&] { return std::string(""); });
    }
  }
  t.flush(r, (std::string(wname) + "/").c_str());
}

// Block driver (thorough): one case = 65 536 consecutive 32-bit patterns, 7 value-only operators each.
template <class W, class T>
void drive_block32(vf::Run& r, const char* wname, Order o) {
  r.note(wname);
  Tally t;
  Cell<W> cell;
  Obs ob;
  for (uint32_t hi = 0; hi < 0x10000; hi++) {
    if (!r.take()) continue;
    if (r.wants_desc()) r.desc(vf::fmt("%s: ctor(+load/conversion/raw bytes), ++x, x++, --x, x-- on all 65536 bit patterns 0x%04X0000..0x%04XFFFF", wname, hi, hi));
    uint64_t done = 0;
    for (uint32_t lo = 0; lo < 0x10000; lo++) {
      uint32_t bits = (hi << 16) | lo;
      T v = from_bits<T>(bits);
      T prior = from_bits<T>(~static_cast<uint64_t>(bits));
      // operators spelled out with constant operator codes so the dispatch folds away
#define C03_STEP(OP, CALL, BEFORE, OPERAND)                                                                     \
  CALL;                                                                                                         \
  if (ob.skipped) t.skipped[OP]++;                                                                              \
  else {                                                                                                        \
    done++;                                                                                                     \
    if (ob.fail) t.fail(r, OP, ob.fail, [&] { return describe<T>(wname, o, OP, bits_of(BEFORE), OPERAND, ob); }); \
    else t.ok[OP]++;                                                                                            \
  }
      C03_STEP(OP_CTOR, (run_assign<W, T>(cell, o, OP_CTOR, prior, v, ob)), prior, show_val<T>(bits))
      C03_STEP(OP_PREINC, (run_incdec<W, T>(cell, o, OP_PREINC, v, ob)), v, std::string())
      C03_STEP(OP_POSTINC, (run_incdec<W, T>(cell, o, OP_POSTINC, v, ob)), v, std::string())
      C03_STEP(OP_PREDEC, (run_incdec<W, T>(cell, o, OP_PREDEC, v, ob)), v, std::string())
      C03_STEP(OP_POSTDEC, (run_incdec<W, T>(cell, o, OP_POSTDEC, v, ob)), v, std::string())
#undef C03_STEP
    }
    r.evals += done - 1;
    r.nontrivial += done;
  }
  t.flush(r, (std::string(wname) + "/").c_str());
}

// every shift count the native operator defines for a T left operand: 0 .. width of the promoted type - 1
template <class T>
std::vector<int> all_shift_counts_of() {
  std::vector<int> v;
  for (unsigned c = 0; c < promoted_bits<T>(); c++) v.push_back(static_cast<int>(c));
  return v;
}

// every int 2^k-1, 2^k, 2^k+1 and its negative (k = 0..32) that `operands` does not contain yet
inline void add_pow2_ints(std::vector<int>& operands) {
  for (int k = 0; k <= 32; k++)
    for (int dlt = -1; dlt <= 1; dlt++) {
      uint32_t u = (k < 32 ? (1u << k) : 0u) + static_cast<uint32_t>(dlt);
      for (uint32_t x : {u, 0u - u}) {
        int v = static_cast<int>(x);
        bool seen = false;
        for (int y : operands) seen = seen || y == v;
        if (!seen) operands.push_back(v);
      }
    }
}

template <class T>
std::vector<T> int_operands() {
  std::vector<uint64_t> b = {0, 1, 2, 3, 7, 15, 0x7F, 0x80, 0xFF, 0x100, 0x7FFF, 0x8000, 0xFFFF};
  if (sizeof(T) >= 4) {
    b.insert(b.end(), {0x10000, 0x7FFFFFFFull, 0x80000000ull, 0xFFFFFFFFull});
  }
  if (sizeof(T) >= 8) {
    b.insert(b.end(), {0x100000000ull, 0x7FFFFFFFFFFFFFFFull, 0x8000000000000000ull, 0xFFFFFFFFFFFFFFFFull});
  }
  std::vector<T> v;
  for (auto x : b) v.push_back(from_bits<T>(x));
  return v;
}

std::vector<float> f32_specials() {
  std::vector<float> v = {0.0f, -0.0f, 1.0f, -1.0f, 0.5f, 1.5f, 2.0f, 3.0f, 0.1f, 2.6f, 16777215.0f, 16777216.0f, -16777216.0f, 1e10f, 1e-10f,
      std::numeric_limits<float>::max(), std::numeric_limits<float>::lowest(), std::numeric_limits<float>::min(), std::numeric_limits<float>::denorm_min(),
      std::numeric_limits<float>::infinity(), -std::numeric_limits<float>::infinity(), std::numeric_limits<float>::epsilon()};
  return v;
}
std::vector<double> f64_specials() {
  std::vector<double> v = {0.0, -0.0, 1.0, -1.0, 0.5, 1.5, 2.0, 3.0, 0.1, 3.1, 9007199254740991.0, 9007199254740992.0, -9007199254740992.0, 1e100, 1e-100,
      std::numeric_limits<double>::max(), std::numeric_limits<double>::lowest(), std::numeric_limits<double>::min(), std::numeric_limits<double>::denorm_min(),
      std::numeric_limits<double>::infinity(), -std::numeric_limits<double>::infinity(), std::numeric_limits<double>::epsilon()};
  return v;
}

}  // namespace

// 8-bit wrappers: the library has no aliases for them, but the class templates are instantiable
// (bswap<uint8_t>/<int8_t> are specialised for exactly this) and their arithmetic is carried out in int.
namespace {
using le_uint8_t = little_endian<uint8_t>;
using be_uint8_t = big_endian<uint8_t>;
using re_uint8_t = reverse_endian<uint8_t>;
using le_int8_t = little_endian<int8_t>;
using be_int8_t = big_endian<int8_t>;
using re_int8_t = reverse_endian<int8_t>;
}  // namespace
#define C03_W8(X)                       \
  X(le_uint8_t, uint8_t, ORD_LE)        \
  X(be_uint8_t, uint8_t, ORD_BE)        \
  X(re_uint8_t, uint8_t, ORD_RE)        \
  X(le_int8_t, int8_t, ORD_LE)          \
  X(be_int8_t, int8_t, ORD_BE)          \
  X(re_int8_t, int8_t, ORD_RE)

#define C03_W16(X)                      \
  X(le_uint16_t, uint16_t, ORD_LE)      \
  X(be_uint16_t, uint16_t, ORD_BE)      \
  X(re_uint16_t, uint16_t, ORD_RE)      \
  X(le_int16_t, int16_t, ORD_LE)        \
  X(be_int16_t, int16_t, ORD_BE)        \
  X(re_int16_t, int16_t, ORD_RE)

#define C03_W32(X)                      \
  X(le_uint32_t, uint32_t, ORD_LE)      \
  X(be_uint32_t, uint32_t, ORD_BE)      \
  X(re_uint32_t, uint32_t, ORD_RE)      \
  X(le_int32_t, int32_t, ORD_LE)        \
  X(be_int32_t, int32_t, ORD_BE)        \
  X(re_int32_t, int32_t, ORD_RE)

#define C03_W64(X)                      \
  X(le_uint64_t, uint64_t, ORD_LE)      \
  X(be_uint64_t, uint64_t, ORD_BE)      \
  X(re_uint64_t, uint64_t, ORD_RE)      \
  X(le_int64_t, int64_t, ORD_LE)        \
  X(be_int64_t, int64_t, ORD_BE)        \
  X(re_int64_t, int64_t, ORD_RE)

#define C03_WF32(X) X(le_float, float, ORD_LE) X(be_float, float, ORD_BE) X(re_float, float, ORD_RE)
#define C03_WF64(X) X(le_double, double, ORD_LE) X(be_double, double, ORD_BE) X(re_double, double, ORD_RE)
