// C03 (part): operand-type matrix for the compound operators (sections optypes, pow2).  The machinery is in
// C03_optypes.hh.  See C03.cc / C03_common.hh.
#include "C03_optypes.hh"

VF_SECTION(optypes, 8, 8, 120) {
#define X(W, T, O) drive_optypes<W, T>(r, #W, O, optype_values<T>());
  C03_W16(X)
  C03_W32(X)
  C03_W64(X)
#undef X
  {
    std::vector<float> fv = f32_specials();
    for (uint64_t b : {0x00000001ull, 0x7F7FFFFFull, 0x7FC00000ull, 0xFFC00001ull, 0x7F800001ull, 0x01020304ull, 0xA5A5A5A5ull, 0x42C80000ull /* 100.0f */}) fv.push_back(from_bits<float>(b));
    std::vector<double> dv = f64_specials();
    dv.push_back(100.0);
    for (uint64_t b : {0x0000000000000001ull, 0x7FF8000000000000ull, 0xFFF8000000000001ull, 0x7FF0000000000001ull, 0x0102030405060708ull, 0xA5A5A5A5A5A5A5A5ull}) dv.push_back(from_bits<double>(b));
#define X(W, T, O) drive_optypes<W, T>(r, #W, O, fv);
    C03_WF32(X)
#undef X
#define X(W, T, O) drive_optypes<W, T>(r, #W, O, dv);
    C03_WF64(X)
#undef X
  }
  r.bound = "operand-type matrix: 18 integer wrapper types x {+=,-=,*=,/=,%=,&=,|=,^=} x operand types {int, unsigned, int64_t, uint64_t, uint8_t, uint16_t, int8_t, int16_t} x 12-13 boundary operand values per type x 15/22/30 stored values, plus <<=/>>= with counts {0,1,3,7,8,9,15,16,17,24,31,32,33,48,63} below the width of the PROMOTED wrapped type (32 for 16-bit wrappers: counts 16..31 are defined natively) as each integer operand type (the count equal to that width and -1 are listed as native-undefined, not executed); 6 float/double wrapper types x {+=,-=,*=,/=} x operand types {int, unsigned, int64_t, uint64_t, uint8_t, uint16_t, int8_t, int16_t, float, double} x boundary operand values x 30 stored values (NaNs, infinities, denormals included); native operator applied with the same operand expression type";
}


// Boundary values far from the usual (2^k-1, 2^k, 2^k+1 and negatives) in PAIRS: stored value x operand.
VF_SECTION(pow2, 16, 16, 120) {
#define X(W, T, O) drive_optypes<W, T>(r, #W, O, pow2_values<T>(), true);
  C03_W16(X)
  C03_W32(X)
  C03_W64(X)
  {
    // stored float values: the power-of-two neighbourhood plus NaNs
    std::vector<float> fv = pow2_values<float>();
    for (uint64_t b : {0x7FC00000ull, 0xFFC00001ull, 0x7F800001ull}) fv.push_back(from_bits<float>(b));
    std::vector<double> dv = pow2_values<double>();
    for (uint64_t b : {0x7FF8000000000000ull, 0xFFF8000000000001ull, 0x7FF0000000000001ull}) dv.push_back(from_bits<double>(b));
#undef X
#define X(W, T, O) drive_optypes<W, T>(r, #W, O, fv, true);
    C03_WF32(X)
#undef X
#define X(W, T, O) drive_optypes<W, T>(r, #W, O, dv, true);
    C03_WF64(X)
#undef X
  }
  r.bound = "boundary pairs: 24 wrapper types, stored value in {+-(2^k-1), +-2^k, +-(2^k+1) : k = 0..width} (floats: +-2^k and neighbours for k in {1,7,8,15,16,23,24,25,31,32,33,52,53,54,63,64,65,max}, +-0, +-denormal, +-min, +-max, +-inf, 3 NaNs) x operand in the same set of EVERY operand type {int, unsigned, int64_t, uint64_t, uint8_t, uint16_t, int8_t, int16_t} (and float, double for + - * /) x every compound operator; <<=/>>= with EVERY count the native operator defines (0 .. width of the promoted wrapped type - 1: 0..31 for 16- and 32-bit, 0..63 for 64-bit wrappers) as each integer operand type";
}
