// C03 (part, round 5): operator expressions of the float/double wrappers consumed in wide contexts (C03_expr.hh) and
// the results of the bswap / ext / sign_extend helpers consumed directly in a 128-bit / long double context.
#define C03_NO_FORCE_INLINE
#include "C03_expr.hh"

VF_SECTION(expr_float, 4, 4, 120) {
#define X(W, T, O) drive_expr<W, T>(r, #W, O);
  C03_WF32(X)
  C03_WF64(X)
#undef X
  r.bound = std::string("6 wrapper types (little/big/reverse-endian x float, double) ") + kExprBound;
}

// =====================================================================================================================
// helpers: the value of bswap* / ext* / sign_extend consumed directly in a 128-bit / long double context
// =====================================================================================================================
namespace {

template <class F, class G>
void helper_wide(vf::Run& r, const char* name, const std::vector<uint64_t>& inputs, F&& fn, G&& want) {
  uint64_t okc = 0;
  r.note(name);
  for (uint64_t in : inputs) {
    if (!r.take()) continue;
    if (r.wants_desc()) r.desc(vf::fmt("%s(0x%llX) consumed as __int128", name, (unsigned long long)in));
    r.nontriv();
    __int128 g = fn(in), w = want(in);
    if (g != w) r.fail(std::string(name) + ":value-in-wider-context", [&] { return vf::fmt("__int128 x = %s(0x%llX) gives %.21Lg, the reference value is %.21Lg", name, (unsigned long long)in, (long double)g, (long double)w); });
    else okc++;
  }
  r.hist[std::string(name) + ":same-as-reference-in-128-bit-context"] += okc;
}
__int128 u128(uint64_t v) { return (__int128)v; }
__int128 s128(int64_t v) { return (__int128)v; }

template <class R, class S>
void sign_extend_wide(vf::Run& r, const char* name) {
  std::vector<uint64_t> in;
  for (uint32_t x = 0; x < (1u << (8 * sizeof(S))); x++) in.push_back(x);
  helper_wide(r, name, in, [](uint64_t v) -> __int128 { return sign_extend<R, S>(from_bits<S>(v)); },
      [](uint64_t v) -> __int128 {
        int64_t s = sext(v, sizeof(S) * 8);
        if constexpr (std::is_signed_v<R>) return s128(s);
        else return u128(static_cast<uint64_t>(s) & (sizeof(R) == 8 ? ~0ull : ((1ull << (8 * sizeof(R))) - 1)));
      });
}

}  // namespace

VF_SECTION(helpers_wide, 4, 4, 120) {
  std::vector<uint64_t> all8, all16;
  for (uint32_t x = 0; x < 0x100; x++) all8.push_back(x);
  for (uint32_t x = 0; x < 0x10000; x++) all16.push_back(x);
  auto s24 = with_pow2(lane_set(L9, 9, 3), 24), s32 = with_pow2(lane_set(L9, 9, 4), 32), s48 = with_pow2(lane_set(L5, 5, 6), 48), s64 = with_pow2(lane_set(L5, 5, 8), 64);
  helper_wide(r, "bswap8", all8, [](uint64_t v) -> __int128 { return bswap8((uint8_t)v); }, [](uint64_t v) { return u128(v); });
  helper_wide(r, "bswap<uint8_t>", all8, [](uint64_t v) -> __int128 { return bswap<uint8_t>((uint8_t)v); }, [](uint64_t v) { return u128(v); });
  helper_wide(r, "bswap<int8_t>", all8, [](uint64_t v) -> __int128 { return bswap<int8_t>((int8_t)v); }, [](uint64_t v) { return s128(sext(v, 8)); });
  helper_wide(r, "bswap16", all16, [](uint64_t v) -> __int128 { return bswap16((uint16_t)v); }, [](uint64_t v) { return u128(rev_lanes(v, 2)); });
  helper_wide(r, "bswap<uint16_t>", all16, [](uint64_t v) -> __int128 { return bswap<uint16_t>((uint16_t)v); }, [](uint64_t v) { return u128(rev_lanes(v, 2)); });
  helper_wide(r, "bswap<int16_t>", all16, [](uint64_t v) -> __int128 { return bswap<int16_t>((int16_t)v); }, [](uint64_t v) { return s128(sext(rev_lanes(v, 2), 16)); });
  helper_wide(r, "bswap24", s24, [](uint64_t v) -> __int128 { return bswap24((uint32_t)v); }, [](uint64_t v) { return u128(rev_lanes(v, 3)); });
  helper_wide(r, "bswap24s", s24, [](uint64_t v) -> __int128 { return bswap24s((int32_t)v); }, [](uint64_t v) { return s128(sext(rev_lanes(v, 3), 24)); });
  helper_wide(r, "ext24", s24, [](uint64_t v) -> __int128 { return ext24((uint32_t)v); }, [](uint64_t v) { return s128(sext(v, 24)); });
  helper_wide(r, "bswap32", s32, [](uint64_t v) -> __int128 { return bswap32((uint32_t)v); }, [](uint64_t v) { return u128(rev_lanes(v, 4)); });
  helper_wide(r, "bswap<uint32_t>", s32, [](uint64_t v) -> __int128 { return bswap<uint32_t>((uint32_t)v); }, [](uint64_t v) { return u128(rev_lanes(v, 4)); });
  helper_wide(r, "bswap<int32_t>", s32, [](uint64_t v) -> __int128 { return bswap<int32_t>((int32_t)v); }, [](uint64_t v) { return s128(sext(rev_lanes(v, 4), 32)); });
  helper_wide(r, "bswap32f(float)", s32, [](uint64_t v) -> __int128 { return bswap32f(from_bits<float>(v)); }, [](uint64_t v) { return u128(rev_lanes(v, 4)); });
  helper_wide(r, "bswap<float,uint32_t>", s32, [](uint64_t v) -> __int128 { return bswap<float, uint32_t>(from_bits<float>(v)); }, [](uint64_t v) { return u128(rev_lanes(v, 4)); });
  helper_wide(r, "bswap48", s48, [](uint64_t v) -> __int128 { return bswap48(v); }, [](uint64_t v) { return u128(rev_lanes(v, 6)); });
  helper_wide(r, "bswap48s", s48, [](uint64_t v) -> __int128 { return bswap48s((int64_t)v); }, [](uint64_t v) { return s128(sext(rev_lanes(v, 6), 48)); });
  helper_wide(r, "ext48", s48, [](uint64_t v) -> __int128 { return ext48(v); }, [](uint64_t v) { return s128(sext(v, 48)); });
  helper_wide(r, "bswap64", s64, [](uint64_t v) -> __int128 { return bswap64(v); }, [](uint64_t v) { return u128(rev_lanes(v, 8)); });
  helper_wide(r, "bswap<uint64_t>", s64, [](uint64_t v) -> __int128 { return bswap<uint64_t>(v); }, [](uint64_t v) { return u128(rev_lanes(v, 8)); });
  helper_wide(r, "bswap<int64_t>", s64, [](uint64_t v) -> __int128 { return bswap<int64_t>((int64_t)v); }, [](uint64_t v) { return s128((int64_t)rev_lanes(v, 8)); });
  helper_wide(r, "bswap64f(double)", s64, [](uint64_t v) -> __int128 { return bswap64f(from_bits<double>(v)); }, [](uint64_t v) { return u128(rev_lanes(v, 8)); });
  // uint -> float/double: the result consumed as long double (the bit pattern decides the value; NaNs compared as NaN)
  {
    uint64_t okc = 0;
    r.note("bswap32f(uint32)/bswap64f(uint64)");
    for (uint64_t in : s32) {
      if (!r.take()) continue;
      r.nontriv();
      long double g = bswap32f((uint32_t)in), g2 = bswap<uint32_t, float>((uint32_t)in), w = from_bits<float>(rev_lanes(in, 4));
      if (!same_ld(g, w) || !same_ld(g2, w)) r.fail("bswap32f(uint32):value-in-wider-context", [&] { return vf::fmt("long double x = bswap32f(0x%llX) gives %.21Lg / bswap<uint32_t,float> %.21Lg, the float with the reversed bit pattern is %.21Lg", (unsigned long long)in, g, g2, w); });
      else okc++;
    }
    for (uint64_t in : s64) {
      if (!r.take()) continue;
      r.nontriv();
      long double g = bswap64f(in), g2 = bswap<uint64_t, double>(in), w = from_bits<double>(rev_lanes(in, 8));
      if (!same_ld(g, w) || !same_ld(g2, w)) r.fail("bswap64f(uint64):value-in-wider-context", [&] { return vf::fmt("long double x = bswap64f(0x%llX) gives %.21Lg / bswap<uint64_t,double> %.21Lg, the double with the reversed bit pattern is %.21Lg", (unsigned long long)in, g, g2, w); });
      else okc++;
    }
    r.hist["bswap32f/bswap64f(integer):same-as-reference-in-long-double-context"] += okc;
  }
  sign_extend_wide<int16_t, int8_t>(r, "sign_extend<int16_t,int8_t>");
  sign_extend_wide<uint16_t, uint8_t>(r, "sign_extend<uint16_t,uint8_t>");
  sign_extend_wide<int32_t, uint8_t>(r, "sign_extend<int32_t,uint8_t>");
  sign_extend_wide<uint32_t, int8_t>(r, "sign_extend<uint32_t,int8_t>");
  sign_extend_wide<int64_t, int8_t>(r, "sign_extend<int64_t,int8_t>");
  sign_extend_wide<uint64_t, uint8_t>(r, "sign_extend<uint64_t,uint8_t>");
  sign_extend_wide<int32_t, int16_t>(r, "sign_extend<int32_t,int16_t>");
  sign_extend_wide<uint32_t, uint16_t>(r, "sign_extend<uint32_t,uint16_t>");
  sign_extend_wide<int64_t, uint16_t>(r, "sign_extend<int64_t,uint16_t>");
  sign_extend_wide<uint64_t, int16_t>(r, "sign_extend<uint64_t,int16_t>");
  r.bound = "the result of every helper converted DIRECTLY to __int128 (long double for the integer->float forms), no intermediate variable of the documented result type: bswap8/16 and bswap<8/16-bit> on every input, bswap24/24s/ext24 on L9^3 + walking bits + every 2^k-1, 2^k, 2^k+1, bswap32/32f and the generic 32-bit forms on L9^4 + ..., bswap48/48s/ext48 on L5^6 and bswap64/64f and the generic 64-bit forms on L5^8 + walking bits + 2^k neighbourhoods, sign_extend<R,S> for ten (R,S) pairs on every value of S; compared with the numeric value of the byte-lane / arithmetic reference (signed forms as signed values)";
}
