// C14 round 3 — stream and descriptor FAULTS are part of the compared environment.
// Included by C14.cc after C14_objs.hh (uses FaultPlan / g_src.fault_mode from the interposition layer, content_lines,
// ref_line, brief, P3/S12/bytes_of).
//
// stream_faults: fopencookie sources that deliver at most `chunk` bytes per read callback (chunk in {1,7,255,4096,
//   whatever stdio asks for}) and answer one (thorough: up to two) callback(s) with -1 and errno in {EINTR, EAGAIN, EIO},
//   at EVERY callback index (the index is the explorer's choice), transient (only that callback fails) or permanent (it and
//   every later one fail).  Oracle, from the statement ("return exactly the bytes the source delivers ... or throw; never
//   silently return a truncated or padded result"):
//     exact-size forms (freadx buf/string, freadx<T>, fgetcx)  -> throw, or exactly the requested bytes at the position;
//     read-to-end / clamping forms (read_all(FILE*), fread, fgets) -> throw, or an exact PREFIX of what is left (after a
//       fault the delivered prefix is a legitimate result); never bytes that are not a prefix, never padding;
//     after a normal return the rest of the stream (drained by the harness with ::fread, faults cleared) must continue
//       exactly where the returned bytes ended: nothing consumed-and-dropped, nothing delivered twice;
//     an execution in which no callback failed gets the full undisturbed oracle (complete result, no throw).
// fd_faults: the same for descriptors: read()/pread() on a regular file deliver at most `chunk` bytes and fail once
//   (twice) with EINTR/EAGAIN/EIO at every call index, transient or permanent; every descriptor read form incl.
//   readx<T>/preadx<T>, load_file, load_object_file<T>, load_vector_file<T> is compared.
#pragma once

namespace {

uint64_t g_fault_retried_to_exhaustion = 0;  // executions in which the code under test kept retrying a permanently failing source (recorded, not a violation)

struct FCookie {
  std::string data;
  size_t pos = 0;
  size_t chunk = 0;  // 0: as many bytes as stdio asks for
  FaultPlan plan;
};

ssize_t fcookie_read(void* cv, char* buf, size_t n) {
  FCookie* c = (FCookie*)cv;
  if (int e = c->plan.next()) { if (e < 0) return 0; errno = e; return -1; }
  size_t k = std::min(n, c->data.size() - c->pos);
  if (c->chunk) k = std::min(k, c->chunk);
  memcpy(buf, c->data.data() + c->pos, k);
  c->pos += k;
  return (ssize_t)k;
}

enum SFOp { SF_READ_ALL, SF_FREAD_OVER, SF_FREAD_PART, SF_FGETS_LOOP, SF_FREADX_BUF_REST, SF_FREADX_BUF_PART, SF_FREADX_STR_REST, SF_FREADX_STR_BEYOND,
            SF_FREADX_U32, SF_FREADX_S12, SF_FGETCX_RUN, SF_FREADX_SEQ, SF_READ_ALL_TWICE, NSFOP };
const char* sfop_name[] = {"read_all(FILE*)", "fread(rest+5)", "fread(rest/2+1)", "fgets until empty", "freadx(buf,rest)", "freadx(buf,rest/2+1)", "freadx(rest)", "freadx(rest+1) [must throw]",
                           "freadx<uint32_t>", "freadx<12-byte struct>", "fgetcx x min(rest,40), once more at the end of the data [must throw]", "freadx(buf,rest/3) x3 then freadx(what is left)", "read_all(FILE*) twice"};
enum SFPre { SFP_NONE, SFP_FGETCX, NSFPRE };
const char* sfpre_name[] = {"", "fgetcx; "};

struct SFCase { size_t n, chunk; int pre; int op; };

std::string sfcase_desc(const SFCase& c, int budget) {
  return vf::fmt("%zu-byte content on a cookie stream delivering %s per callback; <=%d callback(s) at any index fail with EINTR/EAGAIN/EIO, once or from then on: %s%s",
      c.n, c.chunk ? vf::fmt("<=%zu bytes", c.chunk).c_str() : "what stdio asks for", budget, sfpre_name[c.pre], sfop_name[c.op]);
}

// where two byte strings first differ (for failure texts)
std::string first_diff(const std::string& got, const std::string& want) {
  size_t i = 0;
  while (i < got.size() && i < want.size() && got[i] == want[i]) i++;
  if (i == got.size() && i == want.size()) return "identical";
  return vf::fmt("first difference at byte %zu (got %s, expected %s)", i, i < got.size() ? vf::fmt("0x%02X", (uint8_t)got[i]).c_str() : "end", i < want.size() ? vf::fmt("0x%02X", (uint8_t)want[i]).c_str() : "end");
}

// One execution.  "" = fine, else failure text with *key set.
std::string run_stream_fault(const SFCase& c, const std::string& d, int budget, std::string* key) {
  FCookie ck;
  ck.data = d;
  ck.chunk = c.chunk;
  ck.plan.budget = budget;
  cookie_io_functions_t io = {fcookie_read, nullptr, nullptr, nullptr};
  FILE* f = fopencookie(&ck, "rb", io);
  const size_t n = d.size();
  size_t pos = 0;
  std::string fail;
  bool threw = false;  // after a throw of a buffered-stream form the position is unknown: the execution ends there
  auto bad = [&](const std::string& k, const std::string& why) {
    if (!fail.empty()) return;
    *key = k;
    fail = why + " :: faults: " + (ck.plan.log.empty() ? std::string("none") : ck.plan.log);
  };
  // exact-size form: `call` must put exactly k bytes into got, or throw
  auto exact = [&](const char* fn, size_t k, const std::function<void(std::string&)>& call, bool keeps_position_on_throw = false) {
    if (threw || !fail.empty()) return;
    std::string got, what;
    std::string out = vf::outcome([&] { call(got); }, &what);
    bool disturbed = ck.plan.faults > 0;
    std::string where = vf::fmt("%s asking for exactly %zu bytes at position %zu of %zu: ", fn, k, pos, n);
    if (out != "ok") {
      if (!keeps_position_on_throw) threw = true;
      if (out != "runtime_error") bad(std::string(fn) + ":unexpected-exception-type", where + "threw " + out + " (" + what + ")");
      else if (!disturbed && pos + k <= n) bad(std::string(fn) + ":throws-although-data-available", where + "threw (" + what + ") although no callback failed and the bytes exist");
      return;
    }
    if (pos + k > n) { bad(std::string(fn) + ":exact-read-beyond-eof-succeeds", where + vf::fmt("only %zu bytes are left, yet the call returned normally with ", n - pos) + brief(got)); return; }
    std::string want = d.substr(pos, k);
    if (got != want) bad(std::string(fn) + (disturbed ? ":wrong-bytes-after-stream-fault" : ":wrong-bytes"), where + "returned normally with " + brief(got) + ", the stream holds " + brief(want) + "; " + first_diff(got, want));
    pos += k;
  };
  // read-to-end / clamping form: whatever comes back must be the next bytes of the stream, at most `limit` of them; the whole
  // of `full` when nothing failed
  auto upto = [&](const char* fn, size_t limit, bool line, const std::function<void(std::string&)>& call) {
    if (threw || !fail.empty()) return;
    std::string got, what;
    std::string out = vf::outcome([&] { call(got); }, &what);
    bool disturbed = ck.plan.faults > 0;
    std::string where = vf::fmt("%s at position %zu of %zu: ", fn, pos, n);
    if (out != "ok") {
      threw = true;
      if (out != "runtime_error") bad(std::string(fn) + ":unexpected-exception-type", where + "threw " + out + " (" + what + ")");
      else if (!disturbed) bad(std::string(fn) + ":throws-on-healthy-stream", where + "threw (" + what + ") although no callback failed");
      return;
    }
    std::string full = line ? ref_line(d, pos) : d.substr(pos, std::min(limit, n - pos));
    if (got.size() > full.size() || full.compare(0, got.size(), got) != 0)
      bad(std::string(fn) + (disturbed ? ":not-a-prefix-after-stream-fault" : got.size() > full.size() ? ":padded-or-wrong" : ":wrong-bytes"), where + vf::fmt("returned normally with %zu bytes ", got.size()) + brief(got) + vf::fmt(" which are not the next bytes of the stream (%zu bytes ", full.size()) + brief(full) + "); " + first_diff(got, full));
    else if (!disturbed && got != full)
      bad(std::string(fn) + ":silent-truncation", where + vf::fmt("returned %zu bytes of %zu although no callback failed", got.size(), full.size()));
    pos += got.size();
  };
  auto do_fgetcx = [&] { exact("fgetcx", 1, [&](std::string& g) { g.push_back((char)fgetcx(f)); }, true); };

  if (c.pre == SFP_FGETCX) do_fgetcx();  // (a failed fgetcx consumes nothing: the execution goes on at the same position)
  size_t rest = n - pos;
  switch (c.op) {
    case SF_READ_ALL: upto("read_all(FILE*)", SIZE_MAX, false, [&](std::string& g) { g = read_all(f); }); break;
    case SF_READ_ALL_TWICE:
      upto("read_all(FILE*)", SIZE_MAX, false, [&](std::string& g) { g = read_all(f); });
      upto("read_all(FILE*)", SIZE_MAX, false, [&](std::string& g) { g = read_all(f); });
      break;
    case SF_FREAD_OVER: upto("fread", rest + 5, false, [&](std::string& g) { g = phosg::fread(f, rest + 5); }); break;
    case SF_FREAD_PART: upto("fread", rest / 2 + 1, false, [&](std::string& g) { g = phosg::fread(f, rest / 2 + 1); }); break;
    case SF_FGETS_LOOP: {
      size_t lines = (size_t)std::count(d.begin() + (long)pos, d.end(), '\n') + 1;
      for (size_t i = 0; i < lines + (size_t)budget + 3 && !threw && fail.empty(); i++) {
        size_t before = pos;
        bool empty = false;
        upto("fgets", SIZE_MAX, true, [&](std::string& g) { g = phosg::fgets(f); empty = g.empty(); });
        if (empty && pos == before) break;
      }
      break;
    }
    case SF_FREADX_BUF_REST: exact("freadx", rest, [&](std::string& g) { g.assign(rest, 'Z'); freadx(f, g.data(), rest); }); break;
    case SF_FREADX_BUF_PART: { size_t k = rest / 2 + 1; exact("freadx", k, [&](std::string& g) { g.assign(k, 'Z'); freadx(f, g.data(), k); }); break; }
    case SF_FREADX_STR_REST: exact("freadx", rest, [&](std::string& g) { g = freadx(f, rest); }); break;
    case SF_FREADX_STR_BEYOND: exact("freadx", rest + 1, [&](std::string& g) { g = freadx(f, rest + 1); }); break;
    case SF_FREADX_U32: exact("freadx<T>", 4, [&](std::string& g) { g = bytes_of(freadx<uint32_t>(f)); }); break;
    case SF_FREADX_S12: exact("freadx<T>", 12, [&](std::string& g) { g = bytes_of(freadx<S12>(f)); }); break;
    case SF_FGETCX_RUN:
      for (size_t i = 0, k = std::min<size_t>(rest, 40); i < k && !threw; i++) do_fgetcx();
      if (pos == n) do_fgetcx();  // at the end of the data: must throw (also when the callback that would report end-of-file fails first)
      break;
    case SF_FREADX_SEQ: {
      size_t k = rest / 3;
      for (int i = 0; i < 3; i++) exact("freadx", k, [&](std::string& g) { g.assign(k, 'Z'); freadx(f, g.data(), k); });
      if (!threw && fail.empty()) { size_t left = n - pos; exact("freadx", left, [&](std::string& g) { g = freadx(f, left); }); }
      break;
    }
    default: break;
  }
  // the rest of the stream must continue exactly where the returned bytes ended
  if (!threw && fail.empty()) {
    clearerr(f);
    std::string drained;
    static std::vector<char> buf(1 << 16);
    bool eof = false;
    int errs = 0;
    for (;;) {
      size_t k = ::fread(buf.data(), 1, buf.size(), f);
      drained.append(buf.data(), k);
      if (feof(f)) { eof = true; break; }
      if (ferror(f)) { if (++errs > budget + 2) break; clearerr(f); }  // more failures than transient faults exist: a permanent fault
    }
    if (ck.plan.permanent) eof = false;  // a permanently failing source never reaches its end (an "end of file" it reported after being retried to exhaustion is not one)
    std::string want = d.substr(pos, eof ? std::string::npos : std::min(drained.size(), n - pos));
    if (drained != want)
      bad("stream-fault:position-after-normal-return", vf::fmt("%s%s returned normally having handed out the stream's bytes up to position %zu of %zu, but what the stream yields afterwards (%zu bytes %s, %s) is not what follows that position (%zu bytes %s): bytes were consumed and dropped, or delivered twice; %s",
          sfpre_name[c.pre], sfop_name[c.op], pos, n, drained.size(), brief(drained).c_str(), eof ? "up to end of file" : "until the permanent fault", want.size(), brief(want).c_str(), first_diff(drained, want).c_str()));
  }
  fclose(f);
  if (ck.plan.exhausted) g_fault_retried_to_exhaustion++;
  return fail;
}

}  // namespace

VF_SECTION(stream_faults, 16, 16, 240) {
  g_fault_retried_to_exhaustion = 0;
  std::vector<size_t> sizes = {0, 1, 2, 3, 5, 12, 100, 255, 256, 257, 300, 1000, 4095, 4096, 4097, 8192, 8200, 12288, 16384, 16385, 20000, 40000};
  if (r.thorough()) for (size_t n : {4, 11, 13, 511, 2000, 8191, 16383, 32768, 65536, 204800}) sizes.push_back(n);
  const std::vector<size_t> chunks = {0, 4096, 255, 7, 1};
  const size_t cb_cap = r.thorough() ? 1500 : 420;  // callbacks per execution; executions per case are about 6 x callbacks
  const int max_budget = r.thorough() ? 2 : 1;
  uint64_t two_fault_cases = 0;
  for (size_t n : sizes) {
    std::string d = content_lines(n, 7);
    for (size_t ch : chunks) {
      size_t per_cb = ch ? ch : 4096;
      size_t callbacks = n / per_cb + 2;
      if (callbacks > cb_cap) continue;
      int budget = (max_budget == 2 && callbacks <= 40) ? 2 : 1;
      for (int pre = 0; pre < NSFPRE; pre++) for (int op = 0; op < NSFOP; op++) {
        if (!r.take()) continue;
        r.note(std::string("stream fault/") + sfop_name[op]);
        SFCase c{n, ch, pre, op};
        std::string cd = sfcase_desc(c, budget);
        if (r.wants_desc()) r.desc(cd);
        std::string key;
        auto st = vfe::explore(g_env, [&] { r.beat(); key.clear(); r.poison_errno(); return run_stream_fault(c, d, budget, &key); }, budget, 3000000);
        r.transitions += st.choice_points;
        r.states += st.executions;
        r.counters["executions"] += st.executions;
        if (budget == 2) two_fault_cases++;
        if (!st.complete && st.failure.empty()) r.exhaustive = false;
        if (st.executions > 1) r.nontriv();
        if (!st.failure.empty()) r.fail(key.empty() ? "stream-fault:engine-or-horizon" : key, [&] { return cd + " :: " + st.failure + " :: plan (answer/options per callback) = [ " + (st.failing_trace.size() > 400 ? st.failing_trace.substr(0, 400) + "..." : st.failing_trace) + "]"; });
        else r.ok(std::string("stream-faults/") + (ch == 0 ? "chunk-any" : "chunk-" + std::to_string(ch)) + (budget == 2 ? "/2-faults" : "/1-fault"));
      }
    }
  }
  r.counters["two-fault-cases"] += two_fault_cases;
  r.counters["executions-retrying-a-permanent-fault-to-exhaustion"] += g_fault_retried_to_exhaustion;
  r.bound = vf::fmt("%zu content sizes 0..%zu x callback chunk sizes {any,4096,255,7,1} (combinations with <=%zu callbacks) x {fresh stream, after fgetcx} x %d read forms; one callback%s at EVERY index answers -1 with errno in {EINTR,EAGAIN,EIO}, transient or permanent; remainder of the stream drained and compared after every normal return",
      sizes.size(), sizes.back(), cb_cap, (int)NSFOP, max_budget == 2 ? " (two for <=40 callbacks)" : "");
}

// ---- descriptor faults --------------------------------------------------------------------------------------------------------

namespace {

enum FFOp { FF_READ_ALL, FF_READ_OVER, FF_READ_PART, FF_READX_STR_REST, FF_READX_BUF_PART, FF_READX_BEYOND, FF_READX_U32, FF_READX_S12,
            FF_PREADX_STR_REST, FF_PREADX_BUF_PART, FF_PREADX_BEYOND, FF_PREADX_U32, FF_PREADX_S12,
            FF_LOAD_FILE, FF_LOADOBJ_U32, FF_LOADOBJ_S12_OVERSIZE, FF_LOADVEC_U32, FF_LOADVEC_P3, NFFOP };
const char* ffop_name[] = {"read_all(fd)", "read(fd,rest+5)", "read(fd,rest/2+1)", "readx(fd,rest)", "readx(fd,buf,rest/2+1)", "readx(fd,rest+1) [must throw]", "readx<uint32_t>(fd)", "readx<12-byte struct>(fd)",
                           "preadx(fd,rest,pos)", "preadx(fd,buf,rest/2+1,pos+1)", "preadx(fd,rest+1,pos) [must throw]", "preadx<uint32_t>(fd,pos+1)", "preadx<12-byte struct>(fd,pos)",
                           "load_file(path)", "load_object_file<uint32_t>(path)", "load_object_file<12-byte struct>(path,true)", "load_vector_file<uint32_t>(path)", "load_vector_file<3-byte struct>(path)"};

struct FFCase { size_t n, chunk; int pre; int op; };

std::string ffcase_desc(const FFCase& c, int budget) {
  return vf::fmt("%zu-byte regular file whose read()/pread() calls deliver %s; <=%d call(s) at any index fail with EINTR/EAGAIN/EIO, once or from then on: %s%s",
      c.n, c.chunk ? vf::fmt("<=%zu bytes", c.chunk).c_str() : "what is asked for", budget, c.pre ? "read(fd,3); " : "", ffop_name[c.op]);
}

std::string run_fd_fault(const FFCase& c, const std::string& d, const std::string& path, int budget, std::string* key) {
  const size_t n = d.size();
  const bool by_path = c.op >= FF_LOAD_FILE;
  g_src = Source();
  g_src.size = n;
  g_src.fault_mode = true;
  g_src.chunk = c.chunk;
  g_src.plan.budget = budget;
  int fd = -1;
  if (by_path) g_src.path = path;
  else { fd = __real_open(path.c_str(), O_RDONLY); g_src.fd = fd; }
  g_src.active = true;
  std::string fail;
  auto bad = [&](const std::string& k, const std::string& why) {
    if (!fail.empty()) return;
    *key = k;
    fail = why + " :: faults: " + (g_src.plan.log.empty() ? std::string("none") : g_src.plan.log);
  };
  auto position = [&]() -> size_t { return fd < 0 ? 0 : std::min(n, (size_t)lseek(fd, 0, SEEK_CUR)); };
  // nothing failed and no answer was cut short: the delivery was undisturbed
  auto disturbed = [&] { return g_src.plan.faults > 0 || g_src.short_answers > 0; };
  auto exact = [&](const char* fn, size_t off, size_t k, const std::function<void(std::string&)>& call) {
    if (!fail.empty()) return;
    std::string got, what;
    std::string out = vf::outcome([&] { call(got); }, &what);
    std::string where = vf::fmt("%s asking for exactly %zu bytes at offset %zu of %zu: ", fn, k, off, n);
    if (out != "ok") {
      if (out != "runtime_error") bad(std::string(fn) + ":unexpected-exception-type", where + "threw " + out + " (" + what + ")");
      else if (!disturbed() && off + k <= n) bad(std::string(fn) + ":throws-on-undisturbed-delivery", where + "threw (" + what + ") although no call failed or was answered short and the bytes exist");
      return;
    }
    if (off + k > n) { bad(std::string(fn) + ":exact-read-beyond-eof-succeeds", where + vf::fmt("only %zu bytes exist there, yet the call returned normally with ", off < n ? n - off : 0) + brief(got)); return; }
    std::string want = d.substr(off, k);
    if (got != want) bad(std::string(fn) + (g_src.plan.faults ? ":wrong-bytes-after-read-fault" : ":silent-truncation-or-padding"), where + "returned normally with " + brief(got) + ", the file holds " + brief(want) + "; " + first_diff(got, want));
  };
  // clamping read(fd,k): exactly the bytes it took from the descriptor
  auto clamp = [&](size_t k) {
    if (!fail.empty()) return;
    size_t pos = position();
    std::string got, what;
    std::string out = vf::outcome([&] { got = phosg::read(fd, k); }, &what);
    std::string where = vf::fmt("read(fd,%zu) at offset %zu of %zu: ", k, pos, n);
    if (out != "ok") {
      if (out != "runtime_error") bad("read(fd,size):unexpected-exception-type", where + "threw " + out + " (" + what + ")");
      else if (!disturbed()) bad("read(fd,size):throws-on-undisturbed-delivery", where + "threw (" + what + ")");
      return;
    }
    size_t delivered = position() - pos;
    if (got.size() > k || got != d.substr(pos, delivered)) bad("read(fd,size):not-the-delivered-bytes", where + "returned " + brief(got) + vf::fmt(" after taking %zu bytes from the descriptor", delivered));
    else if (!disturbed() && got.size() != std::min(k, n - pos)) bad("read(fd,size):not-the-delivered-bytes", where + vf::fmt("returned %zu bytes on an undisturbed file", got.size()));
  };
  if (c.pre && !by_path) clamp(3);
  size_t pos = position(), rest = n - pos;
  switch (c.op) {
    case FF_READ_ALL: {
      std::string got, what, want = d.substr(pos);
      std::string out = vf::outcome([&] { got = read_all(fd); }, &what);
      std::string where = vf::fmt("read_all(fd) at offset %zu of %zu: ", pos, n);
      if (out != "ok") {
        if (out != "runtime_error") bad("read_all(fd):unexpected-exception-type", where + "threw " + out + " (" + what + ")");
        else if (!disturbed()) bad("read_all(fd):throws-on-undisturbed-delivery", where + "threw (" + what + ")");
      } else if (got != want) {
        bool prefix = got.size() < want.size() && want.compare(0, got.size(), got) == 0;
        // a permanently failing descriptor delivers only a prefix: returning exactly that prefix is not checked here (HEAD throws)
        if (!(prefix && g_src.plan.permanent))
          bad(prefix ? "read_all(fd):silent-truncation" : got.size() > want.size() ? "read_all(fd):padded-or-extra" : "read_all(fd):wrong-bytes", where + vf::fmt("returned normally with %zu bytes ", got.size()) + brief(got) + vf::fmt(", the descriptor delivers %zu bytes ", want.size()) + brief(want) + "; " + first_diff(got, want));
      }
      break;
    }
    case FF_READ_OVER: clamp(rest + 5); break;
    case FF_READ_PART: clamp(rest / 2 + 1); break;
    case FF_READX_STR_REST: exact("readx", pos, rest, [&](std::string& g) { g = readx(fd, rest); }); break;
    case FF_READX_BUF_PART: { size_t k = rest / 2 + 1; exact("readx", pos, k, [&](std::string& g) { g.assign(k, 'Z'); readx(fd, g.data(), k); }); break; }
    case FF_READX_BEYOND: exact("readx", pos, rest + 1, [&](std::string& g) { g = readx(fd, rest + 1); }); break;
    case FF_READX_U32: exact("readx<T>", pos, 4, [&](std::string& g) { g = bytes_of(readx<uint32_t>(fd)); }); break;
    case FF_READX_S12: exact("readx<T>", pos, 12, [&](std::string& g) { g = bytes_of(readx<S12>(fd)); }); break;
    case FF_PREADX_STR_REST: exact("preadx", pos, rest, [&](std::string& g) { g = preadx(fd, rest, (off_t)pos); }); break;
    case FF_PREADX_BUF_PART: { size_t k = rest / 2 + 1; exact("preadx", pos + 1, k, [&](std::string& g) { g.assign(k, 'Z'); preadx(fd, g.data(), k, (off_t)(pos + 1)); }); break; }
    case FF_PREADX_BEYOND: exact("preadx", pos, rest + 1, [&](std::string& g) { g = preadx(fd, rest + 1, (off_t)pos); }); break;
    case FF_PREADX_U32: exact("preadx<T>", pos + 1, 4, [&](std::string& g) { g = bytes_of(preadx<uint32_t>(fd, (off_t)(pos + 1))); }); break;
    case FF_PREADX_S12: exact("preadx<T>", pos, 12, [&](std::string& g) { g = bytes_of(preadx<S12>(fd, (off_t)pos)); }); break;
    case FF_LOAD_FILE: {
      std::string got, what;
      std::string out = vf::outcome([&] { got = load_file(path); }, &what);
      if (out != "ok") {
        if (out != "runtime_error") bad("load_file:unexpected-exception-type", "threw " + out + " (" + what + ")");
        else if (!disturbed()) bad("load_file:throws-on-undisturbed-delivery", "threw (" + what + ")");
      } else if (got != d) bad(g_src.plan.faults ? "load_file:wrong-bytes-after-read-fault" : "load_file:content", vf::fmt("returned normally with %zu bytes ", got.size()) + brief(got) + vf::fmt(", the file holds %zu bytes ", n) + brief(d) + "; " + first_diff(got, d));
      break;
    }
    case FF_LOADOBJ_U32:
    case FF_LOADOBJ_S12_OVERSIZE: {
      bool over = c.op == FF_LOADOBJ_S12_OVERSIZE;
      size_t sz = over ? 12 : 4;
      std::string got, what;
      std::string out = vf::outcome([&] { got = over ? bytes_of(load_object_file<S12>(path, true)) : bytes_of(load_object_file<uint32_t>(path)); }, &what);
      if (out != "ok") {
        if (out != "runtime_error") bad("load_object_file:unexpected-exception-type", "threw " + out + " (" + what + ")");
        else if (!disturbed() && (n == sz || (over && n >= sz))) bad("load_object_file:throws-on-undisturbed-delivery", "threw (" + what + ")");
      } else if (n < sz) bad("load_object_file:short-file-accepted", vf::fmt("a %zu-byte file was accepted for a %zu-byte object: ", n, sz) + brief(got));
      else if (got != d.substr(0, sz)) bad(g_src.plan.faults ? "load_object_file:wrong-bytes-after-read-fault" : "load_object_file:wrong-bytes", "returned " + brief(got) + ", the file holds " + brief(d.substr(0, sz)));
      else if (!over && n > sz) bad("load_object_file:oversize-file-silently-truncated", vf::fmt("a %zu-byte file was accepted for a %zu-byte object although allow_oversize is false", n, sz));
      break;
    }
    case FF_LOADVEC_U32:
    case FF_LOADVEC_P3: {
      size_t sz = c.op == FF_LOADVEC_U32 ? 4 : 3, count = 0;
      std::string got, what;
      std::string out = vf::outcome([&] {
        if (c.op == FF_LOADVEC_U32) { auto v = load_vector_file<uint32_t>(path); count = v.size(); got.assign((const char*)v.data(), v.size() * sz); }
        else { auto v = load_vector_file<P3>(path); count = v.size(); got.assign((const char*)v.data(), v.size() * sz); }
      }, &what);
      if (out != "ok") {
        if (out != "runtime_error") bad("load_vector_file:unexpected-exception-type", "threw " + out + " (" + what + ")");
        else if (!disturbed() && n % sz == 0) bad("load_vector_file:throws-on-undisturbed-delivery", "threw (" + what + ")");
      } else if (count * sz > n || got != d.substr(0, count * sz)) bad(g_src.plan.faults ? "load_vector_file:wrong-bytes-after-read-fault" : "load_vector_file:items-are-not-the-file-bytes", vf::fmt("returned %zu items ", count) + brief(got) + ", the file holds " + brief(d) + "; " + first_diff(got, d.substr(0, std::min(n, count * sz))));
      else if (n % sz == 0 && count * sz != n) bad("load_vector_file:silent-truncation", vf::fmt("returned %zu items of %zu bytes from a %zu-byte file", count, sz, n));
      break;
    }
    default: break;
  }
  g_src.active = false;
  if (fd >= 0) __real_close(fd);
  if (g_src.plan.exhausted) g_fault_retried_to_exhaustion++;
  return fail;
}

}  // namespace

VF_SECTION(fd_faults, 8, 8, 240) {
  g_fault_retried_to_exhaustion = 0;
  std::string dir = scratch_dir(r, "ff");
  std::vector<size_t> sizes = {0, 1, 3, 4, 5, 12, 13, 24, 100, 300, 4096, 5003, 16384, 16385, 40000};
  if (r.thorough()) for (size_t n : {2, 8, 255, 256, 4095, 4097, 16383, 32768, 65536, 204800}) sizes.push_back(n);
  const std::vector<size_t> chunks = {0, 4096, 255, 7, 1};
  const size_t call_cap = r.thorough() ? 1500 : 420;
  const int max_budget = r.thorough() ? 2 : 1;
  for (size_t n : sizes) {
    std::string d = content(n);
    std::string path;
    for (size_t ch : chunks) {
      size_t per_call = ch ? std::min<size_t>(ch, 16384) : 16384;  // read_all asks for 16 KiB at a time
      size_t calls = n / per_call + 2;
      if (calls > call_cap) continue;
      int budget = (max_budget == 2 && calls <= 40) ? 2 : 1;
      for (int pre = 0; pre < 2; pre++) for (int op = 0; op < NFFOP; op++) {
        if (pre && op >= FF_LOAD_FILE) continue;
        if (!r.take()) continue;
        r.note(std::string("fd fault/") + ffop_name[op]);
        if (path.empty()) { path = dir + vf::fmt("/f%zu.bin", n); write_real(path, d); }
        FFCase c{n, ch, pre, op};
        std::string cd = ffcase_desc(c, budget);
        if (r.wants_desc()) r.desc(cd);
        std::string key;
        auto st = vfe::explore(g_env, [&] { r.beat(); key.clear(); r.poison_errno(); return run_fd_fault(c, d, path, budget, &key); }, budget, 3000000);
        r.transitions += st.choice_points;
        r.states += st.executions;
        r.counters["executions"] += st.executions;
        if (!st.complete && st.failure.empty()) r.exhaustive = false;
        if (st.executions > 1) r.nontriv();
        if (!st.failure.empty()) r.fail(key.empty() ? "fd-fault:engine-or-horizon" : key, [&] { return cd + " :: " + st.failure + " :: plan (answer/options per call) = [ " + (st.failing_trace.size() > 400 ? st.failing_trace.substr(0, 400) + "..." : st.failing_trace) + "]"; });
        else r.ok(std::string("fd-faults/") + (ch == 0 ? "chunk-any" : "chunk-" + std::to_string(ch)) + (budget == 2 ? "/2-faults" : "/1-fault"));
      }
    }
    if (!path.empty()) ::unlink(path.c_str());
  }
  r.counters["executions-retrying-a-permanent-fault-to-exhaustion"] += g_fault_retried_to_exhaustion;
  rm_rf(dir);
  r.bound = vf::fmt("%zu file sizes 0..%zu x read()/pread() answer sizes {any,4096,255,7,1} (combinations with <=%zu calls) x {fresh descriptor, after read(fd,3)} x %d read forms (incl. readx<T>, preadx<T>, load_file, load_object_file<T>, load_vector_file<T>); one call%s at EVERY index fails with errno in {EINTR,EAGAIN,EIO}, transient or permanent",
      sizes.size(), sizes.back(), call_cap, (int)NFFOP, max_budget == 2 ? " (two for <=40 calls)" : "");
}
