// C03_conv.hh - shared by C03_conv.cc and C03_w8b.cc: construction / assignment / store from values of OTHER arithmetic types (the implicit
// conversion must be the one the native type performs).  See C03.cc / C03_common.hh.
#pragma once
#ifndef C03_NO_FORCE_INLINE
#define C03_NO_FORCE_INLINE
#endif
#include "C03_base.hh"

namespace {

// ---- conversions from other arithmetic types ------------------------------------------------------
template <class T, class S>
inline bool conv_defined(S s) {
  if constexpr (std::is_floating_point_v<S> && std::is_integral_v<T>) {
    // float -> integer is defined only when the truncated value fits
    if (!(s == s)) return false;
    constexpr int w = sizeof(T) * 8;
    if constexpr (std::is_signed_v<T>) return s >= -ldexp(static_cast<S>(1), w - 1) && s < ldexp(static_cast<S>(1), w - 1);
    else return s > static_cast<S>(-1) && s < ldexp(static_cast<S>(1), w);
  } else if constexpr (std::is_same_v<S, double> && std::is_same_v<T, float>) {
    if (s == s && s - s == 0) return s <= static_cast<double>(std::numeric_limits<float>::max()) && s >= static_cast<double>(std::numeric_limits<float>::lowest());
    return true;
  } else return true;
}

template <class S>
std::vector<S> conv_sources() {
  std::vector<S> v;
  if constexpr (std::is_same_v<S, bool>) v = {false, true};
  else if constexpr (std::is_floating_point_v<S>) {
    v = {S(0), S(-0.0), S(1), S(-1), S(0.5), S(-0.5), S(1.5), S(-1.5), S(0.999), S(-0.999), S(127), S(128), S(255), S(256), S(-128), S(-129), S(32767), S(32768), S(-32768), S(-32769), S(65535), S(65536),
        S(2147483647.0), S(2147483648.0), S(-2147483648.0), S(4294967295.0), S(4294967296.0), S(16777217.0), S(9007199254740993.0), S(9223372036854775807.0), S(-9223372036854775808.0),
        S(18446744073709551615.0), S(1e10), S(-1e10), S(1e-40), S(3.0000001), std::numeric_limits<S>::max(), std::numeric_limits<S>::lowest(), std::numeric_limits<S>::min(),
        std::numeric_limits<S>::denorm_min(), std::numeric_limits<S>::infinity(), -std::numeric_limits<S>::infinity(), std::numeric_limits<S>::quiet_NaN()};
  } else {
    using US = std::make_unsigned_t<S>;
    constexpr int w = sizeof(S) * 8;
    for (int k = 0; k <= w; k++)
      for (int d = -1; d <= 1; d++) {
        US u = static_cast<US>((k < w ? (static_cast<US>(1) << k) : static_cast<US>(0)) + static_cast<US>(d));
        for (US x : {u, static_cast<US>(US(0) - u)}) {
          S s = static_cast<S>(x);
          bool seen = false;
          for (S y : v) seen = seen || y == s;
          if (!seen) v.push_back(s);
        }
      }
  }
  return v;
}

template <class S>
std::string show_src(S s) {
  if constexpr (std::is_floating_point_v<S>) return vf::fmt("%.17g", static_cast<double>(s));
  else if constexpr (std::is_signed_v<S>) return vf::fmt("%lld", static_cast<long long>(s));
  else return vf::fmt("%llu", static_cast<unsigned long long>(s));
}

// Source values are carried type-erased so that only conv_exec<W, T, S> (a few instructions) is
// instantiated per (wrapper, source type); loops and reporting compile once per wrapper type.
enum SType { ST_BOOL, ST_CHAR, ST_INT8, ST_UINT8, ST_INT16, ST_UINT16, ST_INT, ST_UNSIGNED, ST_INT64, ST_UINT64, ST_FLOAT, ST_DOUBLE, NSTYPES };
const char* st_name[NSTYPES] = {"bool", "char", "int8_t", "uint8_t", "int16_t", "uint16_t", "int", "unsigned", "int64_t", "uint64_t", "float", "double"};
struct Src {
  int st;
  int64_t i;  // integer source types (uint64_t modulo 2^64)
  double f;   // float / double sources
  std::string text;
};
template <class S>
void add_sources(std::vector<Src>& out, int st) {
  for (S s : conv_sources<S>()) {
    if constexpr (std::is_floating_point_v<S>) out.push_back({st, 0, static_cast<double>(s), show_src(s)});
    else out.push_back({st, static_cast<int64_t>(s), 0, show_src(s)});
  }
}
const std::vector<Src>& all_sources() {
  static std::vector<Src> v;
  if (v.empty()) {
    add_sources<bool>(v, ST_BOOL);
    add_sources<char>(v, ST_CHAR);
    add_sources<int8_t>(v, ST_INT8);
    add_sources<uint8_t>(v, ST_UINT8);
    add_sources<int16_t>(v, ST_INT16);
    add_sources<uint16_t>(v, ST_UINT16);
    add_sources<int>(v, ST_INT);
    add_sources<unsigned>(v, ST_UNSIGNED);
    add_sources<int64_t>(v, ST_INT64);
    add_sources<uint64_t>(v, ST_UINT64);
    add_sources<float>(v, ST_FLOAT);
    add_sources<double>(v, ST_DOUBLE);
  }
  return v;
}

// false: the conversion S -> T is undefined for this value (nothing executed)
template <class W, class T, class S>
bool conv_exec(Cell<W>& c, Order o, int path, S s, T& n) {
  if (!conv_defined<T, S>(s)) return false;
  n = T();
  n = s;  // the native type's implicit conversion
  install<W, T>(c, o, from_bits<T>(~bits_of(n)));
  switch (path) {
    case 0: new (reinterpret_cast<void*>(&c.w)) W(s); break;
    case 1: c.w = s; break;
    case 2: base_of(c.w) = s; break;
    default: c.w.store(s); break;
  }
  return true;
}

template <class W, class T>
bool conv_dispatch(Cell<W>& c, Order o, int path, const Src& s, T& n) {
  switch (s.st) {
    case ST_BOOL: return conv_exec<W, T, bool>(c, o, path, s.i != 0, n);
    case ST_CHAR: return conv_exec<W, T, char>(c, o, path, static_cast<char>(s.i), n);
    case ST_INT8: return conv_exec<W, T, int8_t>(c, o, path, static_cast<int8_t>(s.i), n);
    case ST_UINT8: return conv_exec<W, T, uint8_t>(c, o, path, static_cast<uint8_t>(s.i), n);
    case ST_INT16: return conv_exec<W, T, int16_t>(c, o, path, static_cast<int16_t>(s.i), n);
    case ST_UINT16: return conv_exec<W, T, uint16_t>(c, o, path, static_cast<uint16_t>(s.i), n);
    case ST_INT: return conv_exec<W, T, int>(c, o, path, static_cast<int>(s.i), n);
    case ST_UNSIGNED: return conv_exec<W, T, unsigned>(c, o, path, static_cast<unsigned>(s.i), n);
    case ST_INT64: return conv_exec<W, T, int64_t>(c, o, path, s.i, n);
    case ST_UINT64: return conv_exec<W, T, uint64_t>(c, o, path, static_cast<uint64_t>(s.i), n);
    case ST_FLOAT: return conv_exec<W, T, float>(c, o, path, static_cast<float>(s.f), n);
    default: return conv_exec<W, T, double>(c, o, path, s.f, n);
  }
}

template <class W, class T>
void drive_conv_all(vf::Run& r, const char* wname, Order o) {
  using U = typename UIntFor<sizeof(T)>::type;
  static const char* how[4] = {"W(s)", "w = s", "converted_endian::operator=(s)", "w.store(s)"};
  static const char* how_key[4] = {"ctor", "assign", "base_assign", "store"};
  r.note(std::string("conv ") + wname);
  Cell<W> c;
  uint64_t okc[NSTYPES] = {0}, skipped[NSTYPES] = {0};
  for (const Src& s : all_sources())
    for (int path = 0; path < 4; path++) {
      if (!r.take()) continue;
      if (r.wants_desc()) r.desc(vf::fmt("%s: %s with s = (%s)%s", wname, how[path], st_name[s.st], s.text.c_str()));
      T n = T();
      r.poison_errno();
      if (!conv_dispatch<W, T>(c, o, path, s, n)) {
        skipped[s.st]++;
        continue;
      }
      U img, want_img = encode_u(n, o);
      memcpy(&img, reinterpret_cast<const void*>(&c.w), sizeof(T));
      uint64_t ld = bits_of(c.w.load());
      r.nontriv();
      if (c.pre != 0xC3 || c.post != 0x3C || img != want_img || ld != bits_of(n)) {
        r.fail(std::string(how_key[path]) + ":converted-operand", [&] {
          return vf::fmt("%s: %s with s = (%s)%s | native T t = s gives %s, bytes [%s] | wrapper: load() %s, bytes [%s], canaries %02X/%02X", wname, how[path], st_name[s.st], s.text.c_str(),
              show_val<T>(bits_of(n)).c_str(), hexbytes(want_img, sizeof(T)).c_str(), show_val<T>(ld).c_str(), hexbytes(img, sizeof(T)).c_str(), c.pre, c.post);
        });
      } else okc[s.st]++;
    }
  for (int st = 0; st < NSTYPES; st++) {
    if (okc[st]) r.hist[std::string(wname) + "/from " + st_name[st] + ":equals native conversion"] += okc[st];
    if (skipped[st]) r.hist[std::string(wname) + "/from " + st_name[st] + ":conversion undefined (not compared)"] += skipped[st];
  }
}

}  // namespace
