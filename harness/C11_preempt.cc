// C11, variant "preempt" — concurrent base64 / rot13 / escape / netloc calls (harness/preempt_pure.hh).
// Instrumented: src/Encoding.cc, src/Strings.cc (the escapers), src/Network.cc (netloc).
#include "preempt_pure.hh"

#include "Encoding.hh"
#include "Network.hh"
#include "Strings.hh"

using namespace phosg;

static std::vector<pp::Call> make_calls() {
  static const char* URLSAFE = "ABCDEFGHIJKLMNOPQRSTUVWXYZabcdefghijklmnopqrstuvwxyz0123456789-_";
  std::vector<pp::Call> calls;
  auto add = [&](const char* name, const char* group, std::function<std::string()> f) { calls.push_back({name, group, pp::guarded(f)}); };
  add("base64_encode(\"\\xFB\\xEF\\xBE\\x01\")", "base64_encode", [] { return base64_encode(std::string("\xFB\xEF\xBE\x01")); });
  add("base64_encode(\"\\xFB\\xEF\\xBE\", url-safe alphabet)", "base64_encode", [] { return base64_encode(std::string("\xFB\xEF\xBE"), URLSAFE); });
  add("base64_decode(\"++++QQ==\")", "base64_decode", [] { return base64_decode(std::string("++++QQ==")); });
  add("base64_decode(\"--__QUI=\", url-safe alphabet)", "base64_decode", [] { return base64_decode(std::string("--__QUI="), URLSAFE); });
  add("base64_decode(\"--__\") (rejected under the default alphabet)", "base64_decode", [] { return base64_decode(std::string("--__")); });
  add("base64_decode(\"++//\", url-safe alphabet) (rejected)", "base64_decode", [] { return base64_decode(std::string("++//"), URLSAFE); });
  add("rot13(\"Hello, World!\")", "rot13", [] { return rot13("Hello, World!", 13); });
  add("escape_url(\"a b/c?d\", false)", "escape_url", [] { return escape_url(std::string("a b/c?d"), false); });
  add("escape_url(\"\\xFF/\", true)", "escape_url", [] { return escape_url(std::string("\xFF/"), true); });
  add("escape_controls(\"a\\n\\x01\\xC3\\xA9\", true)", "escape_controls", [] { return escape_controls(std::string("a\n\x01\xC3\xA9"), true); });
  add("escape_quotes(\"say \\\"hi\\\"\\t\")", "escape_quotes", [] { return escape_quotes(std::string("say \"hi\"\t")); });
  add("escape_quotes(\"\\x01\\x02\\x7f\")", "escape_quotes", [] { return escape_quotes(std::string("\x01\x02\x7f")); });
  add("escape_controls(\"\\x02\\x1f\\xff\", false)", "escape_controls", [] { return escape_controls(std::string("\x02\x1f\xff"), false); });
  add("render_netloc(\"host\", 8080)", "render_netloc", [] { return render_netloc("host", 8080); });
  add("render_netloc(\"\", 65535)", "render_netloc", [] { return render_netloc("", 65535); });
  add("parse_netloc(\"a.b:443\")", "parse_netloc", [] { auto p = parse_netloc("a.b:443"); return p.first + "|" + std::to_string(p.second); });
  add("parse_netloc(\"nohost\", 7)", "parse_netloc", [] { auto p = parse_netloc("nohost", 7); return p.first + "|" + std::to_string(p.second); });
  return calls;
}

VF_SECTION(concurrent_pairs, 16, 16, 300) {
  std::vector<pp::Call> calls = make_calls();
  pp::run_pairs(r, calls, r.thorough() ? 400 : 150, r.thorough() ? 150 : 0);
  r.bound = "every unordered pair (and every call with itself) of 17 base64 (both alphabets, accepted and rejected) / rot13 / escape_* / netloc calls run concurrently: every schedule with <= 2 preemptions for same-function pairs with <= 150 (thorough 400) scheduling points per call (thorough: cross pairs <= 150 too), <= 1 preemption otherwise; basic-block granularity of Encoding.cc, Strings.cc, Network.cc";
}

// First calls: each call with itself and with the next call of the same function (thorough: every same-function pair),
// each schedule in a freshly forked process.
VF_SECTION(concurrent_cold, 16, 16, 600) {
  std::vector<pp::Call> calls = make_calls();
  pp::run_pairs_cold(r, calls, r.thorough());
  r.bound = "first calls: every call above with itself and with the next call of the same function (thorough: every same-function pair), each schedule in a freshly forked process that has never called the library: every schedule with <= 1 preemption at basic-block granularity";
}
VF_MAIN()
