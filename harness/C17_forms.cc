// C17 (round 2) — every way of writing a getter call (rare overloads and identifier types).
//
//  callforms : identifier as string literal, const char*, char*, std::string (lvalue, const&, rvalue); positions
//              as size_t, int, long, unsigned short, unsigned char; default given or not; format explicit or
//              defaulted; get_multi — for fourteen integer and three floating-point targets.  All forms of one
//              call must give what the reference gives for (text, format, target).
#include "C17_common.hh"

using namespace c17;

namespace {

const std::string KI = "call-forms:get<integer>";
const std::string KF = "call-forms:get<float>";

// Every way of writing the call for one integer target.  FULL: all identifier types; otherwise the identifier
// types every other section already uses (string literal, size_t) with all default/format variants.  (Each
// identifier type is a separate instantiation of the getter and of parse_int, so the full set is kept to four
// targets of different width and signedness.)
template <class T, bool FULL>
bool int_forms(vf::Run& r, const std::string& text, IntFormat f) {
  Arguments a(std::vector<std::string>{"--x=" + text, "--other=1"});
  bool can_pos = text.empty() || text[0] != '-';
  std::optional<Arguments> p;
  if (can_pos) p.emplace(std::vector<std::string>{text, "other"});
  const char* cp = "x";
  char buf[2] = {'x', 0};
  char* ncp = buf;
  std::string s = "x";
  const std::string& cs = s;
  static const char* FORM[] = {
      /*0*/ "get<T>(\"x\" literal, fmt)", "get<T>(\"x\" literal, default, fmt)", "get_multi<T>(\"x\" literal, fmt)[0]",
      /*3*/ "get<T>(\"x\" literal) with the format defaulted", "get<T>(\"x\" literal, default) with the format defaulted", "get_multi<T>(\"x\" literal)[0] with the format defaulted",
      /*6*/ "get<T>(size_t 0, fmt)", "get<T>(size_t 0, default, fmt)", "get<T>(size_t 0) with the format defaulted", "get<T>(size_t 0, default) with the format defaulted",
      /*10*/ "get<T>(const char*, fmt)", "get<T>(char*, fmt)", "get<T>(std::string, fmt)", "get<T>(const std::string&, fmt)", "get<T>(std::string&&, fmt)",
      /*15*/ "get<T>(const char*, default, fmt)", "get<T>(char*, default, fmt)", "get<T>(std::string, default, fmt)", "get_multi<T>(std::string, fmt)[0]",
      /*19*/ "get<T>(std::string) with the format defaulted", "get<T>(const char*, default) with the format defaulted",
      /*21*/ "get<T>(int 0, fmt)", "get<T>(long 0, fmt)", "get<T>(unsigned short 0, fmt)", "get<T>(unsigned char 0, fmt)", "get<T>(int 0, default, fmt)",
      /*26*/ "get<T>(int 0) with the format defaulted", "get<T>(int 0, default) with the format defaulted"};
  const int NFORM = sizeof(FORM) / sizeof(FORM[0]);
  RefNum ref = ref_numeral(text, f);
  bool ok = true;
  for (int form = 0; form < NFORM; form++) {
    if (!FULL && form >= 10) break;
    bool positional = (form >= 6 && form <= 9) || form >= 21;
    bool defaulted = (form >= 3 && form <= 5) || form == 8 || form == 9 || form == 19 || form == 20 || form >= 26;
    if (positional && !can_pos) continue;
    if (defaulted && f != IntFormat::DEFAULT) continue;
    T got = 0;
    std::string what;
    r.poison_errno();
    std::string oc = vf::outcome([&] {
      switch (form) {
        case 0: got = a.get<T>("x", f); break;
        case 1: got = a.get<T>("x", (T)77, f); break;
        case 2: got = a.get_multi<T>("x", f).at(0); break;
        case 3: got = a.get<T>("x"); break;
        case 4: got = a.get<T>("x", (T)77); break;
        case 5: got = a.get_multi<T>("x").at(0); break;
        case 6: got = p->get<T>((size_t)0, f); break;
        case 7: got = p->get<T>((size_t)0, (T)77, f); break;
        case 8: got = p->get<T>((size_t)0); break;
        case 9: got = p->get<T>((size_t)0, (T)77); break;
        default:
          if constexpr (FULL) {
            switch (form) {
              case 10: got = a.get<T>(cp, f); break;
              case 11: got = a.get<T>(ncp, f); break;
              case 12: got = a.get<T>(s, f); break;
              case 13: got = a.get<T>(cs, f); break;
              case 14: got = a.get<T>(std::string("x"), f); break;
              case 15: got = a.get<T>(cp, (T)77, f); break;
              case 16: got = a.get<T>(ncp, (T)77, f); break;
              case 17: got = a.get<T>(s, (T)77, f); break;
              case 18: got = a.get_multi<T>(s, f).at(0); break;
              case 19: got = a.get<T>(s); break;
              case 20: got = a.get<T>(cp, (T)77); break;
              case 21: got = p->get<T>(0, f); break;
              case 22: got = p->get<T>(0L, f); break;
              case 23: got = p->get<T>((unsigned short)0, f); break;
              case 24: got = p->get<T>((unsigned char)0, f); break;
              case 25: got = p->get<T>(0, (T)77, f); break;
              case 26: got = p->get<T>(0); break;
              case 27: got = p->get<T>(0, (T)77); break;
            }
          }
          break;
      }
    }, &what);
    r.counters["getter_calls"]++;
    auto ctx = [&] { return vf::fmt("%s with T=%s fmt=%s on text ", FORM[form], iname<T>(), fmt_name(f)) + short_show(text) + " (reference: " + ref_num_str(ref) + ")"; };
    if (!judge_int<T>(r, KI, ctx, ref, oc, got, 1, what)) ok = false;
  }
  return ok;
}

template <class T>
bool float_forms(vf::Run& r, const std::string& text) {
  Arguments a(std::vector<std::string>{"--x=" + text, "--other=1"});
  bool can_pos = text.empty() || text[0] != '-';
  std::optional<Arguments> p;
  if (can_pos) p.emplace(std::vector<std::string>{text, "other"});
  const char* cp = "x";
  std::string s = "x";
  static const char* FORM[] = {
      "get<T>(\"x\" literal)", "get<T>(const char*)", "get<T>(std::string)", "get<T>(\"x\" literal, std::nullopt)", "get<T>(\"x\" literal, default value)", "get<T>(const char*, optional(default))",
      "get<T>(std::string, default value)", "get<T>(std::string, optional holding NaN)", "get_multi<T>(\"x\" literal)[0]", "get_multi<T>(std::string)[0]",
      /*10*/ "get<T>(size_t 0)", "get<T>(int 0)", "get<T>(unsigned char 0)", "get<T>(size_t 0, std::nullopt)", "get<T>(size_t 0, default value)", "get<T>(int 0, default value)"};
  const int NFORM = sizeof(FORM) / sizeof(FORM[0]);
  RefFloat ref = ref_float(text);
  bool ok = true;
  for (int form = 0; form < NFORM; form++) {
    if (form >= 10 && !can_pos) continue;
    T got = 0;
    std::string what;
    r.poison_errno();
    std::string oc = vf::outcome([&] {
      switch (form) {
        case 0: got = a.get<T>("x"); break;
        case 1: got = a.get<T>(cp); break;
        case 2: got = a.get<T>(s); break;
        case 3: got = a.get<T>("x", std::nullopt); break;
        case 4: got = a.get<T>("x", (T)9.25); break;
        case 5: got = a.get<T>(cp, std::optional<T>((T)9.25)); break;
        case 6: got = a.get<T>(s, (T)9.25); break;
        case 7: got = a.get<T>(s, std::optional<T>(std::numeric_limits<T>::quiet_NaN())); break;
        case 8: got = a.get_multi<T>("x").at(0); break;
        case 9: got = a.get_multi<T>(s).at(0); break;
        case 10: got = p->get<T>((size_t)0); break;
        case 11: got = p->get<T>(0); break;
        case 12: got = p->get<T>((unsigned char)0); break;
        case 13: got = p->get<T>((size_t)0, std::nullopt); break;
        case 14: got = p->get<T>((size_t)0, (T)9.25); break;
        case 15: got = p->get<T>(0, (T)9.25); break;
      }
    }, &what);
    r.counters["getter_calls"]++;
    auto ctx = [&] { return vf::fmt("%s with T=%s on text ", FORM[form], fname<T>()) + short_show(text) + " (reference: " + ref.why + ")"; };
    if (!judge_float<T>(r, KF, ctx, ref, oc, got, 1, what)) ok = false;
  }
  return ok;
}

}  // namespace

VF_SECTION(callforms, 4, 4, 120) {
  r.note("call forms");
  // (a) every way of writing the call
  static const char* TEXTS[] = {"10", "-1", "", "300", "1.5", "x", "0x7f", "08", "70000", "-129", "4294967296", "1e3", "7 ", "-"};
  for (const char* t : TEXTS) {
    for (IntFormat f : FORMATS) {
      if (!r.take()) continue;
      std::string text = t;
      if (r.wants_desc()) r.desc("every call form of the integer getters (identifier as literal / const char* / char* / std::string / size_t / int / long / unsigned short / unsigned char; with and without default; format explicit and defaulted) on text " + vf::show(text) + " fmt " + fmt_name(f));
      r.nontriv();
      bool ok = true;
      ok &= int_forms<int8_t, true>(r, text, f);
      ok &= int_forms<uint8_t, false>(r, text, f);
      ok &= int_forms<int16_t, false>(r, text, f);
      ok &= int_forms<uint16_t, true>(r, text, f);
      ok &= int_forms<int32_t, false>(r, text, f);
      ok &= int_forms<uint32_t, false>(r, text, f);
      ok &= int_forms<int64_t, true>(r, text, f);
      ok &= int_forms<uint64_t, false>(r, text, f);
      ok &= int_forms<long long, false>(r, text, f);
      ok &= int_forms<unsigned long long, true>(r, text, f);
      ok &= int_forms<char, false>(r, text, f);
      ok &= int_forms<wchar_t, false>(r, text, f);
      ok &= int_forms<char16_t, false>(r, text, f);
      ok &= int_forms<char32_t, false>(r, text, f);
      if (ok) r.ok("integer call forms agree with the reference");
    }
    if (!r.take()) continue;
    std::string text = t;
    if (r.wants_desc()) r.desc("every call form of the floating-point getters on text " + vf::show(text));
    r.nontriv();
    bool ok = float_forms<float>(r, text);
    ok &= float_forms<double>(r, text);
    ok &= float_forms<long double>(r, text);
    if (ok) r.ok("floating-point call forms agree with the reference");
  }
  r.bound = "14 texts x 4 formats x 14 integer targets x up to 28 ways of writing the call (identifier literal/const char*/char*/std::string lvalue, const&, rvalue; positions as size_t/int/long/unsigned short/unsigned char; default given or not; format explicit or defaulted; get_multi; all identifier types for int8_t, uint16_t, int64_t, unsigned long long, literal and size_t for the other ten) and 3 floating-point targets x 16 ways (nullopt, value, optional, NaN default)";
}
