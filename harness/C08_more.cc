// C08_more.cc — second translation unit of the C08 harness (sections register themselves; VF_MAIN is in C08.cc).
//
//   history    every function under the property called in *sequences*: all ordered pairs and triples of a
//              boundary input set per function (larger-then-smaller, smaller-then-larger, A-B-A), all ordered
//              pairs across functions (thorough: triples), every result compared with the reference.  A pure
//              function that grew a static / thread_local cache or a reused scratch buffer shows up here.
//              The in-place helpers run on one object reused along the history (non-initial object states).
//   context    every call of the set under every ambient errno and inside a catch handler, inside a destructor
//              running during stack unwinding, inside the handler of the library's own exception, on a second
//              thread (fresh thread_local state).
//   scenarios  multi-step uses whose *final* observable result is compared (cooperating sites).
//   wprintf    wstring_printf / wstring_vprintf (the wide printf-to-string helpers), each case in a child
//              process because a broken implementation hangs or crashes.
#include <errno.h>
#include <sys/wait.h>
#include <unistd.h>

#include <algorithm>
#include <functional>
#include <set>
#include <sys/resource.h>
#include <thread>

#include "C08_ref.hh"

namespace {

// ---------- call set ------------------------------------------------------------------------------------------

struct Env {  // objects that live as long as one history
  string obj, obj2, obj3;
  wstring wobj;
  vector<string> items;
};

struct Call {
  string family;  // function under test (finding-key component)
  string text;    // description of the call
  std::function<string(Env&)> real;  // runs the real function, returns a rendering of the outcome
  string want;    // the rendering the reference definition gives
  bool heavy = false;  // long-running; left out of the cross-function products
};

template <class Str>
string raw(const Str& s) { return string((const char*)s.data(), s.size() * sizeof(typename Str::value_type)); }
template <class Str>
string render_vec(const vector<Str>& v) {
  string o = vf::fmt("ok n=%zu", v.size());
  for (const Str& p : v) o += vf::fmt("|%zu:", p.size()) + raw(p);
  return o;
}
template <class F>
string guarded(F&& f) {  // rendering of "returned X" / "threw <class>"
  string out;
  string oc = vf::outcome([&] { out = f(); });
  return oc == "ok" ? out : "throw " + oc;
}

string long_list(const char* unit, size_t n) {
  string s;
  for (size_t i = 0; i < n; i++) s += unit;
  return s;
}

// Every call hands its main argument over in the history's long-lived objects (Env): consecutive calls of a
// history therefore see the same object address, often the same size, and different contents.
vector<Call> build_calls() {
  vector<Call> cs;
  auto add = [&](const string& family, const string& text, std::function<string(Env&)> real, const string& want, bool heavy = false) {
    cs.push_back(Call{family, text, std::move(real), want, heavy});
  };
  auto twin_of = [](string s) {  // same length, same prefix, last byte different
    if (!s.empty()) s[s.size() - 1] = (char)(s[s.size() - 1] == 'q' ? 'r' : 'q');
    return s;
  };
  // --- split (string, wstring) and split_context
  {
    struct In { string s; char d; size_t m; };
    const string L = long_list("xy,", 300);
    const vector<In> ins = {{"", ',', 0}, {"a,b", ',', 0}, {"a,c", ',', 0}, {"a,b,c,d", ',', 1}, {L, ',', SIZE_MAX}, {twin_of(L), ',', SIZE_MAX}, {",,", ',', 2}, {"a,b", 'a', 0}, {L, ',', 3}, {string("a,b\0c,d", 7), ',', 0}, {string("a,b\0e,d", 7), ',', 0}};
    for (const In& in : ins) {
      string t = vf::fmt("(%s, '%c', %zu)", shorten(in.s).c_str(), in.d, in.m);
      add("split", "split" + t, [in](Env& e) { e.obj.assign(in.s); return guarded([&] { return render_vec(phosg::split(e.obj, in.d, in.m)); }); }, render_vec(ref_split(in.s, in.d, in.m)));
      wstring w = widen(in.s);
      add("split(wstring)", "split(wstring)" + t, [w, in](Env& e) { e.wobj.assign(w); return guarded([&] { return render_vec(phosg::split(e.wobj, (wchar_t)in.d, in.m)); }); }, render_vec(ref_split(w, (wchar_t)in.d, in.m)));
    }
    const string LC = long_list("(x,y),", 100) + "z";
    const vector<In> cins = {{"", ',', 0}, {"a,(b,c),d", ',', 0}, {"a,(b,c,,d", ',', 0}, {"a,(b)c,,d", ',', 0}, {"'a,\\'',b", ',', 0}, {"(a", ',', 0}, {LC, ',', SIZE_MAX}, {twin_of(LC), ',', SIZE_MAX}, {"a,(b,c),d,e", ',', 1}, {"\"a", ',', 0}};
    for (const In& in : cins) {
      Scan sc(in.s, in.d);
      string want = sc.balanced ? render_vec(cut_at(in.s, sc.top, in.m)) : "throw runtime_error";
      add("split_context", vf::fmt("split_context(%s, '%c', %zu)", shorten(in.s).c_str(), in.d, in.m), [in](Env& e) { e.obj.assign(in.s); return guarded([&] { return render_vec(phosg::split_context(e.obj, in.d, in.m)); }); }, want);
    }
  }
  // --- split_args
  {
    const string L = long_list("arg ", 200);
    for (const string& s : {string(""), string("a b"), string("a c"), string("'a b' c"), string("'a b\" c"), string("a\\ b"), string("\"unterminated"), L, twin_of(L + "x"), string("a\\")}) {
      ArgsRef ref = ref_split_args(s);
      add("split_args", "split_args(" + shorten(s) + ")", [s](Env& e) { e.obj.assign(s); return guarded([&] { return render_vec(phosg::split_args(e.obj)); }); }, ref.error ? "throw runtime_error" : render_vec(ref.args));
    }
  }
  // --- join
  {
    struct In { vector<string> items; string delim; };
    vector<string> many(300, "xy"), many2(300, "xy");
    many2[299] = "xz";
    const vector<In> ins = {{{}, ","}, {{"a"}, ","}, {{"b"}, ","}, {{"", "", ""}, ","}, {{"a", "b"}, "--"}, {{"a", "c"}, "--"}, {{"a", "b"}, "-+"}, {many, ", "}, {many2, ", "}, {{"a", "b"}, ""}};
    for (const In& in : ins) {
      add("join", vf::fmt("join(%zu items %s, %s)", in.items.size(), showv(in.items).c_str(), vf::show(in.delim).c_str()),
          [in](Env& e) { e.items.assign(in.items.begin(), in.items.end()); e.obj.assign(in.delim); return guarded([&] { return "ok " + phosg::join(e.items, e.obj) + "|" + phosg::join(e.items); }); },
          "ok " + ref_join<string>(in.items, in.delim) + "|" + ref_join<string>(in.items, string()));
    }
  }
  // --- strip_* : in place on the history's object (it keeps its buffer from the previous call)
  {
    const string z2(2, '\0'), z40(40, '\0'), b40(40, ' ');
    const vector<string> ins = {"", "a", "  a  " + z2, "  b  " + z2, b40 + z40, "a" + b40 + "b" + b40, "a" + b40 + "c" + b40, "\t\n a b \r\n", z40 + b40 + "x", "a" + z40};
    struct Fn { const char* name; void (*real)(string&); string (*ref)(string); };
    static const Fn fns[] = {
        {"strip_trailing_zeroes", [](string& s) { phosg::strip_trailing_zeroes(s); }, [](string s) { return ref_rstrip_zero(s); }},
        {"strip_trailing_whitespace", [](string& s) { phosg::strip_trailing_whitespace(s); }, [](string s) { return ref_rstrip_ws(s); }},
        {"strip_leading_whitespace", [](string& s) { phosg::strip_leading_whitespace(s); }, [](string s) { return ref_lstrip_ws(s); }},
        {"strip_whitespace", [](string& s) { phosg::strip_whitespace(s); }, [](string s) { return ref_lstrip_ws(ref_rstrip_ws(s)); }},
    };
    for (const Fn& f : fns) {
      for (const string& s : ins) {
        const Fn* fp = &f;
        add(f.name, string(f.name) + "(" + shorten(s) + ") on the reused object", [fp, s](Env& e) {
          e.obj.assign(s.data(), s.size());
          return guarded([&] { fp->real(e.obj); return "ok " + e.obj; }); }, "ok " + f.ref(s));
      }
    }
    for (const string& s : ins) {
      wstring w = widen(s);
      add("strip_trailing_zeroes(wstring)", "strip_trailing_zeroes(wstring " + shorten(s) + ") on the reused object", [w](Env& e) {
        e.wobj.assign(w.data(), w.size());
        return guarded([&] { phosg::strip_trailing_zeroes(e.wobj); return "ok " + raw(e.wobj); }); }, "ok " + raw(ref_rstrip_zero(w)));
    }
  }
  // --- strip_multiline_comments
  {
    struct In { string s; bool allow; };
    const string L = long_list("x/*y\n*/", 100);
    const vector<In> ins = {{"", false}, {"a/*b*/c", false}, {"a/*d*/e", false}, {"a/*b*!c", false}, {"/*\n*/", false}, {"/*", false}, {"/*", true}, {L, false}, {twin_of(L), false}, {"a", true}, {"a/*b", true}};
    for (const In& in : ins) {
      bool unterminated = false;
      string w = ref_strip_comments(in.s, &unterminated);
      add("strip_multiline_comments", vf::fmt("strip_multiline_comments(%s, %d) on the reused object", shorten(in.s).c_str(), in.allow), [in](Env& e) {
        e.obj.assign(in.s.data(), in.s.size());
        return guarded([&] { phosg::strip_multiline_comments(e.obj, in.allow); return "ok " + e.obj; }); }, (unterminated && !in.allow) ? "throw runtime_error" : "ok " + w);
      wstring ww = widen(in.s);
      add("strip_multiline_comments(wstring)", vf::fmt("strip_multiline_comments(wstring %s, %d) on the reused object", shorten(in.s).c_str(), in.allow), [ww, in](Env& e) {
        e.wobj.assign(ww.data(), ww.size());
        return guarded([&] { phosg::strip_multiline_comments(e.wobj, in.allow); return "ok " + raw(e.wobj); }); }, (unterminated && !in.allow) ? "throw runtime_error" : "ok " + raw(widen(w)));
    }
  }
  // --- starts_with / ends_with
  {
    struct In { string s, p; };
    const string L = pattern(300);
    const vector<In> ins = {{"", ""}, {"abc", "ab"}, {"abd", "ab"}, {"abc", "ac"}, {"abc", "bc"}, {"ab", "abc"}, {L, L.substr(0, 299)}, {L, twin_of(L.substr(0, 299))}, {L, L.substr(1)}, {"abc", ""}, {string("a\0b", 3), string("a\0", 2)}, {"ab", string("ab\0", 3)}};
    for (const In& in : ins) {
      add("starts_with/ends_with", "starts_with/ends_with(" + shorten(in.s) + ", " + shorten(in.p) + ")", [in](Env& e) { e.obj.assign(in.s); e.obj2.assign(in.p); return guarded([&] { return vf::fmt("ok s=%d e=%d", phosg::starts_with(e.obj, e.obj2), phosg::ends_with(e.obj, e.obj2)); }); },
          vf::fmt("ok s=%d e=%d", ref_starts(in.s, in.p), ref_ends(in.s, in.p)));
    }
  }
  // --- toupper / tolower
  {
    string mixed(300, 'x');
    for (size_t i = 0; i < mixed.size(); i++) mixed[i] = (char)((i % 3 == 0 ? 'a' : 'A') + i % 26);
    for (const string& s : {string(""), string("abc"), string("abd"), string("ABC"), mixed, twin_of(mixed), string("\xe9\xff"), string("aB"), string("a\0z", 3), string("a\0y", 3)}) {
      add("toupper/tolower", "toupper/tolower(" + shorten(s) + ")", [s](Env& e) { e.obj.assign(s); return guarded([&] { return "ok " + phosg::toupper(e.obj) + "|" + phosg::tolower(e.obj); }); }, "ok " + ref_upper(s) + "|" + ref_lower(s));
    }
  }
  // --- str_replace_all
  {
    struct In { string s, t, rep; };
    const string L = long_list("ab", 300);
    const vector<In> ins = {{"", "a", "b"}, {"aaa", "a", "bb"}, {"aab", "a", "bb"}, {"aaa", "a", "bc"}, {"abab", "ab", ""}, {L, "b", "xyz"}, {twin_of(L), "b", "xyz"}, {"abc", "x", "y"}, {"aaa", "aa", "a"}, {string(300, 'a'), "a", ""}};
    for (const In& in : ins) {
      add("str_replace_all", "str_replace_all(" + shorten(in.s) + ", " + vf::show(in.t) + ", " + vf::show(in.rep) + ")", [in](Env& e) { e.obj.assign(in.s); e.obj2.assign(in.t); e.obj3.assign(in.rep); return guarded([&] { return "ok " + phosg::str_replace_all(e.obj, e.obj2.c_str(), e.obj3.c_str()); }); },
          "ok " + ref_replace(in.s, in.t, in.rep));
    }
  }
  // --- skip_*
  {
    struct In { string s; size_t off; bool cstr; };
    const vector<In> ins = {{"", 0, true}, {"  a", 0, true}, {" \ta", 0, true}, {"a  b", 0, true}, {"a\n b", 0, true}, {"a  b", 1, true}, {string(300, ' ') + "x", 0, true}, {string(299, ' ') + "xx", 0, true}, {"ab", 2, true}, {"ab", SIZE_MAX, false}, {string(300, 'x') + " y", 7, true}};
    for (const In& in : ins) {
      size_t w_ws = ref_first_from(in.s, in.off, false), w_nws = ref_first_from(in.s, in.off, true), w_word = ref_first_from(in.s, w_nws, false);
      string want = vf::fmt("ok %zu %zu %zu", w_ws, w_nws, w_word);
      if (in.cstr) want += vf::fmt(" %zu %zu %zu", w_ws, w_nws, w_word);
      add("skip_*", vf::fmt("skip_whitespace/skip_non_whitespace/skip_word(%s, %zu)%s", shorten(in.s).c_str(), in.off, in.cstr ? " both overloads" : ""), [in](Env& e) { e.obj.assign(in.s); return guarded([&] {
        string o = vf::fmt("ok %zu %zu %zu", phosg::skip_whitespace(e.obj, in.off), phosg::skip_non_whitespace(e.obj, in.off), phosg::skip_word(e.obj, in.off));
        if (in.cstr) o += vf::fmt(" %zu %zu %zu", phosg::skip_whitespace(e.obj.c_str(), in.off), phosg::skip_non_whitespace(e.obj.c_str(), in.off), phosg::skip_word(e.obj.c_str(), in.off));
        return o; }); }, want);
    }
  }
  // --- string_printf / string_vprintf
  {
    vector<string> args;
    for (size_t L : {(size_t)0, (size_t)1, (size_t)255, (size_t)256, (size_t)1024, (size_t)70000}) args.push_back(pattern(L));
    args.push_back(twin_of(pattern(255)));
    args.push_back(twin_of(pattern(1024)));
    for (const string& arg : args) {
      add("string_printf", vf::fmt("string_printf(\"%%s\", %s)", shorten(arg).c_str()), [arg](Env& e) { e.obj.assign(arg); return guarded([&] { return "ok " + phosg::string_printf("%s", e.obj.c_str()); }); }, "ok " + arg, arg.size() > 4096);
      add("string_vprintf", vf::fmt("string_vprintf(\"%%s\", %s)", shorten(arg).c_str()), [arg](Env& e) { e.obj.assign(arg); return guarded([&] { return "ok " + via_vprintf("%s", e.obj.c_str()); }); }, "ok " + arg, arg.size() > 4096);
    }
  }
  add("string_printf", "string_printf(\"%d-%s\", 5, \"xyz\")", [](Env&) { return guarded([&] { return "ok " + phosg::string_printf("%d-%s", 5, "xyz"); }); }, "ok 5-xyz");
  add("string_printf", "string_printf(\"%d-%s\", 6, \"xyz\")", [](Env&) { return guarded([&] { return "ok " + phosg::string_printf("%d-%s", 6, "xyz"); }); }, "ok 6-xyz");
  add("string_printf", "string_printf(\"%*d\", 300, 7)", [](Env&) { return guarded([&] { return "ok " + phosg::string_printf("%*d", 300, 7); }); }, "ok " + string(299, ' ') + "7");
  add("string_vprintf", "string_vprintf(\"%d-%s\", 5, \"xyz\")", [](Env&) { return guarded([&] { return "ok " + via_vprintf("%d-%s", 5, "xyz"); }); }, "ok 5-xyz");
  add("string_vprintf", "string_vprintf(\"%d-%s\", 6, \"xyz\")", [](Env&) { return guarded([&] { return "ok " + via_vprintf("%d-%s", 6, "xyz"); }); }, "ok 6-xyz");
  add("string_vprintf", "string_vprintf(\"%-*d|\", 300, 7)", [](Env&) { return guarded([&] { return "ok " + via_vprintf("%-*d|", 300, 7); }); }, "ok 7" + string(299, ' ') + "|");
  // calls of one function next to each other (the per-function products walk contiguous runs)
  std::stable_sort(cs.begin(), cs.end(), [](const Call& a, const Call& b) { return a.family < b.family; });
  return cs;
}

string brief(const string& rendering) {
  if (rendering.size() <= 120) return vf::show(rendering);
  return vf::show(rendering.substr(0, 90)) + vf::fmt("...(%zu bytes)", rendering.size());
}

// ---------- calling contexts -------------------------------------------------------------------------------

const int N_CONTEXT = 5;
const char* context_name(int c) {
  static const char* n[] = {"plainly", "inside a catch handler", "inside a destructor running during stack unwinding", "inside the handler of a runtime_error thrown by split_context", "on a second thread"};
  return n[c];
}
const int ERRNOS[] = {0, ERANGE, EINVAL, EINTR, ENOMEM};

struct RunInDtor {
  std::function<void()> f;
  ~RunInDtor() { f(); }
};

string run_in_context(const Call& c, int context, int err) {
  string out;
  Env env;
  auto doit = [&] {
    errno = err;
    out = c.real(env);
  };
  switch (context) {
    case 0: doit(); break;
    case 1:
      try {
        throw std::logic_error("context");
      } catch (const std::exception&) {
        doit();
      }
      break;
    case 2:
      try {
        RunInDtor d{doit};
        throw std::logic_error("context");
      } catch (const std::exception&) {
      }
      break;
    case 3:
      try {
        phosg::split_context("(", ',');
        doit();
      } catch (const std::runtime_error&) {
        doit();
      }
      break;
    case 4: {
      std::thread t(doit);
      t.join();
      break;
    }
  }
  return out;
}

}  // namespace

VF_SECTION(history, 16, 16, 120) {
  const vector<Call> calls = build_calls();
  // which calls are right when made on their own, first (decides the finding key of a failing history)
  vector<bool> single_ok(calls.size());
  for (size_t i = 0; i < calls.size(); i++) {
    Env e;
    single_ok[i] = (calls[i].real(e) == calls[i].want);
  }
  auto run_history = [&](const vector<size_t>& h) {
    if (r.wants_desc()) {
      string d = "history:";
      for (size_t i : h) d += " " + calls[i].text + ";";
      r.desc(d);
    }
    r.nontriv();
    Env env;
    bool bad = false;
    for (size_t step = 0; step < h.size(); step++) {
      const Call& c = calls[h[step]];
      r.poison_errno();
      string got = c.real(env);
      if (got != c.want) {
        bad = true;
        string key = c.family + (single_ok[h[step]] ? ":result-depends-on-earlier-calls" : ":wrong-value(call set)");
        r.fail(key, [&] {
          string d = c.text + " -> " + brief(got) + ", expected " + brief(c.want);
          if (step > 0) {
            d += "; it was call " + std::to_string(step + 1) + " of the history:";
            for (size_t j = 0; j <= step; j++) d += " " + calls[h[j]].text + ";";
          }
          return d;
        });
      }
    }
    if (!bad) r.ok(vf::fmt("history of %zu calls", h.size()));
  };
  // (a) single calls
  r.note("history: single calls");
  for (size_t i = 0; i < calls.size(); i++) {
    if (!r.take()) continue;
    run_history({i});
  }
  // (b) per function: all ordered pairs and triples of its inputs
  r.note("history: pairs and triples per function");
  for (size_t a = 0; a < calls.size();) {
    size_t b = a;
    while (b < calls.size() && calls[b].family == calls[a].family) b++;
    for (size_t i = a; i < b; i++)
      for (size_t j = a; j < b; j++) {
        if (!r.take()) continue;
        run_history({i, j});
      }
    for (size_t i = a; i < b; i++)
      for (size_t j = a; j < b; j++)
        for (size_t k = a; k < b; k++) {
          if (calls[i].heavy && calls[j].heavy && calls[k].heavy) continue;
          if (!r.take()) continue;
          run_history({i, j, k});
        }
    a = b;
  }
  // (c) across functions: all ordered pairs (thorough: all ordered triples) of the calls that are not heavy
  r.note("history: pairs across functions");
  vector<size_t> light;
  for (size_t i = 0; i < calls.size(); i++) if (!calls[i].heavy) light.push_back(i);
  for (size_t i : light)
    for (size_t j : light) {
      if (calls[i].family == calls[j].family) continue;  // done in (b)
      if (!r.take()) continue;
      run_history({i, j});
    }
  if (r.thorough()) {
    r.note("history: triples across functions");
    for (size_t i : light)
      for (size_t j : light)
        for (size_t k : light) {
          if (calls[i].family == calls[j].family && calls[j].family == calls[k].family) continue;
          if (!r.take()) continue;
          run_history({i, j, k});
        }
  }
  std::set<string> fams;
  for (const Call& c : calls) fams.insert(c.family);
  r.bound = vf::fmt("%zu calls over %zu functions (a boundary input set per function: empty / short / long beyond any small buffer / all-stripped / throwing / limit SIZE_MAX); every call alone, all ordered pairs and triples within a function, "
      "all ordered pairs across functions%s; in-place helpers run on one std::string / std::wstring object reused along the history; every step compared with the reference", calls.size(), fams.size(), r.thorough() ? " and all ordered triples across functions" : "");
}

VF_SECTION(context, 4, 4, 120) {
  const vector<Call> calls = build_calls();
  r.note("context");
  for (size_t i = 0; i < calls.size(); i++) {
    for (int context = 0; context < N_CONTEXT; context++) {
      for (int err : ERRNOS) {
        if (!r.take()) continue;
        const Call& c = calls[i];
        if (r.wants_desc()) r.desc(c.text + " called " + context_name(context) + vf::fmt(" with errno == %d on entry", err));
        r.nontriv();
        string got = run_in_context(c, context, err);
        if (got == c.want) {
          r.ok(context_name(context));
          continue;
        }
        // attribute: wrong even in the plain context with errno == 0?
        string plain = run_in_context(c, 0, 0);
        string key = c.family + (plain == c.want ? ":result-depends-on-calling-context" : ":wrong-value(call set)");
        r.fail(key, [&] { return c.text + " called " + context_name(context) + vf::fmt(" with errno == %d on entry", err) + " -> " + brief(got) + ", expected " + brief(c.want) + (plain == c.want ? " (which is what the plain call with errno == 0 returns)" : ""); });
      }
    }
  }
  r.bound = vf::fmt("%zu calls (the call set of section history) x {plain, inside a catch handler, inside a destructor during stack unwinding, inside the handler of split_context's own runtime_error, on a second thread} x errno on entry in {0, ERANGE, EINVAL, EINTR, ENOMEM}", calls.size());
}

// ---------- multi-step scenarios (final observable result) ------------------------------------------------------------

namespace {

vector<string> ref_ws_tokens(const string& s, bool newline_is_blank) {
  vector<string> out;
  string cur;
  for (char c : s) {
    bool blank = (c == ' ' || c == '\t' || (newline_is_blank && (c == '\n' || c == '\r')));
    if (blank) {
      if (!cur.empty()) out.push_back(cur);
      cur.clear();
    } else cur.push_back(c);
  }
  if (!cur.empty()) out.push_back(cur);
  return out;
}

const vector<size_t>& LIMITS_SCEN() {
  static const vector<size_t> v = {0, 1, 2, 3, 9, 0x100000000ull, SIZE_MAX - 1, SIZE_MAX};
  return v;
}

string quote_arg(const string& a, int style) {
  string o;
  if (style == 0) {
    for (char c : a) {
      o.push_back('\\');
      o.push_back(c);
    }
    return o;
  }
  char q = style == 1 ? '"' : '\'';
  o.push_back(q);
  for (char c : a) {
    if (c == q || c == '\\') o.push_back('\\');
    o.push_back(c);
  }
  o.push_back(q);
  return o;
}

}  // namespace

VF_SECTION(scenarios, 16, 16, 120) {
  // S1: two-level split, two-level join
  r.note("scenario: nested split/join");
  vf::all_strings("a,;", r.thorough() ? 9 : 8, [&](const string& s) {
    if (!r.take()) return;
    if (r.wants_desc()) r.desc("split(" + vf::show(s) + ", ',') -> split(each, ';') -> join(each, ';') -> join(all, ',')");
    if (s.find_first_of(",;") != string::npos) r.nontriv();
    vector<string> flat, want_flat, rejoined;
    for (const string& piece : phosg::split(s, ',')) {
      vector<string> inner = phosg::split(piece, ';');
      flat.insert(flat.end(), inner.begin(), inner.end());
      rejoined.push_back(phosg::join(inner, ";"));
    }
    string back = phosg::join(rejoined, ",");
    string cur;
    for (char c : s) {
      if (c == ',' || c == ';') {
        want_flat.push_back(cur);
        cur.clear();
      } else cur.push_back(c);
    }
    want_flat.push_back(cur);
    if (back != s || flat != want_flat) r.fail("scenario:nested-split-join", [&] { return "split(" + vf::show(s) + ", ',') then split(piece, ';'): fields " + showv(flat) + " (expected " + showv(want_flat) + "); joined back with ';' and ',': " + vf::show(back); });
    else r.ok("nested split/join");
  });
  // S2: join(split(s, d1), d2) == str_replace_all(s, d1, d2)
  r.note("scenario: split+join == replace");
  {
    const char d1s[] = {'a', ','};
    const char* d2s[] = {"", ";", "--", ",", ",,", "a"};
    vf::all_strings("ab,", r.thorough() ? 8 : 7, [&](const string& s) {
      for (char d1 : d1s)
        for (const char* d2 : d2s) {
          if (!r.take()) continue;
          if (r.wants_desc()) r.desc(vf::fmt("join(split(%s, '%c'), \"%s\") vs str_replace_all", vf::show(s).c_str(), d1, d2));
          if (s.find(d1) != string::npos) r.nontriv();
          const string t(1, d1);
          string a = phosg::join(phosg::split(s, d1), d2);
          string b = phosg::str_replace_all(s, t.c_str(), d2);
          string w = ref_replace(s, t, d2);
          if (a != w || b != w) r.fail("scenario:split-join-vs-replace", [&] { return vf::fmt("join(split(%s, '%c'), \"%s\") == %s, str_replace_all(same) == %s, expected %s", vf::show(s).c_str(), d1, d2, vf::show(a).c_str(), vf::show(b).c_str(), vf::show(w).c_str()); });
          else r.ok("split+join == replace");
        }
    });
  }
  // S3: tokenising with the skip_* helpers (both overloads) == splitting at blanks == split_args on quote-free text
  r.note("scenario: skip_* tokeniser");
  vf::all_strings("ab \t\n", r.thorough() ? 8 : 7, [&](const string& s) {
    if (!r.take()) return;
    if (r.wants_desc()) r.desc("tokenise " + vf::show(s) + " with skip_whitespace/skip_non_whitespace/skip_word (std::string and const char*)");
    if (s.find_first_of(" \t\n") != string::npos) r.nontriv();
    vector<string> want = ref_ws_tokens(s, true);
    vector<string> t1, t2, t3;
    bool stuck = false;
    {
      size_t off = phosg::skip_whitespace(s, 0);
      for (size_t guard = 0; off < s.size(); guard++) {
        size_t end = phosg::skip_non_whitespace(s, off);
        if (end <= off || end > s.size() || guard > s.size()) { stuck = true; break; }
        t1.push_back(s.substr(off, end - off));
        off = phosg::skip_whitespace(s, end);
      }
    }
    {
      const char* p = s.c_str();
      size_t off = phosg::skip_whitespace(p, 0);
      for (size_t guard = 0; off < s.size(); guard++) {
        size_t end = phosg::skip_non_whitespace(p, off);
        if (end <= off || end > s.size() || guard > s.size()) { stuck = true; break; }
        t2.push_back(s.substr(off, end - off));
        off = phosg::skip_whitespace(p, end);
      }
    }
    {
      size_t off = phosg::skip_whitespace(s, 0);
      for (size_t guard = 0; off < s.size(); guard++) {
        size_t next = phosg::skip_word(s, off);
        if (next <= off || next > s.size() || guard > s.size()) { stuck = true; break; }
        t3.push_back(ref_rstrip_ws(s.substr(off, next - off)));
        off = next;
      }
    }
    bool bad = stuck || t1 != want || t2 != want || t3 != want;
    if (bad) r.fail("scenario:skip-tokeniser", [&] { return "tokenising " + vf::show(s) + ": std::string overloads give " + showv(t1) + ", const char* overloads " + showv(t2) + ", skip_word " + showv(t3) + (stuck ? " (a step made no progress or ran past the end)" : "") + ", expected " + showv(want); });
    if (s.find('\n') == string::npos) {
      vector<string> args;
      string oc = vf::outcome([&] { args = phosg::split_args(s); });
      if (oc != "ok" || args != want) {
        bad = true;
        r.fail("scenario:split_args-vs-tokeniser", [&] { return "split_args(" + vf::show(s) + ") " + (oc == "ok" ? "returned " + showv(args) : "threw " + oc) + ", blank-separated words are " + showv(want); });
      }
    }
    if (!bad) r.ok("tokeniser");
  });
  // S4: strip_whitespace == leading o trailing == trailing o leading; a second application changes nothing
  r.note("scenario: strip composition");
  vf::all_strings(string("a \t\n") + string(1, '\0'), r.thorough() ? 8 : 7, [&](const string& s) {
    if (!r.take()) return;
    if (r.wants_desc()) r.desc("strip_whitespace vs strip_leading/trailing compositions on " + vf::show(s));
    string want = ref_lstrip_ws(ref_rstrip_ws(s));
    if (want != s) r.nontriv();
    string a = s, b = s, c = s;
    phosg::strip_whitespace(a);
    phosg::strip_leading_whitespace(b);
    phosg::strip_trailing_whitespace(b);
    phosg::strip_trailing_whitespace(c);
    phosg::strip_leading_whitespace(c);
    string a2 = a;
    phosg::strip_whitespace(a2);
    phosg::strip_trailing_whitespace(a2);
    phosg::strip_leading_whitespace(a2);
    if (a != want || b != want || c != want || a2 != want) r.fail("scenario:strip-composition", [&] { return "on " + vf::show(s) + ": strip_whitespace -> " + vf::show(a) + ", leading then trailing -> " + vf::show(b) + ", trailing then leading -> " + vf::show(c) + ", all three again on the result -> " + vf::show(a2) + "; expected " + vf::show(want) + " every time"; });
    else r.ok("strip composition");
  });
  // S5: a capped split continued on its last piece == the uncapped split; split_context agrees with split on bracket-free text;
  //     the wide split agrees with the narrow one
  r.note("scenario: capped split continued");
  vf::all_strings("ab,", r.thorough() ? 9 : 8, [&](const string& s) {
    for (size_t m : LIMITS_SCEN()) {
      if (!r.take()) continue;
      if (r.wants_desc()) r.desc(vf::fmt("split(%s, ',', %zu) continued on its last piece; split_context and split(wstring) on the same input", vf::show(s).c_str(), m));
      if (s.find(',') != string::npos) r.nontriv();
      vector<string> want_all = ref_split(s, ',', 0), want_m = ref_split(s, ',', m);
      vector<string> head = phosg::split(s, ',', m);
      vector<string> cont = head;
      if (!cont.empty()) {
        string last = cont.back();
        cont.pop_back();
        for (const string& p : phosg::split(last, ',')) cont.push_back(p);
      }
      vector<string> ctx;
      string oc = vf::outcome([&] { ctx = phosg::split_context(s, ',', m); });
      vector<wstring> wide = phosg::split(widen(s), L',', m);
      vector<string> narrowed;
      for (const wstring& w : wide) narrowed.push_back(string(w.begin(), w.end()));
      if (cont != want_all || oc != "ok" || ctx != want_m || narrowed != want_m || head != want_m)
        r.fail("scenario:split-family-agreement", [&] { return vf::fmt("s = %s, max_splits = %zu: split -> %s; continued on the last piece -> %s (expected %s); split_context -> %s %s; split(wstring) -> %s; expected %s", vf::show(s).c_str(), m, showv(head).c_str(), showv(cont).c_str(), showv(want_all).c_str(), oc.c_str(), showv(ctx).c_str(), showv(narrowed).c_str(), showv(want_m).c_str()); });
      else r.ok("split family agrees");
    }
  });
  // S6: quoting arguments shell-style, joining them into a command line, split_args gives them back
  r.note("scenario: split_args round trip");
  {
    const vector<string> pool = {"a", "a b", "'", "\"", "\\", "\t", "b c\\", "x'y\"z"};
    const char* seps[] = {" ", "\t", "  \t "};
    for (size_t n = 1; n <= 3; n++) {
      vf::Odometer od(vector<uint32_t>(n, (uint32_t)pool.size()));
      for (; !od.done; od.step()) {
        for (int style = 0; style < 4; style++) {  // 0 backslashes, 1 double quotes, 2 single quotes, 3 mixed per argument
          if (!r.take()) continue;
          vector<string> args, quoted;
          for (size_t i = 0; i < n; i++) {
            args.push_back(pool[od.d[i]]);
            quoted.push_back(quote_arg(args.back(), style == 3 ? (int)((i + od.d[i]) % 3) : style));
          }
          string line = phosg::join(quoted, seps[(od.d[0] + n) % 3]);
          if (r.wants_desc()) r.desc("split_args(" + vf::show(line) + ") built by quoting " + showv(args));
          r.nontriv();
          vector<string> got;
          string what;
          string oc = vf::outcome([&] { got = phosg::split_args(line); }, &what);
          if (oc != "ok" || got != args) r.fail("scenario:split_args-roundtrip", [&] { return "split_args(" + vf::show(line) + ") " + (oc == "ok" ? "returned " + showv(got) : "threw " + oc + " (" + what + ")") + ", the line was built by quoting " + showv(args); });
          else r.ok("split_args round trip");
        }
      }
    }
  }
  // S7: format -> split -> join
  r.note("scenario: printf/split/join");
  {
    const size_t lens[] = {0, 1, 255, 256, 257, 70000};
    for (size_t la : lens)
      for (size_t lb : lens)
        for (int n : {0, -1, 2147483647}) {
          if (!r.take()) continue;
          string a = pattern(la), b = pattern(lb);
          for (char& c : a) if (c == ',') c = '_';
          for (char& c : b) if (c == ',') c = '_';
          std::reverse(b.begin(), b.end());
          if (r.wants_desc()) r.desc(vf::fmt("split(string_printf(\"%%s,%%s,%%d\", <%zu bytes>, <%zu bytes>, %d), ',') and join back", la, lb, n));
          r.nontriv();
          string line = phosg::string_printf("%s,%s,%d", a.c_str(), b.c_str(), n);
          vector<string> f = phosg::split(line, ',');
          vector<string> want = {a, b, std::to_string(n)};
          string back = phosg::join(f, ",");
          vector<string> f2 = phosg::split(line, ',', 1);
          vector<string> want2 = {a, b + "," + std::to_string(n)};
          if (f != want || back != line || f2 != want2 || line.size() != la + lb + 2 + want[2].size()) r.fail("scenario:printf-split-join", [&] { return vf::fmt("string_printf(\"%%s,%%s,%%d\", <%zu bytes>, <%zu bytes>, %d) has %zu bytes; split gives %zu fields (sizes", la, lb, n, line.size(), f.size()) + [&] { string o; for (auto& x : f) o += " " + std::to_string(x.size()); return o; }() + "); expected the three arguments back"; });
          else r.ok("printf/split/join");
        }
  }
  // S8: case mapping composes; affix tests on concatenations
  r.note("scenario: case/affix composition");
  for (int v = 0; v < 65536; v++) {
    if (!r.take()) continue;
    string s;
    s.push_back((char)(v & 0xFF));
    s.push_back((char)(v >> 8));
    if (r.wants_desc()) r.desc("toupper(tolower(s)), tolower(toupper(s)), starts_with/ends_with on s+s for s = " + vf::show(s));
    string ul = phosg::toupper(phosg::tolower(s)), lu = phosg::tolower(phosg::toupper(s));
    string wu = ref_upper(s), wl = ref_lower(s);
    if (wu != s || wl != s) r.nontriv();
    string both = s + phosg::toupper(s);
    bool ok = ul == wu && lu == wl && phosg::starts_with(both, s) && phosg::ends_with(both, wu) && phosg::starts_with(both, wu) == (wu == s) && phosg::ends_with(both, s) == (wu == s);
    if (!ok) r.fail("scenario:case-affix-composition", [&] { return "s = " + vf::show(s) + ": toupper(tolower(s)) == " + vf::show(ul) + " (expected " + vf::show(wu) + "), tolower(toupper(s)) == " + vf::show(lu) + " (expected " + vf::show(wl) + "), or starts_with/ends_with on s + toupper(s) disagree"; });
    else r.ok("case/affix composition");
  }
  // S9: removing comments keeps the number of lines; a terminated text without openers is unchanged
  r.note("scenario: comments keep lines");
  vf::all_strings("a/*\n", r.thorough() ? 9 : 8, [&](const string& s) {
    if (!r.take()) return;
    if (r.wants_desc()) r.desc("line count of " + vf::show(s) + " before and after strip_multiline_comments(allow_unterminated=true)");
    if (s.find("/*") != string::npos) r.nontriv();
    string t = s;
    string oc = vf::outcome([&] { phosg::strip_multiline_comments(t, true); });
    size_t before = phosg::split(s, '\n').size(), after = phosg::split(t, '\n').size();
    string t2 = t;
    bool unterminated = false;
    string want = ref_strip_comments(s, &unterminated);
    if (oc != "ok" || before != after || t != want) r.fail("scenario:comments-keep-lines", [&] { return "strip_multiline_comments(" + vf::show(s) + ", true) -> " + (oc == "ok" ? vf::show(t) : oc) + vf::fmt(": %zu lines before, %zu after; expected ", before, after) + vf::show(want); });
    else r.ok("comments keep lines");
  });
  r.bound = "multi-step scenarios, final result compared: nested split/join over {a , ;}^<=8; join(split(s,d1),d2) == str_replace_all over {a,b,','}^<=7 x 2 x 6; skip_* tokeniser (both overloads, skip_word) == blank-separated words == split_args over {a,b,space,tab,LF}^<=7; "
            "strip compositions over {a,space,tab,LF,NUL}^<=7; capped split continued == uncapped split, split_context == split == split(wstring) over {a,b,','}^<=8 x 8 max_splits; split_args round trip of 1..3 quoted arguments from 8 x 4 quoting styles; "
            "printf -> split -> join with fields up to 70000 bytes; case/affix composition over all byte pairs; comment removal keeps the line count over {a,/,*,LF}^<=8 (thorough: one longer each)";
}

// ---------- wstring_printf / wstring_vprintf -----------------------------------------------------------------------------

namespace {

wstring via_wvprintf(const wchar_t* fmt, ...) {
  va_list va;
  va_start(va, fmt);
  struct End {
    va_list& v;
    ~End() { va_end(v); }
  } end{va};
  return phosg::wstring_vprintf(fmt, va);
}

wstring wpattern(size_t n) {
  wstring s(n, L'x');
  for (size_t i = 0; i < n; i++) s[i] = (wchar_t)(L'!' + (i * 7 + i / 251) % 90);
  for (size_t i = 0; i < n; i += 5) s[i] = (wchar_t)(0x100 + i % 0x700);  // genuinely wide characters too
  return s;
}

struct ChildResult {
  int status = 0;
  string bytes;
};
// Runs f in a forked child (a broken wide printf hangs or crashes); the child's return value comes back through a pipe.
template <class F>
ChildResult run_child(F&& f, int timeout_s) {
  ChildResult res;
  int fds[2];
  if (pipe(fds) < 0) { perror("pipe"); _exit(3); }
  fflush(stdout);
  fflush(stderr);
  pid_t p = fork();
  if (p < 0) { perror("fork"); _exit(3); }
  if (p == 0) {
    close(fds[0]);
    // the limit is CPU time of the child (a broken wide printf spins), so that a heavily loaded machine does not turn
    // a slow but correct case into a "hang"; the wall-clock alarm is only a backstop for a child that blocks
    struct rlimit rl;
    rl.rlim_cur = (rlim_t)timeout_s;
    rl.rlim_max = (rlim_t)timeout_s + 2;
    setrlimit(RLIMIT_CPU, &rl);
    alarm(timeout_s * 15);
    string out = f();
    size_t off = 0;
    while (off < out.size()) {
      ssize_t n = write(fds[1], out.data() + off, out.size() - off);
      if (n <= 0) _exit(4);
      off += (size_t)n;
    }
    _exit(0);
  }
  close(fds[1]);
  char buf[65536];
  for (;;) {
    ssize_t n = read(fds[0], buf, sizeof(buf));
    if (n < 0 && errno == EINTR) continue;
    if (n <= 0) break;
    res.bytes.append(buf, (size_t)n);
  }
  close(fds[0]);
  while (waitpid(p, &res.status, 0) < 0 && errno == EINTR) {}
  return res;
}

struct WCase {
  string what;
  std::function<wstring(bool)> real;  // argument: through wstring_vprintf directly?
  std::function<wstring()> want;      // built on demand: the size ladder reaches 1 Mi characters
};

string render_w(const wstring& w) { return vf::fmt("%zu:", w.size()) + string((const char*)w.data(), w.size() * sizeof(wchar_t)) + ";"; }

wstring wtext(size_t L) {
  wstring text = wpattern(L);
  for (wchar_t& c : text) if (c == L'%') c = L'_';
  return text;
}
WCase fixed_wcase(const string& what, std::function<wstring(bool)> real, const wstring& want) {
  return WCase{what, real, [want] { return want; }};
}

// result lengths: the boundary set of round 2 plus the size ladder 2^k-1, 2^k, 2^k+1 (quick: k = 8..17 and 2^18-1, 2^19,
// 2^20; thorough: every length 0..130 and k = 8..20 up to 1 Mi characters)
vector<size_t> wprintf_lengths(bool thorough) {
  std::set<size_t> lens = {0, 1, 2, 3, 4, 7, 8, 9, 15, 16, 17, 255, 256, 257, 1023, 1024, 1025, 4096, 65536, 1048576};
  if (thorough) for (size_t L = 0; L <= 130; L++) lens.insert(L);
  for (int k = 8; k <= (thorough ? 20 : 17); k++)
    for (int d = -1; d <= 1; d++) lens.insert(((size_t)1 << k) + d);
  if (!thorough) {
    lens.insert(((size_t)1 << 18) - 1);
    lens.insert((size_t)1 << 19);
  }
  vector<size_t> out;
  for (size_t L : lens) if (L <= 1048576) out.push_back(L);
  return out;
}

vector<WCase> build_wcases(bool thorough) {
  vector<WCase> cs;
  for (size_t L : wprintf_lengths(thorough)) {
    // arguments and expectations are built inside the case (in the child / after take()), not here
    cs.push_back({vf::fmt("(<%zu wide characters without conversions>)", L), [L](bool v) { wstring text = wtext(L); return v ? via_wvprintf(text.c_str()) : phosg::wstring_printf(text.c_str()); }, [L] { return wtext(L); }});
    cs.push_back({vf::fmt("(L\"%%ls\", <%zu wide characters>)", L), [L](bool v) { wstring arg = wpattern(L); return v ? via_wvprintf(L"%ls", arg.c_str()) : phosg::wstring_printf(L"%ls", arg.c_str()); }, [L] { return wpattern(L); }});
    if (L >= 1) cs.push_back({vf::fmt("(L\"%%*d\", %zu, 7)", L), [L](bool v) { return v ? via_wvprintf(L"%*d", (int)L, 7) : phosg::wstring_printf(L"%*d", (int)L, 7); }, [L] { return wstring(L - 1, L' ') + L"7"; }});
    cs.push_back({vf::fmt("(L\"[%%s]\", <%zu narrow ASCII characters>)", L), [L](bool v) { string arg = pattern(L); return v ? via_wvprintf(L"[%s]", arg.c_str()) : phosg::wstring_printf(L"[%s]", arg.c_str()); }, [L] { return L"[" + widen(pattern(L)) + L"]"; }});
  }
  for (int x : {0, 7, 12345, INT32_MIN}) {
    string digits = std::to_string(x);
    cs.push_back(fixed_wcase(vf::fmt("(L\"%%d\", %d)", x), [x](bool v) { return v ? via_wvprintf(L"%d", x) : phosg::wstring_printf(L"%d", x); }, widen(digits)));
  }
  cs.push_back(fixed_wcase("(L\"%lc%ls%lc\", NUL, L\"mid\", NUL)", [](bool v) { return v ? via_wvprintf(L"%lc%ls%lc", (wint_t)0, L"mid", (wint_t)0) : phosg::wstring_printf(L"%lc%ls%lc", (wint_t)0, L"mid", (wint_t)0); }, wstring(1, L'\0') + L"mid" + wstring(1, L'\0')));
  cs.push_back(fixed_wcase("(L\"%.3f|%ls|%lld\", -1.5, L\"w\", -9000000000)", [](bool v) { return v ? via_wvprintf(L"%.3f|%ls|%lld", -1.5, L"w", -9000000000ll) : phosg::wstring_printf(L"%.3f|%ls|%lld", -1.5, L"w", -9000000000ll); }, L"-1.500|w|-9000000000"));
  cs.push_back(fixed_wcase("(L\"%%\")", [](bool v) { return v ? via_wvprintf(L"%%") : phosg::wstring_printf(L"%%"); }, L"%"));
  return cs;
}

}  // namespace

VF_SECTION(wprintf, 16, 16, 120) {
  r.note("wstring_printf");
  const int timeout_s = 6;
  const vector<WCase> cs = build_wcases(r.thorough());
  auto judge = [&](const string& what, const ChildResult& res, const string& want_bytes, size_t n_results) {
    if (WIFSIGNALED(res.status) && (WTERMSIG(res.status) == SIGXCPU || WTERMSIG(res.status) == SIGKILL || WTERMSIG(res.status) == SIGALRM)) {
      r.fail("wstring_printf:hangs", [&] { return "wstring_printf / wstring_vprintf " + what + vf::fmt(" did not return within %d s of CPU time (or %d s of wall time)", timeout_s, timeout_s * 15); });
    } else if (!WIFEXITED(res.status) || WEXITSTATUS(res.status) != 0) {
      r.fail("wstring_printf:crashes", [&] { return "wstring_printf / wstring_vprintf " + what + (WIFSIGNALED(res.status) ? vf::fmt(" died with signal %d", WTERMSIG(res.status)) : vf::fmt(" ended the process with status %d (AddressSanitizer report or uncaught exception)", WEXITSTATUS(res.status))); });
    } else if (res.bytes != want_bytes) {
      size_t i = 0;
      while (i < res.bytes.size() && i < want_bytes.size() && res.bytes[i] == want_bytes[i]) i++;
      r.fail("wstring_printf:wrong-value", [&] { return "wstring_printf / wstring_vprintf " + what + vf::fmt(": the %zu results (rendered as length:characters;) have %zu bytes, expected %zu; first difference at byte %zu; beginning of the observed rendering: ", n_results, res.bytes.size(), want_bytes.size(), i) + vf::show(res.bytes.substr(0, 48)); });
    } else return true;
    return false;
  };
  // (a) every case alone, through wstring_printf and through wstring_vprintf
  for (const WCase& c : cs) {
    if (!r.take()) continue;
    if (r.wants_desc()) r.desc("wstring_printf and wstring_vprintf " + c.what);
    r.nontriv();
    ChildResult res = run_child([&] { return guarded([&] { return render_w(c.real(false)) + render_w(c.real(true)); }); }, timeout_s);
    const wstring want = c.want();
    if (judge(c.what, res, render_w(want) + render_w(want), 2)) r.ok(want.size() > 1024 ? "result longer than 1024 characters" : "result up to 1024 characters");
  }
  // (b) histories: long-then-short, short-then-long, A-B-A over four size classes of %ls and of plain text
  r.note("wstring_printf histories");
  {
    const size_t hl[] = {0, 3, 300, 70000};
    auto one = [](size_t L, int form) {
      wstring arg = wpattern(L);
      for (wchar_t& c : arg) if (c == L'%') c = L'_';
      return form == 0 ? phosg::wstring_printf(L"%ls", arg.c_str()) : phosg::wstring_printf(arg.c_str());
    };
    auto want_one = [](size_t L) {
      wstring arg = wpattern(L);
      for (wchar_t& c : arg) if (c == L'%') c = L'_';
      return arg;
    };
    for (int form = 0; form < 2; form++)
      for (size_t a : hl)
        for (size_t b : hl)
          for (int aba = 0; aba < 2; aba++) {
            if (!r.take()) continue;
            string what = vf::fmt("history of %s results with %zu, %zu%s wide characters", form == 0 ? "L\"%ls\"" : "plain-text", a, b, aba ? vf::fmt(", %zu", a).c_str() : "");
            if (r.wants_desc()) r.desc("wstring_printf " + what);
            r.nontriv();
            ChildResult res = run_child([&] { return guarded([&] { return render_w(one(a, form)) + render_w(one(b, form)) + (aba ? render_w(one(a, form)) : string()); }); }, timeout_s);
            string want = render_w(want_one(a)) + render_w(want_one(b)) + (aba ? render_w(want_one(a)) : string());
            if (judge(what, res, want, aba ? 3 : 2)) r.ok("history");
          }
  }
  r.bound = vf::fmt("wstring_printf and wstring_vprintf: plain text, L\"%%ls\", L\"%%*d\", L\"[%%s]\" with %zu result lengths from 0 to 1 Mi characters (quick: boundary set {0..4,7,8,9,15,16,17,1023..1025,4096} and the size ladder 2^k-1, 2^k, 2^k+1 for k = 8..17, 2^18-1, 2^19, 2^20; "
      "thorough: every length 0..130 and the ladder for k = 8..20), L\"%%d\" on 4 values, NUL characters through %%lc, mixed arguments, L\"%%%%\"; "
      "64 histories (pairs and A-B-A over result sizes {0,3,300,70000}); every case in a child process with a %d s CPU-time limit", wprintf_lengths(r.thorough()).size(), timeout_s);
}
