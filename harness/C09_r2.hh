// C09 round-2 helpers: generic "steps" (one library call + its oracle) used by the history, context and stream sections.
#pragma once
#include <fcntl.h>
#include <stdlib.h>
#include <termios.h>

#include <thread>

#include "C09_common.hh"

namespace c09 {
namespace {

// State threaded through one history.
struct Ctx {
  int err = 0;  // errno left behind by the previous library call of the history (restored right before the next call)
  string shared_mask = "\x55\xAA\x55 stale mask bytes of an earlier use";  // the mask out-parameter is never fresh
  bool exact = true;
};
typedef std::function<string(Ctx&)> StepFn;  // returns "" or "<key>\t<detail>"
struct Step {
  string name;
  StepFn run;
};

inline string fail2(const char* key, const string& d) { return string(key) + "\t" + d; }

string abbrev(const string& s, size_t n = 48) { return s.size() <= n ? vf::show(s) : vf::show(s.substr(0, n)) + vf::fmt("...(%zu chars)", s.size()); }
string abbrev_hex(const string& s, size_t n = 24) { return s.size() <= n ? hexs(s) : hexs(s.substr(0, n)) + vf::fmt("...(%zu bytes)", s.size()); }

// ---- parser step -------------------------------------------------------------------------------------------------
// maskmode 0: mask == nullptr, 1: the history's shared (non-empty) mask object
Step pstep(const string& text, int maskmode, uint64_t flags = 0) {
  string name = "parse_data_string(" + abbrev(text) + (maskmode ? ", &mask" : ", nullptr") + (flags ? ", ALLOW_FILES)" : ")");
  return {name, [=](Ctx& c) -> string {
            ExactStr es(text);
            Eval e = ref_eval(text);
            string data, what;
            const string& in = c.exact ? es.str() : text;
            errno = c.err;
            string oc = vf::outcome([&] { data = phosg::parse_data_string(in, maskmode ? &c.shared_mask : nullptr, flags); }, &what);
            c.err = errno;
            if (oc != "ok") return fail2("parse_data_string:throws", name + " threw " + oc + " (" + what + ")");
            if (maskmode) {
              bool shape = c.shared_mask.size() == data.size();
              for (unsigned char m : c.shared_mask) shape &= (m == 0x00 || m == 0xFF);
              if (!shape) return fail2("parse_data_string:mask-shape", name + vf::fmt(" returns %zu data bytes but leaves mask ", data.size()) + abbrev_hex(c.shared_mask, 64) + " (must be one 00/FF byte per data byte, whatever the mask object held before)");
            }
            if (e.dontcare) return "";
            if (data != e.data && data != e.data_alt) return fail2("parse_data_string:wrong-bytes", name + " == " + abbrev_hex(data, 64) + ", documented syntax defines " + abbrev_hex(e.data, 64));
            if (maskmode && c.shared_mask != e.mask) return fail2("parse_data_string:wrong-mask", name + " mask == " + abbrev_hex(c.shared_mask, 64) + ", documented syntax defines " + abbrev_hex(e.mask, 64));
            return "";
          }};
}

// ---- format_data_string step ------------------------------------------------------------------------------------
// mask: empty optional = no mask; overload 0: std::string, 1: (pointer, size) on exact-size heap copies
struct FSpec {
  string data;
  bool with_mask;
  string mask;  // given mask bytes (non-zero = enabled)
  uint64_t flags;
  int overload;
};

string run_fds(const FSpec& f, Ctx& c) {
  string name = "format_data_string(" + string(f.overload ? "ptr " : "str ") + abbrev_hex(f.data) + ", mask=" + (f.with_mask ? abbrev_hex(f.mask) : string("none")) + vf::fmt(", flags=%llu)", (unsigned long long)f.flags);
  string text, what, oc;
  if (f.overload == 0) {
    errno = c.err;
    oc = vf::outcome([&] { text = phosg::format_data_string(f.data, f.with_mask ? &f.mask : nullptr, f.flags); }, &what);
    c.err = errno;
  } else {
    char* d = (char*)malloc(f.data.size() ? f.data.size() : 1);
    char* m = (char*)malloc(f.data.size() ? f.data.size() : 1);
    memcpy(d, f.data.data(), f.data.size());
    if (f.with_mask) memcpy(m, f.mask.data(), f.mask.size());
    errno = c.err;
    oc = vf::outcome([&] { text = phosg::format_data_string((const void*)d, f.data.size(), f.with_mask ? (const void*)m : nullptr, f.flags); }, &what);
    c.err = errno;
    free(d);
    free(m);
  }
  if (oc != "ok") return fail2("format_data_string:throws", name + " threw " + oc + " (" + what + ")");
  if (f.flags && text.find_first_of("\"'") != string::npos) return fail2("format_data_string:hex-only-ignored", name + " == " + abbrev(text) + " contains a quoted string although HEX_ONLY was given");
  // parse back (mask pointer = the shared, non-empty mask object)
  ExactStr es(text);
  string back;
  errno = c.err;
  oc = vf::outcome([&] { back = phosg::parse_data_string(c.exact ? es.str() : text, &c.shared_mask, 0); }, &what);
  c.err = errno;
  if (oc != "ok") return fail2("parse_data_string:throws-on-formatted", name + " == " + abbrev(text) + "; parsing that threw " + oc);
  if (back != f.data) return fail2("format_data_string:not-lossless", name + " == " + abbrev(text) + ", which parses back to " + abbrev_hex(back) + vf::fmt(" (%zu bytes; the input has %zu)", back.size(), f.data.size()));
  bool same = c.shared_mask.size() == f.data.size();
  for (size_t i = 0; same && i < f.data.size(); i++) same = ((unsigned char)c.shared_mask[i] == ((!f.with_mask || f.mask[i]) ? 0xFF : 0x00));
  if (!same) return fail2("format_data_string:mask-lost", name + " == " + abbrev(text) + ", parsed mask " + abbrev_hex(c.shared_mask) + " does not classify the bytes as the given mask does");
  return "";
}

Step fstep(const FSpec& f) {
  string name = "format_data_string(" + string(f.overload ? "ptr " : "str ") + abbrev_hex(f.data, 8) + (f.with_mask ? ", mask " + abbrev_hex(f.mask, 8) : string("")) + vf::fmt(", flags=%llu)", (unsigned long long)f.flags);
  return {name, [=](Ctx& c) { return run_fds(f, c); }};
}

string mask_pattern(size_t n, int kind, size_t arg = 0) {
  // 0 all on, 1 all off, 2 alternate (run length arg, starting on), 3 alternate starting off, 4 only byte arg off, 5 only byte arg on
  static const unsigned char onv[3] = {0x01, 0x80, 0xFF};
  string m(n, '\0');
  for (size_t i = 0; i < n; i++) {
    bool on = true;
    size_t run = arg ? arg : 1;
    switch (kind) {
      case 0: on = true; break;
      case 1: on = false; break;
      case 2: on = ((i / run) % 2) == 0; break;
      case 3: on = ((i / run) % 2) == 1; break;
      case 4: on = i != arg; break;
      case 5: on = i == arg; break;
    }
    m[i] = on ? (char)onv[i % 3] : '\0';
  }
  return m;
}

// ---- hex-dump step ----------------------------------------------------------------------------------------------
enum DApi {
  API_FMT_PTR,       // format_data(const void*, size, ...)
  API_FMT_STR,       // format_data(const std::string&, ...)
  API_FMT_IOV,       // format_data(const iovec*, n, ...)
  API_FMT_VEC,       // format_data(const vector<iovec>&, ...)
  API_CORE,          // format_data(std::function write_data, ...)
  API_PRINT_PTR,     // print_data(FILE*, const void*, size, ...) through open_memstream
  API_PRINT_STR,
  API_PRINT_IOV,
  API_PRINT_VEC,
  API_COUNT
};
const char* const API_NAMES[] = {"format_data(void*,size)", "format_data(string)", "format_data(iovec*,n)", "format_data(vector<iovec>)", "format_data(callback)",
    "print_data(void*,size)", "print_data(string)", "print_data(iovec*,n)", "print_data(vector<iovec>)"};

struct DSpec {
  size_t n;
  int pattern;  // dump_pattern kinds 0..3; 4 = zeros except first and last 16 bytes; 5 = zeros except one byte in the middle and the ends
  uint64_t start;
  uint64_t flags;
  int prevkind;  // 0 none, 1 every third byte differs, 2 identical, 3 identical except one non-zero byte in the middle, 4 prev pointer == data pointer
  int api;
  int dsplit, psplit;  // iovec APIs: 0 single, 1 [1, n-1], 2 [n/3, 0, rest], 3 one iovec per byte with an empty iovec after every byte
};

vector<uint8_t> dump_data(int pattern, size_t n) {
  if (pattern < 4) return dump_pattern(pattern, n);
  vector<uint8_t> d(n ? n : 1, 0);
  for (size_t i = 0; i < n; i++)
    if (i < 16 || i + 16 >= n) d[i] = (uint8_t)(0x30 + i % 64);
  if (pattern == 5 && n) d[n / 2] = 0xC3;
  return d;
}

vector<size_t> split_parts(size_t n, int kind) {
  switch (kind) {
    case 1: return n ? vector<size_t>{1, n - 1} : vector<size_t>{0, 0};
    case 2: return {n / 3, 0, n - n / 3};
    case 3: {
      vector<size_t> p;
      for (size_t i = 0; i < n; i++) {
        p.push_back(1);
        p.push_back(0);
      }
      if (p.empty()) p.push_back(0);
      return p;
    }
    default: return {n};
  }
}

string describe_dspec(const DSpec& s) {
  return vf::fmt("%s: %zu bytes (pattern %d), start=0x%" PRIX64 ", flags=0x%04" PRIX64 ", prev kind %d, iovec split %d/%d", API_NAMES[s.api], s.n, s.pattern, s.start, s.flags, s.prevkind, s.dsplit, s.psplit);
}

// Runs one dump through the chosen API; *out receives the text.  check_flags: the flag set the output is decoded under.
string run_dump_api(const DSpec& s, Ctx& c, string* out_text = nullptr) {
  using namespace phosg;
  vector<uint8_t> dv = dump_data(s.pattern, s.n), pv = dv;
  if (s.prevkind == 1) for (size_t i = 0; i < s.n; i += 3) pv[i] ^= 0x40;
  if (s.prevkind == 3 && s.n) pv[s.n / 2] ^= 0x55;
  uint8_t* d = (uint8_t*)malloc(s.n ? s.n : 1);
  uint8_t* p = (uint8_t*)malloc(s.n ? s.n : 1);
  memcpy(d, dv.data(), s.n);
  memcpy(p, pv.data(), s.n);
  const bool has_prev = s.prevkind != 0;
  const uint8_t* pp = !has_prev ? nullptr : (s.prevkind == 4 ? d : p);
  string data_str((const char*)dv.data(), s.n);
  IovSet di(d, split_parts(s.n, s.dsplit)), pi(pp ? pp : p, split_parts(s.n, s.psplit));
  string out, what;
  errno = c.err;
  string oc = vf::outcome([&] {
    switch (s.api) {
      case API_FMT_PTR: out = format_data((const void*)d, (uint64_t)s.n, s.start, (const void*)pp, s.flags); break;
      case API_FMT_STR: out = format_data(data_str, s.start, (const void*)pp, s.flags); break;
      case API_FMT_IOV: out = format_data(di.iov.data(), di.iov.size(), s.start, has_prev ? pi.iov.data() : nullptr, has_prev ? pi.iov.size() : 0, s.flags); break;
      case API_FMT_VEC: out = format_data(di.iov, s.start, has_prev ? &pi.iov : nullptr, s.flags); break;
      case API_CORE: format_data([&](const void* b, size_t k) { out.append((const char*)b, k); }, di.iov.data(), di.iov.size(), s.start, has_prev ? pi.iov.data() : nullptr, has_prev ? pi.iov.size() : 0, s.flags); break;
      case API_PRINT_PTR: out = via_memstream([&](FILE* f) { errno = c.err; print_data(f, (const void*)d, (uint64_t)s.n, s.start, (const void*)pp, s.flags); }); break;
      case API_PRINT_STR: out = via_memstream([&](FILE* f) { errno = c.err; print_data(f, data_str, s.start, (const void*)pp, s.flags); }); break;
      case API_PRINT_IOV: out = via_memstream([&](FILE* f) { errno = c.err; print_data(f, di.iov.data(), di.iov.size(), s.start, has_prev ? pi.iov.data() : nullptr, has_prev ? pi.iov.size() : 0, s.flags); }); break;
      case API_PRINT_VEC: out = via_memstream([&](FILE* f) { errno = c.err; print_data(f, di.iov, s.start, has_prev ? &pi.iov : nullptr, s.flags); }); break;
    }
  }, &what);
  c.err = errno;
  string res;
  if (oc != "ok") res = fail2("format_data:throws", describe_dspec(s) + " threw " + oc + " (" + what + ")");
  else {
    DumpCase dc{d, pp, s.n, s.start, s.flags};
    res = check_dump(dc, out);
    if (!res.empty()) res += " [" + describe_dspec(s) + "]\n--- output ---\n" + (out.size() > 700 ? out.substr(0, 700) + "..." : out);
  }
  if (out_text) *out_text = out;
  free(d);
  free(p);
  return res;
}

Step dstep(const DSpec& s) {
  return {describe_dspec(s), [=](Ctx& c) { return run_dump_api(s, c); }};
}

// ---- history runner ---------------------------------------------------------------------------------------------
void run_history(vf::Run& r, const vector<const Step*>& h, bool exact, const char* okclass) {
  auto names = [&] {
    string s;
    for (size_t i = 0; i < h.size(); i++) s += (i ? "  THEN  " : "") + h[i]->name;
    return s;
  };
  if (r.wants_desc()) r.desc("history of " + std::to_string(h.size()) + " calls in one process: " + names());
  if (h.size() > 1) r.nontriv();
  Ctx c;
  c.exact = exact;
  c.err = r.ambient_errno();
  for (size_t i = 0; i < h.size(); i++) {
    string res = h[i]->run(c);
    if (!res.empty()) {
      size_t tab = res.find('\t');
      r.fail(res.substr(0, tab), [&] { return vf::fmt("call %zu of the history [", i + 1) + names() + "]: " + res.substr(tab + 1); });
      return;
    }
  }
  r.ok(okclass);
}

// every ordered pair, every A-B-A, and every ordered triple over the first `triple_n` steps (all steps if 0)
void enumerate_histories(vf::Run& r, const vector<Step>& steps, size_t triple_n, bool exact, const string& tag) {
  const size_t n = steps.size();
  if (triple_n == 0 || triple_n > n) triple_n = n;
  for (size_t a = 0; a < n; a++) {
    if (!r.take()) continue;
    run_history(r, {&steps[a]}, exact, (tag + ": single call").c_str());
  }
  for (size_t a = 0; a < n; a++)
    for (size_t b = 0; b < n; b++) {
      if (!r.take()) continue;
      run_history(r, {&steps[a], &steps[b]}, exact, (tag + ": ordered pair").c_str());
    }
  for (size_t a = 0; a < n; a++)
    for (size_t b = 0; b < n; b++) {
      if (a == b || (a < triple_n && b < triple_n)) continue;  // covered by the triples below
      if (!r.take()) continue;
      run_history(r, {&steps[a], &steps[b], &steps[a]}, exact, (tag + ": A-B-A").c_str());
    }
  for (size_t a = 0; a < triple_n; a++)
    for (size_t b = 0; b < triple_n; b++)
      for (size_t c2 = 0; c2 < triple_n; c2++) {
        if (!r.take()) continue;
        run_history(r, {&steps[a], &steps[b], &steps[c2]}, exact, (tag + ": ordered triple").c_str());
      }
}

// ---- step alphabets ---------------------------------------------------------------------------------------------
string long_hex_text(size_t pairs) {
  string t;
  for (size_t i = 0; i < pairs; i++) {
    if (i % 7 == 3) t += '?';
    t += vf::fmt("%02x", (unsigned)((i * 29 + 5) & 0xFF));
    if (i % 16 == 15) t += '\n';
  }
  return t;
}
string long_quoted_text(size_t chars) {
  string t = "\"";
  for (size_t i = 0; i < chars; i++) t += (char)('a' + i % 26);
  return t + "\"";
}

// Texts chosen so that consecutive calls differ in size class, constructs used, parser state at the end of the text
// (open string / comment / file name, pending nybble, big-endian, mask disabled) and errno left behind
// (strtof/strtod/strtoull set ERANGE on the overflowing / underflowing numbers).
vector<string> parser_history_texts() {
  return {
      "%1e999", "####5", "4", long_hex_text(600), "$ ##258", "?00? 11",  // the first six are the "mixed" subset
      "", "00", "A5fF 7f", "$", "?", "##258", "'ab'", "$ 'a\\n'", "\"abc\\\"\"", "\"unterminated", "/* unterminated", "// line comment",
      "%%1e999", "%1e-60", "%%1e-400", "####99999999999999999999999", "####18446744073709551615", "$ ####-2", "###4294967295", "#255",
      "%1.5 %%-2.667", long_quoted_text(600), "\"a\\", "'a\\", "#", "%",
  };
}

vector<FSpec> fds_history_specs() {
  string printable600 = fill_pattern(0, 600, 0, 0), binary600 = fill_pattern(2, 600, 0, 0);
  string esc = "q\"\\\n\t'?\r";
  string ff17 = fill_pattern(1, 17, 16, '\x0C');
  string p33 = fill_pattern(0, 33, 0, 0);
  return {
      {printable600, false, "", 0, 0},                            // quoted, long
      {binary600, true, mask_pattern(600, 2, 7), 0, 0},           // hex, long, masked
      {esc, true, mask_pattern(esc.size(), 3), 0, 0},             // quoted with escapes and toggles
      {string("\x00\xFF\x80", 3), true, mask_pattern(3, 4, 1), 0, 0},
      {"", false, "", 0, 0},
      {"x", true, mask_pattern(1, 1), phosg::FormatDataFlags::HEX_ONLY, 0},  // the first six are the "mixed" subset
      {"a", false, "", 0, 0},
      {"abc", true, mask_pattern(3, 1), 0, 0},
      {printable600, false, "", phosg::FormatDataFlags::HEX_ONLY, 0},
      {ff17, false, "", 0, 0},
      {p33, true, mask_pattern(33, 4, 0), 0, 1},
      {string("\x01\x02", 2), false, "", 0, 1},
  };
}

vector<DSpec> dump_history_specs() {
  using namespace phosg;
  const uint64_t A = PrintDataFlags::PRINT_ASCII, C = PrintDataFlags::USE_COLOR;
  return {
      {600, 0, 0xFFFFFFF8ull, A | PrintDataFlags::PRINT_FLOAT, 0, API_FMT_PTR, 0, 0},
      {48, 2, 0, A | PrintDataFlags::COLLAPSE_ZERO_LINES, 0, API_FMT_PTR, 0, 0},
      {20, 3, 0, A | C, 1, API_FMT_PTR, 0, 0},
      {20, 3, 0, A | C, 0, API_FMT_PTR, 0, 0},
      {33, 0, (uint64_t)0 - 33, PrintDataFlags::OFFSET_64_BITS | PrintDataFlags::PRINT_DOUBLE | PrintDataFlags::BIG_ENDIAN_FLOATS, 0, API_FMT_PTR, 0, 0},
      {40, 3, 7, A, 1, API_PRINT_PTR, 0, 0},  // the first six are the "mixed" subset
      {1, 0, 0, A, 0, API_FMT_PTR, 0, 0},
      {40, 1, 5, A, 0, API_FMT_STR, 0, 0},
      {48, 2, 0, A, 0, API_FMT_PTR, 0, 0},
      {20, 3, 0, A, 1, API_FMT_STR, 0, 0},
      {17, 0, 0, PrintDataFlags::OFFSET_8_BITS, 0, API_FMT_VEC, 1, 0},
      {20, 0, 3, A | C, 1, API_FMT_IOV, 2, 1},
      {20, 0, 3, A, 0, API_FMT_IOV, 0, 0},
      {40, 3, 0, A | C, 1, API_PRINT_VEC, 2, 1},
      {80, 5, 0x20, A | C | PrintDataFlags::COLLAPSE_ZERO_LINES, 3, API_FMT_PTR, 0, 0},
      {0, 0, 0, A, 0, API_FMT_PTR, 0, 0},
      {18, 0, 0xF, A | PrintDataFlags::PRINT_FLOAT | PrintDataFlags::SKIP_SEPARATOR, 0, API_CORE, 1, 0},
      {256, 1, 0x10000, PrintDataFlags::OFFSET_16_BITS, 0, API_FMT_PTR, 0, 0},
      {20, 3, 0, A | C, 4, API_FMT_PTR, 0, 0},  // the previous buffer IS the data buffer
  };
}

// ---- streams -----------------------------------------------------------------------------------------------------
struct Pty {
  int master = -1, slave = -1;
  Pty() {
    master = posix_openpt(O_RDWR | O_NOCTTY);
    if (master < 0) return;
    char name[128];
    if (grantpt(master) != 0 || unlockpt(master) != 0 || ptsname_r(master, name, sizeof(name)) != 0) {
      close(master);
      master = -1;
      return;
    }
    slave = open(name, O_RDWR | O_NOCTTY);
    if (slave < 0) {
      close(master);
      master = -1;
      return;
    }
    struct termios t;
    if (tcgetattr(slave, &t) == 0) {
      cfmakeraw(&t);  // no NL -> CR NL translation: the bytes written are the bytes read
      tcsetattr(slave, TCSANOW, &t);
    }
    fcntl(master, F_SETFL, fcntl(master, F_GETFL) | O_NONBLOCK);
  }
  Pty(const Pty&) = delete;
  ~Pty() {
    if (slave >= 0) close(slave);
    if (master >= 0) close(master);
  }
  bool ok() const { return master >= 0 && slave >= 0 && isatty(slave); }
  string drain() {
    string s;
    char buf[4096];
    for (;;) {
      ssize_t k = read(master, buf, sizeof(buf));
      if (k > 0) s.append(buf, (size_t)k);
      else break;
    }
    return s;
  }
};

enum StreamKind {
  SK_MEM,       // open_memstream
  SK_FILE,      // regular file, default buffering
  SK_FILE_NBUF, // regular file, unbuffered (every fwrite is a write())
  SK_FILE_TINY, // regular file, fully buffered with a 7-byte buffer
  SK_PIPE,      // write end of a pipe
  SK_COOKIE,    // fopencookie stream, unbuffered: the callback sees every chunk
  SK_PTY,       // slave side of a pseudo-terminal in raw mode (isatty() is true)
  SK_COUNT
};
const char* const SK_NAMES[] = {"memstream", "file", "file(unbuffered)", "file(7-byte buffer)", "pipe", "cookie stream(unbuffered)", "pseudo-terminal"};

ssize_t cookie_write(void* c, const char* b, size_t n) {
  ((string*)c)->append(b, n);
  return (ssize_t)n;
}

// Opens a stream of the given kind, writes `prefix` to it with fputs (so the stream is not fresh), lets fn write, closes it and
// returns everything that arrived after the prefix.  ok=false: the stream kind is unavailable or the prefix was damaged.
string via_stream(int kind, const string& prefix, const std::function<void(FILE*)>& fn, bool* ok) {
  *ok = true;
  string got;
  static char tiny[7];
  string path = vf::fmt("c09stream.%d.tmp", (int)getpid());  // cwd is the section's private scratch directory
  switch (kind) {
    case SK_MEM: {
      got = via_memstream([&](FILE* f) {
        fputs(prefix.c_str(), f);
        fn(f);
      });
      break;
    }
    case SK_FILE:
    case SK_FILE_NBUF:
    case SK_FILE_TINY: {
      FILE* f = fopen(path.c_str(), "wb");
      if (!f) {
        *ok = false;
        return "";
      }
      if (kind == SK_FILE_NBUF) setvbuf(f, nullptr, _IONBF, 0);
      if (kind == SK_FILE_TINY) setvbuf(f, tiny, _IOFBF, sizeof(tiny));
      fputs(prefix.c_str(), f);
      fn(f);
      fclose(f);
      FILE* g = fopen(path.c_str(), "rb");
      char buf[4096];
      size_t k;
      while (g && (k = fread(buf, 1, sizeof(buf), g)) > 0) got.append(buf, k);
      if (g) fclose(g);
      unlink(path.c_str());
      break;
    }
    case SK_PIPE: {
      int fds[2];
      if (pipe(fds) != 0) {
        *ok = false;
        return "";
      }
      fcntl(fds[1], F_SETPIPE_SZ, 1 << 20);
      FILE* f = fdopen(fds[1], "w");
      fputs(prefix.c_str(), f);
      fn(f);
      fclose(f);
      char buf[4096];
      ssize_t k;
      while ((k = read(fds[0], buf, sizeof(buf))) > 0) got.append(buf, (size_t)k);
      close(fds[0]);
      break;
    }
    case SK_COOKIE: {
      cookie_io_functions_t io{nullptr, cookie_write, nullptr, nullptr};
      FILE* f = fopencookie(&got, "w", io);
      setvbuf(f, nullptr, _IONBF, 0);
      fputs(prefix.c_str(), f);
      fn(f);
      fclose(f);
      break;
    }
    case SK_PTY: {
      Pty pty;
      if (!pty.ok()) {
        *ok = false;
        return "";
      }
      FILE* f = fdopen(dup(pty.slave), "w");
      fputs(prefix.c_str(), f);
      fn(f);
      fclose(f);
      got = pty.drain();
      break;
    }
  }
  if (got.compare(0, prefix.size(), prefix) != 0) {
    *ok = false;
    return got;
  }
  return got.substr(prefix.size());
}

}  // namespace
}  // namespace c09
