// C04 — JSON serialize -> parse is the identity for every value and option set.
//
// E-ENUM over value trees (built through the public phosg::JSON API from a reference value jref::Val)
//   atoms   : every atom, [atom], {key: atom} for every string atom as key            (<= 2 nodes)
//   trees   : every tree with 3..4 (quick) / 3..6 (thorough) nodes over one representative per atom class
//   strings : every 0-, 1- and 2-byte string as a value and as a dictionary key
//   floats  : m x 10^e over the whole normal exponent range, both signs
//   deep    : 200-deep lists / dictionaries / mixed
// each x all 64 SerializeOption combinations x {default, strict where the options are standard}.
//
// Oracles per (value, options):
//   (1) parse(serialize(v, o)) succeeds, equals v structurally (ints/strings/bools exact, floats to relative
//       1e-5 = six significant digits), int stays int and float stays float; for float-free values
//       JSON::operator== must agree
//   (2) t = serialize(v, o|SORT_DICT_KEYS):  parse(t).serialize(o|SORT_DICT_KEYS) == t byte for byte
//   (3) o without the four non-standard bits: strict mode accepts t with the same value; the RFC 8259 reference
//       R_std accepts t with the same value; t goes to the Python json binding (oracles/C04.py).
//       o with only HEX_INTEGERS / ONE_CHARACTER_TRIVIAL_CONSTANTS added: R_ext (documented extensions) accepts
//       t with the same value.
//   (4) per value: copy-construction and copy-assignment compare == to the source, and mutating the copy (and,
//       separately, the source) at every depth leaves the other side's serialisation unchanged.
//
// Round 2 (harness/C04_r2.hh, included at the end): sections assign, compare, ctors, history, context, ops, ints, wide -
// assignment over non-fresh destinations for all ordered pairs/triples, the equality relation on all pairs and against
// native types, every constructor overload, call histories and calling contexts, mutation histories against a container
// model, boundary integers/floats, large values; plus the two other parse entry points (check_entry_points).
// Round 3 (harness/C04_r3.hh): section rejected - call histories in which a step throws (rejected texts x both modes x
// three entry points, throwing accessors) around round-trip steps judged by the memoryless oracle.
#include <float.h>
#include <math.h>
#include <stdlib.h>
#include <string.h>

#include <algorithm>
#include <compare>
#include <functional>
#include <limits>
#include <memory>
#include <set>
#include <unordered_map>
#include <string>
#include <vector>

#include "C04_jsonref.hh"
#include "JSON.hh"
#include "vf.hh"
#include <sys/wait.h>

using namespace phosg;
using jref::Val;

namespace {

constexpr uint32_t NONSTANDARD = JSON::SerializeOption::HEX_INTEGERS | JSON::SerializeOption::ONE_CHARACTER_TRIVIAL_CONSTANTS |
    JSON::SerializeOption::HEX_ESCAPE_CODES | JSON::SerializeOption::ESCAPE_CONTROLS_ONLY;
constexpr uint32_t ESCAPE_BITS = JSON::SerializeOption::HEX_ESCAPE_CODES | JSON::SerializeOption::ESCAPE_CONTROLS_ONLY;
constexpr uint32_t SORT = JSON::SerializeOption::SORT_DICT_KEYS;
constexpr double FTOL = 1e-5;  // "floats to the six significant digits serialization keeps"

JSON build(const Val& v) {
  switch (v.k) {
    case Val::NUL: return JSON(nullptr);
    case Val::BOOL: return JSON(v.b);
    case Val::INT: return JSON(v.i);
    case Val::FLT: return JSON(v.d);
    case Val::STR: return JSON(v.s);
    case Val::LIST: {
      JSON j = JSON::list();
      for (auto& c : v.items) j.emplace_back(build(c));
      return j;
    }
    case Val::DICT: {
      JSON j = JSON::dict();
      for (auto& m : v.members) j.emplace(m.first, build(m.second));
      return j;
    }
  }
  return JSON();
}

// reference-vs-reference comparison (R_std's reading of the text against the original value)
std::string vdiff(const Val& got, const Val& want, double tol) {
  if (got.k != want.k) return want.k == Val::FLT ? "float-kind" : want.k == Val::INT ? "int-kind" : "kind";
  switch (want.k) {
    case Val::NUL: return "";
    case Val::BOOL: return got.b == want.b ? "" : "bool";
    case Val::INT: return got.i == want.i ? "" : "int";
    case Val::FLT: return jref::close_rel(got.d, want.d, tol) ? "" : "float";
    case Val::STR: return got.s == want.s ? "" : "string";
    case Val::LIST:
      if (got.items.size() != want.items.size()) return "shape";
      for (size_t k = 0; k < want.items.size(); k++) {
        std::string t = vdiff(got.items[k], want.items[k], tol);
        if (!t.empty()) return t;
      }
      return "";
    case Val::DICT:
      if (got.members.size() != want.members.size()) return "shape";
      for (auto& m : want.members) {
        const Val* f = nullptr;
        for (auto& g : got.members) if (g.first == m.first) f = &g.second;
        if (!f) return "key";
        std::string t = vdiff(*f, m.second, tol);
        if (!t.empty()) return t;
      }
      return "";
  }
  return "kind";
}

bool float_exp_form(double d) {
  char b[64];
  snprintf(b, sizeof(b), "%g", d);
  return strchr(b, 'e') != nullptr;
}
std::string show_val(const Val& v) {
  std::string c = jref::canon(v);
  return c.size() > 300 ? c.substr(0, 300) + "..." : c;
}
std::string brief(const std::string& s) {
  if (s.size() <= 200) return vf::show(s);
  return vf::show(s.substr(0, 80)) + vf::fmt("...(%zu bytes)...", s.size()) + vf::show(s.substr(s.size() - 40));
}

std::string opt_names(uint32_t o) {
  std::string s;
  auto add = [&](uint32_t bit, const char* n) { if (o & bit) { if (!s.empty()) s += '|'; s += n; } };
  add(JSON::SerializeOption::HEX_INTEGERS, "HEX_INTEGERS");
  add(JSON::SerializeOption::ONE_CHARACTER_TRIVIAL_CONSTANTS, "ONE_CHARACTER_TRIVIAL_CONSTANTS");
  add(JSON::SerializeOption::FORMAT, "FORMAT");
  add(JSON::SerializeOption::SORT_DICT_KEYS, "SORT_DICT_KEYS");
  add(JSON::SerializeOption::HEX_ESCAPE_CODES, "HEX_ESCAPE_CODES");
  add(JSON::SerializeOption::ESCAPE_CONTROLS_ONLY, "ESCAPE_CONTROLS_ONLY");
  return s.empty() ? "0" : s;
}

struct Parsed;
Parsed try_parse(const std::string& t, bool strict);

struct Parsed {
  bool ok = false;
  std::string exc;
  JSON value;
};
Parsed try_parse(const std::string& t, bool strict) {
  Parsed p;
  try {
    p.value = JSON::parse(t, strict);
    p.ok = true;
  } catch (const JSON::parse_error& e) { p.exc = std::string("parse_error: ") + e.what();
  } catch (const std::out_of_range& e) { p.exc = std::string("out_of_range: ") + e.what();
  } catch (const std::exception& e) { p.exc = std::string("exception: ") + e.what();
  } catch (...) { p.exc = "non-std exception"; }
  return p;
}

// Names the kind of the first atom / empty container whose own serialisation (same options, same mode) is rejected,
// so that finding keys separate defects by cause ("float-in-exponent-form" vs "empty-list") rather than by whatever
// else the tree contains; if every leaf is fine on its own the container kind is named.  Failure path only; O(nodes).
bool bad_leaf(const Val& v, uint32_t o, bool strict, std::string& tag) {
  bool leaf = (v.k != Val::LIST && v.k != Val::DICT) || (v.items.empty() && v.members.empty());
  if (!leaf) {
    for (auto& c : v.items) if (bad_leaf(c, o, strict, tag)) return true;
    for (auto& m : v.members) if (bad_leaf(m.second, o, strict, tag)) return true;
    return false;
  }
  bool rejected;
  try {
    rejected = !try_parse(build(v).serialize(o), strict).ok;
  } catch (...) {
    rejected = true;
  }
  if (!rejected) return false;
  switch (v.k) {
    case Val::NUL: tag = "null"; break;
    case Val::BOOL: tag = "bool"; break;
    case Val::INT: tag = "int"; break;
    case Val::FLT: tag = float_exp_form(v.d) ? "float-in-exponent-form" : "float"; break;
    case Val::STR: tag = "string"; break;
    case Val::LIST: tag = "empty-list"; break;
    case Val::DICT: tag = "empty-dict"; break;
  }
  return true;
}
std::string blame(const Val& v, uint32_t o, bool strict) {
  std::string tag;
  if (bad_leaf(v, o, strict, tag)) return tag;
  return v.k == Val::LIST ? "list" : v.k == Val::DICT ? "dict" : "value";
}

// mutate every node of x (strings grow, containers gain a member after their children were mutated, primitives
// are replaced): if a copy shared any node with its source, the source's serialisation would change
void mutate_all(JSON& x) {
  if (x.is_string()) x.as_string() += "x";
  else if (x.is_list()) {
    for (auto& c : x.as_list()) mutate_all(*c);
    x.emplace_back(JSON(nullptr));
  } else if (x.is_dict()) {
    for (auto& m : x.as_dict()) mutate_all(*m.second);
    x.emplace(std::string("\x01new"), JSON((int64_t)1));
  } else x = JSON("changed");
}

void check_copy(vf::Run& r, const Val& v, const JSON& j) {
  auto desc = [&](const char* what) { return [&, what] { return vf::fmt("value %s: %s", show_val(v).c_str(), what); }; };
  std::string t0 = j.serialize(SORT);
  {
    JSON c(j);
    r.transitions++;
    if (!(c == j) || !(j == c)) r.fail("copy-construct:not-equal-to-source", desc("JSON c(v); c == v is false"));
    else if (!jref::differs(c, v, 0.0, true).empty()) r.fail("copy-construct:wrong-value", desc("copy differs structurally from the source"));
    else if (c.serialize(SORT) != t0) r.fail("copy-construct:wrong-value", desc("copy serialises differently"));
    mutate_all(c);
    if (j.serialize(SORT) != t0 || !jref::differs(j, v, 0.0, true).empty()) r.fail("copy-construct:shallow", desc("mutating the copy changed the source"));
    if (c.is_list() || c.is_dict()) {
      c.clear();
      if (j.serialize(SORT) != t0) r.fail("copy-construct:shallow", desc("clear() on the copy changed the source"));
    }
  }
  {
    JSON a = JSON::list({JSON("old"), JSON::dict({{"k", JSON(1)}})});  // assignment must also release/replace old content
    a = j;
    r.transitions++;
    if (!(a == j) || !(j == a)) r.fail("copy-assign:not-equal-to-source", desc("a = v; a == v is false"));
    else if (!jref::differs(a, v, 0.0, true).empty() || a.serialize(SORT) != t0) r.fail("copy-assign:wrong-value", desc("assigned copy differs from the source"));
    mutate_all(a);
    if (j.serialize(SORT) != t0 || !jref::differs(j, v, 0.0, true).empty()) r.fail("copy-assign:shallow", desc("mutating the assigned copy changed the source"));
  }
  {
    JSON src = build(v);
    JSON c(src);
    mutate_all(src);  // the other direction: the copy must not follow its source
    if (c.serialize(SORT) != t0) r.fail("copy-construct:shallow", desc("mutating the source changed the copy"));
  }
}

struct Ctx {
  FILE* dat = nullptr;
  uint32_t option_mask = 63;  // option sets enumerated: every o with (o & ~option_mask) == 0
  bool entry_points = false;  // also parse every text through parse(const char*, size) and parse(StringReader&)
};

// The two other parse entry points must read the same value from the same text (class "rare overloads"):
//   parse(const char*, size)  on an exact-size heap block without terminator (ASan red zones on both sides)
//   parse(StringReader&)      on a partly consumed reader: "[0] " + t + " 7"; the value is read at offset 4 and the
//                             documented "does not throw if there's extra data" lets a second parse() read the 7
std::string check_entry_points(const std::string& t, const Val& v, bool strict) {
  {
    std::unique_ptr<char[]> blk(new char[t.size()]);
    memcpy(blk.get(), t.data(), t.size());
    try {
      JSON a = JSON::parse(blk.get(), t.size(), strict);
      std::string d = jref::differs(a, v, FTOL, true);
      if (!d.empty()) return "parse(const char*, size) read a different value (" + d + "): " + a.serialize(SORT);
    } catch (const std::exception& e) {
      return std::string("parse(const char*, size) threw ") + e.what();
    }
  }
  {
    const std::string whole = "[0] " + t + " 7";
    StringReader sr(whole);
    try {
      JSON first = JSON::parse(sr, strict);
      if (!(first.is_list() && first.size() == 1)) return "parse(StringReader&) misread the leading [0]";
      JSON a = JSON::parse(sr, strict);
      std::string d = jref::differs(a, v, FTOL, true);
      if (!d.empty()) return "parse(StringReader&) on a partly consumed reader read a different value (" + d + "): " + a.serialize(SORT);
      JSON last = JSON::parse(sr, strict);
      if (!(last.is_int() && last.as_int() == 7)) return "parse(StringReader&) did not leave the reader at the end of the value (next value read as " + last.serialize() + ")";
    } catch (const std::exception& e) {
      return std::string("parse(StringReader&) on a partly consumed reader threw ") + e.what();
    }
  }
  return "";
}

// every oracle for one value
void check_value(vf::Run& r, const Val& v, Ctx& cx, const JSON* prebuilt = nullptr, const char* route = "") {
  if (r.wants_desc()) r.desc(std::string(route) + "value " + show_val(v) + vf::fmt(" x %d option sets", 1 << __builtin_popcount(cx.option_mask)));
  JSON j = prebuilt ? JSON(*prebuilt) : build(v);
  r.nontriv();
  const bool floatfree = !v.has_float();
  bool failed = false;
  std::string last_dat;
  for (uint32_t o = 0; o < 64; o++) {
    if (o & ~cx.option_mask) continue;
    r.counters["value_x_option_combinations"]++;
    auto fail = [&](const std::string& key, const std::string& text, const std::string& what) {
      failed = true;
      r.fail(key, [&] { return vf::fmt("value %s serialize(%s) = %s: %s", show_val(v).c_str(), opt_names(o).c_str(), brief(text).c_str(), what.c_str()); });
    };
    std::string t;
    try {
      t = j.serialize(o);
    } catch (const std::exception& e) {
      fail("serialize:throws", "", e.what());
      continue;
    }
    r.transitions++;
    // (1) default-mode round trip
    Parsed p = try_parse(t, false);
    r.transitions++;
    if (!p.ok) {
      // everything below would only restate that this text is unparseable
      fail("roundtrip:parse-rejects:" + blame(v, o, false), t, "default-mode parse threw " + p.exc);
      continue;
    } else {
      std::string d = jref::differs(p.value, v, FTOL, true);
      if (!d.empty()) fail("roundtrip:wrong-value:" + d, t, "parsed back as " + brief(p.value.serialize(SORT)) + (p.value.is_int() ? " (int)" : p.value.is_float() ? " (float)" : ""));
      else if (floatfree && (!(p.value == j) || !(j == p.value))) fail("roundtrip:operator==-disagrees", t, "structurally equal but JSON::operator== says different");
      else if (cx.entry_points) {
        r.transitions += 4;
        std::string e = check_entry_points(t, v, false);
        if (e.empty() && !(o & NONSTANDARD)) e = check_entry_points(t, v, true);
        if (!e.empty()) fail("roundtrip:entry-points-disagree", t, e);
      }
    }
    // (2) re-serialisation with sorted keys is a fixed point
    {
      std::string ts = (o & SORT) ? t : j.serialize(o | SORT);
      Parsed ps = (o & SORT) ? std::move(p) : try_parse(ts, false);
      r.transitions += 2;
      if (ps.ok) {
        std::string again = ps.value.serialize(o | SORT);
        if (again != ts) fail("reserialize:text-differs", ts, "parse(t).serialize(same options) = " + brief(again));
      } else if (!(o & SORT)) fail("roundtrip:parse-rejects:" + blame(v, o | SORT, false), ts, "default-mode parse threw " + ps.exc);
    }
    // (3) standard text
    if (!(o & NONSTANDARD)) {
      Parsed s = try_parse(t, true);
      r.transitions++;
      if (!s.ok) fail("standard-text:strict-rejects:" + blame(v, o, true), t, "strict-mode parse threw " + s.exc);
      else {
        std::string d = jref::differs(s.value, v, FTOL, true);
        if (!d.empty()) fail("standard-text:strict-wrong-value:" + d, t, "strict mode parsed it as " + brief(s.value.serialize(SORT)));
      }
      jref::Result rs = jref::parse(t, false);
      if (!rs.accepted) fail("standard-text:not-rfc8259", t, std::string("the RFC 8259 reference rejects it: ") + rs.why + " at offset " + std::to_string(rs.err_pos));
      else {
        std::string d = vdiff(rs.value, v, FTOL);
        if (!d.empty() || rs.outside()) fail("standard-text:rfc8259-value-differs:" + (d.empty() ? std::string("outside") : d), t, "the RFC 8259 reference reads " + show_val(rs.value));
      }
      if (cx.dat && t != last_dat) {
        jref::dat_line(cx.dat, t, rs);
        r.counters["texts_written_for_python"]++;
        last_dat = t;
      }
    } else if (!(o & ESCAPE_BITS)) {
      // only documented parser extensions in use: the text must be in L(R_ext) with the same value
      jref::Result re = jref::parse(t, true);
      if (!re.accepted) fail("extension-text:not-documented-extension-syntax", t, std::string("R_ext rejects it: ") + re.why + " at offset " + std::to_string(re.err_pos));
      else if (!re.outside() && !vdiff(re.value, v, FTOL).empty()) fail("extension-text:documented-meaning-differs", t, "R_ext reads " + show_val(re.value));
    }
  }
  // (4) copies
  check_copy(r, v, j);
  if (!failed) r.ok(v.k == Val::LIST ? "list:all-oracles-hold" : v.k == Val::DICT ? "dict:all-oracles-hold" : v.k == Val::STR ? "string:all-oracles-hold"
          : v.k == Val::FLT ? (float_exp_form(v.d) ? "float(exponent form):all-oracles-hold" : "float(plain form):all-oracles-hold")
          : v.k == Val::INT ? "int:all-oracles-hold" : "constant:all-oracles-hold");
}

// ---- atoms ------------------------------------------------------------------------------------

std::vector<Val> int_atoms() {
  std::vector<Val> a;
  for (int64_t i : {(int64_t)0, (int64_t)1, (int64_t)-1, (int64_t)9, (int64_t)10, (int64_t)255, (int64_t)-256, (int64_t)1 << 31, ((int64_t)1 << 53) + 1, INT64_MAX, INT64_MIN, INT64_MIN + 1,
           (int64_t)0x7FFFFFFF, (int64_t)-0x80000000LL, (int64_t)1000000, (int64_t)100000000000000000LL})
    a.push_back(Val::integer(i));
  return a;
}
std::vector<Val> float_atoms() {
  std::vector<Val> a;
  for (double d : {0.0, 1.5, 10.5, 0.1, 1.4, 123456.0, 1234567.0, 100000.0, 1e6, 2e6, 1e20, 1e-7, 1.5e-7, 1e100, 2.5e-308, 1.7976931348623157e308, 0.0001, 0.00001, 999999.0, 999999.5,
           1.0, 3.0, 1e15, 1e16, 4294967296.0, 0.5, 1e-300, 123456789.0}) {
    a.push_back(Val::real(d));
    a.push_back(Val::real(-d));
  }
  return a;
}
std::vector<std::string> string_atoms() {
  return {"", "a", "\"", "\\", "/", "\b\f\n\r\t", std::string(1, '\0'), "\x1f", "\x7f", "\x80", "\xff", "\xC3\xA9", "a\"b\\c", "\\u0041", "\\x41", "//", "n", "0x10", " ", "{}", "\x01" "1"};
}
std::vector<Val> all_atoms() {
  std::vector<Val> a = {Val::null(), Val::boolean(true), Val::boolean(false)};
  for (auto& v : int_atoms()) a.push_back(v);
  for (auto& v : float_atoms()) a.push_back(v);
  for (auto& s : string_atoms()) a.push_back(Val::str(s));
  a.push_back(Val::list());
  a.push_back(Val::dict());
  return a;
}

// ---- trees: counting / unranking, so that a shard builds only the trees it executes -----------------

struct TreeSpace {
  std::vector<Val> leaves;
  std::vector<std::string> keys;
  std::vector<std::pair<int, int>> keypairs;
  static constexpr int MAXN = 8, MAXD = 4;
  uint64_t memo[MAXN + 1][MAXD + 1];
  bool have[MAXN + 1][MAXD + 1] = {};

  uint64_t count(int n, int d) {
    if (n < 1 || d < 0) return 0;
    if (have[n][d]) return memo[n][d];
    uint64_t c = 0;
    if (n == 1) c = leaves.size() + (d >= 1 ? 2 : 0);
    else if (d >= 1) {
      int m = n - 1;
      c += count(m, d - 1);                                                         // [x]
      for (int a = 1; a < m; a++) c += count(a, d - 1) * count(m - a, d - 1);         // [x,y]
      for (int a = 1; a < m; a++)
        for (int b = 1; a + b < m; b++) c += count(a, d - 1) * count(b, d - 1) * count(m - a - b, d - 1);  // [x,y,z]
      c += keys.size() * count(m, d - 1);                                            // {k:x}
      for (int a = 1; a < m; a++) c += keypairs.size() * count(a, d - 1) * count(m - a, d - 1);  // {k:x,l:y}
    }
    have[n][d] = true;
    return memo[n][d] = c;
  }

  Val unrank(int n, int d, uint64_t idx) {
    if (n == 1) {
      if (idx < leaves.size()) return leaves[idx];
      return idx == leaves.size() ? Val::list() : Val::dict();
    }
    int m = n - 1;
    uint64_t c = count(m, d - 1);
    if (idx < c) return Val::list({unrank(m, d - 1, idx)});
    idx -= c;
    for (int a = 1; a < m; a++) {
      uint64_t ca = count(a, d - 1), cb = count(m - a, d - 1);
      if (idx < ca * cb) return Val::list({unrank(a, d - 1, idx / cb), unrank(m - a, d - 1, idx % cb)});
      idx -= ca * cb;
    }
    for (int a = 1; a < m; a++)
      for (int b = 1; a + b < m; b++) {
        uint64_t ca = count(a, d - 1), cb = count(b, d - 1), cc = count(m - a - b, d - 1);
        if (idx < ca * cb * cc) return Val::list({unrank(a, d - 1, idx / (cb * cc)), unrank(b, d - 1, (idx / cc) % cb), unrank(m - a - b, d - 1, idx % cc)});
        idx -= ca * cb * cc;
      }
    c = keys.size() * count(m, d - 1);
    if (idx < c) {
      uint64_t per = count(m, d - 1);
      return Val::dict({{keys[idx / per], unrank(m, d - 1, idx % per)}});
    }
    idx -= c;
    for (int a = 1; a < m; a++) {
      uint64_t ca = count(a, d - 1), cb = count(m - a, d - 1);
      uint64_t per = ca * cb;
      if (idx < keypairs.size() * per) {
        auto kp = keypairs[idx / per];
        uint64_t rest = idx % per;
        return Val::dict({{keys[kp.first], unrank(a, d - 1, rest / cb)}, {keys[kp.second], unrank(m - a, d - 1, rest % cb)}});
      }
      idx -= keypairs.size() * per;
    }
    abort();
  }
};

TreeSpace make_space() {
  TreeSpace ts;
  ts.leaves = {Val::null(), Val::boolean(true), Val::integer(255), Val::real(1.5), Val::real(1e-7), Val::str("a"), Val::str("\x80\n\"")};
  ts.keys = {"a", "", "\xe9\n"};
  ts.keypairs = {{0, 1}, {0, 2}, {2, 1}};
  return ts;
}

}  // namespace

VF_SECTION(atoms, 8, 8, 120) {
  Ctx cx;
  cx.entry_points = true;
  cx.dat = jref::dat_open(r.section, r.shard);
  r.note("JSON::serialize/parse");
  std::vector<Val> atoms = all_atoms();
  for (auto& a : atoms) {
    if (!r.take()) continue;
    check_value(r, a, cx);
  }
  for (auto& a : atoms) {
    if (!r.take()) continue;
    check_value(r, Val::list({a}), cx);
  }
  for (auto& k : string_atoms())
    for (auto& a : atoms) {
      if (!r.take()) continue;
      check_value(r, Val::dict({{k, a}}), cx);
    }
  if (cx.dat) fclose(cx.dat);
  r.bound = vf::fmt("%zu atoms (3 constants, 16 ints, 56 floats, 21 strings, [] and {}), [atom], {key: atom} for each of 21 string atoms as key; x 64 option sets", atoms.size());
}

VF_SECTION(trees, 16, 16, 120) {
  Ctx cx;
  cx.entry_points = true;
  cx.dat = jref::dat_open(r.section, r.shard);
  r.note("JSON::serialize/parse");
  TreeSpace ts = make_space();
  int maxn = r.thorough() ? 6 : 4;
  uint64_t total = 0;
  for (int n = 3; n <= maxn; n++) {
    uint64_t c = ts.count(n, 3);
    total += c;
    for (uint64_t idx = 0; idx < c; idx++) {
      if (!r.take()) continue;
      check_value(r, ts.unrank(n, 3, idx), cx);
    }
  }
  if (cx.dat) fclose(cx.dat);
  r.bound = vf::fmt("all %llu trees with 3..%d nodes, nesting <= 3, lists of <= 3 children, dictionaries of <= 2 entries, 7 leaf representatives (null, true, 255, 1.5, 1e-7, \"a\", \"\\x80\\n\\\"\"), 3 keys; x 64 option sets",
      (unsigned long long)total, maxn);
}

VF_SECTION(strings, 16, 16, 120) {
  Ctx cx;
  cx.dat = jref::dat_open(r.section, r.shard);
  r.note("JSON::serialize/parse (strings)");
  // HEX_INTEGERS and ONE_CHARACTER_TRIVIAL_CONSTANTS cannot influence how a string is rendered; the quick tier
  // crosses the 65 536 two-byte strings with the 16 combinations of the other four bits only
  const uint32_t string_bits = ESCAPE_BITS | JSON::SerializeOption::FORMAT | SORT;
  for (int as_key = 0; as_key < 2; as_key++) {
    for (int len = 0; len <= 2; len++) {
      uint32_t cnt = len == 0 ? 1 : len == 1 ? 256 : 65536;
      cx.option_mask = (len == 2 && !r.thorough()) ? string_bits : 63;
      for (uint32_t x = 0; x < cnt; x++) {
        if (!r.take()) continue;
        std::string s;
        if (len >= 1) s.push_back((char)(x & 0xFF));
        if (len == 2) s.push_back((char)(x >> 8));
        if (as_key) check_value(r, Val::dict({{s, Val::integer(1)}}), cx);
        else check_value(r, Val::str(s), cx);
      }
    }
  }
  // round-2: longer strings over the bytes at which the three escape modes change behaviour
  static const char kEdge[] = {0x00, 0x01, 0x08, 0x0a, 0x1f, 0x20, '"', '/', '\\', '0', 'A', 'f', 'u', 'x', 0x7e, 0x7f, (char)0x80, (char)0xc3, (char)0xa9, (char)0xff};
  const size_t ne = sizeof(kEdge);
  for (int len = 3; len <= (r.thorough() ? 4 : 3); len++) {
    uint64_t cnt = 1;
    for (int k = 0; k < len; k++) cnt *= ne;
    cx.option_mask = string_bits;
    for (int as_key = 0; as_key < 2; as_key++)
      for (uint64_t x = 0; x < cnt; x++) {
        if (!r.take()) continue;
        std::string s;
        uint64_t y = x;
        for (int k = 0; k < len; k++) { s.push_back(kEdge[y % ne]); y /= ne; }
        if (as_key) check_value(r, Val::dict({{s, Val::str(s)}}), cx);
        else check_value(r, Val::list({Val::str(s), Val::str(s)}), cx);
      }
  }
  // JSON::escape_string() called directly (default and explicit mode argument): quoted, it must parse back to the string
  for (int len = 0; len <= 2; len++) {
    uint32_t cnt = len == 0 ? 1 : len == 1 ? 256 : 65536;
    for (uint32_t x = 0; x < cnt; x++) {
      if (!r.take()) continue;
      std::string s;
      if (len >= 1) s.push_back((char)(x & 0xFF));
      if (len == 2) s.push_back((char)(x >> 8));
      if (r.wants_desc()) r.desc("escape_string(" + vf::show(s) + ") in the three modes");
      r.nontriv();
      bool bad = false;
      const JSON js(s);
      for (int mode = 0; mode < 4; mode++) {
        std::string e = mode == 3 ? JSON::escape_string(s) : JSON::escape_string(s, (JSON::StringEscapeMode)mode);
        uint32_t o = mode == 1 ? (uint32_t)JSON::SerializeOption::HEX_ESCAPE_CODES : mode == 2 ? (uint32_t)JSON::SerializeOption::ESCAPE_CONTROLS_ONLY : 0u;
        Parsed p = try_parse("\"" + e + "\"", false);
        r.transitions += 2;
        if (!p.ok || !p.value.is_string() || p.value.as_string() != s || "\"" + e + "\"" != js.serialize(o)) {
          bad = true;
          r.fail("escape_string:does-not-round-trip", [&] { return vf::fmt("escape_string(%s, mode %d) = %s: ", vf::show(s).c_str(), mode, vf::show(e).c_str()) + (p.ok ? "parses as " + brief(p.value.serialize(SORT)) + " / differs from serialize()" : "rejected: " + p.exc); });
        }
      }
      if (!bad) r.ok("escape_string:round-trips");
    }
  }
  if (cx.dat) fclose(cx.dat);
  r.notes.push_back(vf::fmt("round-2: plus every %s string over a 20-byte boundary alphabet as [s, s] and as {s: s} x 16 option sets; JSON::escape_string (default + 3 explicit modes) on every string of length <= 2",
      r.thorough() ? "3- and 4-byte" : "3-byte"));
  r.bound = r.thorough() ? "every byte string of length 0, 1 and 2 (65 793 strings) as a value and as a dictionary key; x 64 option sets"
                         : "every byte string of length 0, 1 and 2 (65 793 strings) as a value and as a dictionary key; length <= 1 x 64 option sets, length 2 x the 16 sets over {FORMAT, SORT_DICT_KEYS, HEX_ESCAPE_CODES, ESCAPE_CONTROLS_ONLY}";
}

VF_SECTION(floats, 8, 8, 120) {
  Ctx cx;
  cx.dat = jref::dat_open(r.section, r.shard);
  r.note("JSON::serialize/parse (floats)");
  static const char* mant[] = {"1", "1.5", "2", "9.99999", "1.00001", "1.23456", "1.234567", "123456", "999999.5"};
  uint64_t n = 0;
  for (int e = -300; e <= 300; e++)
    for (const char* m : mant)
      for (int neg = 0; neg < 2; neg++) {
        n++;
        if (!r.take()) continue;
        std::string lit = std::string(neg ? "-" : "") + m + "e" + std::to_string(e);
        double d = strtod(lit.c_str(), nullptr);  // correctly rounded m x 10^e
        if (!isnormal(d)) { r.ok("skipped:not-a-normal-double"); continue; }
        check_value(r, Val::real(d), cx);
      }
  // round-2: the doubles next to every power of ten (where %g changes digit count / form) and every power of two
  uint64_t n2 = 0;
  for (int pass = 0; pass < 2; pass++) {
    int lo = pass == 0 ? -307 : -1022, hi = pass == 0 ? 308 : 1023;
    for (int e = lo; e <= hi; e++)
      for (int nb = -1; nb <= 1; nb++)
        for (int neg = 0; neg < 2; neg++) {
          n2++;
          if (!r.take()) continue;
          double c = pass == 0 ? strtod(("1e" + std::to_string(e)).c_str(), nullptr) : ldexp(1.0, e);
          double d = nb < 0 ? nextafter(c, 0.0) : nb > 0 ? nextafter(c, INFINITY) : c;
          if (neg) d = -d;
          if (!isnormal(d)) { r.ok("skipped:not-a-normal-double"); continue; }
          {
            char six[64];
            snprintf(six, sizeof(six), "%.6g", d);
            // 2^-1022 prints as 2.22507e-308, which is below DBL_MIN: the six-digit value is a denormal (don't-care)
            if (!isnormal(strtod(six, nullptr))) { r.ok("skipped:six-digit-rounding-is-not-a-normal-double"); continue; }
          }
          check_value(r, Val::real(d), cx);
        }
  }
  if (cx.dat) fclose(cx.dat);
  r.bound = vf::fmt("%llu floats: m x 10^e, m in {1, 1.5, 2, 9.99999, 1.00001, 1.23456, 1.234567, 123456, 999999.5}, e in [-300, 300], both signs; plus %llu: 10^e (e in [-307, 308]) and 2^e (e in [-1022, 1023]) each with both "
                    "neighbouring doubles, both signs; x 64 option sets", (unsigned long long)n, (unsigned long long)n2);
}

VF_SECTION(deep, 9, 9, 180) {
  Ctx cx;
  cx.entry_points = true;
  cx.dat = jref::dat_open(r.section, r.shard);
  r.note("JSON::serialize/parse (200-deep)");
  std::vector<Val> leaves = {Val::list(), Val::dict(), Val::integer(-256), Val::real(1e20), Val::str("\xff\n"), Val::null()};
  for (int shape = 0; shape < 3; shape++)
    for (auto& leaf : leaves) {
      if (!r.take()) continue;
      Val v = leaf;
      int levels = (leaf.k == Val::LIST || leaf.k == Val::DICT) ? 199 : 200;
      for (int k = 0; k < levels; k++) {
        bool as_list = shape == 0 || (shape == 2 && (k & 1));
        if (as_list) v = (k % 7 == 3) ? Val::list({Val::integer(k), std::move(v)}) : Val::list({std::move(v)});
        else v = Val::dict({{k % 5 == 0 ? std::string("\xe9") : std::string("k"), std::move(v)}});
      }
      check_value(r, v, cx);
    }
  if (cx.dat) fclose(cx.dat);
  r.bound = "200-deep nested lists, dictionaries and alternating list/dictionary chains around 6 different innermost values; x 64 option sets";
}

#include "C04_r2.hh"
#include "C04_r3.hh"

VF_MAIN()
