// C17 (round 2) — operation HISTORIES on the real Arguments class.
//
//  gethist   : every ordered sequence of 1..3 getter calls / assert_none_unused() on ONE object (same and
//              different names, present, valueless, repeated, garbage and absent ones; positions present,
//              empty and absent).  Every call's result must be what the reference gives for that call alone
//              (a query never changes what a later query returns), assert_none_unused() must depend only on
//              the SET of arguments read so far, and at the end the object must still hold exactly the
//              supplied arguments (a query for an absent name inserts nothing).
//  parsehist : conversions are pure: every ordered pair (A, B) of (text, target type, format) reads executed
//              as A, B, A, errno flowing naturally from one call into the next.
//  objects   : copies / assignments / moves between objects that already hold different arguments and
//              different read marks (every ordered pair of small states), self-assignment.
#include "C17_common.hh"

using namespace c17;

namespace {

// ---------------------------------------------------------------------------------------------------
// used-set model
// ---------------------------------------------------------------------------------------------------
enum { U_NO = 0, U_YES = 1, U_OPEN = 2 };  // never read / read / not settled by the statement
struct MArg {
  std::string text;
  int used = U_NO;
};
struct Model {
  std::vector<MArg> pos;
  std::map<std::string, std::vector<MArg>> named;
};
Model model_of(const std::vector<std::string>& tokens) {
  RefArgs ra = ref_classify(tokens);
  Model m;
  for (auto& t : ra.positional) m.pos.push_back(MArg{t, U_NO});
  for (auto& kv : ra.named) for (auto& t : kv.second) m.named[kv.first].push_back(MArg{t, U_NO});
  return m;
}
// assert_none_unused: +1 must throw, 0 must be silent, -1 not settled
int model_assert(const Model& m) {
  bool open = false;
  for (auto& a : m.pos) { if (a.used == U_NO) return 1; if (a.used == U_OPEN) open = true; }
  for (auto& kv : m.named) for (auto& a : kv.second) { if (a.used == U_NO) return 1; if (a.used == U_OPEN) open = true; }
  return open ? -1 : 0;
}

struct Want {
  bool dontcare = false;
  std::string oc, val;
  bool also_out_of_range = false;  // get_multi on an absent option: empty vector or out_of_range
};
struct Res {
  std::string oc, val;
  const std::string* ref = nullptr;  // string getters return a reference: it must keep denoting the same text
};

template <class T>
Want want_int(const std::string& text, IntFormat f) {
  Want w;
  RefNum ref = ref_numeral(text, f);
  uint64_t bits = 0;
  switch (expectation<T>(ref, &bits)) {
    case E_DONTCARE: w.dontcare = true; break;
    case E_INVALID: w.oc = "invalid_argument"; break;
    case E_VALUE: w.oc = "ok"; w.val = s128((i128)(T)bits); if (ref.plus) w.dontcare = true; break;
  }
  return w;
}
template <class T>
std::string fval(T v) { return vf::fmt("%.17g", (double)v); }
template <class T>
Want want_float(const std::string& text) {
  Want w;
  RefFloat ref = ref_float(text);
  if (ref.cls == DONTCARE) w.dontcare = true;
  else if (ref.cls == INVALID) w.oc = "invalid_argument";
  else { w.oc = "ok"; w.val = fval<T>((T)ref.value); }
  return w;
}

// ---------------------------------------------------------------------------------------------------
// operations
// ---------------------------------------------------------------------------------------------------
enum Kind {
  // by name
  K_STR, K_STR_T, K_BOOL, K_I32, K_I32_DEF, K_U8_HEX, K_DBL, K_DBL_DEF, K_MSTR, K_MI16, K_MFLT,
  // by name, thorough tier only
  K_I64_DEC, K_U16_OCT_DEF, K_I8_DEF, K_FLT, K_LDBL_DEF, K_MU64_HEX, K_MDBL,
  NK_NAMED,
  // by position
  P_STR = NK_NAMED, P_STR_NT, P_I64, P_U16_DEF, P_DBL, P_FLT_DEF, P_I32_OCT,
  // by position, thorough tier only
  P_U8_HEX_DEF, P_LDBL, P_I16,
  NK_ALL,
  K_ASSERT = NK_ALL,
};
const int NK_NAMED_QUICK = K_MFLT + 1;
const int NK_POS_QUICK_END = P_I32_OCT + 1;
const char* KIND_NAME[NK_ALL + 1] = {
    "get<string>(%s)", "get<string>(%s, true)", "get<bool>(%s)", "get<int32_t>(%s)", "get<int32_t>(%s, 99)", "get<uint8_t>(%s, HEX)", "get<double>(%s)", "get<double>(%s, 2.5)",
    "get_multi<string>(%s)", "get_multi<int16_t>(%s)", "get_multi<float>(%s)",
    "get<int64_t>(%s, DECIMAL)", "get<uint16_t>(%s, 42, OCTAL)", "get<int8_t>(%s, -5)", "get<float>(%s)", "get<long double>(%s, 0.5)", "get_multi<uint64_t>(%s, HEX)", "get_multi<double>(%s)",
    "get<string>(%s)", "get<string>(%s, false)", "get<int64_t>(%s)", "get<uint16_t>(%s, 42)", "get<double>(%s)", "get<float>(%s, 2.5f)", "get<int32_t>(%s, OCTAL)",
    "get<uint8_t>(%s, 9, HEX)", "get<long double>(%s)", "get<int16_t>(%s)",
    "assert_none_unused(%s)"};
// key family per kind (keys name the call site and stay few)
const char* kind_family(int k) {
  if (k == K_ASSERT) return "assert_none_unused";
  if (k >= P_STR) return "positional-getter";
  switch (k) {
    case K_STR: case K_STR_T: return "get<string>(name)";
    case K_BOOL: return "get<bool>(name)";
    case K_MSTR: case K_MI16: case K_MFLT: case K_MU64_HEX: case K_MDBL: return "get_multi(name)";
    case K_DBL: case K_DBL_DEF: case K_FLT: case K_LDBL_DEF: return "get<float>(name)";
    default: return "get<integer>(name)";
  }
}

struct Op {
  int kind = K_ASSERT;
  std::string name;  // by-name kinds
  size_t pos = 0;    // by-position kinds
  std::string str() const {
    if (kind == K_ASSERT) return "assert_none_unused()";
    std::string id = kind >= P_STR ? vf::fmt("%zu", pos) : vf::show(name);
    return vf::fmt(KIND_NAME[kind], id.c_str());
  }
};

std::string join_strs(const std::vector<std::string>& v) {
  std::string s;
  for (auto& x : v) s += x + ",";
  return s;
}

// executes the real call
Res apply(vf::Run& r, Arguments& a, const Op& op) {
  Res res;
  const std::string& nm = op.name;
  size_t p = op.pos;
  r.counters["getter_calls"]++;
  res.oc = vf::outcome([&] {
    switch (op.kind) {
      case K_STR: res.ref = &a.get<std::string>(nm); res.val = *res.ref; break;
      case K_STR_T: res.ref = &a.get<std::string>(nm, true); res.val = *res.ref; break;
      case K_BOOL: res.val = a.get<bool>(nm.c_str()) ? "true" : "false"; break;
      case K_I32: res.val = s128(a.get<int32_t>(nm)); break;
      case K_I32_DEF: res.val = s128(a.get<int32_t>(nm.c_str(), 99)); break;
      case K_U8_HEX: res.val = s128(a.get<uint8_t>(nm, IntFormat::HEX)); break;
      case K_DBL: res.val = fval(a.get<double>(nm)); break;
      case K_DBL_DEF: res.val = fval(a.get<double>(nm.c_str(), std::optional<double>(2.5))); break;
      case K_MSTR: res.val = join_strs(a.get_multi<std::string>(nm)); break;
      case K_MI16: { std::vector<std::string> v; for (int16_t x : a.get_multi<int16_t>(nm)) v.push_back(s128(x)); res.val = join_strs(v); break; }
      case K_MFLT: { std::vector<std::string> v; for (float x : a.get_multi<float>(nm)) v.push_back(fval(x)); res.val = join_strs(v); break; }
      case K_I64_DEC: res.val = s128(a.get<int64_t>(nm, IntFormat::DECIMAL)); break;
      case K_U16_OCT_DEF: res.val = s128(a.get<uint16_t>(nm, (uint16_t)42, IntFormat::OCTAL)); break;
      case K_I8_DEF: res.val = s128(a.get<int8_t>(nm, (int8_t)-5)); break;
      case K_FLT: res.val = fval(a.get<float>(nm.c_str())); break;
      case K_LDBL_DEF: res.val = fval(a.get<long double>(nm, std::optional<long double>(0.5L))); break;
      case K_MU64_HEX: { std::vector<std::string> v; for (uint64_t x : a.get_multi<uint64_t>(nm, IntFormat::HEX)) v.push_back(s128((i128)x)); res.val = join_strs(v); break; }
      case K_MDBL: { std::vector<std::string> v; for (double x : a.get_multi<double>(nm)) v.push_back(fval(x)); res.val = join_strs(v); break; }
      case P_STR: res.ref = &a.get<std::string>(p); res.val = *res.ref; break;
      case P_STR_NT: res.ref = &a.get<std::string>(p, false); res.val = *res.ref; break;
      case P_I64: res.val = s128(a.get<int64_t>(p)); break;
      case P_U16_DEF: res.val = s128(a.get<uint16_t>(p, (uint16_t)42)); break;
      case P_DBL: res.val = fval(a.get<double>(p)); break;
      case P_FLT_DEF: res.val = fval(a.get<float>(p, std::optional<float>(2.5f))); break;
      case P_I32_OCT: res.val = s128(a.get<int32_t>(p, IntFormat::OCTAL)); break;
      case P_U8_HEX_DEF: res.val = s128(a.get<uint8_t>(p, (uint8_t)9, IntFormat::HEX)); break;
      case P_LDBL: res.val = fval(a.get<long double>(p)); break;
      case P_I16: res.val = s128(a.get<int16_t>(p)); break;
      case K_ASSERT: a.assert_none_unused(); break;
    }
  });
  if (res.oc != "ok") { res.val.clear(); res.ref = nullptr; }
  return res;
}

// what the statement says about the call, and its effect on the read marks
Want model_apply(Model& m, const Op& op) {
  Want w;
  if (op.kind == K_ASSERT) {
    int v = model_assert(m);
    if (v < 0) w.dontcare = true;
    else w.oc = v ? "invalid_argument" : "ok";
    return w;
  }
  // typed single read of one text: `absent_oc`/`absent_val` apply when nothing was supplied
  auto single = [&](std::vector<MArg>* inst, size_t idx, size_t count, const Want& present, const char* absent_oc, const std::string& absent_val) {
    if (count == 0) { w.oc = absent_oc; w.val = absent_val; return; }
    if (count > 1) {  // single-value getter on a repeated option: not settled by the statement
      w.dontcare = true;
      for (auto& a : *inst) if (a.used == U_NO) a.used = U_OPEN;
      return;
    }
    w = present;
    MArg& a = (*inst)[idx];
    if (!w.dontcare && w.oc == "ok") a.used = U_YES;
    else if (a.used == U_NO) a.used = U_OPEN;  // looked at, rejected: whether that counts as "read" is not settled
  };
  auto multi = [&](std::vector<MArg>* inst, auto&& per_text) {
    if (!inst || inst->empty()) { w.oc = "ok"; w.val = ""; w.also_out_of_range = true; return; }
    std::vector<std::string> vals;
    bool any_dc = false, any_bad = false;
    for (auto& a : *inst) {
      Want x = per_text(a.text);
      if (x.dontcare) any_dc = true;
      else if (x.oc != "ok") any_bad = true;
      else vals.push_back(x.val);
    }
    if (any_bad && !any_dc) { w.oc = "invalid_argument"; for (auto& a : *inst) if (a.used == U_NO) a.used = U_OPEN; return; }
    if (any_dc) { w.dontcare = true; for (auto& a : *inst) if (a.used == U_NO) a.used = U_OPEN; return; }
    w.oc = "ok";
    w.val = join_strs(vals);
    for (auto& a : *inst) a.used = U_YES;
  };
  std::vector<MArg>* inst = nullptr;
  size_t idx = 0, count = 0;
  std::string text;
  if (op.kind >= P_STR) {
    if (op.pos < m.pos.size()) { inst = &m.pos; idx = op.pos; count = 1; text = m.pos[op.pos].text; }
  } else {
    auto it = m.named.find(op.name);
    if (it != m.named.end()) { inst = &it->second; count = inst->size(); idx = 0; text = (*inst)[0].text; }
  }
  Want str_present;
  str_present.oc = "ok";
  str_present.val = text;
  switch (op.kind) {
    case K_STR: single(inst, idx, count, str_present, "ok", ""); break;
    case K_STR_T: single(inst, idx, count, str_present, "out_of_range", ""); break;
    case K_BOOL: { Want t; t.oc = "ok"; t.val = "true"; single(inst, idx, count, t, "ok", "false"); break; }
    case K_I32: single(inst, idx, count, want_int<int32_t>(text, IntFormat::DEFAULT), "out_of_range", ""); break;
    case K_I32_DEF: single(inst, idx, count, want_int<int32_t>(text, IntFormat::DEFAULT), "ok", "99"); break;
    case K_U8_HEX: single(inst, idx, count, want_int<uint8_t>(text, IntFormat::HEX), "out_of_range", ""); break;
    case K_DBL: single(inst, idx, count, want_float<double>(text), "out_of_range", ""); break;
    case K_DBL_DEF: single(inst, idx, count, want_float<double>(text), "ok", fval(2.5)); break;
    case K_MSTR: multi(inst, [](const std::string& t) { Want x; x.oc = "ok"; x.val = t; return x; }); break;
    case K_MI16: multi(inst, [](const std::string& t) { return want_int<int16_t>(t, IntFormat::DEFAULT); }); break;
    case K_MFLT: multi(inst, [](const std::string& t) { return want_float<float>(t); }); break;
    case K_I64_DEC: single(inst, idx, count, want_int<int64_t>(text, IntFormat::DECIMAL), "out_of_range", ""); break;
    case K_U16_OCT_DEF: single(inst, idx, count, want_int<uint16_t>(text, IntFormat::OCTAL), "ok", "42"); break;
    case K_I8_DEF: single(inst, idx, count, want_int<int8_t>(text, IntFormat::DEFAULT), "ok", "-5"); break;
    case K_FLT: single(inst, idx, count, want_float<float>(text), "out_of_range", ""); break;
    case K_LDBL_DEF: single(inst, idx, count, want_float<double>(text), "ok", fval(0.5)); break;
    case K_MU64_HEX: multi(inst, [](const std::string& t) { return want_int<uint64_t>(t, IntFormat::HEX); }); break;
    case K_MDBL: multi(inst, [](const std::string& t) { return want_float<double>(t); }); break;
    case P_STR: single(inst, idx, count, str_present, "out_of_range", ""); break;
    case P_STR_NT: single(inst, idx, count, str_present, "ok", ""); break;
    case P_I64: single(inst, idx, count, want_int<int64_t>(text, IntFormat::DEFAULT), "out_of_range", ""); break;
    case P_U16_DEF: single(inst, idx, count, want_int<uint16_t>(text, IntFormat::DEFAULT), "ok", "42"); break;
    case P_DBL: single(inst, idx, count, want_float<double>(text), "out_of_range", ""); break;
    case P_FLT_DEF: single(inst, idx, count, want_float<float>(text), "ok", fval(2.5f)); break;
    case P_I32_OCT: single(inst, idx, count, want_int<int32_t>(text, IntFormat::OCTAL), "out_of_range", ""); break;
    case P_U8_HEX_DEF: single(inst, idx, count, want_int<uint8_t>(text, IntFormat::HEX), "ok", "9"); break;
    case P_LDBL: single(inst, idx, count, want_float<double>(text), "out_of_range", ""); break;
    case P_I16: single(inst, idx, count, want_int<int16_t>(text, IntFormat::DEFAULT), "out_of_range", ""); break;
  }
  return w;
}

// ---------------------------------------------------------------------------------------------------
// object states
// ---------------------------------------------------------------------------------------------------
struct State {
  const char* label;
  std::vector<std::string> tokens;
  int ctor;  // 0 vector const&, 1 (argv, n), 2 vector&&, 3 one command-line string
  std::string line;
};
Arguments build(const State& s) {
  switch (s.ctor) {
    case 1: { std::vector<const char*> argv; for (auto& t : s.tokens) argv.push_back(t.c_str()); return Arguments(argv.data(), argv.size()); }
    case 2: { std::vector<std::string> copy = s.tokens; return Arguments(std::move(copy)); }
    case 3: return Arguments(s.line);
    default: return Arguments(s.tokens);
  }
}
const char* CTOR_NAME[4] = {"Arguments(vector const&)", "Arguments(argv, n)", "Arguments(vector&&)", "Arguments(string)"};

std::vector<State> make_states() {
  std::vector<State> S;
  // rich: a numeral whose value depends on the format, a valueless option, a repeated one, a non-integer
  // number, an unread flag; positionals: a numeral and an empty token.  Names asked for: n e r b q (q absent)
  S.push_back({"rich", {"7", "", "--n=10", "--e", "--r=1", "--r=2", "--b=1.5", "-v"}, 0, ""});
  // small: everything can be read within three calls
  S.push_back({"small", {"7", "--n=10", "--r=1", "--r=2"}, 1, ""});
  S.push_back({"empty", {}, 2, ""});
  // the names with other shapes: n repeated with garbage, e a numeral, r single, b valueless flag, q supplied
  S.push_back({"alt", {"--n=-1", "--n=08", "-eb", "x y", "--q=0x7f", "--r=300", "1e3"}, 3, "--n=-1 \"--n=08\"\t-eb 'x y' --q=0x7f --r=3\"00\" 1e3"});
  S.push_back({"single", {"--e=5"}, 0, ""});
  return S;
}

std::vector<Op> make_ops(bool thorough) {
  std::vector<Op> ops;
  static const char* NAMES[] = {"n", "e", "r", "b", "q"};
  static const size_t POSNS[] = {0, 1, 2};
  for (int k = 0; k < NK_NAMED; k++) {
    if (k >= NK_NAMED_QUICK && !thorough) continue;
    for (const char* nm : NAMES) { Op o; o.kind = k; o.name = nm; ops.push_back(o); }
    if (thorough) for (const char* nm : {"", "v"}) { Op o; o.kind = k; o.name = nm; ops.push_back(o); }
  }
  for (int k = P_STR; k < NK_ALL; k++) {
    if (k >= NK_POS_QUICK_END && !thorough) continue;
    for (size_t p : POSNS) { Op o; o.kind = k; o.pos = p; ops.push_back(o); }
    if (thorough) { Op o; o.kind = k; o.pos = SIZE_MAX; ops.push_back(o); }
  }
  Op a;
  a.kind = K_ASSERT;
  ops.push_back(a);
  return ops;
}

void history_case(vf::Run& r, const State& st, const std::vector<const Op*>& hist) {
  auto hist_str = [&] {
    std::string s;
    for (auto* o : hist) s += (s.empty() ? "" : "; ") + o->str();
    return s.empty() ? std::string("(no call)") : s;
  };
  if (r.wants_desc()) r.desc(std::string(CTOR_NAME[st.ctor]) + " on " + (st.ctor == 3 ? vf::show(st.line) : list_str(st.tokens)) + ", then: " + hist_str() + "; then assert_none_unused()");
  Model m = model_of(st.tokens);
  RefArgs initial = ref_classify(st.tokens);
  Arguments a = build(st);
  r.nontriv();
  bool bad = false, dc = false;
  auto ctx = [&] { return std::string(CTOR_NAME[st.ctor]) + " on " + list_str(st.tokens) + ", history " + hist_str() + ": "; };
  std::vector<Res> results;
  for (size_t i = 0; i < hist.size(); i++) {
    const Op& op = *hist[i];
    static const int ERRNOS[4] = {0, ERANGE, EINVAL, EINTR};
    if (i) errno = ERRNOS[(r.cur + i) & 3];  // (the first call runs with take()'s value)
    Want w = model_apply(m, op);
    Res g = apply(r, a, op);
    results.push_back(g);
    if (w.dontcare) { dc = true; continue; }
    bool same = (g.oc == w.oc && g.val == w.val) || (w.also_out_of_range && g.oc == "out_of_range");
    if (!same) {
      bad = true;
      r.fail(std::string("history:") + kind_family(op.kind), [&] { return ctx() + vf::fmt("call #%zu ", i + 1) + op.str() + " -> " + g.oc + (g.oc == "ok" ? " " + vf::show(g.val) : "") + ", the same call on a fresh object gives / the statement demands " + w.oc + (w.oc == "ok" ? " " + vf::show(w.val) : ""); });
    }
  }
  // a text returned by reference is still the same text after the later calls
  for (size_t i = 0; i < results.size(); i++) {
    if (results[i].ref && *results[i].ref != results[i].val) { bad = true; r.fail("history:returned-reference-changed", [&] { return ctx() + vf::fmt("call #%zu ", i + 1) + hist[i]->str() + " returned a reference to " + vf::show(results[i].val) + "; after the later calls it reads " + vf::show(*results[i].ref); }); }
  }
  // the object still holds exactly what was supplied, and the read marks are those of the SET of reads
  RefArgs now = snapshot(a);
  if (!(now == initial)) { bad = true; r.fail("history:query-changed-stored-arguments", [&] { return ctx() + "object now holds " + ref_str(now) + ", supplied " + ref_str(initial); }); }
  else {
    for (size_t i = 0; i < m.pos.size(); i++) {
      if (m.pos[i].used != U_OPEN && a.positional[i].used != (m.pos[i].used == U_YES)) { bad = true; r.fail("history:read-mark", [&] { return ctx() + vf::fmt("positional %zu is marked %s, but it was %s", i, a.positional[i].used ? "read" : "unread", m.pos[i].used == U_YES ? "read" : "never read"); }); }
    }
    for (auto& kv : m.named) {
      auto& real = a.named.at(kv.first);
      for (size_t i = 0; i < kv.second.size(); i++) {
        if (kv.second[i].used != U_OPEN && real[i].used != (kv.second[i].used == U_YES)) { bad = true; r.fail("history:read-mark", [&] { return ctx() + vf::fmt("--%s#%zu is marked %s, but it was %s", kv.first.c_str(), i, real[i].used ? "read" : "unread", kv.second[i].used == U_YES ? "read" : "never read"); }); }
      }
    }
  }
  int v = model_assert(m);
  std::string oc = vf::outcome([&] { a.assert_none_unused(); });
  if (v >= 0 && oc != (v ? "invalid_argument" : "ok")) { bad = true; r.fail("history:final-assert_none_unused", [&] { return ctx() + "final assert_none_unused() -> " + oc + (v ? ", but some supplied argument was never read" : ", but every supplied argument was read"); }); }
  if (!bad) r.ok(dc ? "history with a call the statement does not settle (that call not compared)" : v < 0 ? "final verdict not settled (rejected text)" : v ? "something unread: invalid_argument" : st.tokens.empty() ? "nothing supplied" : "everything read: no throw");
}

}  // namespace

VF_SECTION(gethist, 16, 16, 120) {
  r.note("getter histories");
  std::vector<State> S = make_states();
  std::vector<Op> ops = make_ops(r.thorough());
  const size_t M = ops.size();
  // lengths 0..2 on every state
  for (auto& st : S) {
    if (r.take()) history_case(r, st, {});
    for (size_t i = 0; i < M; i++) if (r.take()) history_case(r, st, {&ops[i]});
    for (size_t i = 0; i < M; i++) for (size_t j = 0; j < M; j++) if (r.take()) history_case(r, st, {&ops[i], &ops[j]});
  }
  // length 3: "small" (everything can be read) and "rich" in both tiers, all states in thorough
  for (size_t si = 0; si < S.size(); si++) {
    if (si >= 2 && !r.thorough()) continue;
    for (size_t i = 0; i < M; i++) for (size_t j = 0; j < M; j++) for (size_t k = 0; k < M; k++) {
      if (!r.take()) continue;
      history_case(r, S[si == 0 ? 1 : si == 1 ? 0 : si], {&ops[i], &ops[j], &ops[k]});
    }
  }
  r.bound = vf::fmt("alphabet of %zu calls (%s getter kinds by name x names {n,e,r,b,q%s}, %s kinds by position x positions {0,1,2%s}, assert_none_unused); every ordered sequence of 0..2 calls on 5 objects (rich, small, empty, alt built from one quoted command line, single) and every ordered sequence of 3 calls on %s; every call compared, then read marks, stored arguments and a final assert_none_unused()",
      M, r.thorough() ? "18" : "11", r.thorough() ? ",\"\",v" : "", r.thorough() ? "10" : "7", r.thorough() ? ",SIZE_MAX" : "", r.thorough() ? "all 5 objects" : "the objects small and rich");
}

// positions and names far from the usual: every positional getter kind with positions up to SIZE_MAX on
// objects with 0..3 positionals; every by-name getter kind with names of boundary lengths and awkward
// characters, supplied and not supplied
VF_SECTION(limits, 4, 4, 120) {
  r.note("boundary positions/names");
  static const size_t POSNS[] = {0, 1, 2, 3, 4, 255, 256, 65535, 65536, 0x7FFFFFFFull, 0x80000000ull, 0xFFFFFFFFull, 0x100000000ull, 0x100000001ull, 0x100000002ull,
      0x7FFFFFFFFFFFFFFFull, 0x8000000000000000ull, 0x8000000000000001ull, SIZE_MAX - 2, SIZE_MAX - 1, SIZE_MAX};
  static const std::vector<std::string> PTOK = {"10", "", "0x1f", "1.5"};
  for (size_t n = 0; n <= PTOK.size(); n++) {
    for (int with_named = 0; with_named < 2; with_named++) {
      State st{"positionals", {}, (int)(n % 3), ""};
      for (size_t i = 0; i < n; i++) st.tokens.push_back(PTOK[i]);
      if (with_named) { st.tokens.insert(st.tokens.begin(), "--n=3"); st.tokens.push_back("-v"); }
      for (int k = P_STR; k < NK_ALL; k++) for (size_t p : POSNS) {
        if (!r.take()) continue;
        Op o; o.kind = k; o.pos = p;
        history_case(r, st, {&o});
      }
      // a by-position read followed by the same kind at a position that differs in the high bits only
      for (int k = P_STR; k < NK_ALL; k++) for (size_t p : {(size_t)0, (size_t)1}) for (size_t hi : {(size_t)0x100000000ull, (size_t)0x8000000000000000ull}) {
        if (!r.take()) continue;
        Op o1; o1.kind = k; o1.pos = p;
        Op o2; o2.kind = k; o2.pos = p + hi;
        history_case(r, st, {&o1, &o2});
      }
    }
  }
  // names
  std::vector<std::string> names = {"", "a", "ab", "-", "--", "-n", "n-", " ", "a b", "\t", "%s%n%d", "n#0", "\xC3\xA9", "\xFF", "N", "0", "00", "n\n", "'", "\"", "\\"};
  for (size_t len : {15, 16, 17, 255, 256, 257, 4096, 65536}) names.push_back(std::string(len, 'k'));
  for (size_t ni = 0; ni < names.size(); ni++) {
    for (int supplied = 0; supplied < 3; supplied++) {
      // 0: only other names supplied; 1: supplied once with value 10; 2: supplied as valueless + once more
      State st{"names", {}, 0, ""};
      st.tokens.push_back("--" + names[(ni + 1) % names.size()] + "=5");
      if (supplied == 1) st.tokens.push_back("--" + names[ni] + "=10");
      if (supplied == 2) { st.tokens.push_back("--" + names[ni]); st.tokens.push_back("--" + names[ni] + "=7"); }
      st.tokens.push_back("p");
      for (int k = 0; k < NK_NAMED; k++) {
        if (!r.take()) continue;
        Op o; o.kind = k; o.name = names[ni];
        Op o2; o2.kind = K_MSTR; o2.name = names[(ni + 1) % names.size()];
        Op o3; o3.kind = P_STR; o3.pos = 0;
        history_case(r, st, {&o, &o2, &o3});
      }
    }
  }
  r.bound = vf::fmt("10 by-position getter kinds x 21 positions (0..4, 2^8, 2^16, 2^31-1, 2^31, 2^32-1, 2^32.., 2^63-1, 2^63.., SIZE_MAX-2..SIZE_MAX) on objects with 0..4 positionals (with/without named arguments, three constructors), pairs p, p+2^32 / p+2^63; 18 by-name getter kinds x %zu names (lengths 0..65536, blanks, quotes, '%%' directives, non-ASCII bytes, '#', '-') x {not supplied, supplied once, supplied twice} followed by reads of the remaining arguments", names.size());
}

// ---------------------------------------------------------------------------------------------------
// conversions are pure: A, B, A
// ---------------------------------------------------------------------------------------------------
namespace {

struct PKind {
  int type;  // 0..7 the fixed-width integer types, 8 float, 9 double, 10 long double
  IntFormat f;
};

// one read of option t<ti> through get<T>(name, fmt) / get<T>(name); errno is whatever the previous call left
template <class T>
const char* pure_int(vf::Run& r, Arguments& a, const std::string& name, const std::string& text, IntFormat f, int step) {
  T got = 0;
  std::string what;
  std::string oc = vf::outcome([&] { got = a.get<T>(name, f); }, &what);
  r.counters["getter_calls"]++;
  RefNum ref = ref_numeral(text, f);
  auto ctx = [&] { return vf::fmt("call #%d of the history: get<%s>(name, %s) on text ", step, iname<T>(), fmt_name(f)) + short_show(text) + " (reference: " + ref_num_str(ref) + ")"; };
  return judge_int<T>(r, "history:get<integer>", ctx, ref, oc, got, 1, what);
}
template <class T>
const char* pure_float(vf::Run& r, Arguments& a, const std::string& name, const std::string& text, int step) {
  T got = 0;
  std::string what;
  std::string oc = vf::outcome([&] { got = a.get<T>(name); }, &what);
  r.counters["getter_calls"]++;
  RefFloat ref = ref_float(text);
  auto ctx = [&] { return vf::fmt("call #%d of the history: get<%s>(name) on text ", step, fname<T>()) + short_show(text) + " (reference: " + ref.why + ")"; };
  return judge_float<T>(r, "history:get<float>", ctx, ref, oc, got, 1, what);
}
const char* pure_read(vf::Run& r, Arguments& a, size_t ti, const std::string& text, const PKind& k, int step) {
  std::string name = vf::fmt("t%zu", ti);
  switch (k.type) {
    case 0: return pure_int<int8_t>(r, a, name, text, k.f, step);
    case 1: return pure_int<uint8_t>(r, a, name, text, k.f, step);
    case 2: return pure_int<int16_t>(r, a, name, text, k.f, step);
    case 3: return pure_int<uint16_t>(r, a, name, text, k.f, step);
    case 4: return pure_int<int32_t>(r, a, name, text, k.f, step);
    case 5: return pure_int<uint32_t>(r, a, name, text, k.f, step);
    case 6: return pure_int<int64_t>(r, a, name, text, k.f, step);
    case 7: return pure_int<uint64_t>(r, a, name, text, k.f, step);
    case 8: return pure_float<float>(r, a, name, text, step);
    case 9: return pure_float<double>(r, a, name, text, step);
    default: return pure_float<long double>(r, a, name, text, step);
  }
}
const char* PK_TYPE[11] = {"int8_t", "uint8_t", "int16_t", "uint16_t", "int32_t", "uint32_t", "int64_t", "uint64_t", "float", "double", "long double"};

}  // namespace

VF_SECTION(parsehist, 16, 16, 120) {
  r.note("conversion histories");
  // texts whose verdict differs between formats and between targets, a text that leaves ERANGE behind in each
  // conversion family, short-after-long and long-after-short
  std::vector<std::string> texts = {"10", "300", "-1", "0x10", "010", "", "5x", "1e3", "65536", "-129", "18446744073709551616", "1e999", "1e-400", "00000000000000000000000000000000000000000000000000000000000000000000000000000007"};
  if (r.thorough()) for (const char* t : {"0", "-0", "ff", "-32769", "4294967296", "9223372036854775807", "-9223372036854775808", "99999999999999999999999999", "1.5", ".5", "0x", "-", " 7", "7 ", "+7", "077"}) texts.push_back(t);
  std::vector<PKind> kinds;
  for (int t = 0; t < 8; t++) for (IntFormat f : FORMATS) kinds.push_back({t, f});
  for (int t = 8; t < 11; t++) kinds.push_back({t, IntFormat::DEFAULT});
  std::vector<std::string> tokens;
  for (size_t i = 0; i < texts.size(); i++) tokens.push_back(vf::fmt("--t%zu=", i) + texts[i]);
  const size_t M = texts.size() * kinds.size();
  for (size_t ia = 0; ia < M; ia++) {
    for (size_t ib = 0; ib < M; ib++) {
      if (!r.take()) continue;
      size_t ta = ia / kinds.size(), tb = ib / kinds.size();
      const PKind &ka = kinds[ia % kinds.size()], &kb = kinds[ib % kinds.size()];
      auto op_str = [&](size_t t, const PKind& k) { return std::string("get<") + PK_TYPE[k.type] + ">(" + (k.type < 8 ? std::string("fmt ") + fmt_name(k.f) + ", " : std::string()) + "text " + short_show(texts[t]) + ")"; };
      if (r.wants_desc()) r.desc("one object; history A, B, A with A = " + op_str(ta, ka) + ", B = " + op_str(tb, kb) + "; errno flows from call to call");
      Arguments a(tokens);
      r.nontriv();
      const char* c1 = pure_read(r, a, ta, texts[ta], ka, 1);
      const char* c2 = pure_read(r, a, tb, texts[tb], kb, 2);
      const char* c3 = pure_read(r, a, ta, texts[ta], ka, 3);
      if (c1 && c2 && c3) r.ok(c1 == c3 ? "A, B, A: all three as the reference" : "A, B, A: all three as the reference (don't-care member)");
    }
  }
  r.bound = vf::fmt("every ordered pair (A, B) of %zu reads = %zu texts x (8 integer targets x 4 formats + float, double, long double), executed as A, B, A on one object (options t0..), errno not reset in between", M, texts.size());
}

// ---------------------------------------------------------------------------------------------------
// objects: copies and assignments over objects that already hold something else
// ---------------------------------------------------------------------------------------------------
namespace {

struct Flags {
  RefArgs texts;
  std::vector<bool> pos;
  std::map<std::string, std::vector<bool>> named;
  bool operator==(const Flags& o) const { return texts == o.texts && pos == o.pos && named == o.named; }
};
Flags flags_of(const Arguments& a) {
  Flags f;
  f.texts = snapshot(a);
  for (auto& p : a.positional) f.pos.push_back(p.used);
  for (auto& kv : a.named) for (auto& t : kv.second) f.named[kv.first].push_back(t.used);
  return f;
}
std::string flags_str(const Flags& f) {
  std::string s = ref_str(f.texts) + " read marks: positional [";
  for (bool b : f.pos) s += b ? "1" : "0";
  s += "]";
  for (auto& kv : f.named) { s += " " + kv.first + "["; for (bool b : kv.second) s += b ? "1" : "0"; s += "]"; }
  return s;
}
// read level 0: nothing; 1: first positional and the first name; 2: everything
void read_level(Arguments& a, const std::vector<std::string>& tokens, int level) {
  RefArgs ra = ref_classify(tokens);
  if (level == 0) return;
  if (level == 1) {
    if (!ra.positional.empty()) a.get<std::string>((size_t)0);
    if (!ra.named.empty()) a.get_multi<std::string>(ra.named.begin()->first);
    return;
  }
  for (size_t i = 0; i < ra.positional.size(); i++) a.get<std::string>(i);
  for (auto& kv : ra.named) a.get_multi<std::string>(kv.first);
}
bool all_read(const std::vector<std::string>& tokens, int level) {
  RefArgs ra = ref_classify(tokens);
  if (tokens.empty() || level == 2) return true;
  if (level == 0) return false;
  return ra.positional.size() <= 1 && ra.named.size() <= 1;
}

}  // namespace

VF_SECTION(objects, 2, 2, 120) {
  r.note("copy/assign");
  static const std::vector<std::vector<std::string>> LISTS = {
      {}, {"a"}, {"--n=1"}, {"-v"}, {"a", "b", "--n=1", "--n=2", "-xy"}, {"", "--=", "--m", "7"},
      {"a-very-long-positional-argument-beyond-any-small-string-buffer", "--a-very-long-option-name-beyond-any-small-string-buffer=and-a-long-value-0123456789012345678901234567890123456789"}};
  enum { OP_COPY_ASSIGN, OP_MOVE_ASSIGN, OP_COPY_CTOR, OP_MOVE_CTOR, OP_SELF_ASSIGN, OP_SWAP, NOPS };
  static const char* OPN[NOPS] = {"y = x (copy assignment)", "y = std::move(x)", "Arguments z(x) (copy construction; y untouched)", "Arguments z(std::move(x))", "y = y (self-assignment through a reference)", "std::swap(x, y)"};
  for (size_t xi = 0; xi < LISTS.size(); xi++) for (int xl = 0; xl < 3; xl++) for (size_t yi = 0; yi < LISTS.size(); yi++) for (int yl = 0; yl < 3; yl++) for (int op = 0; op < NOPS; op++) {
    if (!r.take()) continue;
    if (r.wants_desc()) r.desc(vf::fmt("x = Arguments(%s) read level %d, y = Arguments(%s) read level %d; %s", list_str(LISTS[xi]).c_str(), xl, list_str(LISTS[yi]).c_str(), yl, OPN[op]));
    Arguments x(LISTS[xi]), y(LISTS[yi]);
    read_level(x, LISTS[xi], xl);
    read_level(y, LISTS[yi], yl);
    Flags fx = flags_of(x), fy = flags_of(y);
    r.nontriv();
    bool bad = false;
    auto ctx = [&] { return vf::fmt("x = Arguments(%s) read level %d, y = Arguments(%s) read level %d; %s: ", list_str(LISTS[xi]).c_str(), xl, list_str(LISTS[yi]).c_str(), yl, OPN[op]); };
    auto expect = [&](const char* who, const Arguments& obj, const Flags& want, bool want_all_read) {
      Flags got = flags_of(obj);
      if (!(got == want)) { bad = true; r.fail("objects:copy-differs-from-source", [&] { return ctx() + who + " holds " + flags_str(got) + ", expected " + flags_str(want); }); return; }
      std::string oc = vf::outcome([&] { obj.assert_none_unused(); });
      if (oc != (want_all_read ? "ok" : "invalid_argument")) { bad = true; r.fail("objects:assert_none_unused-after-copy", [&] { return ctx() + who + ".assert_none_unused() -> " + oc + (want_all_read ? " though everything was read" : " though something was never read"); }); }
    };
    bool ax = all_read(LISTS[xi], xl), ay = all_read(LISTS[yi], yl);
    switch (op) {
      case OP_COPY_ASSIGN: {
        y = x;
        expect("y", y, fx, ax);
        expect("x", x, fx, ax);
        // deep copy: reading everything from y does not mark x
        read_level(y, LISTS[xi], 2);
        expect("x (after y was read completely)", x, fx, ax);
        expect("y (read completely)", y, [&] { Arguments t(LISTS[xi]); read_level(t, LISTS[xi], 2); return flags_of(t); }(), true);
        break;
      }
      case OP_MOVE_ASSIGN: y = std::move(x); expect("y", y, fx, ax); break;
      case OP_COPY_CTOR: { Arguments z(x); expect("z", z, fx, ax); expect("x", x, fx, ax); expect("y", y, fy, ay); break; }
      case OP_MOVE_CTOR: { Arguments z(std::move(x)); expect("z", z, fx, ax); break; }
      case OP_SELF_ASSIGN: { Arguments& alias = y; y = alias; expect("y", y, fy, ay); break; }
      case OP_SWAP: std::swap(x, y); expect("x", x, fy, ay); expect("y", y, fx, ax); break;
    }
    if (!bad) r.ok(OPN[op]);
  }
  r.bound = "every ordered pair of 21 object states (7 token lists x {nothing read, first positional and first name read, everything read}) x {copy assignment, move assignment, copy construction, move construction, self-assignment, swap}: texts, read marks and assert_none_unused() of the result are those of the source; a copy is independent of its source";
}
