// C03_hist.hh - operation histories, shared by C03_hist.cc (16/32/64-bit and float wrappers) and C03_w8b.cc (8-bit
// wrappers).  See C03.cc / C03_common.hh.
//
// Section `hist`:   every history of three operations over an alphabet of writes, compound operators and
//   ++/-- applied to TWO objects of the same wrapper type; after every step both objects are compared
//   (bytes, load()) with native shadow variables, so state carried from one call to the next (a cache, a
//   skipped write, a scratch value) or from one object to another is visible.
#pragma once
#ifndef C03_NO_FORCE_INLINE
#define C03_NO_FORCE_INLINE
#endif
#include "C03_base.hh"

namespace {

// ---- histories --------------------------------------------------------------------------------------
enum { X_BASE_ASSIGN = NOPS, X_STORE_RAW, X_COPY_OTHER, X_SELF_ASSIGN, NHKINDS };
const char* hk_key(int k) {
  if (k < NOPS) return op_key[k];
  static const char* x[] = {"base_assign", "store_raw", "copy_assign", "self_assign"};
  return x[k - NOPS];
}

template <class T>
struct HOp {
  int kind;
  int target;  // 0 = object A, 1 = object B
  T val;       // value written / right operand
  int cnt;     // shift count
};

template <class T>
std::string hop_text(const HOp<T>& h) {
  const char* t = h.target ? "B" : "A";
  const char* u = h.target ? "A" : "B";
  std::string v = show_val<T>(bits_of(h.val));
  switch (h.kind) {
    case OP_CTOR: return vf::fmt("new (&%s) W(%s)", t, v.c_str());
    case OP_ASSIGN: return vf::fmt("%s = %s", t, v.c_str());
    case OP_STORE: return vf::fmt("%s.store(%s)", t, v.c_str());
    case X_BASE_ASSIGN: return vf::fmt("%s.converted_endian::operator=(%s)", t, v.c_str());
    case X_STORE_RAW: return vf::fmt("%s.store_raw(encoded %s)", t, v.c_str());
    case X_COPY_OTHER: return vf::fmt("%s = %s", t, u);
    case X_SELF_ASSIGN: return vf::fmt("%s = %s", t, t);
    case OP_SHL:
    case OP_SHR: return vf::fmt("%s %s %d", t, h.kind == OP_SHL ? "<<=" : ">>=", h.cnt);
    case OP_PREINC: return vf::fmt("++%s", t);
    case OP_POSTINC: return vf::fmt("%s++", t);
    case OP_PREDEC: return vf::fmt("--%s", t);
    case OP_POSTDEC: return vf::fmt("%s--", t);
    default: return vf::fmt("%s %s %s", t, op_name[h.kind] + 8, v.c_str());  // skip "operator"
  }
}

// Shift counts of the history alphabet: quick = the boundary counts {1, width-1, width, promoted width-1} that
// the native operator defines (count < width of the promoted type: 32 for 8/16-bit wrappers, so the counts
// that shift everything out are in); thorough = every defined count 0 .. promoted width-1.
template <class T>
std::vector<int> hist_shift_counts(bool wide) {
  std::vector<int> v;
  if constexpr (std::is_integral_v<T>) {
    constexpr int w = sizeof(T) * 8, pw = static_cast<int>(promoted_bits<T>());
    if (wide) {
      for (int c = 0; c < pw; c++) v.push_back(c);
    } else {
      for (int c : {1, w - 1, w, pw - 1}) {
        bool seen = false;
        for (int y : v) seen = seen || y == c;
        if (!seen && c < pw) v.push_back(c);
      }
    }
  }
  return v;
}

template <class T>
std::vector<HOp<T>> hist_alphabet(bool wide) {
  std::vector<T> S;
  std::vector<HOp<T>> a;
  constexpr int w = sizeof(T) * 8;
  const uint64_t mask = w == 64 ? ~0ull : ((1ull << w) - 1);
  if constexpr (std::is_same_v<T, float>) S = typed<T>({0x00000000, 0x80000000, 0x3F800000, 0x7FC00000, 0xFFC12345, 0x00000001});
  else if constexpr (std::is_same_v<T, double>) S = typed<T>({0x0000000000000000ull, 0x8000000000000000ull, 0x3FF0000000000000ull, 0x7FF8000000000000ull, 0xFFF8000012345678ull, 0x0000000000000001ull});
  else S = typed<T>({0, 1, mask, 1ull << (w - 1), 1ull << (w - 8), 0x0102030405060708ull & mask});
  if (wide) {  // thorough tier: two more values
    if constexpr (std::is_same_v<T, float>) for (T v : typed<T>({0xBF800000, 0x7F800000})) S.push_back(v);
    else if constexpr (std::is_same_v<T, double>) for (T v : typed<T>({0xBFF0000000000000ull, 0x7FF0000000000000ull})) S.push_back(v);
    else for (T v : typed<T>({mask >> 1, 0x00FF00FF00FF00FFull & mask})) S.push_back(v);
  }
  {  // distinct values only (for 8-bit types 1 << (w - 8) coincides with 1)
    std::vector<T> u;
    for (T x : S) {
      bool seen = false;
      for (T y : u) seen = seen || bits_of(y) == bits_of(x);
      if (!seen) u.push_back(x);
    }
    S = u;
  }
  for (int target = 0; target < 2; target++) {
    for (int kind : {(int)OP_STORE, (int)X_BASE_ASSIGN, (int)OP_ASSIGN, (int)X_STORE_RAW, (int)OP_CTOR})
      for (T v : S) a.push_back({kind, target, v, 0});
    if constexpr (std::is_floating_point_v<T>) {
      a.push_back({OP_ADD, target, T(0.0), 0});
      a.push_back({OP_SUB, target, T(0.0), 0});
      a.push_back({OP_ADD, target, T(-0.0), 0});
      a.push_back({OP_ADD, target, T(1), 0});
      a.push_back({OP_SUB, target, T(1), 0});
      a.push_back({OP_MUL, target, T(-1), 0});
      a.push_back({OP_MUL, target, T(2), 0});
      a.push_back({OP_DIV, target, T(2), 0});
    } else {
      a.push_back({OP_ADD, target, T(1), 0});
      a.push_back({OP_SUB, target, T(1), 0});
      a.push_back({OP_MUL, target, T(2), 0});
      a.push_back({OP_MUL, target, from_bits<T>(mask), 0});
      a.push_back({OP_DIV, target, T(2), 0});
      a.push_back({OP_MOD, target, T(3), 0});
      a.push_back({OP_AND, target, from_bits<T>(0x0F0F0F0F0F0F0F0Full & mask), 0});
      a.push_back({OP_OR, target, from_bits<T>(1ull << (w - 1)), 0});
      a.push_back({OP_XOR, target, from_bits<T>(mask), 0});
      for (int c : hist_shift_counts<T>(wide)) {
        a.push_back({OP_SHL, target, T(0), c});
        a.push_back({OP_SHR, target, T(0), c});
      }
    }
    for (int kind : {(int)OP_PREINC, (int)OP_POSTINC, (int)OP_PREDEC, (int)OP_POSTDEC, (int)X_COPY_OTHER, (int)X_SELF_ASSIGN}) a.push_back({kind, target, T(0), 0});
  }
  return a;
}

template <class W, class T>
struct HState {
  Cell<W> c[2];
  T n[2];
};

struct HFail {
  const char* kind = nullptr;
  std::string detail;
};

// Applies one operation to wrapper and shadow.  Returns -1 when the native result is undefined (the
// history ends there, not compared), 0 when everything matches, 1 on a mismatch (f filled in).
template <class W, class T>
int hist_step(HState<W, T>& s, Order o, const HOp<T>& h, HFail& f) {
  using U = typename UIntFor<sizeof(T)>::type;
  W& w = s.c[h.target].w;
  T& n = s.n[h.target];
  bool has_ret = false, ref_ok = true, relax = false, ref_n = true;
  T ret_n = T(), ret_w = T();
#define C03_RET(EXPR, NATIVE)                                                               \
  {                                                                                         \
    auto&& rr = (EXPR);                                                                     \
    has_ret = true;                                                                         \
    ref_ok = (reinterpret_cast<const void*>(&rr) == reinterpret_cast<const void*>(&w));     \
    ret_w = static_cast<T>(rr);                                                             \
    ret_n = (NATIVE);                                                                       \
  }
  switch (h.kind) {
    case OP_CTOR: new (reinterpret_cast<void*>(&w)) W(h.val); n = h.val; break;
    case OP_ASSIGN: C03_RET(w = h.val, n = h.val) break;
    case X_BASE_ASSIGN: C03_RET(base_of(w) = h.val, n = h.val) break;
    case OP_STORE: w.store(h.val); n = h.val; break;
    case X_STORE_RAW: {
      decltype(w.load_raw()) raw;
      auto img = encode_u(h.val, o);
      memcpy(&raw, &img, sizeof(raw));
      w.store_raw(raw);
      n = h.val;
      break;
    }
    case X_COPY_OTHER: C03_RET(w = static_cast<const W&>(s.c[1 - h.target].w), n = s.n[1 - h.target]) break;
    case X_SELF_ASSIGN: {
      W& alias = w;
      C03_RET(w = alias, n)
      break;
    }
    case OP_SHL:
    case OP_SHR:
      if constexpr (std::is_integral_v<T>) {
        if (!binop_defined<T, int>(h.kind, n, h.cnt)) return -1;
        ret_n = apply_binop<T, T, int>(h.kind, n, h.cnt, ref_n);
        ret_w = apply_binop<T, W, int>(h.kind, w, h.cnt, ref_ok);
        has_ret = true;
      }
      break;
    case OP_PREINC:
    case OP_POSTINC:
    case OP_PREDEC:
    case OP_POSTDEC:
      if (!incdec_defined<T>(h.kind, n)) return -1;
      switch (h.kind) {
        case OP_PREINC: ret_n = ++n; ret_w = ++w; break;
        case OP_POSTINC: ret_n = n++; ret_w = w++; break;
        case OP_PREDEC: ret_n = --n; ret_w = --w; break;
        default: ret_n = n--; ret_w = w--; break;
      }
      has_ret = true;
      relax = true;
      break;
    default:
      if (!binop_defined<T, T>(h.kind, n, h.val)) return -1;
      ret_n = apply_binop<T, T, T>(h.kind, n, h.val, ref_n);
      ret_w = apply_binop<T, W, T>(h.kind, w, h.val, ref_ok);
      has_ret = true;
      relax = true;
      break;
  }
#undef C03_RET
  if constexpr (std::is_floating_point_v<T>) {
    // a NaN *computed* by arithmetic: only NaN-ness is demanded; the shadow continues with the wrapper's NaN
    if (relax) {
      T ld = w.load();
      if (n != n && ld != ld) n = ld;
      if (ret_n != ret_n && ret_w != ret_w) ret_n = ret_w;
    }
  }
  for (int i = 0; i < 2; i++) {
    int k = i == 0 ? h.target : 1 - h.target;  // judge the written object first
    U img, want_img = encode_u(s.n[k], o);
    memcpy(&img, reinterpret_cast<const void*>(&s.c[k].w), sizeof(T));
    uint64_t ld = bits_of(s.c[k].w.load());
    bool canary_bad = s.c[k].pre != 0xC3 || s.c[k].post != 0x3C;
    if (canary_bad || img != want_img || ld != bits_of(s.n[k])) {
      f.kind = canary_bad ? "writes-outside-object" : (k == h.target ? "stored-value" : "other-object-changed");
      f.detail = vf::fmt("object %s: expected %s bytes [%s], observed load() %s bytes [%s], canaries %02X/%02X", k ? "B" : "A", show_val<T>(bits_of(s.n[k])).c_str(), hexbytes(want_img, sizeof(T)).c_str(),
          show_val<T>(ld).c_str(), hexbytes(img, sizeof(T)).c_str(), s.c[k].pre, s.c[k].post);
      return 1;
    }
  }
  if (has_ret && (bits_of(ret_n) != bits_of(ret_w) || !ref_ok)) {
    f.kind = "returned-value";
    f.detail = vf::fmt("expression yields %s%s, native yields %s", show_val<T>(bits_of(ret_w)).c_str(), ref_ok ? "" : " (not a reference to the object)", show_val<T>(bits_of(ret_n)).c_str());
    return 1;
  }
  return 0;
}

template <class W, class T>
void drive_hist(vf::Run& r, const char* wname, Order o) {
  r.note(std::string("hist ") + wname);
  auto alpha = hist_alphabet<T>(r.thorough());
  const size_t N = alpha.size();
  constexpr int w = sizeof(T) * 8;
  const uint64_t mask = w == 64 ? ~0ull : ((1ull << w) - 1);
  const T initA = from_bits<T>(0x0102030405060708ull & mask), initB = from_bits<T>(~0x0102030405060708ull & mask);
  HState<W, T> s;
  uint64_t full = 0, cut = 0, steps = 0;
  for (size_t i = 0; i < N; i++)
    for (size_t j = 0; j < N; j++)
      for (size_t k = 0; k < N; k++) {
        if (!r.take()) continue;
        const HOp<T>* seq[3] = {&alpha[i], &alpha[j], &alpha[k]};
        if (r.wants_desc()) r.desc(vf::fmt("%s A,B: %s; %s; %s", wname, hop_text(*seq[0]).c_str(), hop_text(*seq[1]).c_str(), hop_text(*seq[2]).c_str()));
        install<W, T>(s.c[0], o, initA);
        install<W, T>(s.c[1], o, initB);
        s.n[0] = initA;
        s.n[1] = initB;
        r.poison_errno();
        int st = 0, done = 0;
        HFail f;
        for (; done < 3; done++) {
          st = hist_step<W, T>(s, o, *seq[done], f);
          if (st != 0) break;
          steps++;
        }
        if (st == 1) {
          r.nontriv();
          r.fail(std::string(hk_key(seq[done]->kind)) + ":" + f.kind, [&] {
            std::string t = vf::fmt("%s (%s %d-bit), objects A = %s, B = %s; history:", wname, order_name(o), w, show_val<T>(bits_of(initA)).c_str(), show_val<T>(bits_of(initB)).c_str());
            for (int q = 0; q <= done; q++) t += " " + hop_text(*seq[q]) + ";";
            return t + " after the last step: " + f.detail;
          });
        } else if (st == -1) cut++;
        else {
          r.nontriv();
          full++;
        }
      }
  r.hist[std::string(wname) + "/3-step history:every step equals native"] += full;
  if (cut) r.hist[std::string(wname) + "/history cut at a step whose native result is undefined (prefix compared)"] += cut;
  r.counters["history steps compared"] += steps;
}

}  // namespace
