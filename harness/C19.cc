// C19 — unit-test expectation helpers are a sound and complete oracle.
// E-ENUM: the space (relations x operand pairs x execution context; expected type x behaviour x callable kind x
// context; histories of two/three helper calls; boundary sites) is finite and enumerated completely.
//
// Translation units (one binary):
//   C19_common.cc : execution contexts, verdicts, relation sweep, main()
//   C19.cc        : relations (core operand sets x 10 contexts), predicates (non-bool predicate values),
//                   hygiene (operands that are expressions / have side effects / cannot be copied)
//   C19_types1.cc, C19_types2.cc : relation macros over 45 further operand-type pairs
//   C19_types3.cc, C19_types5.cc : the TYPE of the predicate of expect / expect_msg / expect_generic (round 5): every scalar
//                   type with every bit / fractions / denormals, pointers, enums; class and library types
//   C19_types4.cc, C19_types6.cc : relation macros over 25 more mixed operand-type pairs (128-bit, widths, floating mixes) and
//                   over the TYPE OF THE RESULT of user-defined comparison operators, three-way comparison (round 5)
//   C19_pred.hh   : typed front end of the predicate sweep; every macro call behind a requires-expression feature test
//   C19_raises.cc : expect_raises matrix (expected type x behaviour x kind of callable x context)
//   C19_hist.cc   : histories of calls, exception objects in non-initial states, boundary sites and arguments
#include "C19_pred.hh"

using namespace phosg;
using namespace c19;

// The seven macros + expect_msg on the classic boundary sets, in all ten execution contexts.
VF_SECTION(relations, 4, 4, 120) {
  const auto& C = all_ctx();
  check_relations<int>(r, "int", {INT32_MIN, -1, 0, 1, INT32_MAX}, C);
  check_relations<int64_t>(r, "int64", {INT64_MIN, -1, 0, 1, INT64_MAX}, C);
  check_relations<uint64_t>(r, "uint64", {0, 1, 0x7FFFFFFFFFFFFFFFull, 0x8000000000000000ull, UINT64_MAX}, C);
  check_relations<std::string>(r, "string", {"", "a", "b", "ab", std::string("a\0", 2)}, C);
  double inf = __builtin_inf();
  // NaN is included: every ordered relation and == are false, != is true, and the helpers must follow
  check_relations<double>(r, "double", {-inf, -1.5, -0.0, 0.0, 1.5, inf, __builtin_nan("")}, C);
  std::vector<bool> bools = {false, true};
  check_relations<bool, bool>(r, "bool", bools, bools, C);
  // partially ordered / odd user types: the macro must apply exactly the operator it names
  check_relations<Subset>(r, "Subset", {{0}, {1}, {2}, {3}}, C);
  check_relations<PO>(r, "PO", {{-1.0}, {0.0}, {__builtin_nan("")}}, C);
  check_relations<Tri>(r, "Tri", {{-1}, {0}, {1}}, C);
  check_relations<EqOnly>(r, "EqOnly", {{0}, {1}}, C);
  r.bound = "8 macro forms (expect, expect_eq/ne/gt/ge/lt/le, expect_msg) x all ordered operand pairs of 10 boundary sets (int, int64, uint64, string, double incl. NaN, bool, a set-inclusion partial order, a defaulted <=> over double, operators returning int 256, ==-only type) x 10 execution contexts";
}

// ---- predicate values that are not bool ------------------------------------------------------------------
namespace {

using c19::sv;

struct AsInt {
  long long v;
  operator long long() const { return v; }
};
struct AsBool {
  int v;
  operator bool() const { return v != 0; }
};
std::string sv(const AsInt& a) { return vf::fmt("AsInt{%lld}", a.v); }
std::string sv(const AsBool& a) { return vf::fmt("AsBool{%d}", a.v); }

}  // namespace

VF_SECTION(predicates, 2, 4, 120) {
  const auto& C = all_ctx();
  std::vector<int> ints = {0, -1, INT32_MIN, INT32_MAX};
  for (int k = 0; k < 31; k++) ints.push_back(1 << k);
  std::vector<long long> lls = {0, -1, INT64_MIN, INT64_MAX};
  for (int k = 0; k < 63; k++) lls.push_back(1ll << k);
  std::vector<unsigned long> uls = {0, UINT64_MAX};
  for (int k = 0; k < 64; k++) uls.push_back(1ull << k);
  check_pred<int>(r, "int", ints, C);
  check_pred<long long>(r, "long long", lls, C);
  check_pred<unsigned long>(r, "unsigned long", uls, C);
  check_pred<uint8_t>(r, "uint8", {0, 1, 2, 128, 255}, C);
  check_pred<short>(r, "short", {0, 1, 256, -32768, 0x4000}, C);
  check_pred<char>(r, "char", {(char)0, 'a', (char)0x80}, C);
  check_pred<double>(r, "double", {0.0, -0.0, 0.5, -0.25, 1e-320, 1e-300, 1e300, __builtin_inf(), __builtin_nan("")}, C);
  check_pred<float>(r, "float", {0.0f, -0.0f, 0.5f, 1e-45f, __builtin_nanf("")}, C);
  check_pred<long double>(r, "long double", {0.0L, 0.5L, 1e-4940L}, C);
  static const char* cs[] = {nullptr, "", "x"};
  check_pred<const char*>(r, "const char*", std::vector<const char*>(cs, cs + 3), C);
  check_pred<int*>(r, "int*", {nullptr, &g_arr[0]}, C);
  check_pred<Color>(r, "enum", {RED, GREEN, BLUE}, C);
  check_pred<AsInt>(r, "class with operator long long", {{0}, {1}, {256}, {1ll << 32}, {INT64_MIN}, {-1}}, C);
  check_pred<AsBool>(r, "class with operator bool", {{0}, {1}, {256}}, C);
  std::vector<bool> bools = {false, true};
  check_pred<bool>(r, "bool", bools, C);
  r.bound = std::string("expect(v), expect(!v), expect_msg(v, msg with %), expect_generic(v, msg, file, line) for v over int/long long/unsigned long 2^k (all k) and extremes, uint8, short, char, double/float/long double (zeros, denormals, NaN, inf), pointers, enum, classes converting through operator long long / operator bool x ") + "10 execution contexts";
}

// ---- macro hygiene: operands that are expressions, operands with side effects ------------------------------
namespace {

struct Counter {
  int n = 0;
  int next() { return n++; }
};

}  // namespace

// (1) of the hygiene section.  A function template (I = int) only so that the operands are type-dependent and every
// macro call can sit behind a requires-expression feature test (round 5): a change that rejects e.g. `bool < int`
// operands is then a keyed finding instead of a build failure.
template <class I>
void hygiene_expressions(vf::Run& r, const std::vector<int>& C) {
  r.note("hygiene");
  const int NF = 34;
  // (1) operands that are expressions whose operators bind weaker than the comparison: the stated relation is
  //     (A) op (B) with the operands taken as written.  x, y, z over {0,1,2,3}.
  for (int ctx : C) {
    for (int form = 0; form < NF; form++) {
      for (int xyz = 0; xyz < 64; xyz++) {
        if (!r.take()) continue;
        I x = xyz & 3, y = (xyz >> 2) & 3, z = xyz >> 4;
        I t = 0;  // target of the assignment forms
        int ill = 0;
        bool truth = false, post_ok = true;
        Site site;
        site.file = __FILE__;
        std::vector<std::string> parts;
        const char* mname = "";
        std::string text;
#define BIN(N, M, OP, A, B) \
  case N: mname = #M; text = #M "(" #A ", " #B ")"; parts = {#A, #B}; truth = bool((A)OP(B)); t = 0; if constexpr (requires { M(A, B); }) { site.line = __LINE__; M(A, B); } else ill = ill_code<decltype((A)OP(B))>; break;
#define UNA(N, A) \
  case N: mname = "expect"; text = "expect(" #A ")"; parts = {#A}; truth = bool((A)); t = 0; if constexpr (requires { expect(A); }) { site.line = __LINE__; expect(A); } else ill = ill_code<decltype((A))>; break;
#define MSG(N, A) \
  case N: mname = "expect_msg"; text = "expect_msg(" #A ", \"m\")"; parts = {"m"}; truth = bool((A)); t = 0; if constexpr (requires { expect_msg(A, "m"); }) { site.line = __LINE__; expect_msg(A, "m"); } else ill = ill_code<decltype((A))>; break;
        Res res = run_ctx(ctx, r.ambient_errno(), [&] {
          return probe([&] {
            // clang-format off
            switch (form) {
              BIN(0, expect_eq, ==, x & y, z)
              BIN(1, expect_eq, ==, z, x | y)
              BIN(2, expect_ne, !=, x ^ y, z)
              BIN(3, expect_ne, !=, z, x & y)
              BIN(4, expect_gt, >, x ? y : z, 1)
              BIN(5, expect_le, <=, x, y ? z : 0)
              BIN(6, expect_eq, ==, x == y, z == 1)
              BIN(7, expect_ne, !=, x != y, z != 0)
              BIN(8, expect_lt, <, x < y, z)
              BIN(9, expect_ge, >=, x, y >= z)
              BIN(10, expect_gt, >, x > y, z > 1)
              BIN(11, expect_le, <=, x <= y, z)
              BIN(12, expect_eq, ==, x && y, z != 0)
              BIN(13, expect_eq, ==, x || y, z != 0)
              BIN(14, expect_ne, !=, x || y, z && x)
              BIN(15, expect_lt, <, x - y, z - 1)
              BIN(16, expect_eq, ==, x << 1, y | z)
              BIN(17, expect_ge, >=, x | 1, y & z)
              BIN(18, expect_eq, ==, !x, y)
              BIN(19, expect_eq, ==, -x, y - z)
              BIN(20, expect_lt, <, x ^ 1, y ? 2 : z)
              BIN(21, expect_gt, >, x | y, z ^ 1)
              UNA(22, x == y || z)
              UNA(23, x && y == z)
              UNA(24, x ? y : z)
              UNA(25, x & y)
              UNA(26, x | y)
              UNA(27, x < y == z)
              MSG(28, x | y)
              MSG(29, x == y ? z : 0)
              MSG(30, x & y & z)
              // assignments as operands: evaluated once, with the value of the assignment
              case 31: mname = "expect_ne"; text = "expect_ne(t = y, z)"; parts = {"t = y", "z"}; truth = (y != z); t = -7; if constexpr (requires { expect_ne(t = y, z); }) { site.line = __LINE__; expect_ne(t = y, z); } else { ill = 2; t = y; } break;
              case 32: mname = "expect_eq"; text = "expect_eq(z, t = x)"; parts = {"z", "t = x"}; truth = (z == x); t = -7; if constexpr (requires { expect_eq(z, t = x); }) { site.line = __LINE__; expect_eq(z, t = x); } else { ill = 2; t = x; } break;
              case 33: mname = "expect"; text = "expect(t = x & y)"; parts = {"t = x & y"}; truth = ((x & y) != 0); t = -7; if constexpr (requires { expect(t = x & y); }) { site.line = __LINE__; expect(t = x & y); } else { ill = 2; t = x & y; } break;
            }
            // clang-format on
          });
        });
#undef BIN
#undef UNA
#undef MSG
        res.ill_formed = ill;
        if (form == 31) post_ok = (t == y);
        if (form == 32) post_ok = (t == x);
        if (form == 33) post_ok = (t == (x & y));
        auto d = [&] { return text + vf::fmt(" with x=%d y=%d z=%d", (int)x, (int)y, (int)z); };
        if (r.wants_desc()) r.desc(d() + " [" + ctx_name(ctx) + "]");
        r.nontriv();
        if (!post_ok) r.fail(std::string(mname) + ":operand-evaluation", [&] { return d() + vf::fmt(": the assignment operand left t=%d", (int)t); });
        else judge(r, mname, ctx, !truth, res, site, parts, nullptr, d);
      }
    }
  }
}

VF_SECTION(hygiene, 2, 2, 120) {
  const auto& C = all_ctx();
  r.note("hygiene");
  hygiene_expressions<int>(r, C);
  // (2) operands with side effects are evaluated exactly once, whatever the verdict
  r.note("hygiene: side effects");
  for (int ctx : C) {
    for (int rel = 0; rel < 8; rel++) {
      for (int k = -1; k <= 1; k++) {
        for (int side = 0; side < 3; side++) {  // which operand(s) have the side effect
          if (!r.take()) continue;
          Counter ca, cb;
          ca.n = 5;
          cb.n = 5 + k;
          int av = 5, bv = 5 + k;
          bool truth = false;
          Site site;
          site.file = __FILE__;
          Res res = run_ctx(ctx, r.ambient_errno(), [&] {
            return probe([&] {
              // clang-format off
#define SIDE(M) switch (side) { case 0: site.line = __LINE__; M(ca.next(), bv); break; case 1: site.line = __LINE__; M(av, cb.next()); break; case 2: site.line = __LINE__; M(ca.next(), cb.next()); break; }
              switch (rel) {
                case 0: truth = (av == bv); switch (side) { case 0: site.line = __LINE__; expect(ca.next() == bv); break; case 1: site.line = __LINE__; expect(av == cb.next()); break; case 2: site.line = __LINE__; expect(ca.next() == cb.next()); break; } break;
                case 1: truth = (av == bv); SIDE(expect_eq) break;
                case 2: truth = (av != bv); SIDE(expect_ne) break;
                case 3: truth = (av == bv); switch (side) { case 0: site.line = __LINE__; expect_msg(ca.next() == bv, "m"); break; case 1: site.line = __LINE__; expect_msg(av == cb.next(), "m"); break; case 2: site.line = __LINE__; expect_msg(ca.next() == cb.next(), "m"); break; } break;
                case 4: truth = (av > bv); SIDE(expect_gt) break;
                case 5: truth = (av >= bv); SIDE(expect_ge) break;
                case 6: truth = (av < bv); SIDE(expect_lt) break;
                case 7: truth = (av <= bv); SIDE(expect_le) break;
              }
#undef SIDE
              // clang-format on
            });
          });
          int want_a = 5 + (side != 1), want_b = 5 + k + (side != 0);
          auto d = [&] { return vf::fmt("%s(%s, %s) with a counter at 5 and %d", rel_names[rel], side != 1 ? "ca.next()" : "5", side != 0 ? "cb.next()" : std::to_string(bv).c_str(), 5 + k); };
          if (r.wants_desc()) r.desc(d() + " [" + ctx_name(ctx) + "]");
          r.nontriv();
          if (ca.n != want_a || cb.n != want_b) r.fail(std::string(rel_names[rel]) + ":operand-evaluation", [&] { return d() + vf::fmt(" [%s]: operands with side effects were evaluated %d and %d times (expected %d and %d)", ctx_name(ctx), ca.n - 5, cb.n - 5 - k, want_a - 5, want_b - 5 - k); });
          else judge(r, rel_names[rel], ctx, !truth, res, site, {}, nullptr, d);
        }
      }
    }
  }
  // (3) operands that can neither be copied nor moved
  for (int ctx : C) {
    for (int rel = 0; rel < 8; rel++) {
      for (int k = -1; k <= 1; k++) {
        if (!r.take()) continue;
        Pinned a(0), b(k);
        bool truth = false;
        Site site;
        Res res = run_ctx(ctx, r.ambient_errno(), [&] { return call_rel(rel, a, b, truth, site); });
        auto d = [&] { return vf::fmt("%s<Pinned>(Pinned(0), Pinned(%d))", rel_names[rel], k); };
        if (r.wants_desc()) r.desc(d() + " [" + ctx_name(ctx) + "]");
        r.nontriv();
        static const std::string custom = kCustomMsg;
        judge(r, rel_names[rel], ctx, !truth, res, site, rel_parts(rel), rel == 3 ? &custom : nullptr, d);
      }
    }
  }
  r.bound = std::string("34 call forms whose operands are expressions binding weaker than the comparison (&, |, ^, ?:, ==, <, &&, ||, =, unary) x x,y,z in {0..3}; 8 macro forms x operands with side effects (left, right, both; evaluated exactly once) x 3 outcomes; non-copyable operands; x ") + "10 execution contexts";
}

