// C19 — unit-test expectation helpers are a sound and complete oracle.
// E-ENUM: the space (relations x operand pairs; expected type x behaviour) is finite and is
// enumerated completely in both tiers.
#include <new>
#include <string>
#include <type_traits>

#include "UnitTest.hh"
#include "vf.hh"

using namespace phosg;

namespace {

struct Derived1 : std::runtime_error { Derived1() : std::runtime_error("d1") {} };
struct Derived2 : Derived1 {};

// One call per relation so the call site (file/line) is known exactly.
struct Site { const char* file; uint64_t line; };

template <class T>
void check_relations(vf::Run& r, const char* tname, const std::vector<T>& vals, std::function<std::string(const T&)> show) {
  static const char* names[] = {"expect", "expect_eq", "expect_ne", "expect_gt", "expect_ge", "expect_lt", "expect_le"};
  for (int rel = 0; rel < 7; rel++) {
    for (size_t i = 0; i < vals.size(); i++) {
      for (size_t j = 0; j < vals.size(); j++) {
        if (!r.take()) continue;
        const T& a = vals[i];
        const T& b = vals[j];
        if (r.wants_desc()) r.desc(vf::fmt("%s<%s>(%s, %s)", names[rel], tname, show(a).c_str(), show(b).c_str()));
        bool truth = false;
        Site site{__FILE__, 0};
        bool threw = false, wrong_type = false;
        std::string got_file, got_msg;
        uint64_t got_line = 0;
        std::string what;
        try {
          switch (rel) {
            // clang-format off
            case 0: truth = (a == b); site.line = __LINE__; expect(a == b); break;
            case 1: truth = (a == b); site.line = __LINE__; expect_eq(a, b); break;
            case 2: truth = (a != b); site.line = __LINE__; expect_ne(a, b); break;
            case 3: truth = (a > b); site.line = __LINE__; expect_gt(a, b); break;
            case 4: truth = (a >= b); site.line = __LINE__; expect_ge(a, b); break;
            case 5: truth = (a < b); site.line = __LINE__; expect_lt(a, b); break;
            case 6: truth = (a <= b); site.line = __LINE__; expect_le(a, b); break;
            // clang-format on
          }
        } catch (const expectation_failed& e) {
          threw = true;
          got_file = e.file ? e.file : "(null)";
          got_line = e.line;
          got_msg = e.msg ? e.msg : "(null)";
          what = e.what();
        } catch (...) {
          threw = true;
          wrong_type = true;
        }
        r.nontriv();
        auto d = [&] { return vf::fmt("%s<%s>(%s, %s): relation is %s, helper %s", names[rel], tname, show(a).c_str(), show(b).c_str(), truth ? "true" : "false", threw ? "threw" : "did not throw"); };
        std::string k = std::string(names[rel]);
        if (wrong_type) r.fail(k + ":wrong-exception-type", d);
        else if (threw == truth) r.fail(k + (truth ? ":throws-on-true" : ":silent-on-false"), d);
        else if (threw) {
          if (got_file != site.file || got_line != site.line) r.fail(k + ":call-site", [&] { return d() + vf::fmt(" carries %s:%llu, call site is %s:%llu", got_file.c_str(), (unsigned long long)got_line, site.file, (unsigned long long)site.line); });
          else if (got_msg.empty() || what.find(got_msg) == std::string::npos || what.find(got_file) == std::string::npos || what.find(std::to_string(got_line)) == std::string::npos)
            r.fail(k + ":message", [&] { return d() + " msg=" + vf::show(got_msg) + " what=" + vf::show(what); });
          else r.ok("throws-on-false");
        } else r.ok("silent-on-true");
      }
    }
  }
}

enum Behaviour { RETURNS, T_EXC, T_LOGIC, T_INVARG, T_OOR, T_RUNTIME, T_RANGE, T_BADALLOC, T_EXPFAIL, T_D1, T_D2, T_INT, NBEH };
const char* beh_name[] = {"returns", "throws std::exception", "throws logic_error", "throws invalid_argument", "throws out_of_range",
    "throws runtime_error", "throws range_error", "throws bad_alloc", "throws expectation_failed", "throws Derived1", "throws Derived2", "throws int"};

void behave(int b) {
  switch (b) {
    case RETURNS: return;
    case T_EXC: throw std::exception();
    case T_LOGIC: throw std::logic_error("l");
    case T_INVARG: throw std::invalid_argument("i");
    case T_OOR: throw std::out_of_range("o");
    case T_RUNTIME: throw std::runtime_error("r");
    case T_RANGE: throw std::range_error("g");
    case T_BADALLOC: throw std::bad_alloc();
    case T_EXPFAIL: throw expectation_failed("inner", "inner.cc", 7);
    case T_D1: throw Derived1();
    case T_D2: throw Derived2();
    case T_INT: throw 42;
  }
}

template <class E, class X>
constexpr bool derives() { return std::is_base_of<E, X>::value; }

template <class E>
bool should_succeed(int b) {
  switch (b) {
    case RETURNS: return false;
    case T_EXC: return derives<E, std::exception>();
    case T_LOGIC: return derives<E, std::logic_error>();
    case T_INVARG: return derives<E, std::invalid_argument>();
    case T_OOR: return derives<E, std::out_of_range>();
    case T_RUNTIME: return derives<E, std::runtime_error>();
    case T_RANGE: return derives<E, std::range_error>();
    case T_BADALLOC: return derives<E, std::bad_alloc>();
    case T_EXPFAIL: return derives<E, expectation_failed>();
    case T_D1: return derives<E, Derived1>();
    case T_D2: return derives<E, Derived2>();
    case T_INT: return false;
  }
  return false;
}

template <class E>
void check_raises(vf::Run& r, const char* ename) {
  for (int b = 0; b < NBEH; b++) {
    if (!r.take()) continue;
    if (r.wants_desc()) r.desc(vf::fmt("expect_raises<%s>(fn that %s)", ename, beh_name[b]));
    bool want_ok = should_succeed<E>(b);
    uint64_t line = 0;
    std::string res, file;
    uint64_t got_line = 0;
    try {
      // clang-format off
      line = __LINE__; expect_raises(E, [&]() { behave(b); });
      // clang-format on
      res = "succeeds";
    } catch (const expectation_failed& e) {
      // an expectation_failed that is the callee's own (inner.cc:7) escaping means the helper did not
      // convert it; distinguish by the carried site
      file = e.file ? e.file : "";
      got_line = e.line;
      res = (file == "inner.cc") ? "propagates-inner" : "fails";
    } catch (...) {
      res = "propagates-other";
    }
    r.nontriv();
    auto d = [&] { return vf::fmt("expect_raises<%s>(fn that %s): expected to %s, observed: %s", ename, beh_name[b], want_ok ? "succeed" : "fail with expectation_failed", res.c_str()); };
    std::string k = std::string("expect_raises<") + ename + ">";
    if (want_ok && res != "succeeds") r.fail(k + ":rejects-matching:" + beh_name[b], d);
    else if (!want_ok && res == "succeeds") r.fail(k + ":accepts:" + beh_name[b], d);
    else if (!want_ok && res != "fails") r.fail(k + ":not-expectation_failed:" + beh_name[b], d);
    else if (!want_ok && (file != __FILE__ || got_line != line)) r.fail(k + ":call-site", [&] { return d() + vf::fmt(" carries %s:%llu", file.c_str(), (unsigned long long)got_line); });
    else r.ok(want_ok ? "succeeds-on-match" : "fails-on-mismatch");
  }
}

}  // namespace

VF_SECTION(relations, 1, 1, 60) {
  check_relations<int>(r, "int", {INT32_MIN, -1, 0, 1, INT32_MAX}, [](const int& v) { return std::to_string(v); });
  check_relations<int64_t>(r, "int64", {INT64_MIN, -1, 0, 1, INT64_MAX}, [](const int64_t& v) { return std::to_string(v); });
  check_relations<uint64_t>(r, "uint64", {0, 1, 0x7FFFFFFFFFFFFFFFull, 0x8000000000000000ull, UINT64_MAX}, [](const uint64_t& v) { return std::to_string(v); });
  check_relations<std::string>(r, "string", {"", "a", "b", "ab", std::string("a\0", 2)}, [](const std::string& v) { return vf::show(v); });
  double inf = __builtin_inf();
  // NaN is included: every ordered relation and == are false, != is true, and the helpers must follow
  check_relations<double>(r, "double", {-inf, -1.5, -0.0, 0.0, 1.5, inf, __builtin_nan("")}, [](const double& v) { return vf::fmt("%g", v); });
  check_relations<bool>(r, "bool", {false, true}, [](const bool& v) { return std::string(v ? "true" : "false"); });
  r.bound = "7 relations x all ordered operand pairs of 6 boundary sets";
}

VF_SECTION(raises, 1, 1, 60) {
  check_raises<std::exception>(r, "std::exception");
  check_raises<std::logic_error>(r, "std::logic_error");
  check_raises<std::invalid_argument>(r, "std::invalid_argument");
  check_raises<std::out_of_range>(r, "std::out_of_range");
  check_raises<std::runtime_error>(r, "std::runtime_error");
  check_raises<std::range_error>(r, "std::range_error");
  check_raises<std::bad_alloc>(r, "std::bad_alloc");
  check_raises<expectation_failed>(r, "expectation_failed");
  check_raises<Derived1>(r, "Derived1");
  check_raises<Derived2>(r, "Derived2");
  r.bound = "10 expected types x 12 behaviours (full matrix)";
}

VF_MAIN()
