// C08 round 5, second part — count parameters at the top of size_t (seed C08-J: split_context reserved max_splits + 1 result
// slots, so an "effectively unlimited" max_splits such as SIZE_MAX - 1 threw length_error on balanced input).
// max_splits was enumerated over {0,1,2,3,9}; a value larger than the number of delimiters must behave exactly like
// "unlimited" whatever its magnitude.  Every splitting function x a ladder of huge limits x small inputs; the oracle is the
// independent scanner for split and the limit-0 result for split_context (0 is documented as "no limit").
#include <string>
#include <vector>

#include "Strings.hh"
#include "vf.hh"

using namespace phosg;
using namespace std;

namespace {
vector<string> ref_split(const string& s, char d) {
  vector<string> out(1);
  for (char c : s) {
    if (c == d) out.emplace_back();
    else out.back() += c;
  }
  return out;
}
string show_vec(const vector<string>& v) {
  string s = "[";
  for (auto& x : v) s += vf::show(x) + ",";
  return s + "]";
}
}  // namespace

VF_SECTION(huge_counts, 4, 4, 60) {
  vector<size_t> limits;
  for (int k : {31, 32, 33, 58, 59, 60, 61, 62, 63}) for (long d : {-1L, 0L, 1L}) limits.push_back((size_t(1) << k) + static_cast<size_t>(d));
  for (size_t d = 0; d < 4; d++) limits.push_back(SIZE_MAX - d);
  limits.push_back(SIZE_MAX / 2);
  limits.push_back(SIZE_MAX / 2 + 1);
  limits.push_back(SIZE_MAX / sizeof(string));
  limits.push_back(SIZE_MAX / sizeof(string) - 1);
  limits.push_back(SIZE_MAX / sizeof(string) + 1);
  const vector<string> inputs = {"", "a", ",", "a,b", ",,", "a,b,c,d,e,f,g,h,i,j", "a,(b,c),'d,e',[f,g]", "x,\"y,z\""};
  r.note("split/split_context with huge max_splits");
  for (size_t lim : limits)
    for (auto& in : inputs) {
      if (r.take()) {  // split(string)
        if (r.wants_desc()) r.desc("split(" + vf::show(in) + vf::fmt(", ',', %zu)", lim));
        string what;
        vector<string> got;
        string oc = vf::outcome([&] { got = split(in, ',', lim); }, &what);
        r.nontriv();
        if (oc != "ok") r.fail("split:throws-with-huge-max_splits", [&] { return "split(" + vf::show(in) + vf::fmt(", ',', 0x%zX) threw ", lim) + oc + ": " + what; });
        else if (got != ref_split(in, ',')) r.fail("split:pieces-with-huge-max_splits", [&] { return "split(" + vf::show(in) + vf::fmt(", ',', 0x%zX) = ", lim) + show_vec(got) + ", expected " + show_vec(ref_split(in, ',')); });
        else r.ok("as unlimited");
      }
      if (r.take()) {  // split(wstring)
        wstring w(in.begin(), in.end());
        string what;
        vector<wstring> got;
        string oc = vf::outcome([&] { got = split(w, L',', lim); }, &what);
        vector<string> narrow;
        for (auto& p : got) narrow.emplace_back(p.begin(), p.end());
        r.nontriv();
        if (r.wants_desc()) r.desc("split(wstring " + vf::show(in) + vf::fmt(", L',', %zu)", lim));
        if (oc != "ok") r.fail("split(wstring):throws-with-huge-max_splits", [&] { return "split(L" + vf::show(in) + vf::fmt(", L',', 0x%zX) threw ", lim) + oc + ": " + what; });
        else if (narrow != ref_split(in, ',')) r.fail("split(wstring):pieces-with-huge-max_splits", [&] { return "split(L" + vf::show(in) + vf::fmt(", L',', 0x%zX) = ", lim) + show_vec(narrow); });
        else r.ok("as unlimited");
      }
      if (r.take()) {  // split_context: same outcome as with the documented "no limit" value 0
        if (r.wants_desc()) r.desc("split_context(" + vf::show(in) + vf::fmt(", ',', %zu)", lim));
        string what0, what1;
        vector<string> unlimited, got;
        string oc0 = vf::outcome([&] { unlimited = split_context(in, ',', 0); }, &what0);
        string oc1 = vf::outcome([&] { got = split_context(in, ',', lim); }, &what1);
        r.nontriv();
        if (oc0 != oc1) r.fail("split_context:outcome-with-huge-max_splits", [&] { return "split_context(" + vf::show(in) + vf::fmt(", ',', 0x%zX): ", lim) + oc1 + " " + what1 + ", with max_splits = 0 (no limit): " + oc0 + " " + what0; });
        else if (got != unlimited) r.fail("split_context:pieces-with-huge-max_splits", [&] { return "split_context(" + vf::show(in) + vf::fmt(", ',', 0x%zX) = ", lim) + show_vec(got) + ", with no limit " + show_vec(unlimited); });
        else r.ok("as unlimited");
      }
    }
  r.bound = "split(string), split(wstring), split_context x 8 small inputs x 39 limits at the top of size_t (2^k-1, 2^k, 2^k+1 for k in {31,32,33,58..63}, SIZE_MAX-3..SIZE_MAX, SIZE_MAX/2 and +1, SIZE_MAX/sizeof(string) and +-1): a limit above the number of delimiters behaves as no limit";
}
