// C17 (round 2) — absent arguments and present-but-empty texts for every target type (included by C17.cc,
// which instantiates the same getters anyway).
//
//  absent : name q and position 9 are not supplied: every getter of all fourteen integer and three floating-point
//           targets gives out_of_range, or exactly the supplied default (boundary defaults: min, max, -1, NaN,
//           infinities, -0.0, denormal); the string/bool getters likewise; nothing is stored or marked read by
//           such queries.  Option x is present with EMPTY text (--x, --x=, -x, -yx): a typed getter has a text to
//           judge and must reject it, with or without a default.
#pragma once
#include "C17_common.hh"

namespace c17 {

// absent arguments: out_of_range, or exactly the supplied default
inline void absent_report(vf::Run& r, const char* key, const std::vector<std::string>& tokens, const char* form, const char* tname, const char* fmt, const std::string& what) {
  r.fail(key, [&] { return "Arguments(" + list_str(tokens) + "): " + form + " with T=" + tname + " fmt=" + fmt + what; });
}
template <class T, bool FULL>
bool absent_int(vf::Run& r, Arguments& a, const std::vector<std::string>& tokens) {
  typedef std::numeric_limits<T> L;
  bool ok = true;
  static const char* DFORM[3] = {"get<T>(\"q\", default, fmt)", "get<T>(9, default, fmt)", "get<T>(\"q\" [std::string for four targets], default)"};
  static const char* NFORM[3] = {"get<T>(\"q\", fmt)", "get<T>(9, fmt)", "get_multi<T>(\"q\", fmt)"};
  const T DEFAULTS[] = {(T)0, (T)1, (T)77, L::max(), L::min(), (T)(L::max() - 1), (T)(L::min() + 1), (T)-1, (T)(L::max() / 2 + 1)};
  for (IntFormat f : FORMATS) {
    for (T d : DEFAULTS) for (int form = 0; form < 3; form++) {
      T g = (T)(d + 1);
      r.poison_errno();
      std::string oc = vf::outcome([&] {
        switch (form) {
          case 0: g = a.get<T>("q", d, f); break;
          case 1: g = a.get<T>((size_t)9, d, f); break;
          case 2: if constexpr (FULL) g = a.get<T>(std::string("q"), d); else g = a.get<T>("q", d); break;
        }
      });
      r.counters["getter_calls"]++;
      if (oc != "ok" || g != d) { ok = false; absent_report(r, form == 1 ? "absent:get<integer>(position, default)" : "absent:get<integer>(name, default)", tokens, DFORM[form], iname<T>(), fmt_name(f), " default " + s128((i128)d) + " -> " + oc + " " + s128((i128)g)); }
    }
    for (int form = 0; form < 3; form++) {
      size_t count = 99;
      r.poison_errno();
      std::string oc = vf::outcome([&] {
        switch (form) {
          case 0: a.get<T>("q", f); break;
          case 1: a.get<T>((size_t)9, f); break;
          case 2: count = a.get_multi<T>("q", f).size(); break;
        }
      });
      r.counters["getter_calls"]++;
      bool fine = oc == "out_of_range" || (form == 2 && oc == "ok" && count == 0);
      if (!fine) { ok = false; absent_report(r, form == 0 ? "absent:get<integer>(name)" : form == 1 ? "absent:get<integer>(position)" : "absent:get_multi", tokens, NFORM[form], iname<T>(), fmt_name(f), " -> " + oc + (form == 2 ? vf::fmt(" with %zu values", count) : std::string()) + ", expected out_of_range" + (form == 2 ? " or no values" : "")); }
    }
  }
  return ok;
}
template <class T>
bool same_float(T a, T b) {
  if (std::isnan(a) || std::isnan(b)) return std::isnan(a) && std::isnan(b);
  return a == b && std::signbit(a) == std::signbit(b);
}
template <class T>
bool absent_float(vf::Run& r, Arguments& a, const std::vector<std::string>& tokens) {
  typedef std::numeric_limits<T> L;
  bool ok = true;
  static const char* DFORM[3] = {"get<T>(\"q\", default value)", "get<T>(9, optional(default))", "get<T>(std::string \"q\", optional(default))"};
  static const char* NFORM[5] = {"get<T>(\"q\")", "get<T>(9)", "get<T>(\"q\", std::nullopt)", "get<T>(9, empty optional)", "get_multi<T>(\"q\")"};
  const T DEFAULTS[] = {(T)0, -(T)0, (T)1, (T)-2.5, L::max(), L::lowest(), L::min(), L::denorm_min(), L::infinity(), -L::infinity(), L::quiet_NaN(), L::epsilon()};
  for (T d : DEFAULTS) for (int form = 0; form < 3; form++) {
    T g = 7;
    r.poison_errno();
    std::string oc = vf::outcome([&] {
      switch (form) {
        case 0: g = a.get<T>("q", d); break;
        case 1: g = a.get<T>((size_t)9, std::optional<T>(d)); break;
        case 2: g = a.get<T>(std::string("q"), std::optional<T>(d)); break;
      }
    });
    r.counters["getter_calls"]++;
    if (oc != "ok" || !same_float(g, d)) { ok = false; absent_report(r, form == 1 ? "absent:get<float>(position, default)" : "absent:get<float>(name, default)", tokens, DFORM[form], fname<T>(), "-", vf::fmt(" default %.17g -> ", (double)d) + oc + vf::fmt(" %.17g", (double)g)); }
  }
  for (int form = 0; form < 5; form++) {
    size_t count = 99;
    r.poison_errno();
    std::string oc = vf::outcome([&] {
      switch (form) {
        case 0: a.get<T>("q"); break;
        case 1: a.get<T>((size_t)9); break;
        case 2: a.get<T>("q", std::nullopt); break;
        case 3: a.get<T>((size_t)9, std::optional<T>()); break;
        case 4: count = a.get_multi<T>("q").size(); break;
      }
    });
    r.counters["getter_calls"]++;
    bool fine = oc == "out_of_range" || (form == 4 && oc == "ok" && count == 0);
    if (!fine) { ok = false; absent_report(r, form == 4 ? "absent:get_multi" : (form & 1) ? "absent:get<float>(position)" : "absent:get<float>(name)", tokens, NFORM[form], fname<T>(), "-", " -> " + oc + ", expected out_of_range" + (form == 4 ? " or no values" : "")); }
  }
  return ok;
}


inline void absent_section(vf::Run& r) {
  r.note("absent/empty");
  // (b) absent arguments and boundary defaults
  static const std::vector<std::vector<std::string>> OBJS = {{}, {"p0", "--x=12"}, {"--Q=1", "-Q", "--qq=2", "a", "b", "c", "d", "e", "f", "g", "h", "i"}};
  for (auto& tokens : OBJS) {
    if (!r.take()) continue;
    if (r.wants_desc()) r.desc("Arguments(" + list_str(tokens) + "): name q and position 9 are absent; every getter of every target type with boundary defaults");
    r.nontriv();
    Arguments a(tokens);
    RefArgs before = snapshot(a);
    bool ok = true;
    ok &= absent_int<int8_t, false>(r, a, tokens);
    ok &= absent_int<uint8_t, false>(r, a, tokens);
    ok &= absent_int<int16_t, false>(r, a, tokens);
    ok &= absent_int<uint16_t, false>(r, a, tokens);
    ok &= absent_int<int32_t, false>(r, a, tokens);
    ok &= absent_int<uint32_t, false>(r, a, tokens);
    ok &= absent_int<int64_t, false>(r, a, tokens);
    ok &= absent_int<uint64_t, false>(r, a, tokens);
    ok &= absent_int<long long, false>(r, a, tokens);
    ok &= absent_int<unsigned long long, false>(r, a, tokens);
    ok &= absent_int<char, false>(r, a, tokens);
    ok &= absent_int<wchar_t, false>(r, a, tokens);
    ok &= absent_int<char16_t, false>(r, a, tokens);
    ok &= absent_int<char32_t, false>(r, a, tokens);
    ok &= absent_float<float>(r, a, tokens);
    ok &= absent_float<double>(r, a, tokens);
    ok &= absent_float<long double>(r, a, tokens);
    {
      std::string s1 = "?", s2 = "?";
      std::string oc1 = vf::outcome([&] { s1 = a.get<std::string>("q"); });
      std::string oc1b = vf::outcome([&] { s1 += a.get<std::string>(std::string("q"), false); });
      std::string oc2 = vf::outcome([&] { a.get<std::string>("q", true); });
      std::string oc3 = vf::outcome([&] { a.get<std::string>((size_t)9); });
      std::string oc3b = vf::outcome([&] { a.get<std::string>((size_t)9, true); });
      std::string oc4 = vf::outcome([&] { s2 = a.get<std::string>((size_t)9, false); });
      bool b = true;
      std::string oc5 = vf::outcome([&] { b = a.get<bool>("q"); });
      std::vector<std::string> ms{"?"};
      std::string oc6 = vf::outcome([&] { ms = a.get_multi<std::string>("q"); });
      if (oc1 != "ok" || oc1b != "ok" || !s1.empty() || oc2 != "out_of_range" || oc3 != "out_of_range" || oc3b != "out_of_range" || oc4 != "ok" || !s2.empty() || oc5 != "ok" || b || !(oc6 == "out_of_range" || (oc6 == "ok" && ms.empty()))) {
        ok = false;
        r.fail("absent:string-and-bool-getters", [&] { return "Arguments(" + list_str(tokens) + vf::fmt("): get<string>(\"q\") -> %s/%s %s; (\"q\",true) -> %s; (9) -> %s; (9,true) -> %s; (9,false) -> %s %s; get<bool>(\"q\") -> %s %d; get_multi<string>(\"q\") -> %s (%zu)", oc1.c_str(), oc1b.c_str(), vf::show(s1).c_str(), oc2.c_str(), oc3.c_str(), oc3b.c_str(), oc4.c_str(), vf::show(s2).c_str(), oc5.c_str(), (int)b, oc6.c_str(), ms.size()); });
      }
    }
    // asking for absent arguments stores nothing and reads nothing
    if (!(snapshot(a) == before)) { ok = false; r.fail("absent:query-changed-stored-arguments", [&] { return "Arguments(" + list_str(tokens) + ") after queries for the absent name q and position 9 holds " + ref_str(snapshot(a)); }); }
    std::string oc = vf::outcome([&] { a.assert_none_unused(); });
    if (oc != (tokens.empty() ? "ok" : "invalid_argument")) { ok = false; r.fail("absent:assert_none_unused", [&] { return "Arguments(" + list_str(tokens) + ") after queries for absent arguments only: assert_none_unused() -> " + oc; }); }
    if (ok) r.ok("absent: out_of_range / default / empty");
  }
  // (c) present but empty: a typed getter, with or without default, has a text to judge and must reject it
  static const std::vector<std::vector<std::string>> EMPTIES = {{"--x"}, {"--x="}, {"-x"}, {"-yx"}, {"--x", "p"}, {"", "--x"}};
  for (auto& tokens : EMPTIES) for (IntFormat f : FORMATS) {
    if (!r.take()) continue;
    if (r.wants_desc()) r.desc("Arguments(" + list_str(tokens) + "): option x is present with empty text: every typed getter with/without default, fmt " + fmt_name(f));
    r.nontriv();
    bool ok = true;
    auto one = [&](auto tag) {
      typedef decltype(tag) T;
      Arguments a(tokens);
      RefNum ref = ref_numeral("", f);
      for (int via = 0; via <= VIA_DEFAULT; via++) if (!int_read<T>(r, "present-but-empty:get<integer>", a, nullptr, "", ref, f, (Via)via)) ok = false;
    };
    one((int8_t)0); one((uint8_t)0); one((int16_t)0); one((uint16_t)0); one((int32_t)0); one((uint32_t)0); one((int64_t)0); one((uint64_t)0);
    one((long long)0); one((unsigned long long)0); one((char)0); one((wchar_t)0); one((char16_t)0); one((char32_t)0);
    auto onef = [&](auto tag) {
      typedef decltype(tag) T;
      Arguments a(tokens);
      RefFloat ref = ref_float("");
      for (int via = 0; via <= VIA_DEFAULT; via++) if (!float_read<T>(r, "present-but-empty:get<float>", a, nullptr, "", ref, via)) ok = false;
    };
    onef((float)0); onef((double)0); onef((long double)0);
    {
      Arguments a(tokens);
      std::string s = "?";
      bool b = false;
      std::vector<std::string> ms;
      std::string oc1 = vf::outcome([&] { s = a.get<std::string>("x", true); });
      std::string oc2 = vf::outcome([&] { b = a.get<bool>("x"); });
      std::string oc3 = vf::outcome([&] { ms = a.get_multi<std::string>("x"); });
      if (oc1 != "ok" || !s.empty() || oc2 != "ok" || !b || oc3 != "ok" || ms != std::vector<std::string>{""}) { ok = false; r.fail("present-but-empty:string-and-bool-getters", [&] { return "Arguments(" + list_str(tokens) + "): get<string>(\"x\", true) -> " + oc1 + " " + vf::show(s) + "; get<bool>(\"x\") -> " + oc2 + (b ? " true" : " false") + "; get_multi<string>(\"x\") -> " + oc3 + " " + list_str(ms); }); }
    }
    if (ok) r.ok("present but empty: typed getters reject, string/bool getters see it");
  }
  r.bound = "absent name/position on 3 objects x 17 targets x 9-12 boundary defaults (min, max, -1, NaN, infinities, -0.0, denormal) x 4 formats x {name, position, std::string name}; present-but-empty option (--x, --x=, -x, -yx, with positionals) x 17 targets x {get, get_multi, get with default} x 4 formats, string/bool getters";
}

}  // namespace c17
