// C01 (part, round 2): StringReader in every way it can be constructed / derived / re-seated, read with EVERY
// accessor (rd_views), and navigation histories (rd_ops): go / skip / skip_if / peek / getv / truncate /
// re-assignment interleaved with typed, raw, C-string and line reads.
//
// Model: a view is (bytes m[0..n), cursor c).  Expected values come from the independent decoder dec()/sext() and
// the list-of-bytes models in C01_common.hh.
#include "C01_common.hh"

using namespace phosg;
using namespace c01;

namespace {

// 14 bytes: top-bit-set and small values mixed, NUL at 3 and 11, LF at 5 and 10, CR at 9
const uint8_t PA[14] = {0x81, 0x02, 0xF3, 0x00, 0x85, 0x0A, 0xF7, 0x08, 0x89, 0x0D, 0x0A, 0x00, 0x8D, 0x7F};
const size_t NPA = sizeof(PA);
const uint8_t OTHER[6] = {0x11, 0x22, 0x33, 0x44, 0x55, 0x66};

std::string hx(uint64_t v) { return vf::fmt("0x%llX", (unsigned long long)v); }

// Checks that `rd` behaves as a reader over m[0..n) with the cursor at c, using every accessor.  `base` (may be
// null) is the address byte 0 must have (peek/getv/pgetv return pointers into the data, not copies).
bool verify_view(vf::Run& r, const std::string& form, const StringReader& rd0, const uint8_t* m, size_t n, size_t c, const uint8_t* base, const std::function<std::string()>& d) {
  // keys: a wrong view (size / cursor / bytes right after the construction) is filed under the form that built it;
  // a right view read wrongly is filed under the accessor that misread it (same keys as the other sections)
  auto bad = [&](const std::string& key, const std::string& what) {
    r.fail(key, [&] { return d() + vf::fmt(" (expected view: %zu bytes %s, cursor %zu) :: ", n, hexb(m, n).c_str(), c) + what; });
    return false;
  };
  std::string stage = "state";
  try {
    StringReader rd = rd0;
    if (rd.size() != n || rd.where() != c || rd.eof() != (c >= n) || (c <= n && rd.remaining() != n - c))
      return bad(form + ":state", vf::fmt("size()=%zu where()=%zu eof()=%d remaining()=%zu", rd.size(), rd.where(), (int)rd.eof(), rd.remaining()));
    {
      std::string a = rd.all();
      if (a.size() != n || memcmp(a.data(), m, n)) return bad(form + ":state", "all() returned " + hexb(a.data(), a.size()));
      if (base && c <= n && (const uint8_t*)rd.pgetv(0, n) != base) return bad(form + ":state", "the view does not start at the expected address");
    }
    // --- positional typed reads: every kind at every offset; one past the last fitting offset must throw ----
    stage = "pget";
    for (auto& k : kinds()) {
      for (size_t off = 0; off + k.w <= n; off++) {
        uint64_t want = k.expect(dec(m + off, k.w, k.e));
        uint64_t g = k.pget(rd, off);
        if (g != want) return bad(kname("pget", k) + ":value", vf::fmt("pget_%s(%zu) returned %s, decoder says %s", k.name, off, hx(g).c_str(), hx(want).c_str()));
      }
      size_t off = n + 1 >= (size_t)k.w ? n + 1 - k.w : 0;
      if (off + k.w > n) {
        bool threw = false;
        uint64_t g = 0;
        try {
          g = k.pget(rd, off);
        } catch (const std::out_of_range&) { threw = true; }
        if (!threw) return bad(kname("pget", k) + ":returns-without-data", vf::fmt("pget_%s(%zu) needs bytes up to %zu of %zu, yet returned %s", k.name, off, off + k.w, n, hx(g).c_str()));
      }
      if (rd.where() != c) return bad(kname("pget", k) + ":advance", vf::fmt("pget_%s moved the cursor to %zu", k.name, rd.where()));
    }
    // --- typed reads at the cursor ---------------------------------------------------------------------------
    stage = "get";
    for (auto& k : kinds()) {
      StringReader q = rd;
      if (model_fits(n, c, k.w)) {
        uint64_t want = k.expect(dec(m + c, k.w, k.e));
        uint64_t g0 = k.get(q, false);
        size_t w0 = q.where();
        uint64_t g1 = k.get(q, true);
        size_t w1 = q.where();
        if (g0 != want || g1 != want) return bad(kname("get", k) + ":value", vf::fmt("get_%s at the cursor returned %s (advance=false) / %s, decoder says %s", k.name, hx(g0).c_str(), hx(g1).c_str(), hx(want).c_str()));
        if (w0 != c || w1 != c + k.w) return bad(kname("get", k) + ":advance", vf::fmt("get_%s: cursor %zu after advance=false, %zu after advance=true (width %d)", k.name, w0, w1, k.w));
      } else {
        bool threw = false;
        uint64_t g = 0;
        try {
          g = k.get(q, true);
        } catch (const std::out_of_range&) { threw = true; }
        if (!threw) return bad(kname("get", k) + ":returns-without-data", vf::fmt("get_%s with %zu bytes left returned %s", k.name, c <= n ? n - c : 0, hx(g).c_str()));
      }
    }
    // --- raw blocks at the cursor -------------------------------------------------------------------------------
    stage = "blocks";
    const std::string rest = model_read(m, n, c, ~(size_t)0);
    const size_t after = c + rest.size();
    {
      StringReader q = rd;
      std::string g = q.read(n + 5);
      if (g != rest || q.where() != after) return bad("read:value", vf::fmt("read(%zu) returned %s, cursor %zu; model %s, cursor %zu", n + 5, vf::show(g).c_str(), q.where(), vf::show(rest).c_str(), after));
      q = rd;
      g = q.read(~(size_t)0, false);
      if (g != rest || q.where() != c) return bad("read:value", vf::fmt("read(SIZE_MAX, advance=false) returned %s, cursor %zu", vf::show(g).c_str(), q.where()));
      g = rd.pread(c, ~(size_t)0);
      if (g != rest) return bad("pread:value", "pread(cursor, SIZE_MAX) returned " + vf::show(g));
      Exact b(rest.size() + 3);
      q = rd;
      size_t cnt = q.read(b.p, rest.size() + 3);
      if (cnt != rest.size() || memcmp(b.p, rest.data(), cnt) || q.where() != after) return bad("read_buf:value", vf::fmt("read(buf, %zu) returned %zu bytes %s, cursor %zu", rest.size() + 3, cnt, hexb(b.p, cnt < b.n ? cnt : b.n).c_str(), q.where()));
      if (b.p[rest.size()] != 0xEE) return bad("read_buf:value", "read(buf) wrote past the bytes it reported");
      memset(b.p, 0xEE, b.n);
      cnt = rd.pread(c, b.p, rest.size() + 3);
      if (cnt != rest.size() || memcmp(b.p, rest.data(), cnt)) return bad("pread_buf:value", vf::fmt("pread(cursor, buf, %zu) returned %zu bytes", rest.size() + 3, cnt));
    }
    if (c <= n) {
      StringReader q = rd;
      std::string g = q.readx(rest.size());
      if (g != rest || q.where() != n) return bad("readx:value", vf::fmt("readx(%zu) returned %s, cursor %zu", rest.size(), vf::show(g).c_str(), q.where()));
      g = rd.preadx(c, rest.size());
      if (g != rest) return bad("preadx:value", "preadx(cursor, rest) returned " + vf::show(g));
      Exact b(rest.size());
      q = rd;
      q.readx(b.p, rest.size());
      if (memcmp(b.p, rest.data(), rest.size()) || q.where() != n) return bad("readx_buf:value", vf::fmt("readx(buf, %zu) gave %s, cursor %zu", rest.size(), hexb(b.p, rest.size()).c_str(), q.where()));
      memset(b.p, 0xEE, b.n);
      rd.preadx(c, b.p, rest.size());
      if (memcmp(b.p, rest.data(), rest.size())) return bad("preadx_buf:value", "preadx(cursor, buf, rest) gave " + hexb(b.p, rest.size()));
      q = rd;
      const char* pk = q.peek(rest.size());
      if (memcmp(pk, rest.data(), rest.size()) || q.where() != c || (base && (const uint8_t*)pk != base + c)) return bad("peek:value", "peek(rest) does not point at the bytes at the cursor");
      const void* gv = q.getv(rest.size(), false);
      const void* pv = q.pgetv(c, rest.size());
      if (gv != pk || pv != pk || q.where() != c) return bad("getv:value", "getv(rest, false) / pgetv(cursor, rest) do not point at the bytes at the cursor");
      gv = q.getv(rest.size());
      if (gv != pk || q.where() != n) return bad("getv:advance", vf::fmt("getv(%zu) left the cursor at %zu", rest.size(), q.where()));
      if (!q.eof() || q.remaining() != 0) return bad("getv:advance", "eof()/remaining() wrong after reading everything");
      // one byte more than there is must throw
      bool t1 = false, t2 = false, t3 = false;
      q = rd;
      try { q.readx(rest.size() + 1); } catch (const std::out_of_range&) { t1 = true; }
      try { q.peek(rest.size() + 1); } catch (const std::out_of_range&) { t2 = true; }
      try { q.getv(rest.size() + 1); } catch (const std::out_of_range&) { t3 = true; }
      if (!t1 || !t2 || !t3) return bad("readx:returns-without-data", vf::fmt("readx/peek/getv(%zu) with %zu bytes left did not throw (%d%d%d)", rest.size() + 1, rest.size(), (int)t1, (int)t2, (int)t3));
    }
    // --- C string and line at the cursor --------------------------------------------------------------------------
    stage = "cstr/line";
    {
      std::string want;
      StringReader q = rd;
      if (model_cstr(m, n, c, &want)) {
        std::string g0 = q.get_cstr(false), g1 = rd.pget_cstr(c);
        size_t w0 = q.where();
        std::string g2 = q.get_cstr();
        if (g0 != want || g1 != want || g2 != want) return bad("get_cstr:value", vf::fmt("get_cstr(false) / pget_cstr / get_cstr returned %s / %s / %s, model %s", vf::show(g0).c_str(), vf::show(g1).c_str(), vf::show(g2).c_str(), vf::show(want).c_str()));
        if (w0 != c || q.where() != c + want.size() + 1) return bad("get_cstr:advance", vf::fmt("get_cstr: cursor %zu after advance=false, %zu after advance=true (string of %zu + NUL)", w0, q.where(), want.size()));
      } else {
        bool threw = false;
        std::string g;
        try { g = q.get_cstr(); } catch (const std::out_of_range&) { threw = true; }
        if (!threw) return bad("get_cstr:returns-without-data", "no NUL at or after the cursor, yet get_cstr returned " + vf::show(g));
      }
      size_t np = 0;
      q = rd;
      if (model_line(m, n, c, &want, &np)) {
        std::string g0 = q.get_line(false);
        size_t w0 = q.where();
        std::string g1 = q.get_line();
        if (g0 != want || g1 != want) return bad("get_line:value", vf::fmt("get_line(false) / get_line returned %s / %s, model %s", vf::show(g0).c_str(), vf::show(g1).c_str(), vf::show(want).c_str()));
        if (w0 != c || q.where() != np) return bad("get_line:advance", vf::fmt("get_line: cursor %zu after advance=false, %zu after advance=true, model %zu", w0, q.where(), np));
      } else {
        bool threw = false;
        std::string g;
        try { g = q.get_line(); } catch (const std::out_of_range&) { threw = true; }
        if (!threw) return bad("get_line:returns-without-data", "cursor at or past the end, yet get_line returned " + vf::show(g));
      }
    }
    // --- sequential tiling from the cursor with a rotating choice of kinds --------------------------------------
    stage = "tiling";
    if (c <= n) {
      StringReader q = rd;
      size_t pos = c, j = (c * 5 + n) % kinds().size();
      while (pos < n) {
        const Kind* k = &kinds()[j];
        j = (j + 5) % kinds().size();
        if ((size_t)k->w > n - pos) k = kind("u8");
        uint64_t want = k->expect(dec(m + pos, k->w, k->e));
        uint64_t g = k->get(q, true);
        if (g != want) return bad(kname("get", *k) + ":value", vf::fmt("sequential get_%s at %zu returned %s, decoder says %s", k->name, pos, hx(g).c_str(), hx(want).c_str()));
        pos += k->w;
        if (q.where() != pos) return bad(kname("get", *k) + ":advance", vf::fmt("cursor %zu after sequential get_%s ending at %zu", q.where(), k->name, pos));
      }
      if (!q.eof() || q.remaining() != 0) return bad("sequential:eof", "eof()/remaining() wrong after the sequential pass");
      // go back and re-read: same values
      q.go(c);
      if (q.where() != c) return bad("go:advance", vf::fmt("go(%zu) left the cursor at %zu", c, q.where()));
      if (c < n && q.get_u8() != m[c]) return bad("go:advance", "get_u8 after go(cursor) returned a different byte");
      q.go(0);
      q.skip(n);
      if (q.where() != n || !q.eof()) return bad("skip:advance", vf::fmt("go(0); skip(%zu) left the cursor at %zu", n, q.where()));
    }
    // the reader handed in must be untouched (it is const; derived copies did all the moving)
    if (rd0.where() != c || rd0.size() != n) return bad(form + ":state", "the reader changed while copies of it were read");
  } catch (const std::exception& e) {
    std::string what = e.what();
    // an exception while the freshly built view is inspected is the form's fault; later it is the accessor group's
    return bad((stage == "state" ? form : "view_" + stage) + ":throws", "unexpected exception during stage " + stage + ": " + what);
  }
  return true;
}

struct ViewCase {
  vf::Run& r;
  uint64_t ok = 0;
};

}  // namespace

VF_SECTION(rd_views, 8, 8, 180) {
  const size_t HUGE[] = {0x7FFFFFFFull, 0x80000000ull, 0xFFFFFFFFull, 0x100000000ull, 0x7FFFFFFFFFFFFFFFull, 0x8000000000000000ull, ~(size_t)0 - 1, ~(size_t)0};
  Exact pa(NPA);
  memcpy(pa.p, PA, NPA);
  Exact other(sizeof(OTHER));
  memcpy(other.p, OTHER, sizeof(OTHER));
  auto run_case = [&](const std::string& form, const std::string& what, const std::function<void(const std::function<void(const StringReader&, const uint8_t*, size_t, size_t, const uint8_t*)>&)>& body) {
    if (!r.take()) return;
    std::string dsc = form + ": " + what;
    if (r.wants_desc()) r.desc(dsc);
    r.nontriv();
    bool good = true;
    try {
      body([&](const StringReader& rd, const uint8_t* m, size_t n, size_t c, const uint8_t* base) {
        if (good) good = verify_view(r, form, rd, m, n, c, base, [&] { return dsc; });
      });
    } catch (const std::exception& e) {
      std::string w = e.what();
      r.fail(form + ":throws", [&] { return dsc + " :: unexpected exception " + w; });
      good = false;
    }
    if (good) r.ok("view-ok/" + form);
  };
  // expected outcome of a call that has nothing to return: it must throw out_of_range
  auto must_throw = [&](const std::string& form, const std::string& what, const std::function<void()>& f) {
    if (!r.take()) return;
    if (r.wants_desc()) r.desc(form + ": " + what + " (must throw)");
    r.nontriv();
    bool threw = false;
    try {
      f();
    } catch (const std::out_of_range&) { threw = true; } catch (const std::exception&) {}
    if (!threw) r.fail(form + ":returns-without-data", [&] { return form + ": " + what + " lies outside the data, yet no out_of_range was thrown"; });
    else r.ok("throws-no-data/" + form);
  };

  r.note("constructors");
  for (size_t n = 0; n <= NPA; n++) {
    run_case("ctor_ptr", vf::fmt("StringReader(p, %zu)", n), [&](auto&& v) {
      StringReader rd(pa.p, n);
      v(rd, PA, n, 0, pa.p);
    });
    run_case("ctor_string", vf::fmt("StringReader(std::string of %zu bytes)", n), [&](auto&& v) {
      std::string s((const char*)PA, n);
      StringReader rd(s);
      v(rd, PA, n, 0, (const uint8_t*)s.data());
    });
    run_case("ctor_shared", vf::fmt("StringReader(shared_ptr<string> of %zu bytes), caller's reference dropped", n), [&](auto&& v) {
      auto sp = std::make_shared<std::string>((const char*)PA, n);
      const uint8_t* base = (const uint8_t*)sp->data();
      StringReader rd(sp);
      sp.reset();
      v(rd, PA, n, 0, base);
    });
    for (size_t c = 0; c <= n + 1; c++) {
      run_case("ctor_ptr_off", vf::fmt("StringReader(p, %zu, %zu)", n, c), [&](auto&& v) {
        StringReader rd(pa.p, n, c);
        v(rd, PA, n, c, pa.p);
      });
      run_case("ctor_string_off", vf::fmt("StringReader(std::string of %zu bytes, %zu)", n, c), [&](auto&& v) {
        std::string s((const char*)PA, n);
        StringReader rd(s, c);
        v(rd, PA, n, c, (const uint8_t*)s.data());
      });
      run_case("ctor_shared_off", vf::fmt("StringReader(shared_ptr<string> of %zu bytes, %zu), caller's reference dropped", n, c), [&](auto&& v) {
        auto sp = std::make_shared<std::string>((const char*)PA, n);
        const uint8_t* base = (const uint8_t*)sp->data();
        StringReader rd(sp, c);
        sp.reset();
        v(rd, PA, n, c, base);
      });
    }
  }
  run_case("ctor_default", "StringReader()", [&](auto&& v) {
    StringReader rd;
    v(rd, PA, 0, 0, nullptr);
  });

  r.note("sub / subx");
  for (size_t pc : {(size_t)0, (size_t)5}) {
    for (size_t o = 0; o <= NPA + 2; o++) {
      run_case("sub1", vf::fmt("reader(14 bytes, cursor %zu).sub(%zu)", pc, o), [&](auto&& v) {
        const StringReader parent(pa.p, NPA, pc);
        StringReader s = parent.sub(o);
        if (o > NPA) v(s, PA, 0, 0, nullptr);
        else v(s, PA + o, NPA - o, 0, pa.p + o);
        v(parent, PA, NPA, pc, pa.p);
      });
      if (o <= NPA) {
        run_case("subx1", vf::fmt("reader(14 bytes, cursor %zu).subx(%zu)", pc, o), [&](auto&& v) {
          const StringReader parent(pa.p, NPA, pc);
          StringReader s = parent.subx(o);
          v(s, PA + o, NPA - o, 0, pa.p + o);
        });
      } else {
        must_throw("subx1", vf::fmt("reader(14 bytes).subx(%zu)", o), [&] {
          const StringReader parent(pa.p, NPA, pc);
          parent.subx(o);
        });
      }
    }
  }
  {
    std::vector<size_t> sizes;
    for (size_t z = 0; z <= NPA + 1; z++) sizes.push_back(z);
    for (size_t h : HUGE) sizes.push_back(h);
    std::vector<size_t> offs;
    for (size_t o = 0; o <= NPA + 1; o++) offs.push_back(o);
    for (size_t h : HUGE) offs.push_back(h);
    for (size_t o : offs) {
      for (size_t z : sizes) {
        run_case("sub2", vf::fmt("reader(14 bytes, cursor 3).sub(%zu, %zu)", o, z), [&](auto&& v) {
          const StringReader parent(pa.p, NPA, 3);
          StringReader s = parent.sub(o, z);
          if (o >= NPA) v(s, PA, 0, 0, nullptr);
          else v(s, PA + o, std::min(z, NPA - o), 0, pa.p + o);
        });
        if (model_fits(NPA, o, z)) {
          run_case("subx2", vf::fmt("reader(14 bytes, cursor 3).subx(%zu, %zu)", o, z), [&](auto&& v) {
            const StringReader parent(pa.p, NPA, 3);
            StringReader s = parent.subx(o, z);
            v(s, PA + o, z, 0, pa.p + o);
          });
        } else {
          must_throw("subx2", vf::fmt("reader(14 bytes).subx(%zu, %zu)", o, z), [&] {
            const StringReader parent(pa.p, NPA, 3);
            parent.subx(o, z);
          });
        }
      }
    }
    for (size_t h : HUGE) {
      run_case("sub1", vf::fmt("reader(14 bytes).sub(%zu)", h), [&](auto&& v) {
        const StringReader parent(pa.p, NPA);
        StringReader s = parent.sub(h);
        v(s, PA, 0, 0, nullptr);
      });
      must_throw("subx1", vf::fmt("reader(14 bytes).subx(%zu)", h), [&] {
        const StringReader parent(pa.p, NPA);
        parent.subx(h);
      });
    }
  }
  // sub-reader of a sub-reader: offsets are relative to the inner reader
  for (size_t o = 0; o <= 11; o++) {
    for (size_t z = 0; z <= 11; z++) {
      run_case("sub_of_sub", vf::fmt("reader(14 bytes).sub(2, 10).sub(%zu, %zu)", o, z), [&](auto&& v) {
        const StringReader parent(pa.p, NPA, 1);
        const StringReader mid = parent.sub(2, 10);
        StringReader s = mid.sub(o, z);
        if (o >= 10) v(s, PA, 0, 0, nullptr);
        else v(s, PA + 2 + o, std::min(z, 10 - o), 0, pa.p + 2 + o);
      });
    }
  }

  r.note("copy / assignment over a reader that already holds something");
  for (size_t c = 0; c <= NPA + 1; c++) {
    run_case("copy", vf::fmt("copy of reader(14 bytes, cursor %zu)", c), [&](auto&& v) {
      StringReader src(pa.p, NPA, c);
      StringReader cp(src);
      src.go(0);
      v(cp, PA, NPA, c, pa.p);
    });
    run_case("copy_shared", vf::fmt("copy of a shared_ptr-owning reader (cursor %zu), original destroyed", c), [&](auto&& v) {
      auto sp = std::make_shared<std::string>((const char*)PA, NPA);
      const uint8_t* base = (const uint8_t*)sp->data();
      auto src = std::make_unique<StringReader>(sp, c);
      sp.reset();
      StringReader cp(*src);
      src.reset();
      v(cp, PA, NPA, c, base);
    });
    for (int target = 0; target < 3; target++) {
      for (int source = 0; source < 2; source++) {
        static const char* tn[] = {"reader over other data (cursor 4)", "shared_ptr-owning reader over other data (cursor 4)", "default-constructed reader"};
        static const char* sn[] = {"reader(14 bytes", "shared_ptr-owning reader(14 bytes"};
        run_case("assign", vf::fmt("%s = %s, cursor %zu)", tn[target], sn[source], c), [&](auto&& v) {
          auto osp = std::make_shared<std::string>((const char*)OTHER, sizeof(OTHER));
          StringReader x = target == 0 ? StringReader(other.p, sizeof(OTHER), 4) : target == 1 ? StringReader(osp, 4) : StringReader();
          osp.reset();
          const uint8_t* base = pa.p;
          if (source == 0) {
            StringReader src(pa.p, NPA, c);
            x = src;
          } else {
            auto sp = std::make_shared<std::string>((const char*)PA, NPA);
            base = (const uint8_t*)sp->data();
            x = StringReader(sp, c);  // the temporary dies; x must keep the string alive
          }
          v(x, PA, NPA, c, base);
          // and back: the reader is re-seated on the other data
          x = StringReader(other.p, sizeof(OTHER), 1);
          v(x, OTHER, sizeof(OTHER), 1, other.p);
        });
      }
    }
  }

  r.note("truncate / go / skip");
  for (size_t c = 0; c <= NPA; c++) {
    for (size_t n = c; n <= NPA; n++) {
      run_case("truncate", vf::fmt("reader(14 bytes, cursor %zu).truncate(%zu)", c, n), [&](auto&& v) {
        StringReader rd(pa.p, NPA, c);
        rd.truncate(n);
        v(rd, PA, n, c, pa.p);
      });
    }
    for (size_t g = 0; g <= NPA + 1; g++) {
      run_case("go", vf::fmt("reader(14 bytes, cursor %zu).go(%zu)", c, g), [&](auto&& v) {
        StringReader rd(pa.p, NPA, c);
        rd.go(g);
        v(rd, PA, NPA, g, pa.p);
      });
    }
    for (size_t k = 0; c + k <= NPA; k++) {
      run_case("skip", vf::fmt("reader(14 bytes, cursor %zu).skip(%zu)", c, k), [&](auto&& v) {
        StringReader rd(pa.p, NPA, c);
        rd.skip(k);
        v(rd, PA, NPA, c + k, pa.p);
      });
    }
  }
  // don't-care classes, executed for memory safety only: truncate beyond the size, truncate below the cursor
  if (r.take()) {
    if (r.wants_desc()) r.desc("don't-care: truncate(size+1), truncate below the cursor, skip beyond the end");
    StringReader rd(pa.p, NPA, 9);
    std::string o1 = vf::outcome([&] { rd.truncate(NPA + 1); });
    std::string o2 = vf::outcome([&] { rd.truncate(4); });
    std::string o3 = vf::outcome([&] { rd.skip(1); });
    bool e = rd.eof();
    r.ok("executed-not-compared/" + o1 + "/" + o2 + "/" + o3 + (e ? "/eof" : "/not-eof"));
  }
  r.bound = "a 14-byte content (NUL, LF, CR, top-bit bytes) seen through: StringReader(ptr,size[,offset]), (std::string[,offset]), (shared_ptr<string>[,offset]) with the caller's reference dropped, default constructor — every size 0..14 x every initial offset 0..size+1; sub(o), sub(o,z), subx(o), subx(o,z) for every o,z in 0..15 plus eight huge values (2^31-1 .. SIZE_MAX), from parents with cursor 0/3/5; sub of sub; copy; copy/move assignment onto a reader that already holds other data (raw, shared-owning, default) and back; truncate(n), go(g), skip(k) for every in-range value. Each resulting view is read with every accessor: size/where/eof/remaining/all, pget of all 42 kinds at every offset (+ one past: must throw), get of all 42 kinds at the cursor (advance false/true), read/readx/pread/preadx in string and buffer forms (incl. SIZE_MAX sizes), peek/getv/pgetv pointer identity, get_cstr/pget_cstr/get_line, a sequential pass with rotating kinds, go/skip";
}

// =====================================================================================================================
// rd_ops: navigation histories.  State = (length n, cursor p[, cursor unknown after a truncate below the cursor]).
// =====================================================================================================================
namespace {

struct RSt {
  size_t n, p;
  bool p_unknown = false;
};
struct ROut {
  bool threw = false;
  std::string val;
};
enum RVerdict { R_COMPARE, R_DONTCARE };
struct RCall {
  std::string name, key;
  // model: fills in the expected outcome and updates the state; R_DONTCARE = execute, do not compare, do not go on
  std::function<RVerdict(const uint8_t* m, RSt& s, ROut& e)> model;
  std::function<void(StringReader& rd, const uint8_t* m, const RSt& before, ROut& g)> real;
};

std::string hexs(uint64_t v, int w) { return hexv(v, w); }

std::vector<RCall> build_rcalls(const uint8_t* content0, size_t n0, const uint8_t* realbuf) {
  std::vector<RCall> a;
  auto add = [&](const std::string& name, const std::string& key, decltype(RCall::model) mo, decltype(RCall::real) re) { a.push_back({name, key, mo, re}); };
  // --- go -----------------------------------------------------------------------------------------------------------
  for (int which = 0; which < 4; which++) {
    auto target = [which](const RSt& s) -> size_t { return which == 0 ? 0 : which == 1 ? 1 : which == 2 ? s.n : (s.n ? s.n - 1 : 0); };
    static const char* nm[] = {"go(0)", "go(1)", "go(size)", "go(size-1)"};
    add(nm[which], "go",
        [target](const uint8_t*, RSt& s, ROut&) { s.p = target(s); s.p_unknown = false; return R_COMPARE; },
        [target](StringReader& rd, const uint8_t*, const RSt& b, ROut&) { rd.go(target(b)); });
  }
  // --- skip ----------------------------------------------------------------------------------------------------------
  for (int which = 0; which < 5; which++) {
    // 0,1,2 fixed; 3 = to the end; 4 = one past the end
    auto amount = [which](const RSt& s) -> size_t { return which < 3 ? (size_t)which : which == 3 ? s.n - s.p : s.n - s.p + 1; };
    static const char* nm[] = {"skip(0)", "skip(1)", "skip(2)", "skip(remaining)", "skip(remaining+1)"};
    add(nm[which], "skip",
        [amount](const uint8_t*, RSt& s, ROut& e) {
          if (s.p_unknown || s.p > s.n) return R_DONTCARE;
          size_t k = amount(s);
          if (!model_fits(s.n, s.p, k)) return R_DONTCARE;  // skip beyond the end: the statement is silent (the library throws and parks the cursor at the end)
          s.p += k;
          return R_COMPARE;
        },
        [amount](StringReader& rd, const uint8_t*, const RSt& b, ROut&) { rd.skip(amount(b)); });
  }
  // --- skip_if -------------------------------------------------------------------------------------------------------
  for (int which = 0; which < 4; which++) {
    // 0: the next two bytes (match), 1: next two with the last byte changed, 2: empty block, 3: next byte
    static const char* nm[] = {"skip_if(next 2 bytes)", "skip_if(next byte + a different byte)", "skip_if(empty)", "skip_if(next byte)"};
    auto block = [which](const uint8_t* m, const RSt& s) -> std::string {
      size_t want = which == 2 ? 0 : which == 3 ? 1 : 2;
      std::string b;
      for (size_t i = 0; i < want; i++) b.push_back((s.p <= s.n && s.p + i < s.n) ? (char)m[s.p + i] : 'Z');
      if (which == 1) b[1] = (char)(b[1] ^ 0x40);
      return b;
    };
    add(nm[which], "skip_if",
        [block, which](const uint8_t* m, RSt& s, ROut& e) {
          if (s.p_unknown || s.p > s.n) return R_DONTCARE;
          std::string b = block(m, s);
          bool match = model_fits(s.n, s.p, b.size()) && which != 1;
          e.val = match ? "true" : "false";
          if (match) s.p += b.size();
          return R_COMPARE;
        },
        [block](StringReader& rd, const uint8_t* m, const RSt& b, ROut& g) {
          std::string blk = block(m, b);
          g.val = rd.skip_if(blk.data(), blk.size()) ? "true" : "false";
        });
  }
  // --- peek / getv -----------------------------------------------------------------------------------------------------
  for (size_t k : {(size_t)0, (size_t)1, (size_t)3}) {
    add(vf::fmt("peek(%zu)", k), "peek",
        [k](const uint8_t* m, RSt& s, ROut& e) {
          if (s.p_unknown) return R_DONTCARE;
          if (!model_fits(s.n, s.p, k)) { e.threw = true; return R_COMPARE; }
          e.val = std::string((const char*)m + s.p, k) + vf::fmt("@%zu", s.p);
          return R_COMPARE;
        },
        [k, realbuf](StringReader& rd, const uint8_t*, const RSt&, ROut& g) {
          const char* p = rd.peek(k);
          g.val = std::string(p, k) + vf::fmt("@%zu", (size_t)((const uint8_t*)p - realbuf));
        });
    for (bool adv : {true, false}) {
      add(vf::fmt("getv(%zu, %s)", k, adv ? "true" : "false"), "getv",
          [k, adv](const uint8_t* m, RSt& s, ROut& e) {
            if (s.p_unknown) return R_DONTCARE;
            if (!model_fits(s.n, s.p, k)) { e.threw = true; return R_COMPARE; }
            e.val = std::string((const char*)m + s.p, k) + vf::fmt("@%zu", s.p);
            if (adv) s.p += k;
            return R_COMPARE;
          },
          [k, adv, realbuf](StringReader& rd, const uint8_t*, const RSt&, ROut& g) {
            const void* p = rd.getv(k, adv);
            g.val = std::string((const char*)p, k) + vf::fmt("@%zu", (size_t)((const uint8_t*)p - realbuf));
          });
    }
  }
  // --- typed reads ---------------------------------------------------------------------------------------------------
  struct TK { const char* kind; bool adv; };
  for (TK t : {TK{"u8", true}, TK{"s8", false}, TK{"u16b", true}, TK{"s16l", true}, TK{"u24l", true}, TK{"s24b", false}, TK{"u32l", true}, TK{"f32b", true}, TK{"s48b", false}, TK{"u48l", true}, TK{"u64l", true}, TK{"f64b", false}, TK{"u16r", true}, TK{"s32", true}}) {
    const Kind* k = kind(t.kind);
    bool adv = t.adv;
    add(vf::fmt("get_%s(%s)", k->name, adv ? "true" : "false"), kname("get", *k),
        [k, adv](const uint8_t* m, RSt& s, ROut& e) {
          if (s.p_unknown) return R_DONTCARE;
          if (!model_fits(s.n, s.p, k->w)) { e.threw = true; return R_COMPARE; }
          e.val = hexs(k->expect(dec(m + s.p, k->w, k->e)), 8);
          if (adv) s.p += k->w;
          return R_COMPARE;
        },
        [k, adv](StringReader& rd, const uint8_t*, const RSt&, ROut& g) { g.val = hexs(k->get(rd, adv), 8); });
  }
  // template forms: struct, explicit size argument equal to / larger than sizeof(T)
  add("get<S3>(true)", "get<S3>",
      [](const uint8_t* m, RSt& s, ROut& e) {
        if (s.p_unknown) return R_DONTCARE;
        if (!model_fits(s.n, s.p, 3)) { e.threw = true; return R_COMPARE; }
        e.val = hexb(m + s.p, 3) + "/" + hexs(dec(m + s.p + 1, 2, BE), 2);
        s.p += 3;
        return R_COMPARE;
      },
      [](StringReader& rd, const uint8_t*, const RSt&, ROut& g) {
        const S3& x = rd.get<S3>();
        g.val = hexb(&x, 3) + "/" + hexs((uint16_t)x.b, 2);
      });
  add("get<le_uint16_t>(true, 2)", "get<T>(advance,size)",
      [](const uint8_t* m, RSt& s, ROut& e) {
        if (s.p_unknown) return R_DONTCARE;
        if (!model_fits(s.n, s.p, 2)) { e.threw = true; return R_COMPARE; }
        e.val = hexs(dec(m + s.p, 2, LE), 2);
        s.p += 2;
        return R_COMPARE;
      },
      [](StringReader& rd, const uint8_t*, const RSt&, ROut& g) { g.val = hexs((uint16_t)rd.get<le_uint16_t>(true, 2), 2); });
  add("get<uint8_t>(true, 3)", "get<T>(advance,size)",
      [](const uint8_t* m, RSt& s, ROut& e) {
        if (s.p_unknown) return R_DONTCARE;
        if (!model_fits(s.n, s.p, 3)) { e.threw = true; return R_COMPARE; }
        e.val = hexs(m[s.p], 1);
        s.p += 3;  // the record is declared to occupy `size` bytes
        return R_COMPARE;
      },
      [](StringReader& rd, const uint8_t*, const RSt&, ROut& g) { g.val = hexs(rd.get<uint8_t>(true, 3), 1); });
  add("pget<be_uint16_t>(cursor, 2)", "pget<T>(offset,size)",
      [](const uint8_t* m, RSt& s, ROut& e) {
        if (s.p_unknown) return R_DONTCARE;
        if (!model_fits(s.n, s.p, 2)) { e.threw = true; return R_COMPARE; }
        e.val = hexs(dec(m + s.p, 2, BE), 2);
        return R_COMPARE;
      },
      [](StringReader& rd, const uint8_t*, const RSt& b, ROut& g) { g.val = hexs((uint16_t)rd.pget<be_uint16_t>(b.p, 2), 2); });
  // --- raw reads -----------------------------------------------------------------------------------------------------
  struct RK { int form; size_t k; bool adv; };  // form 0 read(str) 1 readx(str) 2 read(buf) 3 readx(buf)
  for (RK t : {RK{0, 2, true}, RK{0, 0, true}, RK{0, ~(size_t)0, true}, RK{0, 2, false}, RK{1, 1, false}, RK{1, 2, true}, RK{2, 2, true}, RK{2, 2, false}, RK{2, 20, true}, RK{3, 2, true}, RK{3, 1, false}}) {
    static const char* fn[] = {"read", "readx", "read_buf", "readx_buf"};
    bool exact = t.form == 1 || t.form == 3;
    add(vf::fmt("%s(%s%zu, %s)", fn[t.form] , t.form >= 2 ? "buf, " : "", t.k, t.adv ? "true" : "false"), fn[t.form],
        [t, exact](const uint8_t* m, RSt& s, ROut& e) {
          if (s.p_unknown) return R_DONTCARE;
          if (exact) {
            if (!model_fits(s.n, s.p, t.k)) { e.threw = true; return R_COMPARE; }
            e.val = std::string((const char*)m + s.p, t.k);
          } else {
            e.val = model_read(m, s.n, s.p, t.k);
          }
          if (t.adv) s.p += e.val.size();
          return R_COMPARE;
        },
        [t](StringReader& rd, const uint8_t*, const RSt&, ROut& g) {
          switch (t.form) {
            case 0: g.val = rd.read(t.k, t.adv); break;
            case 1: g.val = rd.readx(t.k, t.adv); break;
            case 2: {
              Exact b(t.k);
              size_t c = rd.read(b.p, t.k, t.adv);
              g.val = c <= t.k ? std::string((const char*)b.p, c) : vf::fmt("<count %zu exceeds the %zu asked for>", c, t.k);
              break;
            }
            default: {
              Exact b(t.k);
              rd.readx(b.p, t.k, t.adv);
              g.val = std::string((const char*)b.p, t.k);
              break;
            }
          }
        });
  }
  // --- C strings and lines -------------------------------------------------------------------------------------------
  for (int which = 0; which < 3; which++) {
    static const char* nm[] = {"get_cstr()", "get_cstr(false)", "pget_cstr(cursor)"};
    add(nm[which], which == 2 ? "pget_cstr" : "get_cstr",
        [which](const uint8_t* m, RSt& s, ROut& e) {
          if (s.p_unknown) return R_DONTCARE;
          if (!model_cstr(m, s.n, s.p, &e.val)) { e.threw = true; return R_COMPARE; }
          if (which == 0) s.p += e.val.size() + 1;
          return R_COMPARE;
        },
        [which](StringReader& rd, const uint8_t*, const RSt& b, ROut& g) { g.val = which == 0 ? rd.get_cstr() : which == 1 ? rd.get_cstr(false) : rd.pget_cstr(b.p); });
  }
  for (bool adv : {true, false}) {
    add(adv ? "get_line()" : "get_line(false)", "get_line",
        [adv](const uint8_t* m, RSt& s, ROut& e) {
          if (s.p_unknown) return R_DONTCARE;
          size_t np = 0;
          if (!model_line(m, s.n, s.p, &e.val, &np)) { e.threw = true; return R_COMPARE; }
          if (adv) s.p = np;
          return R_COMPARE;
        },
        [adv](StringReader& rd, const uint8_t*, const RSt&, ROut& g) { g.val = rd.get_line(adv); });
  }
  // --- truncate / re-seat / derived readers --------------------------------------------------------------------------
  add("truncate(size-1)", "truncate",
      [](const uint8_t*, RSt& s, ROut& e) {
        if (s.n == 0) return R_DONTCARE;  // would be truncate(SIZE_MAX): extending is refused, statement silent
        s.n -= 1;
        if (s.p > s.n) s.p_unknown = true;  // cursor beyond the new end: where() is a don't-care from here on
        (void)e;
        return R_COMPARE;
      },
      [](StringReader& rd, const uint8_t*, const RSt& b, ROut&) { rd.truncate(b.n - 1); });
  add("truncate(size)", "truncate",
      [](const uint8_t*, RSt& s, ROut&) {
        if (s.p > s.n) s.p_unknown = true;  // cursor beyond the end: where() is a don't-care after any truncate
        return R_COMPARE;
      },
      [](StringReader& rd, const uint8_t*, const RSt& b, ROut&) { rd.truncate(b.n); });
  add("rd = StringReader(buf, n0)", "reseat",
      [n0](const uint8_t*, RSt& s, ROut&) { s.n = n0; s.p = 0; s.p_unknown = false; return R_COMPARE; },
      [n0, realbuf](StringReader& rd, const uint8_t*, const RSt&, ROut&) { rd = StringReader(realbuf, n0); });
  add("sub(cursor).get_u8()", "sub",
      [](const uint8_t* m, RSt& s, ROut& e) {
        if (s.p_unknown) return R_DONTCARE;
        if (s.p >= s.n) { e.threw = true; return R_COMPARE; }
        e.val = hexs(m[s.p], 1);
        return R_COMPARE;
      },
      [](StringReader& rd, const uint8_t*, const RSt& b, ROut& g) { g.val = hexs(rd.sub(b.p).get_u8(), 1); });
  add("subx(cursor, 2).get_u16l()", "subx",
      [](const uint8_t* m, RSt& s, ROut& e) {
        if (s.p_unknown) return R_DONTCARE;
        if (!model_fits(s.n, s.p, 2)) { e.threw = true; return R_COMPARE; }
        e.val = hexs(dec(m + s.p, 2, LE), 2);
        return R_COMPARE;
      },
      [](StringReader& rd, const uint8_t*, const RSt& b, ROut& g) { g.val = hexs(rd.subx(b.p, 2).get_u16l(), 2); });
  add("all()", "all",
      [](const uint8_t* m, RSt& s, ROut& e) { e.val = std::string((const char*)m, s.n); return R_COMPARE; },
      [](StringReader& rd, const uint8_t*, const RSt&, ROut& g) { g.val = rd.all(); });
  (void)content0;
  return a;
}

struct RCtx {
  vf::Run& r;
  const std::vector<RCall>& calls;
  const uint8_t* m;
  size_t n0;
  std::vector<int> path;
  uint64_t nodes = 0;
  bool good = true;
  std::string pathname() const {
    std::string p = "reader over " + hexb(m, n0) + ": ";
    for (size_t i = 0; i < path.size(); i++) p += (i ? "; " : "") + calls[path[i]].name;
    return p;
  }
};

void rops_dfs(RCtx& cx, const StringReader& rd, const RSt& st, int depth) {
  for (size_t ci = 0; ci < cx.calls.size(); ci++) {
    const RCall& c = cx.calls[ci];
    StringReader q = rd;
    RSt s = st;
    ROut e, g;
    RVerdict v = c.model(cx.m, s, e);
    cx.path.push_back((int)ci);
    const bool judge = depth == 1;
    std::string exc;
    try {
      c.real(q, cx.m, st, g);
    } catch (const std::exception& ex) {
      g.threw = true;
      exc = ex.what();
    }
    bool descend = false;
    if (v == R_DONTCARE) {
      if (judge) { cx.nodes++; cx.r.hist[c.key + "/executed-not-compared"]++; }
    } else {
      // state observed through the accessors; where()/remaining() only while the cursor is defined by the statement
      bool state_ok = q.size() == s.n && (s.p_unknown || (q.where() == s.p && q.eof() == (s.p >= s.n) && (s.p > s.n || q.remaining() == s.n - s.p)));
      if (s.p_unknown && !e.threw && q.size() == s.n && !q.eof()) state_ok = false;  // cursor beyond the end must read as eof
      bool same = g.threw == e.threw && (e.threw || g.val == e.val);
      if (!judge) {
        descend = same && state_ok;
      } else {
        cx.nodes++;
        if (e.threw && !g.threw) {
          cx.r.fail(c.key + ":returns-without-data", [&] { return cx.pathname() + vf::fmt(" :: with length %zu and cursor %zu nothing complete is encoded there, yet the call returned %s", st.n, st.p, vf::show(g.val).c_str()); });
          cx.good = false;
        } else if (!e.threw && g.threw) {
          cx.r.fail(c.key + ":throws", [&] { return cx.pathname() + vf::fmt(" :: with length %zu and cursor %zu expected %s, got exception %s", st.n, st.p, vf::show(e.val).c_str(), exc.c_str()); });
          cx.good = false;
        } else if (!same) {
          cx.r.fail(c.key + ":value", [&] { return cx.pathname() + vf::fmt(" :: with length %zu and cursor %zu returned %s, model %s", st.n, st.p, vf::show(g.val).c_str(), vf::show(e.val).c_str()); });
          cx.good = false;
        } else if (!state_ok) {
          cx.r.fail(c.key + ":advance", [&] { return cx.pathname() + vf::fmt(" :: state (size %zu, cursor %zu) became size()=%zu where()=%zu eof()=%d remaining()=%zu, model size %zu cursor %s", st.n, st.p, q.size(), q.where(), (int)q.eof(), q.remaining(), s.n, s.p_unknown ? "(don't-care, eof)" : std::to_string(s.p).c_str()); });
          cx.good = false;
        } else {
          cx.r.hist[c.key + (e.threw ? "/throws-no-data" : "/value+state-ok")]++;
          descend = true;
        }
      }
    }
    if (descend && depth > 1) rops_dfs(cx, q, s, depth - 1);
    cx.path.pop_back();
  }
}

}  // namespace

VF_SECTION(rd_ops, 16, 16, 180) {
  const int maxdepth = 3;
  std::vector<std::string> contents;
  vf::all_strings(std::string("a\0\n", 3), r.thorough() ? 5 : 3, [&](const std::string& s) { contents.push_back(s); });
  contents.push_back(std::string((const char*)PA, NPA));
  contents.push_back(std::string("\x80\x01\xFF\x7F\x00\xFE\x02\x81\x0A", 9));
  r.note("reader navigation histories");
  size_t ncalls = 0;
  for (const std::string& s : contents) {
    if (!r.take()) continue;
    if (r.wants_desc()) r.desc("reader content " + vf::show(s) + vf::fmt(": every sequence of <= %d navigation/read calls", maxdepth));
    Exact buf(s.size());
    memcpy(buf.p, s.data(), s.size());
    auto calls = build_rcalls((const uint8_t*)s.data(), s.size(), buf.p);
    ncalls = calls.size();
    StringReader rd(buf.p, s.size());
    RCtx cx{r, calls, (const uint8_t*)s.data(), s.size(), {}, 0, true};
    RSt st{s.size(), 0, false};
    for (int d = 1; d <= maxdepth; d++) rops_dfs(cx, rd, st, d);
    r.transitions += cx.nodes;
    r.states++;
    r.nontriv();
    if (cx.good) r.ok("nav-tree-ok");
  }
  r.bound = vf::fmt("reader content = every string over {a, NUL, LF} of length <= %d plus a 14-byte and a 9-byte binary content (%zu contents); every sequence of <= %d calls from %zu: go(0|1|size|size-1), skip(0|1|2|remaining|remaining+1), skip_if(matching 2 / mismatching / empty / 1 byte), peek(0|1|3), getv(0|1|3, advance t/f), get of 14 typed kinds, get<S3>, get<T>(advance, size) with size = and > sizeof(T), pget<T>(offset, size), read/readx string and buffer forms with sizes 0/1/2/20/SIZE_MAX and advance t/f, get_cstr/pget_cstr/get_line, truncate(size-1|size), re-seating by assignment, sub/subx-derived readers, all(); value, exception/no exception and size/where/eof/remaining compared after every call", r.thorough() ? 5 : 3, contents.size(), maxdepth, ncalls);
}
