// C09 round-2 sections (same oracles as C09.cc: reference evaluator, round trip, independent dump parser).
//
//   allbytes  : format_data_string -> parse_data_string with every byte value 0..255 at every position (length <= 12) / the
//               first, middle, last position of otherwise printable texts of length 1..16 (+17, 32, 33) x 2 fillers x 6 mask shapes x both flags x both
//               overloads (explicit and defaulted arguments); every ordered pair of 24 border values of the printable test
//               at every pair of positions of a 12-byte text; sizes 0 (null pointers) .. 1 MiB + 1
//   numbers   : # / ## / ### / #### decimals at 2^k-1, 2^k, 2^k+1 (k = 0..64) and their negatives, plain / after $ / masked;
//               ordered PAIRS of boundary numbers over all width pairs; % / %% floats at the float / double range borders
//               (overflow, underflow, denormals, rounding) alone, in pairs, and before integers; long texts (64 Ki + 1
//               pairs, 70 000-character strings and comments, 10 001 toggles)
//   hist      : call histories in ONE process, errno carried from call to call, mask out-parameter never fresh: every
//               ordered pair, every A-B-A and ordered triples over 32 parser texts x {mask, no mask}, 12 format_data_string
//               states, 19 hex-dump states (sizes, addresses, flag sets, prev / no prev, COLLAPSE / not, colour / not, iovec
//               splits, all API families) and a mixed alphabet of 18 steps from all three
//   contexts  : every step of those alphabets inside a catch handler, in a destructor during unwinding, in a noexcept
//               function through std::function, on a fresh second thread, and with 7 ambient errno values
//   overloads : every format_data / print_data overload with explicit and with defaulted arguments, multi-iovec vectors with
//               different splits for data and prev, the callback core, 600 one-byte iovecs interleaved with empty ones
//   streams   : print_data on memstream / file / unbuffered file / 7-byte-buffered file / pipe / cookie stream / pseudo-
//               terminal (colour decided by isatty), on streams that already carry data, two dumps on one stream (final
//               content compared), every ordered pair of stream kinds in one process
//   dump_edges: start addresses 2^k-1, 2^k, 2^k+1 (k = 4..63) and the top of the address space x sizes straddling line
//               boundaries x every OFFSET width x 4 column sets x 2 patterns; large all-zero buffers with COLLAPSE
//   files     : the <file> construct with ALLOW_FILES: empty / small / 70 000-byte files, several files in one text, files next
//               to $ ? and numbers, inside strings and comments, names with blanks, histories of two calls
#include "C09_r2.hh"

using namespace c09;

// =====================================================================================================

VF_SECTION(allbytes, 16, 16, 120) {
  r.note("format_data_string");
  RT c{r, ExactStr::selftest()};
  // (a) one arbitrary byte in printable text
  vector<size_t> lens;
  for (size_t l = 1; l <= 16; l++) lens.push_back(l);
  for (size_t l : {17, 32, 33}) lens.push_back(l);
  if (r.thorough()) for (size_t l : {24, 64, 65, 100}) lens.push_back(l);
  static const char FILL2[] = "a\"\\\n\t'?/ $#%<*z\r";  // 16 printable-class characters that need care
  for (size_t len : lens) {
    for (int filler = 0; filler < 2; filler++) {
      vector<size_t> positions;
      if (len <= (r.thorough() ? 33u : 12u)) for (size_t p = 0; p < len; p++) positions.push_back(p);
      else {
        positions.push_back(0);
        if (len / 2 > 0 && len / 2 != len - 1) positions.push_back(len / 2);
        if (len > 1) positions.push_back(len - 1);
      }
      for (size_t pos : positions) {
        for (unsigned v = 0; v < 256; v++) {
          for (int mk = 0; mk < 6; mk++) {
            if (!r.take()) continue;
            string data(len, 'a');
            for (size_t i = 0; i < len; i++) data[i] = filler ? FILL2[(i + len) % 16] : (char)('a' + i % 26);
            data[pos] = (char)v;
            // mask shapes: none, all on, all off, alternating, only the special byte off, only the special byte on
            vector<bool> on(len, true);
            for (size_t i = 0; i < len; i++) on[i] = mk == 1 ? true : mk == 2 ? false : mk == 3 ? (i % 2 == 0) : mk == 4 ? (i != pos) : (i == pos);
            if (r.wants_desc()) r.desc(vf::fmt("format_data_string -> parse_data_string, byte %02X at position %zu of %zu-byte printable text ", v, pos, len) + hexs(data) + vf::fmt(", mask shape %d, flags 0 and HEX_ONLY, all overloads", mk));
            r.nontriv();
            roundtrip_case(c, data, mk != 0, on, true);
          }
        }
      }
    }
  }
  // (b) ordered pairs of border values of the printable test at every pair of positions
  static const unsigned char BORDER[24] = {0x00, 0x01, 0x08, 0x09, 0x0A, 0x0B, 0x0C, 0x0D, 0x0E, 0x1B, 0x1F, 0x20, 0x22, 0x27, 0x3F, 0x5C, 0x7E, 0x7F, 0x80, 0x85, 0x9F, 0xA0, 0xFE, 0xFF};
  const size_t L = 12;
  for (size_t p1 = 0; p1 < L; p1++) {
    for (size_t p2 = p1 + 1; p2 < L; p2++) {
      if (!r.thorough() && !(p1 == 0 || p2 == L - 1 || p2 == p1 + 1)) continue;  // quick: pairs touching an end or adjacent
      for (unsigned a = 0; a < 24; a++) {
        for (unsigned b = 0; b < 24; b++) {
          for (int mk = 0; mk < 3; mk++) {
            if (!r.take()) continue;
            string data(L, 'a');
            for (size_t i = 0; i < L; i++) data[i] = (char)('A' + i);
            data[p1] = (char)BORDER[a];
            data[p2] = (char)BORDER[b];
            vector<bool> on(L, true);
            for (size_t i = 0; i < L; i++) on[i] = mk == 1 ? (i % 2 == 1) : (i < p2);  // mk 2: toggle exactly between the two
            if (r.wants_desc()) r.desc(vf::fmt("format_data_string -> parse_data_string, bytes %02X/%02X at positions %zu/%zu of ", BORDER[a], BORDER[b], p1, p2) + hexs(data) + vf::fmt(", mask shape %d", mk));
            r.nontriv();
            roundtrip_case(c, data, mk != 0, on, false);
          }
        }
      }
    }
  }
  // (c) sizes: null pointers with size 0, page / 64 Ki / 1 Mi borders
  for (int which = 0; which < 4; which++) {
    if (!r.take()) continue;
    if (r.wants_desc()) r.desc("format_data_string(nullptr, 0, nullptr) in both flag settings / empty string with an empty mask");
    string t, what;
    string oc = vf::outcome([&] {
      switch (which) {
        case 0: t = phosg::format_data_string((const void*)nullptr, 0); break;
        case 1: t = phosg::format_data_string((const void*)nullptr, 0, nullptr, phosg::FormatDataFlags::HEX_ONLY); break;
        case 2: {
          string e, m;
          t = phosg::format_data_string(e, &m);
          break;
        }
        case 3: {
          string e, m;
          t = phosg::format_data_string(e, &m, phosg::FormatDataFlags::SKIP_STRINGS);
          break;
        }
      }
    }, &what);
    string mask = "stale";
    string back = "x";
    string oc2 = oc != "ok" ? oc : vf::outcome([&] { back = phosg::parse_data_string(t, &mask); });
    if (oc != "ok" || oc2 != "ok") r.fail("format_data_string:throws", [&] { return vf::fmt("empty data, variant %d: ", which) + oc + "/" + oc2 + " (" + what + ")"; });
    else if (!back.empty() || !mask.empty()) r.fail("format_data_string:quoted-form-not-lossless", [&] { return vf::fmt("empty data, variant %d: text ", which) + vf::show(t) + " parses back to " + hexs(back) + " mask " + hexs(mask); });
    else r.ok("empty data");
  }
  vector<size_t> big = {4095, 4096, 4097, 65535, 65536, 65537};
  big.push_back(r.thorough() ? ((size_t)4 << 20) + 1 : ((size_t)1 << 20) + 1);
  for (size_t len : big) {
    for (int kind = 0; kind < 3; kind++) {
      for (int mk = 0; mk < 2; mk++) {
        if (!r.take()) continue;
        string data = kind == 0 ? fill_pattern(0, len, 0, 0) : kind == 1 ? fill_pattern(2, len, 0, 0) : fill_pattern(1, len, len - 1, '\x0C');
        vector<bool> on(len, true);
        if (mk) for (size_t i = 0; i < len; i++) on[i] = (i / 16) % 2 == 0;
        if (r.wants_desc()) r.desc(vf::fmt("format_data_string -> parse_data_string, %zu bytes, pattern %d, %s", len, kind, mk ? "run-16 mask" : "no mask"));
        r.nontriv();
        roundtrip_case(c, data, mk != 0, on, true);
      }
    }
  }
  r.bound = string("format_data_string -> parse_data_string: every byte value 00..FF at ") + (r.thorough() ? "every position (len <= 33) / first, middle, last" : "every position (len <= 12) / the first, middle, last position") +
      " of printable texts of length 1..16, 17, 32, 33" + (r.thorough() ? ", 24, 64, 65, 100" : "") + " x 2 fillers (letters; the 16 characters a \" \\ LF TAB ' ? / space $ # % < * z CR) x 6 mask shapes (none, all on, all off, alternating, only that byte off, only that byte on) x flags {0, HEX_ONLY} x std::string and (pointer, size) overloads with explicit and defaulted arguments; every ordered pair of the 24 border values {00 01 08 09 0A 0B 0C 0D 0E 1B 1F 20 22 27 3F 5C 7E 7F 80 85 9F A0 FE FF} at " +
      (r.thorough() ? "every pair of positions" : "the position pairs that touch an end or are adjacent") + " of a 12-byte text x 3 masks; empty data through null pointers; sizes 4095, 4096, 4097, 65535, 65536, 65537, " + (r.thorough() ? "4 Mi + 1" : "1 Mi + 1") + " x {printable, binary, printable with a final form feed} x {no mask, run-16 mask}";
}

// =====================================================================================================

namespace {

string dec_u128(unsigned __int128 v) {
  if (v == 0) return "0";
  string s;
  while (v) {
    s.insert(s.begin(), (char)('0' + (int)(v % 10)));
    v /= 10;
  }
  return s;
}

const char* const FLOAT_TOKENS[] = {
    "0", "-0", "1", ".5", "-1.5", "0.1", "0.1000000000000000055511151231257827", "16777217", "16777216.5", "1e38", "3.4028235e38", "3.4028236e38", "1e39", "-1e39",
    "1e999", "-1e999", "1.17549435e-38", "1.1754942e-38", "1e-45", "7e-46", "1e-46", "1e-60", "-1e-60", "1.7976931348623157e308", "1.7976931348623159e308", "1.8e308",
    "2.2250738585072014e-308", "4.9e-324", "2e-324", "1e-400", "123456789012345678901234567890", "9007199254740993", "1E5", "1e+5", "5e-1", "00012.50"};
const size_t NFLOAT = sizeof(FLOAT_TOKENS) / sizeof(FLOAT_TOKENS[0]);

}  // namespace

VF_SECTION(numbers, 8, 8, 120) {
  r.note("parse_data_string");
  bool exact = ExactStr::selftest();
  // (a) the 2^k grid for every width
  for (size_t w = 1; w <= 4; w++) {
    for (unsigned k = 0; k <= 64; k++) {
      for (int d = -1; d <= 1; d++) {
        for (int neg = 0; neg < 2; neg++) {
          for (int form = 0; form < 4; form++) {
            if (!r.take()) continue;
            unsigned __int128 v = ((unsigned __int128)1 << k) + (unsigned __int128)(d + 1) - 1;  // 2^k-1, 2^k, 2^k+1
            static const char* const PRE[4] = {"", "$", "?", "$ ? 7f "};
            static const char* const POST[4] = {"", " 01", "?00", " $ #1"};
            string text = string(PRE[form]) + string(w, '#') + (neg ? "-" : "") + dec_u128(v) + POST[form];
            if (r.wants_desc()) r.desc("parse_data_string(" + vf::show(text) + ")");
            check_parse(r, text, exact, "grid: ");
          }
        }
      }
    }
  }
  // (b) ordered pairs of boundary numbers over every pair of widths
  vector<string> B;
  for (const char* s : {"0", "1", "127", "128", "255", "256", "32767", "32768", "65535", "65536", "2147483647", "2147483648", "4294967295", "4294967296",
           "9223372036854775807", "9223372036854775808", "18446744073709551615", "18446744073709551616", "-1", "-128", "-129", "-32768", "-2147483648", "-9223372036854775808"})
    B.push_back(s);
  for (size_t w1 = 1; w1 <= 4; w1++)
    for (size_t w2 = 1; w2 <= 4; w2++)
      for (size_t a = 0; a < B.size(); a++)
        for (size_t b = 0; b < B.size(); b++)
          for (const char* sep : {" ", "$", " ? "}) {
            if (!r.take()) continue;
            string text = string(w1, '#') + B[a] + sep + string(w2, '#') + B[b];
            if (r.wants_desc()) r.desc("parse_data_string(" + vf::show(text) + ")");
            check_parse(r, text, exact, "number pair: ");
          }
  // (c) floats: alone, in ordered pairs, and in front of / behind integers of every width
  for (size_t a = 0; a < NFLOAT; a++)
    for (int dbl = 0; dbl < 2; dbl++)
      for (int form = 0; form < 3; form++) {
        if (!r.take()) continue;
        string text = string(form == 1 ? "$" : form == 2 ? "?" : "") + (dbl ? "%%" : "%") + FLOAT_TOKENS[a] + (form == 2 ? " ?00" : "");
        if (r.wants_desc()) r.desc("parse_data_string(" + vf::show(text) + ")");
        check_parse(r, text, exact, "float: ");
      }
  for (size_t a = 0; a < NFLOAT; a++)
    for (size_t b = 0; b < NFLOAT; b++)
      for (int kinds = 0; kinds < 4; kinds++) {
        if (!r.take()) continue;
        string text = string((kinds & 1) ? "%%" : "%") + FLOAT_TOKENS[a] + " " + ((kinds & 2) ? "%%" : "%") + FLOAT_TOKENS[b];
        if (r.wants_desc()) r.desc("parse_data_string(" + vf::show(text) + ")");
        check_parse(r, text, exact, "float pair: ");
      }
  for (size_t a = 0; a < NFLOAT; a++)
    for (int dbl = 0; dbl < 2; dbl++)
      for (size_t w = 1; w <= 4; w++)
        for (const char* num : {"5", "255", "-1", "65535", "4294967295", "18446744073709551615", "9223372036854775808"})
          for (int order = 0; order < 2; order++) {
            if (!r.take()) continue;
            string f = string(dbl ? "%%" : "%") + FLOAT_TOKENS[a], n = string(w, '#') + num;
            string text = order ? n + " " + f : f + " " + n;
            if (r.wants_desc()) r.desc("parse_data_string(" + vf::show(text) + ")");
            check_parse(r, text, exact, "float and integer: ");
          }
  // (d) long texts
  for (int which = 0; which < 10; which++) {
    if (!r.take()) continue;
    string text;
    switch (which) {
      case 0: text = long_hex_text(65537); break;
      case 1: text = "/*" + string(70000, 'x') + "*/ ##258"; break;
      case 2: text = "//" + string(70000, '\"') + "\n$ ##258"; break;
      case 3: text = long_quoted_text(70000); break;
      case 4: text = "'" + string(40000, 'w') + "'"; break;
      case 5: text = string(10001, '$') + "##258 'a'"; break;
      case 6: text = string(10001, '?') + "00" + string(10000, '?') + "11"; break;
      case 7: for (int i = 0; i < 5000; i++) text += vf::fmt("#%d##%d%%%d.5\"q\"", i % 256, i, i); break;
      case 8: text = "#" + string(1000, '9') + " 00"; break;                  // don't care (does not fit)
      case 9: text = "%" + string(400, '7') + " %%" + string(400, '7'); break;  // float: inf, double: inf
    }
    if (r.wants_desc()) r.desc(vf::fmt("parse_data_string(long text #%d, %zu characters)", which, text.size()));
    check_parse(r, text, exact, "long text: ");
  }
  // (e) every documented construct with ALLOW_FILES set (no < in the text): the flag must not change anything
  for (const char* t : {"00 7f", "$ ##258 $ ##258", "?00? 11", "#255 ##65535 ###4294967295 ####18446744073709551615", "%1.5 %%-2.667", "\"a\\\"b\\n\"", "'ab\\t'", "// c\n01", "/* c */ 02", "$ '\\r' %1e999 ####5"}) {
    if (!r.take()) continue;
    if (r.wants_desc()) r.desc("parse_data_string(" + vf::show(t) + ", ALLOW_FILES)");
    check_parse(r, t, exact, "ALLOW_FILES without a file construct: ", phosg::ParseDataFlags::ALLOW_FILES);
    // defaulted arguments: parse_data_string(s) and parse_data_string(s, &mask) are the calls with flags = 0
    string text(t), m1 = "stale", m3 = "stale", d1, d2, d3;
    string oc = vf::outcome([&] {
      d1 = phosg::parse_data_string(text, &m1);
      d2 = phosg::parse_data_string(text);
      d3 = phosg::parse_data_string(text, &m3, 0);
    });
    if (oc != "ok" || d1 != d3 || d2 != d3 || m1 != m3) r.fail("parse_data_string:defaulted-arguments-differ", [&] { return "parse_data_string(" + vf::show(text) + "): " + oc + "; (s, &mask) -> " + hexs(d1) + "/" + hexs(m1) + ", (s) -> " + hexs(d2) + ", (s, &mask, 0) -> " + hexs(d3) + "/" + hexs(m3); });
  }
  r.bound = vf::fmt("parse_data_string: #/##/###/#### + 2^k-1, 2^k, 2^k+1 for k = 0..64, positive and negative, in 4 surroundings ($, ?, neighbours); ordered pairs of 24 boundary numbers x 16 width pairs x 3 separators; %zu float tokens at the float/double range borders as %% and %%%% x 3 surroundings, all ordered pairs x 4 kind pairs, next to 7 integers x 4 widths in both orders; 10 long texts (65 537 hex pairs, 70 000-character comments and strings, 10 001 toggles, 20 000 constructs, 1000-digit and 400-digit numbers); 10 construct texts with ALLOW_FILES; reference evaluator decides wherever the documented syntax settles the result", NFLOAT);
}

// =====================================================================================================

VF_SECTION(hist, 16, 16, 180) {
  r.note("call histories");
  bool exact = ExactStr::selftest();
  vector<Step> P, F, D, M;
  for (const string& t : parser_history_texts()) {
    P.push_back(pstep(t, 1));
  }
  size_t np = P.size();
  for (size_t i = 0; i < np; i++) P.push_back(pstep(parser_history_texts()[i], 0));
  for (const FSpec& f : fds_history_specs()) F.push_back(fstep(f));
  for (const DSpec& d : dump_history_specs()) D.push_back(dstep(d));
  for (size_t i = 0; i < 6; i++) M.push_back(P[i]);
  for (size_t i = 0; i < 6; i++) M.push_back(F[i]);
  for (size_t i = 0; i < 6; i++) M.push_back(D[i]);
  // parser: pairs and A-B-A over all 64 (text, mask mode) steps; triples over the first 16 texts with the shared mask (thorough: all 32)
  enumerate_histories(r, P, r.thorough() ? np : 16, exact, "parse_data_string");
  enumerate_histories(r, F, 0, exact, "format_data_string");
  enumerate_histories(r, D, 0, exact, "format_data");
  enumerate_histories(r, M, 0, exact, "mixed");
  r.bound = vf::fmt("histories of calls in one process with errno carried from each call to the next and a non-empty shared mask object: parse_data_string: %zu (text, mask/no mask) steps: all ordered pairs, all A-B-A, all ordered triples over the first %zu; format_data_string: %zu (data, mask, flags, overload) states: all ordered pairs and triples; format_data/print_data: %zu (size, pattern, address, flags, prev, API, iovec split) states: all ordered pairs, all A-B-A, all ordered triples over %s; mixed alphabet of 6 + 6 + 6 steps: all ordered pairs and triples; every call compared with its memoryless oracle (reference evaluator / round trip / dump parser)",
      P.size(), r.thorough() ? np : (size_t)16, F.size(), D.size(), "all of them");
}

// =====================================================================================================

namespace {

struct UnwindGuard {
  std::function<void()> fn;
  ~UnwindGuard() {
    try {
      fn();
    } catch (...) {
    }
  }
};

string run_noexcept(const Step& s, Ctx& c) noexcept {
  try {
    return s.run(c);
  } catch (...) {
    return "harness:step-threw\tstep threw through its own outcome classifier";
  }
}

const int ERRNOS[7] = {0, ERANGE, EINVAL, EINTR, ENOENT, EDOM, ENOMEM};
const char* const CONTEXT_NAMES[] = {"inside a catch handler", "in a destructor during stack unwinding", "in a noexcept function through std::function", "on a fresh second thread", "on a second thread after the same call on the main thread"};

}  // namespace

VF_SECTION(contexts, 8, 8, 180) {
  r.note("contexts");
  bool exact = ExactStr::selftest();
  vector<Step> S;
  for (const string& t : parser_history_texts()) S.push_back(pstep(t, 1));
  for (const char* t : {"$ '\\n\\r\\t\\'' ##1", "?\"dark\"? ###-1 'cold' %-1.667 %%-2.667", "####18446744073709551615 $ ####1", "%3.4028235e38 %%1e-3"}) S.push_back(pstep(t, 1));
  for (const FSpec& f : fds_history_specs()) S.push_back(fstep(f));
  for (const DSpec& d : dump_history_specs()) S.push_back(dstep(d));
  for (size_t si = 0; si < S.size(); si++) {
    for (int cx = 0; cx < 12; cx++) {
      if (!r.take()) continue;
      const Step& s = S[si];
      Ctx c;
      c.exact = exact;
      string res = "harness:context-not-run\tthe call was never made";
      string cname;
      if (cx < 7) {
        c.err = ERRNOS[cx];
        cname = vf::fmt("with errno == %d before the call", ERRNOS[cx]);
        res = s.run(c);
      } else {
        c.err = r.ambient_errno();
        cname = CONTEXT_NAMES[cx - 7];
        switch (cx - 7) {
          case 0:
            try {
              throw std::runtime_error("in flight");
            } catch (const std::exception&) {
              res = s.run(c);
            }
            break;
          case 1:
            try {
              UnwindGuard g{[&] { res = s.run(c); }};
              throw std::out_of_range("unwinding");
            } catch (const std::exception&) {
            }
            break;
          case 2: {
            std::function<string()> f = [&] { return run_noexcept(s, c); };
            res = f();
            break;
          }
          case 3: {
            std::thread t([&] { res = s.run(c); });
            t.join();
            break;
          }
          case 4: {
            Ctx c0 = c;
            string first = s.run(c0);
            std::thread t([&] { res = s.run(c); });
            t.join();
            if (!first.empty()) res = first;
            break;
          }
        }
      }
      if (r.wants_desc()) r.desc(s.name + " " + cname);
      r.nontriv();
      if (!res.empty()) {
        size_t tab = res.find('\t');
        r.fail(res.substr(0, tab), [&] { return s.name + " " + cname + ": " + res.substr(tab + 1); });
      } else r.ok(cx < 7 ? "ambient errno value" : cname);
    }
  }
  r.bound = vf::fmt("%zu steps (36 parser texts, 12 format_data_string states, 19 hex-dump states) x 12 contexts: errno in {0, ERANGE, EINVAL, EINTR, ENOENT, EDOM, ENOMEM} right before the call; inside a catch handler; in a destructor while another exception unwinds; in a noexcept function through std::function; on a fresh thread; on a second thread after the main thread", S.size());
}

// =====================================================================================================

VF_SECTION(overloads, 4, 4, 180) {
  using namespace phosg;
  r.note("format_data/print_data overloads");
  const uint64_t A = PrintDataFlags::PRINT_ASCII;
  const uint64_t flagsets[] = {A, A | PrintDataFlags::USE_COLOR, PrintDataFlags::PRINT_FLOAT | PrintDataFlags::PRINT_DOUBLE | PrintDataFlags::COLLAPSE_ZERO_LINES | PrintDataFlags::OFFSET_32_BITS};
  // (a) every overload, explicit and defaulted arguments, data and prev split differently
  for (size_t n : {(size_t)0, (size_t)1, (size_t)15, (size_t)16, (size_t)17, (size_t)33, (size_t)64}) {
    for (uint64_t start : {(uint64_t)0, (uint64_t)9, (uint64_t)0xFFFFFFF8ull}) {
      for (int with_prev = 0; with_prev < 2; with_prev++) {
        for (int dsplit = 0; dsplit < 4; dsplit++) {
          for (int psplit = 0; psplit < 4; psplit++) {
            if (!with_prev && psplit) continue;
            for (size_t fi = 0; fi < 3; fi++) {
              if (!r.take()) continue;
              const uint64_t flags = flagsets[fi];
              vector<uint8_t> dv = dump_data(n == 64 ? 5 : 3, n), pv = dv;
              for (size_t i = 0; i < n; i += 3) pv[i] ^= 0x21;
              uint8_t* d = (uint8_t*)malloc(n ? n : 1);
              uint8_t* p = (uint8_t*)malloc(n ? n : 1);
              memcpy(d, dv.data(), n);
              memcpy(p, pv.data(), n);
              const void* pp = with_prev ? (const void*)p : nullptr;
              string data_str((const char*)d, n);
              IovSet di(d, split_parts(n, dsplit)), pi(p, split_parts(n, psplit));
              const struct iovec* piv = with_prev ? pi.iov.data() : nullptr;
              const size_t pin = with_prev ? pi.iov.size() : 0;
              const vector<struct iovec>* pvec = with_prev ? &pi.iov : nullptr;
              DumpCase c{d, with_prev ? p : nullptr, n, start, flags};
              if (r.wants_desc()) r.desc(vf::fmt("all format_data/print_data overloads, iovec split %d/%d: ", dsplit, psplit) + describe_dump(c));
              if (n) r.nontriv();
              vector<std::pair<string, string>> outs;  // (call, output); all must equal outs[0]
              string what;
              string oc = vf::outcome([&] {
                outs.emplace_back("format_data(void*, size, start, prev, flags)", format_data((const void*)d, (uint64_t)n, start, pp, flags));
                outs.emplace_back("format_data(string, start, prev, flags)", format_data(data_str, start, pp, flags));
                outs.emplace_back("format_data(iovec*, n, start, prev*, n, flags)", format_data(di.iov.data(), di.iov.size(), start, piv, pin, flags));
                outs.emplace_back("format_data(vector<iovec>, start, prev, flags)", format_data(di.iov, start, pvec, flags));
                {
                  string o;
                  size_t calls = 0;
                  format_data([&](const void* b, size_t k) { o.append((const char*)b, k); calls++; }, di.iov.data(), di.iov.size(), start, piv, pin, flags);
                  outs.emplace_back("format_data(callback, iovec*, ...)", o);
                }
                outs.emplace_back("print_data(FILE*, void*, size, start, prev, flags)", via_memstream([&](FILE* f) { print_data(f, (const void*)d, (uint64_t)n, start, pp, flags); }));
                outs.emplace_back("print_data(FILE*, string, start, prev, flags)", via_memstream([&](FILE* f) { print_data(f, data_str, start, pp, flags); }));
                outs.emplace_back("print_data(FILE*, iovec*, n, start, prev*, n, flags)", via_memstream([&](FILE* f) { print_data(f, di.iov.data(), di.iov.size(), start, piv, pin, flags); }));
                outs.emplace_back("print_data(FILE*, vector<iovec>, start, prev, flags)", via_memstream([&](FILE* f) { print_data(f, di.iov, start, pvec, flags); }));
                if (flags == A) {  // PRINT_ASCII is the documented default of every overload
                  outs.emplace_back("format_data(void*, size, start, prev)", format_data((const void*)d, (uint64_t)n, start, pp));
                  outs.emplace_back("format_data(string, start, prev)", format_data(data_str, start, pp));
                  outs.emplace_back("format_data(iovec*, n, start, prev*, n)", format_data(di.iov.data(), di.iov.size(), start, piv, pin));
                  outs.emplace_back("format_data(vector<iovec>, start, prev)", format_data(di.iov, start, pvec));
                  outs.emplace_back("print_data(FILE*, void*, size, start, prev)", via_memstream([&](FILE* f) { print_data(f, (const void*)d, (uint64_t)n, start, pp); }));
                  outs.emplace_back("print_data(FILE*, string, start, prev)", via_memstream([&](FILE* f) { print_data(f, data_str, start, pp); }));
                  outs.emplace_back("print_data(FILE*, iovec*, n, start, prev*, n)", via_memstream([&](FILE* f) { print_data(f, di.iov.data(), di.iov.size(), start, piv, pin); }));
                  outs.emplace_back("print_data(FILE*, vector<iovec>, start, prev)", via_memstream([&](FILE* f) { print_data(f, di.iov, start, pvec); }));
                  if (!with_prev) {
                    outs.emplace_back("format_data(void*, size, start)", format_data((const void*)d, (uint64_t)n, start));
                    outs.emplace_back("format_data(string, start)", format_data(data_str, start));
                    outs.emplace_back("format_data(iovec*, n, start)", format_data(di.iov.data(), di.iov.size(), start));
                    outs.emplace_back("format_data(vector<iovec>, start)", format_data(di.iov, start));
                    outs.emplace_back("print_data(FILE*, void*, size, start)", via_memstream([&](FILE* f) { print_data(f, (const void*)d, (uint64_t)n, start); }));
                    outs.emplace_back("print_data(FILE*, string, start)", via_memstream([&](FILE* f) { print_data(f, data_str, start); }));
                    outs.emplace_back("print_data(FILE*, iovec*, n, start)", via_memstream([&](FILE* f) { print_data(f, di.iov.data(), di.iov.size(), start); }));
                    outs.emplace_back("print_data(FILE*, vector<iovec>, start)", via_memstream([&](FILE* f) { print_data(f, di.iov, start); }));
                    if (start == 0) {
                      outs.emplace_back("format_data(void*, size)", format_data((const void*)d, (uint64_t)n));
                      outs.emplace_back("format_data(string)", format_data(data_str));
                      outs.emplace_back("format_data(iovec*, n)", format_data(di.iov.data(), di.iov.size()));
                      outs.emplace_back("print_data(FILE*, void*, size)", via_memstream([&](FILE* f) { print_data(f, (const void*)d, (uint64_t)n); }));
                      outs.emplace_back("print_data(FILE*, string)", via_memstream([&](FILE* f) { print_data(f, data_str); }));
                      outs.emplace_back("print_data(FILE*, iovec*, n)", via_memstream([&](FILE* f) { print_data(f, di.iov.data(), di.iov.size()); }));
                      outs.emplace_back("print_data(FILE*, vector<iovec>)", via_memstream([&](FILE* f) { print_data(f, di.iov); }));
                    }
                  }
                }
              }, &what);
              bool bad = false;
              if (oc != "ok") {
                bad = true;
                r.fail("print_data:throws", [&] { return describe_dump(c) + vf::fmt(" (iovec split %d/%d) threw ", dsplit, psplit) + oc + " (" + what + ") after " + (outs.empty() ? string("nothing") : outs.back().first); });
              }
              for (auto& o : outs) {
                if (!bad && o.second != outs[0].second) {
                  bad = true;
                  r.fail("print_data:overloads-differ", [&] { return o.first + vf::fmt(" (iovec split %d/%d) differs from ", dsplit, psplit) + outs[0].first + " for " + describe_dump(c) + "\n--- " + o.first + " ---\n" + o.second + "--- " + outs[0].first + " ---\n" + outs[0].second; });
                }
              }
              if (!bad) {
                r.counters["overload calls compared"] += outs.size();
                report_dump(r, c, outs[0].second, "all overloads agree and decode");
              }
              free(d);
              free(p);
            }
          }
        }
      }
    }
  }
  // (b) many small iovecs: one per byte with an empty one after each; zero iovecs; only empty iovecs
  for (size_t n : {(size_t)0, (size_t)1, (size_t)16, (size_t)17, (size_t)600}) {
    for (int with_prev = 0; with_prev < 2; with_prev++) {
      for (int api : {(int)API_FMT_IOV, (int)API_FMT_VEC, (int)API_CORE, (int)API_PRINT_IOV, (int)API_PRINT_VEC}) {
        if (!r.take()) continue;
        DSpec s{n, 0, 0xFFF8, A | PrintDataFlags::USE_COLOR | PrintDataFlags::PRINT_FLOAT, with_prev, api, 3, with_prev ? 2 : 0};
        if (r.wants_desc()) r.desc(describe_dspec(s));
        if (n) r.nontriv();
        Ctx c;
        c.err = r.ambient_errno();
        string res = run_dump_api(s, c);
        if (!res.empty()) {
          size_t tab = res.find('\t');
          r.fail(res.substr(0, tab), [&] { return res.substr(tab + 1); });
        } else r.ok("one iovec per byte, empty iovecs in between");
      }
    }
  }
  if (r.take()) {
    if (r.wants_desc()) r.desc("format_data with no iovec at all / null vectors");
    string o1 = "x", o2 = "x", o3 = "x", what;
    vector<struct iovec> none;
    string oc = vf::outcome([&] {
      o1 = format_data((const struct iovec*)nullptr, 0, 5, nullptr, 0, A);
      o2 = format_data(none, 5, nullptr, A);
      o3 = format_data((const void*)nullptr, 0, 5, nullptr, A);
    }, &what);
    if (oc != "ok" || !o1.empty() || !o2.empty() || !o3.empty()) r.fail("format_data:output-for-empty-data", [&] { return "format_data with zero iovecs / null data of size 0: " + oc + " " + vf::show(o1 + o2 + o3); });
    else r.ok("no iovecs: no output");
  }
  r.bound = "sizes {0,1,15,16,17,33,64} x start {0, 9, 2^32-8} x prev {none, given} x 4 data splits x 4 prev splits (single, [1,n-1], [n/3,0,rest], one iovec per byte + empty ones) x 3 flag sets: 9 explicit-argument calls (4 format_data, callback core, 4 print_data) and, for PRINT_ASCII, up to 23 calls with defaulted flags / prev / start arguments, all outputs identical and decoded; one-iovec-per-byte splits up to 600 bytes through every iovec API; zero iovecs";
}

// =====================================================================================================

VF_SECTION(streams, 4, 4, 180) {
  using namespace phosg;
  r.note("print_data streams");
  ScratchDir sd("streams");
  const uint64_t A = PrintDataFlags::PRINT_ASCII;
  // flag sets without / with an explicit colour decision
  const uint64_t flagsets[] = {A, A | PrintDataFlags::USE_COLOR, A | PrintDataFlags::DISABLE_COLOR, PrintDataFlags::PRINT_FLOAT | PrintDataFlags::COLLAPSE_ZERO_LINES};
  auto effective = [&](uint64_t flags, int kind) {
    // print_data documents: USE_COLOR forces colour, DISABLE_COLOR never uses it; otherwise a terminal gets colour
    if (flags & (PrintDataFlags::USE_COLOR | PrintDataFlags::DISABLE_COLOR)) return flags;
    return flags | (kind == SK_PTY ? (uint64_t)PrintDataFlags::USE_COLOR : (uint64_t)PrintDataFlags::DISABLE_COLOR);
  };
  bool pty_ok = Pty().ok();
  if (!pty_ok) r.notes.push_back("no pseudo-terminal available: the terminal cases were skipped");
  struct One {
    size_t n;
    uint64_t start;
    uint64_t flags;
    int with_prev;
    int overload;  // 0 ptr, 1 string, 2 iovec*, 3 vector
  };
  // Runs one print_data call on stream f; returns the DumpCase-compatible buffers through the out-parameters.
  auto call = [&](FILE* f, const One& o, const vector<uint8_t>& d, const vector<uint8_t>& p) {
    const void* pp = o.with_prev ? (const void*)p.data() : nullptr;
    string ds((const char*)d.data(), o.n);
    struct iovec iv{(void*)d.data(), o.n}, pv{(void*)p.data(), o.n};
    vector<struct iovec> ivs{iv}, pvs{pv};
    switch (o.overload) {
      case 0: print_data(f, (const void*)d.data(), (uint64_t)o.n, o.start, pp, o.flags); break;
      case 1: print_data(f, ds, o.start, pp, o.flags); break;
      case 2: print_data(f, &iv, 1, o.start, o.with_prev ? &pv : nullptr, o.with_prev ? 1 : 0, o.flags); break;
      case 3: print_data(f, ivs, o.start, o.with_prev ? &pvs : nullptr, o.flags); break;
    }
  };
  auto buffers = [&](const One& o, vector<uint8_t>& d, vector<uint8_t>& p) {
    d = dump_pattern(3, o.n);
    p = d;
    for (size_t i = 0; i < o.n; i += 4) p[i] ^= 0x11;
  };
  // Checks the text that one call left on a stream of the given kind.
  auto judge = [&](const One& o, int kind, const string& got, const vector<uint8_t>& d, const vector<uint8_t>& p) -> string {
    uint64_t eff = effective(o.flags, kind);
    DumpCase dc{d.data(), o.with_prev ? p.data() : nullptr, o.n, o.start, eff};
    string res = check_dump(dc, got);
    if (!res.empty()) return res + " [" + describe_dump(dc) + vf::fmt(" given flags 0x%04" PRIX64 " on a %s]\n--- output ---\n", o.flags, SK_NAMES[kind]) + got.substr(0, 700);
    string want = format_data((const void*)d.data(), (uint64_t)o.n, o.start, o.with_prev ? (const void*)p.data() : nullptr, eff);
    if (got != want) return fail2("print_data:stream-differs", vf::fmt("print_data on a %s wrote text that differs from format_data with the same (effective) flags 0x%04" PRIX64 " for ", SK_NAMES[kind], eff) + describe_dump(dc) + "\n--- stream ---\n" + got.substr(0, 500) + "--- format_data ---\n" + want.substr(0, 500));
    return "";
  };
  auto report = [&](const string& res, const char* okclass) {
    if (res.empty()) {
      r.ok(okclass);
      return;
    }
    size_t tab = res.find('\t');
    r.fail(res.substr(0, tab), [&] { return res.substr(tab + 1); });
  };
  // (a) one call per stream kind, on a fresh stream and on one that already carries data
  for (int kind = 0; kind < SK_COUNT; kind++) {
    for (size_t n : {(size_t)0, (size_t)1, (size_t)17, (size_t)40, (size_t)600}) {
      if (kind == SK_PTY && n > 48) continue;  // stays far below the terminal's buffer: nobody reads while print_data writes
      for (uint64_t start : {(uint64_t)0, (uint64_t)0xFFFFFFF8ull}) {
        for (uint64_t flags : flagsets) {
          for (int with_prev = 0; with_prev < 2; with_prev++) {
            for (int pre = 0; pre < 2; pre++) {
              if (!r.take()) continue;
              One o{n, start, flags, with_prev, (int)((n + kind + with_prev) % 4)};
              vector<uint8_t> d, p;
              buffers(o, d, p);
              if (r.wants_desc()) r.desc(vf::fmt("print_data (overload %d) of %zu bytes at 0x%" PRIX64 ", flags 0x%04" PRIX64 ", %s, on a %s %s", o.overload, n, start, flags, with_prev ? "prev given" : "no prev", SK_NAMES[kind], pre ? "that already carries 28 bytes" : "(fresh)"));
              if (kind == SK_PTY && !pty_ok) {
                r.ok("skipped: no pseudo-terminal");
                continue;
              }
              if (n) r.nontriv();
              bool ok = true;
              string what;
              string got;
              string oc = vf::outcome([&] { got = via_stream(kind, pre ? "earlier output | 00 11 22 |\n" : "", [&](FILE* f) { r.poison_errno(); call(f, o, d, p); }, &ok); }, &what);
              if (oc != "ok") report(fail2("print_data:throws", vf::fmt("print_data on a %s threw ", SK_NAMES[kind]) + oc + " (" + what + ")"), "");
              else if (!ok) report(fail2("print_data:stream-prefix-damaged", vf::fmt("data written to the %s before print_data was called did not arrive intact: ", SK_NAMES[kind]) + vf::show(got.substr(0, 200))), "");
              else report(judge(o, kind, got, d, p), kind == SK_PTY ? "terminal" : "not a terminal");
            }
          }
        }
      }
    }
  }
  // (b) two dumps on one stream: the final content is the first dump followed by the second
  for (int kind = 0; kind < SK_COUNT; kind++) {
    for (size_t n1 : {(size_t)0, (size_t)5, (size_t)32}) {
      for (size_t n2 : {(size_t)0, (size_t)16, (size_t)21}) {
        for (uint64_t flags : flagsets) {
          if (!r.take()) continue;
          One o1{n1, 0x100, flags, 1, 0}, o2{n2, 0x100 + n1, flags, 0, 1};
          vector<uint8_t> d1, p1, d2, p2;
          buffers(o1, d1, p1);
          buffers(o2, d2, p2);
          if (r.wants_desc()) r.desc(vf::fmt("two print_data calls (%zu bytes with prev, then %zu bytes) on one %s, flags 0x%04" PRIX64, n1, n2, SK_NAMES[kind], flags));
          if (kind == SK_PTY && !pty_ok) {
            r.ok("skipped: no pseudo-terminal");
            continue;
          }
          r.nontriv();
          bool ok = true;
          string got, what;
          string oc = vf::outcome([&] { got = via_stream(kind, "", [&](FILE* f) { call(f, o1, d1, p1); call(f, o2, d2, p2); }, &ok); }, &what);
          if (oc != "ok" || !ok) {
            report(fail2("print_data:throws", vf::fmt("two print_data calls on a %s: ", SK_NAMES[kind]) + oc + " (" + what + ")"), "");
            continue;
          }
          uint64_t eff = effective(flags, kind);
          string w1 = format_data((const void*)d1.data(), (uint64_t)n1, o1.start, (const void*)p1.data(), eff), w2 = format_data((const void*)d2.data(), (uint64_t)n2, o2.start, nullptr, eff);
          DumpCase c1{d1.data(), p1.data(), n1, o1.start, eff}, c2{d2.data(), nullptr, n2, o2.start, eff};
          string res;
          if (got.size() != w1.size() + w2.size() || got.compare(0, w1.size(), w1) != 0) res = fail2("print_data:stream-differs", vf::fmt("after two print_data calls the %s holds %zu bytes, the two dumps are %zu + %zu bytes:\n", SK_NAMES[kind], got.size(), w1.size(), w2.size()) + got.substr(0, 600));
          if (res.empty()) res = check_dump(c1, got.substr(0, w1.size()));
          if (res.empty()) res = check_dump(c2, got.substr(w1.size()));
          report(res, "two dumps on one stream");
        }
      }
    }
  }
  // (c) ordered pairs of stream kinds in one process (the colour decision belongs to the stream of the current call)
  for (int k1 = 0; k1 < SK_COUNT; k1++) {
    for (int k2 = 0; k2 < SK_COUNT; k2++) {
      for (uint64_t flags : flagsets) {
        for (int with_prev = 0; with_prev < 2; with_prev++) {
          if (!r.take()) continue;
          One o{20, 3, flags, with_prev, 0};
          vector<uint8_t> d, p;
          buffers(o, d, p);
          if (r.wants_desc()) r.desc(vf::fmt("print_data on a %s, then the same call on a %s; flags 0x%04" PRIX64 ", %s", SK_NAMES[k1], SK_NAMES[k2], flags, with_prev ? "prev given" : "no prev"));
          if ((k1 == SK_PTY || k2 == SK_PTY) && !pty_ok) {
            r.ok("skipped: no pseudo-terminal");
            continue;
          }
          r.nontriv();
          string res;
          for (int step = 0; step < 2 && res.empty(); step++) {
            int kind = step ? k2 : k1;
            bool ok = true;
            string got, what;
            string oc = vf::outcome([&] { got = via_stream(kind, "", [&](FILE* f) { call(f, o, d, p); }, &ok); }, &what);
            if (oc != "ok" || !ok) res = fail2("print_data:throws", vf::fmt("print_data on a %s: ", SK_NAMES[kind]) + oc + " (" + what + ")");
            else res = judge(o, kind, got, d, p);
            if (!res.empty()) res += vf::fmt("\n[call %d of: %s then %s]", step + 1, SK_NAMES[k1], SK_NAMES[k2]);
          }
          report(res, "ordered pair of stream kinds");
        }
      }
    }
  }
  r.bound = "print_data (4 overloads in rotation) on 7 stream kinds (memstream, file, unbuffered file, file with a 7-byte buffer, pipe, unbuffered cookie stream, pseudo-terminal in raw mode) x sizes {0,1,17,40,600} (terminal: <= 40) x start {0, 2^32-8} x 4 flag sets {ASCII, ASCII|USE_COLOR, ASCII|DISABLE_COLOR, FLOAT|COLLAPSE} x prev {none, given} x {fresh stream, stream already carrying data}; two dumps on one stream (3 x 3 sizes); every ordered pair of stream kinds; text decoded by the dump parser under the effective flags (colour iff USE_COLOR, or a terminal and no DISABLE_COLOR) and equal to format_data";
}

// =====================================================================================================

VF_SECTION(dump_edges, 16, 16, 120) {
  using namespace phosg;
  r.note("format_data");
  FILE* dat = nullptr;
  if (r.only < 0 && getenv("VF_OUTDIR")) dat = fopen(vf::fmt("%s/edges.%llu.dat", getenv("VF_OUTDIR"), (unsigned long long)r.shard).c_str(), "w");
  const uint64_t widths[5] = {0, PrintDataFlags::OFFSET_8_BITS, PrintDataFlags::OFFSET_16_BITS, PrintDataFlags::OFFSET_32_BITS, PrintDataFlags::OFFSET_64_BITS};
  const uint64_t colsets[4] = {0, PrintDataFlags::PRINT_ASCII, PrintDataFlags::PRINT_ASCII | PrintDataFlags::PRINT_FLOAT | PrintDataFlags::PRINT_DOUBLE | PrintDataFlags::BIG_ENDIAN_FLOATS,
      PrintDataFlags::PRINT_ASCII | PrintDataFlags::COLLAPSE_ZERO_LINES | PrintDataFlags::SKIP_SEPARATOR};
  vector<size_t> sizes = {1, 2, 15, 16, 17, 31, 32, 33, 48};
  if (r.thorough()) for (size_t n : {3, 14, 18, 30, 34, 47, 49, 64, 65}) sizes.push_back(n);
  for (size_t n : sizes) {
    vector<uint64_t> starts;
    for (unsigned k = 4; k <= 63; k++)
      for (int d = -1; d <= 1; d++) starts.push_back(((uint64_t)1 << k) + (uint64_t)(int64_t)d);
    // the top of the address space: the data ends exactly at, one below, one line below 2^64; start + size never exceeds 2^64
    for (uint64_t back : {(uint64_t)0, (uint64_t)1, (uint64_t)15, (uint64_t)16, (uint64_t)17}) starts.push_back((uint64_t)0 - n - back);
    for (int pattern : {0, 2}) {
      vector<uint8_t> src = dump_pattern(pattern, n);
      uint8_t* d = (uint8_t*)malloc(n);
      memcpy(d, src.data(), n);
      for (uint64_t start : starts) {
        for (uint64_t w : widths) {
          for (uint64_t cs : colsets) {
            if (!r.take()) continue;
            DumpCase c{d, nullptr, n, start, w | cs};
            if (r.wants_desc()) r.desc(describe_dump(c));
            r.nontriv();
            string out, what;
            string oc = vf::outcome([&] { out = format_data((const void*)d, (uint64_t)n, start, nullptr, c.flags); }, &what);
            if (oc != "ok") {
              r.fail("format_data:throws", [&] { return describe_dump(c) + " threw " + oc + " (" + what + ")"; });
              continue;
            }
            if (dat && r.cur % 97 == 0) fprintf(dat, "%" PRIX64 " %zu %" PRIX64 " %s - %s\n", start, n, c.flags, hexs(d, n).c_str(), out.empty() ? "-" : hexs(out).c_str());
            report_dump(r, c, out, start >= ((uint64_t)1 << 32) ? "start >= 2^32" : "start < 2^32");
          }
        }
      }
      free(d);
    }
  }
  if (dat) fclose(dat);
  // large buffers that collapse to a few lines
  vector<size_t> bigs = {4096 + 3, 65536 + 17, ((size_t)1 << 20) + 5};
  if (r.thorough()) bigs.push_back(((size_t)16 << 20) + 9);
  for (size_t n : bigs) {
    for (int pattern : {4, 5}) {
      for (int where = 0; where < 4; where++) {
        for (uint64_t extra : {(uint64_t)0, (uint64_t)PrintDataFlags::PRINT_ASCII | PrintDataFlags::OFFSET_16_BITS}) {
          if (!r.take()) continue;
          uint64_t start = where == 0 ? 0 : where == 1 ? 7 : where == 2 ? ((uint64_t)1 << 32) - n / 2 : (uint64_t)0 - n;
          vector<uint8_t> src = dump_data(pattern, n);
          uint8_t* d = (uint8_t*)malloc(n);
          memcpy(d, src.data(), n);
          DumpCase c{d, nullptr, n, start, PrintDataFlags::COLLAPSE_ZERO_LINES | extra};
          if (r.wants_desc()) r.desc(vf::fmt("format_data(%zu bytes, all zero except the first and last 16%s, start=0x%" PRIX64 ", flags=0x%04" PRIX64 ")", n, pattern == 5 ? " and one in the middle" : "", start, c.flags));
          r.nontriv();
          string out, what;
          string oc = vf::outcome([&] { out = format_data((const void*)d, (uint64_t)n, start, nullptr, c.flags); }, &what);
          if (oc != "ok") r.fail("format_data:throws", [&] { return vf::fmt("%zu bytes at 0x%" PRIX64 " threw ", n, start) + oc + " (" + what + ")"; });
          else {
            string res = check_dump(c, out);
            if (res.empty()) r.ok("large collapsing buffer");
            else {
              size_t tab = res.find('\t');
              r.fail(res.substr(0, tab), [&] { return vf::fmt("format_data(%zu bytes, zeros between the ends, start=0x%" PRIX64 ", flags=0x%04" PRIX64 "): ", n, start, c.flags) + res.substr(tab + 1) + "\n--- output ---\n" + out.substr(0, 600); });
            }
          }
          free(d);
        }
      }
    }
  }
  r.bound = string("format_data: start addresses 2^k-1, 2^k, 2^k+1 for k = 4..63 and 2^64-size-{0,1,15,16,17} x sizes {1,2,15,16,17,31,32,33,48") + (r.thorough() ? ",3,14,18,30,34,47,49,64,65" : "") + "} x {no OFFSET flag, OFFSET_8/16/32/64} x 4 column sets x {mixed, zero} pattern; buffers of 4 Ki + 3, 64 Ki + 17, 1 Mi + 5" + (r.thorough() ? ", 16 Mi + 9" : "") + " bytes that are zero between the first and last line (optionally one byte in the middle) with COLLAPSE_ZERO_LINES at start 0, 7, across 2^32 and ending at 2^64; every 97th grid dump is also decoded by the Python dump parser";
}

// =====================================================================================================

VF_SECTION(files, 1, 1, 120) {
  r.note("parse_data_string(ALLOW_FILES)");
  bool exact = ExactStr::selftest();
  ScratchDir sd("r2files");
  struct NamedFile {
    const char* name;
    string content;
  };
  string big(70000, '\0');
  for (size_t i = 0; i < big.size(); i++) big[i] = (char)((i * 131 + 7) & 0xFF);
  const NamedFile FILES[] = {{"x", string("\x01\xFE?\"", 4)}, {"e", ""}, {"big", big}, {"sp ace", "S P"}, {"y", string("\x00\xFF", 2)}, {"xy", "WRONG"}, {"#1", "hash"}};
  for (const NamedFile& nf : FILES) {
    FILE* f = fopen(nf.name, "wb");
    if (f) {
      fwrite(nf.content.data(), 1, nf.content.size(), f);
      fclose(f);
    }
  }
  auto hex_of = [](const string& bytes) {
    string t;
    for (unsigned char b : bytes) t += vf::fmt("%02X", b);
    return " " + t + " ";
  };
  // text -> the same text with every top-level <name> replaced by the hex pairs of the file (what the construct is documented to
  // mean: "stick that file into the buffer"); texts where < occurs inside a string or comment stay unchanged
  struct FT {
    string text, substituted;
  };
  auto F = [&](const char* name) {
    for (const NamedFile& nf : FILES)
      if (!strcmp(nf.name, name)) return hex_of(nf.content);
    return string("??");
  };
  vector<FT> texts = {
      {"<x>", F("x")},
      {"<e>", F("e")},
      {"<big>", F("big")},
      {"<sp ace>", F("sp ace")},
      {"<x><y>", F("x") + F("y")},
      {"<y> <x> <y>", F("y") + F("x") + F("y")},
      {"<x><e><x>", F("x") + F("e") + F("x")},
      {"00 <x> ff", "00" + F("x") + "ff"},
      {"?<x>?7f", "?" + F("x") + "?7f"},
      {"?<x><y>? <y>", "?" + F("x") + F("y") + "?" + F("y")},
      {"$<y>##258 <y>", "$" + F("y") + "##258" + F("y")},
      {"##258<x>", "##258" + F("x")},
      {"%1.5<y>%%2.5", "%1.5" + F("y") + "%%2.5"},
      {"'ab'<y>\"cd\"", "'ab'" + F("y") + "\"cd\""},
      {"<#1>", F("#1")},
      {"\"<x>\"", "\"<x>\""},
      {"'<x>'", "'<x>'"},
      {"// <x>\n00", "// <x>\n00"},
      {"/* <x> */ 01", "/* <x> */ 01"},
      {"<big> 00 <big>", F("big") + "00" + F("big")},
  };
  auto judge = [&](const FT& ft, const string& data, const string& mask) -> string {
    Eval e = ref_eval(ft.substituted);
    if (e.dontcare) return fail2("harness:file-reference", "reference text is outside the documented syntax: " + string(e.why));
    if (data != e.data) return fail2("parse_data_string:file-construct", "parse_data_string(" + vf::show(ft.text) + ", ALLOW_FILES) == " + abbrev_hex(data, 40) + vf::fmt(" (%zu bytes), the files and constructs define ", data.size()) + abbrev_hex(e.data, 40) + vf::fmt(" (%zu bytes)", e.data.size()));
    if (mask != e.mask) return fail2("parse_data_string:file-construct", "parse_data_string(" + vf::show(ft.text) + ", ALLOW_FILES) mask == " + abbrev_hex(mask, 40) + ", expected " + abbrev_hex(e.mask, 40));
    return "";
  };
  auto report = [&](const string& res, const char* okclass) {
    if (res.empty()) {
      r.ok(okclass);
      return;
    }
    size_t tab = res.find('\t');
    r.fail(res.substr(0, tab), [&] { return res.substr(tab + 1); });
  };
  // single calls, with and without the flag
  for (const FT& ft : texts) {
    for (int allow = 0; allow < 2; allow++) {
      if (!r.take()) continue;
      if (r.wants_desc()) r.desc("parse_data_string(" + vf::show(ft.text) + (allow ? ", ALLOW_FILES)" : ", flags=0)"));
      r.nontriv();
      Parsed p = run_parser(ft.text, exact, allow ? (uint64_t)phosg::ParseDataFlags::ALLOW_FILES : 0, true, r.ambient_errno());
      if (p.oc != "ok" || p.oc2 != "ok") report(fail2("parse_data_string:throws", "parse_data_string(" + vf::show(ft.text) + vf::fmt(", allow=%d) threw ", allow) + p.oc + "/" + p.oc2 + " (" + p.what + ")"), "");
      else if (p.data != p.data_nomask) report(fail2("parse_data_string:mask-pointer-changes-data", "parse_data_string(" + vf::show(ft.text) + ") differs with / without a mask pointer"), "");
      else if (allow) report(judge(ft, p.data, p.mask), "file construct with ALLOW_FILES");
      else {
        // without the flag no file may be read: none of the (>= 3-byte) file contents may show up
        bool leaked = false;
        for (const NamedFile& nf : FILES)
          if (nf.content.size() >= 3 && ft.text.find(string("<") + nf.name + ">") != string::npos && ft.text.find('"') == string::npos && p.data.find(nf.content) != string::npos) leaked = true;
        if (leaked) report(fail2("parse_data_string:reads-file-without-flag", "parse_data_string(" + vf::show(ft.text) + ", flags=0) returned file content: " + abbrev_hex(p.data, 40)), "");
        else if (ft.text == ft.substituted) {
          Eval e = ref_eval(ft.text);
          if (!e.dontcare && (p.data != e.data || p.mask != e.mask)) report(fail2("parse_data_string:wrong-bytes", "parse_data_string(" + vf::show(ft.text) + ") == " + hexs(p.data) + ", documented syntax defines " + hexs(e.data)), "");
          else r.ok("< inside a string or comment");
        } else r.ok("file construct ignored without ALLOW_FILES");
      }
    }
  }
  // ordered pairs of calls (first 14 texts): the second call must not see anything of the first (file name, mask, endianness)
  for (size_t a = 0; a < 14; a++) {
    for (size_t b = 0; b < 14; b++) {
      if (!r.take()) continue;
      if (r.wants_desc()) r.desc("parse_data_string(" + vf::show(texts[a].text) + ", ALLOW_FILES) then parse_data_string(" + vf::show(texts[b].text) + ", ALLOW_FILES) with one mask object");
      r.nontriv();
      string mask = "stale", res;
      for (size_t which : {a, b}) {
        string data, what;
        ExactStr es(texts[which].text);
        string oc = vf::outcome([&] { data = phosg::parse_data_string(exact ? es.str() : texts[which].text, &mask, phosg::ParseDataFlags::ALLOW_FILES); }, &what);
        if (oc != "ok") res = fail2("parse_data_string:throws", "parse_data_string(" + vf::show(texts[which].text) + ", ALLOW_FILES) threw " + oc + " (" + what + ")");
        else res = judge(texts[which], data, mask);
        if (!res.empty()) break;
      }
      report(res, "two calls with file constructs");
    }
  }
  // outcomes that are not settled by the statement: executed only (no crash, no hang)
  vector<string> loose = {"<missing>", "<x", "<", "<>", "00 <x", "<x\n>", "4<x>1"};
  for (size_t len : {255, 256, 257, 4096, 70000}) {
    loose.push_back("<" + string(len, 'n') + ">");  // a name longer than any file-name limit (the file does not exist)
    loose.push_back("00 <" + string(len, 'n'));     // ... and never closed
  }
  for (const string& t : loose) {
    if (!r.take()) continue;
    if (r.wants_desc()) r.desc("parse_data_string(" + abbrev(t) + ", ALLOW_FILES) [executed, not compared]");
    string data, mask;
    ExactStr es(t);
    string oc = vf::outcome([&] { data = phosg::parse_data_string(exact ? es.str() : t, &mask, phosg::ParseDataFlags::ALLOW_FILES); });
    r.ok("dont-care: malformed or missing file (" + oc + ")");
  }
  for (const NamedFile& nf : FILES) unlink(nf.name);
  r.bound = "parse_data_string with ALLOW_FILES on real files (4-byte, empty, 70 000-byte, name with a blank, name starting with #) in a private directory: 20 texts with one to three file constructs next to hex pairs, ? toggles, $ numbers, floats and strings, and < inside strings and comments, each with and without the flag and with and without a mask pointer; every ordered pair of the first 14 texts as two calls sharing one mask object; expected bytes = reference evaluator on the text with each top-level <name> replaced by the file's bytes";
}
