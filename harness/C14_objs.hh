// C14 round 2 — template forms (readx<T>/preadx<T>/freadx<T>, load/save_object_file, load/save_vector_file), the write
// side as a cooperating site (writex/pwritex/fwritex round trips, save_file with short writes, save_file over an existing
// file), call sequences on different sources (state carried between calls), calls made in exceptional contexts.
// Included by C14.cc after C14_hist.hh.
#pragma once

namespace {

struct __attribute__((packed)) P3 { uint8_t b[3]; };
struct __attribute__((packed)) S12 { uint32_t a; uint64_t b; };
static_assert(sizeof(P3) == 3 && sizeof(S12) == 12);

template <class T> const char* tname();
template <> const char* tname<uint8_t>() { return "uint8_t"; }
template <> const char* tname<int8_t>() { return "int8_t"; }
template <> const char* tname<int16_t>() { return "int16_t"; }
template <> const char* tname<uint16_t>() { return "uint16_t"; }
template <> const char* tname<int32_t>() { return "int32_t"; }
template <> const char* tname<uint32_t>() { return "uint32_t"; }
template <> const char* tname<int64_t>() { return "int64_t"; }
template <> const char* tname<uint64_t>() { return "uint64_t"; }
template <> const char* tname<P3>() { return "3-byte struct"; }
template <> const char* tname<S12>() { return "12-byte struct"; }

template <class T> std::string bytes_of(const T& t) { return std::string((const char*)&t, sizeof(T)); }

enum TFn { TF_READX, TF_READX_PIPE, TF_PREADX0, TF_PREADX1, TF_PREADX_FAR, TF_FREADX, TF_LOADOBJ_DEFAULT, TF_LOADOBJ_STRICT, TF_LOADOBJ_OVERSIZE, TF_LOADVEC, NTFN };
const char* tfn_name[] = {"readx<T>(fd) on a regular file", "readx<T>(fd) on a real pipe written byte by byte", "preadx<T>(fd,0)", "preadx<T>(fd,1)", "preadx<T>(fd,2^32)", "freadx<T>(FILE*) on a cookie stream", "load_object_file<T>(path)", "load_object_file<T>(path,false)", "load_object_file<T>(path,true)", "load_vector_file<T>(path)"};

// one execution of a typed read; "" or failure text (+ *key)
template <class T>
std::string run_typed(TFn fn, const std::string& d, const std::string& path, std::string* key) {
  const size_t sz = sizeof(T), n = d.size();
  g_src = Source();
  g_src.size = n;
  g_src.small = true;
  int fd = -1;
  Cookie ck;
  FILE* f = nullptr;
  size_t off = fn == TF_PREADX1 ? 1 : 0;
  if (fn == TF_READX || fn == TF_PREADX0 || fn == TF_PREADX1 || fn == TF_PREADX_FAR) { fd = __real_open(path.c_str(), O_RDONLY); g_src.fd = fd; }
  else if (fn == TF_READX_PIPE) {
    int p[2];
    if (::pipe(p)) { perror("pipe"); _exit(3); }
    fcntl(p[1], F_SETFL, fcntl(p[1], F_GETFL) | O_NONBLOCK);
    fd = p[0];
    g_src.fd = fd;
    g_src.pipe = true;
    g_src.wfd = p[1];
    for (size_t i = 0; i < n; i++) g_src.chunks.push_back(d.substr(i, 1));
    if (!n) { __real_close(p[1]); g_src.wfd = -1; }
  } else if (fn == TF_FREADX) { ck.data = d; ck.choices = true; f = open_cookie(&ck); }
  else g_src.path = path;
  g_src.active = fn != TF_FREADX;
  std::string got, what;
  size_t count = 1;
  std::string out = vf::outcome([&] {
    switch (fn) {
      case TF_READX:
      case TF_READX_PIPE: got = bytes_of(readx<T>(fd)); break;
      case TF_PREADX0:
      case TF_PREADX1: got = bytes_of(preadx<T>(fd, (off_t)off)); break;
      case TF_PREADX_FAR: got = bytes_of(preadx<T>(fd, (off_t)1 << 32)); break;
      case TF_FREADX: got = bytes_of(freadx<T>(f)); break;
      case TF_LOADOBJ_DEFAULT: got = bytes_of(load_object_file<T>(path)); break;
      case TF_LOADOBJ_STRICT: got = bytes_of(load_object_file<T>(path, false)); break;
      case TF_LOADOBJ_OVERSIZE: got = bytes_of(load_object_file<T>(path, true)); break;
      case TF_LOADVEC: { std::vector<T> v = load_vector_file<T>(path); count = v.size(); got.assign((const char*)v.data(), v.size() * sz); break; }
      default: break;
    }
  }, &what);
  bool disturbed = g_src.error_used || g_env.deviations() != 0;
  g_src.active = false;
  if (g_src.wfd >= 0) { __real_close(g_src.wfd); g_src.wfd = -1; }
  if (fd >= 0) __real_close(fd);
  if (f) fclose(f);
  auto bad = [&](const char* k, const std::string& why) { *key = k; return why; };
  if (out != "ok" && out != "runtime_error") return bad("typed:unexpected-exception-type", "threw " + out + " (" + what + ")");
  bool loadobj = fn == TF_LOADOBJ_DEFAULT || fn == TF_LOADOBJ_STRICT || fn == TF_LOADOBJ_OVERSIZE;
  if (fn == TF_LOADVEC) {
    if (out == "ok") {
      if (count * sz > n || got != d.substr(0, count * sz)) return bad("load_vector_file:items-are-not-the-file-bytes", vf::fmt("returned %zu items ", count) + brief(got) + ", the file holds " + brief(d));
      if (n % sz == 0 && count * sz != n) return bad("load_vector_file:silent-truncation", vf::fmt("returned %zu items of %zu bytes from a %zu-byte file", count, sz, n));
    } else if (!disturbed && n % sz == 0) return bad("load_vector_file:throws-on-undisturbed-delivery", "threw (" + what + ") on a file of a whole number of items read without any short read");
    return "";
  }
  size_t avail = fn == TF_PREADX_FAR ? 0 : n >= off ? n - off : 0;
  if (out == "ok") {
    if (avail < sz) return bad(loadobj ? "load_object_file:short-file-accepted" : "typed:exact-read-beyond-eof-succeeds", vf::fmt("only %zu bytes are available for a %zu-byte object, yet the call returned ", avail, sz) + brief(got));
    if (got != d.substr(off, sz)) return bad(loadobj ? "load_object_file:wrong-bytes" : "typed:silent-truncation-or-padding", "returned " + brief(got) + ", the source holds " + brief(d.substr(off, sz)));
    if ((fn == TF_LOADOBJ_DEFAULT || fn == TF_LOADOBJ_STRICT) && n > sz) return bad("load_object_file:oversize-file-silently-truncated", vf::fmt("a %zu-byte file was accepted for a %zu-byte object although allow_oversize is false", n, sz));
  } else if (!disturbed) {
    bool must_succeed = loadobj ? (n == sz || (fn == TF_LOADOBJ_OVERSIZE && n >= sz)) : avail >= sz;
    if (must_succeed) return bad(loadobj ? "load_object_file:throws-on-undisturbed-delivery" : "typed:throws-on-undisturbed-delivery", "threw (" + what + ") although the bytes were all there and every read was answered in full");
  }
  return "";
}

template <class T>
void typed_cases(vf::Run& r, const std::string& dir) {
  const size_t sz = sizeof(T);
  std::set<size_t> sizes = {0, sz - 1, sz, sz + 1, 2 * sz, 2 * sz + 1, 3 * sz};
  for (size_t n : sizes) {
    for (int pat = 0; pat < 3; pat++) {
      // byte patterns: distinct non-zero bytes / all FF (-1 for signed T) / 80 00 .. 00 7F (sign-bit lanes, embedded zeros)
      std::string d = content(n);
      if (pat == 1) d.assign(n, (char)0xFF);
      if (pat == 2) for (size_t i = 0; i < n; i++) d[i] = (char)(i % sz == 0 ? 0x80 : i % sz == sz - 1 ? 0x7F : 0x00);
      if (pat && n == 0) continue;
      std::string path = dir + "/typed.bin";
      bool written = false;
      for (int fn = 0; fn < NTFN; fn++) {
        if (!r.take()) continue;
        if (!written) { write_real(path, d); written = true; }
        r.note(std::string(tfn_name[fn]) + " T=" + tname<T>());
        std::string cd = vf::fmt("%s with T = %s (%zu bytes) on a %zu-byte source (byte pattern %d); every delivery plan", tfn_name[fn], tname<T>(), sz, n, pat);
        if (r.wants_desc()) r.desc(cd);
        std::string key;
        auto st = vfe::explore(g_env, [&] { r.beat(); key.clear(); r.poison_errno(); return run_typed<T>((TFn)fn, d, path, &key); }, -1, 500000);
        r.transitions += st.choice_points;
        r.states += st.executions;
        r.counters["executions"] += st.executions;
        if (!st.complete && st.failure.empty()) r.exhaustive = false;
        if (st.executions > 1) r.nontriv();
        if (!st.failure.empty()) r.fail(key.empty() ? "typed:engine-or-horizon" : key, [&] { return cd + " :: " + st.failure + " :: plan = [ " + st.failing_trace + "]"; });
        else r.ok(n < sz ? "source-too-short" : n == sz ? "exact-size" : "oversize");
      }
    }
  }
}

// raw read-back of a file, independent of phosg
std::string slurp(const std::string& p) {
  std::string raw;
  int fd = __real_open(p.c_str(), O_RDONLY);
  char buf[65536];
  ssize_t k;
  while (fd >= 0 && (k = __real_read(fd, buf, sizeof(buf))) > 0) raw.append(buf, k);
  if (fd >= 0) __real_close(fd);
  return raw;
}

// write-side round trips in an undisturbed environment (every write accepted in full)
template <class T>
void writer_cases(vf::Run& r, const std::string& dir) {
  const size_t sz = sizeof(T);
  for (int pat = 0; pat < 3; pat++) {
    std::string vb = content(sz + 3).substr(3);
    if (pat == 1) vb.assign(sz, (char)0xFF);
    if (pat == 2) for (size_t i = 0; i < sz; i++) vb[i] = (char)(i == 0 ? 0x80 : i == sz - 1 ? 0x7F : 0x00);
    T v;
    memcpy(&v, vb.data(), sz);
    std::string p = dir + "/w.bin";
    for (int form = 0; form < 6; form++) {
      if (!r.take()) continue;
      static const char* form_name[] = {"writex<T> into a pipe, readx<T> back", "pwritex<T>(fd,v,off) then preadx<T>(fd,off), off in {0,1,5}", "fwritex<T> x3 to a file stream, load_file", "save_object_file<T> then load_object_file<T> (default/false/true)", "save_vector_file<T> (0,1,3,1000 items) then load_vector_file<T>", "writex(fd,string) + writex(fd,ptr,size) into a file, fwritex(string/ptr) likewise, pwritex(string/ptr)"};
      r.note(std::string("write side: ") + form_name[form]);
      if (r.wants_desc()) r.desc(vf::fmt("%s, T = %s, value bytes %s", form_name[form], tname<T>(), vf::show(vb).c_str()));
      r.nontriv();
      std::string why, what;
      std::string out = vf::outcome([&] {
        switch (form) {
          case 0: {
            int pp[2];
            if (::pipe(pp)) { perror("pipe"); _exit(3); }
            scoped_fd rd(pp[0]), wr(pp[1]);
            writex<T>(wr, v);
            writex<T>(wr, v);
            wr.close();
            T a = readx<T>(rd), b = readx<T>(rd);
            if (bytes_of(a) != vb || bytes_of(b) != vb) why = "read back " + brief(bytes_of(a)) + " and " + brief(bytes_of(b));
            else if (!read_all(rd).empty()) why = "more bytes than were written arrived";
            break;
          }
          case 1: {
            for (off_t off : {0, 1, 5}) {
              write_real(p, std::string(20, 'q'));
              scoped_fd fd(p, O_RDWR);
              pwritex<T>(fd, v, off);
              T a = preadx<T>(fd, off);
              std::string want = std::string(20, 'q');
              want.resize(std::max<size_t>(20, off + sz), 'q');
              want.replace(off, sz, vb);
              if (bytes_of(a) != vb) why = vf::fmt("offset %ld: preadx<T> returned ", (long)off) + brief(bytes_of(a));
              else if (slurp(p) != want) why = vf::fmt("offset %ld: the file holds ", (long)off) + brief(slurp(p)) + ", expected " + brief(want);
              else if (lseek(fd, 0, SEEK_CUR) != 0) why = "pwritex/preadx moved the descriptor offset";
            }
            break;
          }
          case 2: {
            {
              auto f = fopen_unique(p, "w");
              fwritex<T>(f.get(), v);
              fwritex<T>(f.get(), v);
              fwritex<T>(f.get(), v);
            }
            std::string got = load_file(p);
            if (got != vb + vb + vb) why = "the file holds " + brief(got);
            else {
              auto f = fopen_unique(p);
              T a = freadx<T>(f.get());
              if (bytes_of(a) != vb) why = "freadx<T> returned " + brief(bytes_of(a));
            }
            break;
          }
          case 3: {
            write_real(p, std::string(40, 'q'));  // an existing, longer file must be replaced
            save_object_file<T>(p, v);
            if (slurp(p) != vb) { why = "the file holds " + brief(slurp(p)); break; }
            T a = load_object_file<T>(p), b = load_object_file<T>(p, false), c = load_object_file<T>(p, true);
            if (bytes_of(a) != vb || bytes_of(b) != vb || bytes_of(c) != vb) why = "loaded " + brief(bytes_of(a)) + " / " + brief(bytes_of(b)) + " / " + brief(bytes_of(c));
            break;
          }
          case 4: {
            for (size_t k : {1000, 0, 1, 3}) {  // larger first: the next one must not inherit the tail
              std::vector<T> vec(k, v);
              if (k) memset(&vec[k / 2], 0x11, sz);
              save_vector_file<T>(p, vec);
              std::string want((const char*)vec.data(), k * sz);
              if (slurp(p) != want) { why = vf::fmt("%zu items: the file holds %zu bytes", k, slurp(p).size()); break; }
              std::vector<T> back = load_vector_file<T>(p);
              if (back.size() != k || std::string((const char*)back.data(), back.size() * sz) != want) { why = vf::fmt("%zu items: loaded %zu items", k, back.size()); break; }
            }
            break;
          }
          case 5: {
            std::string a = content(300).substr(0, 257), b = vb;
            {
              scoped_fd fd(p.c_str(), O_CREAT | O_TRUNC | O_WRONLY, 0644);
              writex(fd, a);
              writex(fd, b.data(), b.size());
              writex(fd, std::string());
            }
            if (slurp(p) != a + b) { why = "writex: the file holds " + brief(slurp(p)); break; }
            {
              auto f = fopen_shared(p, "w");
              fwritex(f.get(), b);
              fwritex(f.get(), a.data(), a.size());
              fwritex(f.get(), std::string());
            }
            if (slurp(p) != b + a) { why = "fwritex: the file holds " + brief(slurp(p)); break; }
            {
              scoped_fd fd(p, O_RDWR);
              pwritex(fd, std::string("XY"), 1);
              pwritex(fd, "Z", 1, (off_t)(b.size() + a.size()));
            }
            std::string want = b + a + "Z";
            want.replace(1, 2, "XY");
            if (slurp(p) != want) why = "pwritex: the file holds " + brief(slurp(p)) + ", expected " + brief(want);
            break;
          }
        }
      }, &what);
      if (out != "ok") r.fail("write-side:roundtrip-throws", [&] { return vf::fmt("%s, T = %s: threw %s (%s)", form_name[form], tname<T>(), out.c_str(), what.c_str()); });
      else if (!why.empty()) r.fail("write-side:roundtrip", [&] { return vf::fmt("%s, T = %s, value bytes %s: %s", form_name[form], tname<T>(), vf::show(vb).c_str(), why.c_str()); });
      else r.ok("roundtrip");
      ::unlink(p.c_str());
    }
  }
}

}  // namespace

VF_SECTION(typed_forms, 8, 8, 240) {
  std::string dir = scratch_dir(r, "typed");
  typed_cases<uint8_t>(r, dir);
  typed_cases<int16_t>(r, dir);
  typed_cases<uint32_t>(r, dir);
  typed_cases<int64_t>(r, dir);
  typed_cases<P3>(r, dir);
  typed_cases<S12>(r, dir);
  writer_cases<int8_t>(r, dir);
  writer_cases<uint16_t>(r, dir);
  writer_cases<int32_t>(r, dir);
  writer_cases<uint64_t>(r, dir);
  writer_cases<P3>(r, dir);
  writer_cases<S12>(r, dir);
  rm_rf(dir);
  r.bound = "T in {uint8_t,int16_t,uint32_t,int64_t,3-byte struct,12-byte struct} x source sizes {0,s-1,s,s+1,2s,2s+1,3s} x 3 byte patterns x 10 typed read forms, every delivery plan (all chunk sizes, one EINTR); write side: 6 round-trip forms x 6 types x 3 values in an undisturbed environment";
}

// ---- save_file: both overloads, over an existing file, ambient errno, short writes -------------------------------------------

namespace {

std::string run_save_short(const std::string& p, const std::string& d, int overload, std::string* key) {
  g_sink = Sink();
  g_sink.path = p;
  g_sink.active = true;
  std::string what;
  std::string out = vf::outcome([&] { if (overload) save_file(p, d.data(), d.size()); else save_file(p, d); }, &what);
  bool deviated = g_sink.deviated;
  g_sink.active = false;
  if (out != "ok" && out != "runtime_error") { *key = "save_file:unexpected-exception-type"; return "threw " + out + " (" + what + ")"; }
  if (out == "ok") {
    std::string raw = slurp(p);
    if (raw != d) { *key = "save_file:returns-normally-after-short-write"; return vf::fmt("save_file returned normally but the file holds %zu of %zu bytes: ", raw.size(), d.size()) + brief(raw); }
    std::string got, o2 = vf::outcome([&] { got = load_file(p); }, &what);
    if (o2 != "ok" || got != d) { *key = "load_file(save_file):roundtrip"; return "load_file after save_file: " + o2 + " " + brief(got); }
  } else if (!deviated) { *key = "save_file:throws-on-undisturbed-write"; return "threw (" + what + ") although the write was accepted in full"; }
  return "";
}

}  // namespace

VF_SECTION(file_states, 8, 8, 240) {
  std::string dir = scratch_dir(r, "fst");
  std::string p = dir + "/f.bin";
  static const int kErr[] = {0, EINTR, ENOENT, EAGAIN, ERANGE};
  std::vector<size_t> sizes = {0, 1, 2, 255, 256, 4096, 4097, 70000};
  if (r.thorough()) for (size_t n : {3, 257, 16384, 16385, 65536, 204800}) sizes.push_back(n);
  // (a) every ordered pair of sizes: the second save_file meets the file left by the first
  for (size_t a : sizes) for (size_t b : sizes) for (int arrangement = 0; arrangement < 2; arrangement++) for (int e : kErr) {
    if (!r.take()) continue;
    r.note("save_file over an existing file");
    if (r.wants_desc()) r.desc(vf::fmt("save_file(%s) of %zu bytes, then save_file(%s) of %zu bytes to the same path, load_file; errno=%d before each call", arrangement ? "ptr,size" : "string", a, arrangement ? "string" : "ptr,size", b, e));
    std::string da = content_lines(a, 1), db = content_lines(b, 2);
    if (b > 2) { db[1] = 0; db[b - 1] = (char)0xFF; }
    ::unlink(p.c_str());
    std::string got1, got2, what, out = vf::outcome([&] {
      errno = e;
      if (arrangement) save_file(p, da.data(), da.size()); else save_file(p, da);
      errno = e;
      got1 = load_file(p);
      errno = e;
      if (arrangement) save_file(p, db); else save_file(p, db.data(), db.size());
      errno = e;
      got2 = load_file(p);
    }, &what);
    std::string raw = slurp(p);
    r.nontriv();
    if (out != "ok") r.fail("save_file/load_file:throws", [&] { return vf::fmt("|d1|=%zu then |d2|=%zu, errno=%d: threw %s (%s)", a, b, e, out.c_str(), what.c_str()); });
    else if (got1 != da) r.fail("load_file:content", [&] { return vf::fmt("|d1|=%zu, errno=%d: load_file returned %s", a, e, brief(got1).c_str()); });
    else if (raw != db) r.fail("save_file:file-content-after-overwrite", [&] { return vf::fmt("a %zu-byte file overwritten by save_file with %zu bytes holds %zu bytes: %s", a, b, raw.size(), brief(raw).c_str()); });
    else if (got2 != db) r.fail("load_file:content", [&] { return vf::fmt("|d2|=%zu after |d1|=%zu, errno=%d: load_file returned %s", b, a, e, brief(got2).c_str()); });
    else r.ok(a > b ? "larger-then-smaller" : a < b ? "smaller-then-larger" : "same-size");
  }
  // (b) short writes: each write() on the file may accept {all, 1, half, all-1, 0} bytes or fail (EINTR, ENOSPC)
  for (size_t n : sizes) for (int overload = 0; overload < 2; overload++) {
    if (!r.take()) continue;
    r.note("save_file with short writes");
    std::string d = content_lines(n, 3);
    std::string cd = vf::fmt("save_file(%s) of %zu bytes; every write() answer in {all,1,half,all-1,0,EINTR,ENOSPC}", overload ? "ptr,size" : "string", n);
    if (r.wants_desc()) r.desc(cd);
    std::string key;
    auto st = vfe::explore(g_env, [&] { r.beat(); key.clear(); r.poison_errno(); ::unlink(p.c_str()); return run_save_short(p, d, overload, &key); }, 3, 100000);
    r.states += st.executions;
    r.transitions += st.choice_points;
    r.counters["executions"] += st.executions;
    if (st.executions > 1) r.nontriv();
    if (!st.failure.empty()) r.fail(key.empty() ? "save_file:engine-or-horizon" : key, [&] { return cd + " :: " + st.failure + " :: write plan = [ " + st.failing_trace + "]"; });
    else r.ok("short-write-plans");
  }
  // (c) writex with short writes: outside the statement (write side) - executed only
  for (size_t n : {(size_t)0, (size_t)1, (size_t)10, (size_t)5000}) {
    if (!r.take()) continue;
    r.note("writex with short writes (executed, not compared)");
    std::string d = content_lines(n, 4);
    if (r.wants_desc()) r.desc(vf::fmt("writex(fd,string) of %zu bytes with short-write answers: executed, not compared (the statement covers the read side)", n));
    std::map<std::string, int> outcomes;
    auto st = vfe::explore(g_env, [&] {
      g_sink = Sink();
      g_sink.path = p;
      g_sink.active = true;
      std::string out = vf::outcome([&] { scoped_fd fd(p, O_CREAT | O_TRUNC | O_WRONLY, 0644); writex(fd, d); });
      g_sink.active = false;
      outcomes[out]++;
      return std::string();
    }, 2, 10000);
    r.states += st.executions;
    for (auto& [k, v] : outcomes) r.counters["writex-short-write-outcome-" + k] += v;
    r.ok("dont-care:writex-short-writes");
  }
  ::unlink(p.c_str());
  rm_rf(dir);
  r.bound = vf::fmt("every ordered pair of %zu sizes x 2 overload orders x 5 ambient errno values; short-write plans for %zu sizes x 2 overloads", sizes.size(), sizes.size());
}

// ---- the same function on different sources, back to back (state carried between calls) -------------------------------------

namespace {

enum CPFn { CP_READ_ALL_FD, CP_READ_ALL_FILE, CP_READ, CP_FREAD, CP_READX, CP_FREADX, CP_PREADX, CP_LOAD_FILE, CP_SAVE_LOAD, CP_FGETS, CP_LIST_DIR, CP_PATHS, NCPFN };
const char* cpfn_name[] = {"read_all(fd)", "read_all(FILE*)", "read(fd,n)", "fread(FILE*,n)", "readx(fd,n)", "freadx(FILE*,n)", "preadx(fd,n-1,1)", "load_file", "save_file+load_file (one path)", "fgets (line of the size class, then a short line)", "list_directory(+sorted)", "dirname/basename"};

}  // namespace

VF_SECTION(call_sequences, 8, 8, 240) {
  std::string dir = scratch_dir(r, "seq");
  const std::vector<size_t> sizes = {0, 1, 255, 256, 300, 16384, 16385, 40000};
  const size_t dirsizes[] = {0, 1, 3, 40, 2, 0, 7, 1};
  static const int kErr[] = {0, EINTR, ERANGE, EAGAIN};
  std::vector<std::string> data, paths, dirs;
  std::vector<std::set<std::string>> dirnames;
  bool prepared = false;
  auto prepare = [&] {
    if (prepared) return;
    prepared = true;
    for (size_t i = 0; i < sizes.size(); i++) {
      data.push_back(content_lines(sizes[i], (unsigned)i + 1));
      // fgets: the first line is the whole content when there is no newline; make line lengths equal the size class
      paths.push_back(dir + vf::fmt("/p%zu.bin", i));
      write_real(paths[i], data[i]);
      dirs.push_back(dir + vf::fmt("/d%zu", i));
      mkdir(dirs[i].c_str(), 0755);
      std::set<std::string> names;
      for (size_t k = 0; k < dirsizes[i]; k++) { std::string nm = vf::fmt("e%zu_%zu", i, k) + std::string(k % 5 * 11, 'x'); names.insert(nm); write_real(dirs[i] + "/" + nm, "x"); }
      dirnames.push_back(names);
    }
  };
  // one call of function f on input i; "" or what went wrong
  auto call = [&](int f, size_t i, int e) -> std::string {
    const std::string& d = data[i];
    size_t n = d.size();
    std::string got, want = d, what, extra;
    std::string out = vf::outcome([&] {
      switch (f) {
        case CP_READ_ALL_FD: { scoped_fd fd(paths[i], O_RDONLY); errno = e; got = read_all(fd); break; }
        case CP_READ_ALL_FILE: { auto fl = fopen_unique(paths[i]); errno = e; got = read_all(fl.get()); break; }
        case CP_READ: { scoped_fd fd(paths[i].c_str(), O_RDONLY); errno = e; got = phosg::read(fd, n + 3); break; }
        case CP_FREAD: { auto fl = fopen_shared(paths[i]); errno = e; got = phosg::fread(fl.get(), n + 3); break; }
        case CP_READX: { scoped_fd fd(paths[i], O_RDONLY); errno = e; got = readx(fd, n); break; }
        case CP_FREADX: { auto fl = fopen_unique(paths[i], "r"); errno = e; got = freadx(fl.get(), n); break; }
        case CP_PREADX: { scoped_fd fd(paths[i], O_RDONLY); errno = e; got = preadx(fd, n ? n - 1 : 0, 1); want = n ? d.substr(1) : ""; break; }
        case CP_LOAD_FILE: errno = e; got = load_file(paths[i]); break;
        case CP_SAVE_LOAD: { std::string sp = dir + "/shared.bin"; errno = e; save_file(sp, d); errno = e; got = load_file(sp); break; }
        case CP_FGETS: {  // a line as long as the size class, then a short one
          std::string c2 = std::string(n, (char)('a' + i)) + "\ntail\n";
          auto fl = fmemopen_unique(c2.data(), c2.size());
          errno = e;
          got = phosg::fgets(fl.get());
          errno = e;
          std::string l2 = phosg::fgets(fl.get());
          want = c2.substr(0, n + 1);
          if (l2 != "tail\n") extra = vf::fmt("the line after the %zu-char line came back as %zu bytes", n, l2.size());
          break;
        }
        case CP_LIST_DIR: {
          errno = e;
          auto u = list_directory(dirs[i]);
          errno = e;
          auto v = list_directory_sorted(dirs[i]);
          if (std::set<std::string>(u.begin(), u.end()) != dirnames[i] || u.size() != dirnames[i].size()) extra = vf::fmt("list_directory returned %zu names, the directory holds %zu", u.size(), dirnames[i].size());
          else if (v != std::vector<std::string>(dirnames[i].begin(), dirnames[i].end())) extra = vf::fmt("list_directory_sorted returned %zu names (or a wrong order), the directory holds %zu", v.size(), dirnames[i].size());
          got = want = "";
          break;
        }
        case CP_PATHS: {
          std::string pth = paths[i] + "/" + std::string(sizes[i] % 700, 'n') + (i % 2 ? "/" : "");
          errno = e;
          std::string dn = dirname(pth);
          errno = e;
          std::string bn = basename(pth);
          if (dn + "/" + bn != pth || bn.find('/') != std::string::npos) extra = "dirname+'/'+basename of " + vf::show(pth) + " gives " + vf::show(dn + "/" + bn);
          got = want = "";
          break;
        }
      }
    }, &what);
    if (out != "ok") return "threw " + out + " (" + what + ")";
    if (!extra.empty()) return extra;
    if (got != want) return vf::fmt("returned %zu bytes ", got.size()) + brief(got) + vf::fmt(", expected %zu bytes ", want.size()) + brief(want);
    return "";
  };
  for (int f = 0; f < NCPFN; f++) for (size_t a = 0; a < sizes.size(); a++) for (size_t b = 0; b < sizes.size(); b++) for (int ei = 0; ei < 4; ei++) {
    if (!r.take()) continue;
    prepare();
    r.note(std::string("call sequence: ") + cpfn_name[f]);
    if (r.wants_desc()) r.desc(vf::fmt("%s on input #%zu (size class %zu), then on input #%zu (size class %zu), then on the first again; errno=%d before each call", cpfn_name[f], a, sizes[a], b, sizes[b], kErr[ei]));
    r.nontriv();
    std::string why;
    size_t seq[3] = {a, b, a};
    for (int k = 0; k < 3 && why.empty(); k++) {
      std::string w = call(f, seq[k], kErr[ei]);
      if (!w.empty()) why = vf::fmt("call %d of 3 (input #%zu, size class %zu): ", k + 1, seq[k], sizes[seq[k]]) + w;
    }
    if (!why.empty()) r.fail(std::string(cpfn_name[f]) + ":wrong-result-in-call-sequence", [&] { return vf::fmt("%s on inputs of size class %zu, %zu, %zu with errno=%d: %s", cpfn_name[f], sizes[a], sizes[b], sizes[a], kErr[ei], why.c_str()); });
    else r.ok(sizes[a] > sizes[b] ? "larger-smaller-larger" : sizes[a] < sizes[b] ? "smaller-larger-smaller" : "same-size-class");
  }
  rm_rf(dir);
  r.bound = "12 functions x every ordered pair (A,B) of 8 inputs of different size classes (0,1,255,256,300,16384,16385,40000) called as A,B,A x 4 ambient errno values";
}

// ---- calls made in exceptional contexts ------------------------------------------------------------------------------------------

namespace {
struct InDtor {
  std::function<void()> f;
  ~InDtor() { f(); }
};
enum Ctx { CTX_PLAIN, CTX_CATCH, CTX_UNWIND, CTX_NESTED, NCTX };
const char* ctx_name[] = {"plain call", "inside a catch handler", "inside a destructor during stack unwinding", "inside a destructor during unwinding started inside a catch handler"};
void in_context(int ctx, const std::function<void()>& f) {
  switch (ctx) {
    case CTX_PLAIN: f(); break;
    case CTX_CATCH: try { throw std::runtime_error("outer"); } catch (const std::exception&) { f(); } break;
    case CTX_UNWIND: try { InDtor g{f}; throw std::out_of_range("outer"); } catch (const std::exception&) {} break;
    case CTX_NESTED: try { throw std::runtime_error("outer"); } catch (const std::exception&) { try { InDtor g{f}; throw io_error(3, "inner"); } catch (const std::exception&) {} } break;
  }
}
}  // namespace

VF_SECTION(contexts, 4, 4, 240) {
  std::string dir = scratch_dir(r, "ctx");
  std::string p = dir + "/c.bin";
  const int NSCEN = 12;
  static const char* scen_name[NSCEN] = {"read_all(fd) 40000 bytes", "read_all(FILE*) 40000 bytes", "fgets on a 600-char line + rest", "readx exact / beyond EOF", "freadx exact / beyond EOF, fgetcx at EOF", "load_file(save_file(d)) 5000 bytes", "list_directory + unlink(recursive) of a 3-level tree", "scoped_fd open/re-open/move/close", "Poll add/add/remove/empty", "preadx exact / beyond EOF", "load_object_file exact / oversize", "read_all on a real pipe (fd and FILE*)"};
  for (int sc = 0; sc < NSCEN; sc++) for (int ctx = 0; ctx < NCTX; ctx++) {
    if (!r.take()) continue;
    r.note(std::string("context: ") + scen_name[sc]);
    if (r.wants_desc()) r.desc(vf::fmt("%s, %s", scen_name[sc], ctx_name[ctx]));
    r.nontriv();
    std::string why;
    bool ran = false;
    std::string d = content_lines(sc == 5 ? 5000 : 40000, 5);
    write_real(p, d);
    in_context(ctx, [&] {
      ran = true;
      std::string what;
      // everything thrown by the library inside the context must be catchable right here
      std::string out = vf::outcome([&] {
        switch (sc) {
          case 0: { scoped_fd fd(p, O_RDONLY); if (read_all(fd) != d) why = "wrong bytes"; break; }
          case 1: { auto f = fopen_unique(p); fgetcx(f.get()); if (read_all(f.get()) != d.substr(1)) why = "wrong bytes"; break; }
          case 2: {
            std::string c2 = std::string(600, 'L') + "\nrest\n";
            auto f = fmemopen_unique(c2.data(), c2.size());
            std::string l1 = phosg::fgets(f.get()), l2 = phosg::fgets(f.get()), l3 = phosg::fgets(f.get());
            if (l1.size() != 601 || l2 != "rest\n" || !l3.empty()) why = vf::fmt("lines of %zu, %zu, %zu bytes", l1.size(), l2.size(), l3.size());
            break;
          }
          case 3: {
            scoped_fd fd(p, O_RDONLY);
            if (readx(fd, 300) != d.substr(0, 300)) why = "wrong bytes";
            lseek(fd, -10, SEEK_END);
            if (vf::outcome([&] { readx(fd, 11); }) == "ok") why = "readx beyond EOF returned normally";
            break;
          }
          case 4: {
            auto f = fopen_unique(p);
            if (freadx(f.get(), d.size() - 1) != d.substr(0, d.size() - 1)) why = "wrong bytes";
            if (fgetcx(f.get()) != (uint8_t)d.back()) why = "wrong last byte";
            if (vf::outcome([&] { fgetcx(f.get()); }) == "ok") why = "fgetcx at EOF returned normally";
            if (vf::outcome([&] { freadx(f.get(), 1); }) == "ok") why = "freadx beyond EOF returned normally";
            break;
          }
          case 5: { std::string q = dir + "/s.bin"; save_file(q, d); if (load_file(q) != d) why = "wrong bytes"; break; }
          case 6: {
            std::string root = dir + "/t";
            mkdir(root.c_str(), 0755);
            mkdir((root + "/a").c_str(), 0755);
            mkdir((root + "/a/b").c_str(), 0755);
            write_real(root + "/a/b/f", "x");
            write_real(root + "/g", "y");
            auto names = list_directory(root);
            if (names.size() != 2 || !names.count("a") || !names.count("g")) why = "wrong names";
            phosg::unlink(root, true);
            if (exists_l(root)) why = "tree remains";
            break;
          }
          case 7: {
            g_fdlog = FdLog();
            g_fdlog.active = true;
            g_fdlog.path = p;
            {
              scoped_fd x(p, O_RDONLY);
              x.open(p.c_str(), O_RDONLY);
              scoped_fd y(std::move(x));
              x.open(p, O_RDONLY);
              y = std::move(x);
              if (g_fdlog.live.size() != 1) why = vf::fmt("%zu descriptors open while one object holds one", g_fdlog.live.size());
            }
            if (!g_fdlog.live.empty() || g_fdlog.double_close) why += vf::fmt(" %zu leaked, %d closed twice", g_fdlog.live.size(), g_fdlog.double_close);
            for (int fd : g_fdlog.live) __real_close(fd);
            g_fdlog.active = false;
            break;
          }
          case 8: {
            Poll pl;
            pl.add(0, POLLIN);
            pl.add(0, POLLOUT);
            pl.add(2, POLLOUT);
            pl.remove(0);
            if (pl.empty() || pl.poll_fds.size() != 1) why = "set is not {2}";
            pl.remove(2);
            if (!pl.empty()) why = "not empty after removing everything";
            break;
          }
          case 9: {
            scoped_fd fd(p, O_RDONLY);
            if (preadx(fd, 100, 39900) != d.substr(39900)) why = "wrong bytes";
            if (vf::outcome([&] { preadx(fd, 101, 39900); }) == "ok") why = "preadx beyond EOF returned normally";
            break;
          }
          case 10: {
            std::string q = dir + "/o.bin";
            write_real(q, d.substr(0, 9));
            if (load_object_file<uint64_t>(q, true) != *(const uint64_t*)d.data()) why = "wrong value";
            if (vf::outcome([&] { load_object_file<uint64_t>(q); }) == "ok") why = "oversize file accepted";
            break;
          }
          case 11: {
            for (int form = 0; form < 2; form++) {
              int pp[2];
              if (::pipe(pp)) { perror("pipe"); _exit(3); }
              write_real(p, d);
              if (__real_write(pp[1], d.data(), 30000) != 30000) _exit(3);
              __real_close(pp[1]);
              std::string got;
              if (form == 0) { scoped_fd rd(pp[0]); got = read_all(rd); }
              else { auto f = fdopen_unique(pp[0]); got = read_all(f.get()); }
              if (got != d.substr(0, 30000)) why = vf::fmt("form %d returned %zu bytes of 30000", form, got.size());
            }
            break;
          }
        }
      }, &what);
      if (out != "ok") why = "threw " + out + " (" + what + ")";
    });
    if (!ran) why = "the scenario did not run";
    if (!why.empty()) r.fail("context:result-differs-from-plain-semantics", [&] { return vf::fmt("%s, %s: %s", scen_name[sc], ctx_name[ctx], why.c_str()); });
    else r.ok(ctx_name[ctx]);
  }
  rm_rf(dir);
  r.bound = "12 scenarios (one per function family) x {plain, in a catch handler, in a destructor during unwinding, nested}";
}

// ---- boundary arguments: offsets and sizes far from the usual ------------------------------------------------------------------

namespace {
struct Sparse {
  std::string path;
  uint64_t size = 0;
  std::map<uint64_t, std::string> marks;
  // reference content of [off, off+len) clipped to the file
  std::string ref(uint64_t off, size_t len) const {
    if (off >= size) return "";
    len = (size_t)std::min<uint64_t>(len, size - off);
    std::string o(len, '\0');
    for (auto& [m, bytes] : marks) for (size_t i = 0; i < bytes.size(); i++) if (m + i >= off && m + i < off + len) o[m + i - off] = bytes[i];
    return o;
  }
};
enum BFn { BF_PREADX_STR, BF_PREADX_BUF, BF_PREADX_U32, BF_SEEK_READX_STR, BF_SEEK_READX_U32, BF_SEEK_READ, BF_SEEK_READ_ALL, BF_FDOPEN_FREADX, BF_FDOPEN_FGETCX, BF_FDOPEN_READ_ALL, NBFN };
const char* bfn_name[] = {"preadx(fd,4,off)", "preadx(fd,buf,4,off)", "preadx<uint32_t>(fd,off)", "lseek(off); readx(fd,4)", "lseek(off); readx<uint32_t>(fd)", "lseek(off); read(fd,4)", "lseek(off); read_all(fd)", "lseek(off); fdopen; freadx(f,4)", "lseek(off); fdopen; fgetcx", "lseek(off); fdopen; read_all(f)"};
}  // namespace

VF_SECTION(boundary_args, 4, 4, 240) {
  std::string dir = scratch_dir(r, "bnd");
  // (a) a sparse file of 2^32+10 bytes with marker bytes around 2^31 and 2^32
  Sparse sp;
  sp.path = dir + "/sparse.bin";
  sp.size = (1ull << 32) + 10;
  sp.marks = {{(1ull << 31) - 4, "ABCDEFGH"}, {(1ull << 32) - 4, "abcdefgh"}, {(1ull << 32) + 2, "tail-xyz"}, {3, "\x11\x22\x33\x44\x55"}};
  bool sparse_ready = false, sparse_ok = true;
  auto make_sparse = [&] {
    if (sparse_ready) return;
    sparse_ready = true;
    int fd = __real_open(sp.path.c_str(), O_CREAT | O_TRUNC | O_WRONLY, 0644);
    for (auto& [m, bytes] : sp.marks) if (pwrite(fd, bytes.data(), bytes.size(), (off_t)m) != (ssize_t)bytes.size()) sparse_ok = false;
    struct stat st;
    if (::fstat(fd, &st) || (uint64_t)st.st_size != sp.size || st.st_blocks > 4096) sparse_ok = false;  // no sparse-file support here
    __real_close(fd);
  };
  std::vector<int64_t> offs;
  for (uint64_t b : {1ull << 31, 1ull << 32}) for (int64_t dlt : {-4, -2, -1, 0, 1}) offs.push_back((int64_t)b + dlt);
  for (int64_t dlt : {2, 6, 7, 9, 10, 11}) offs.push_back((int64_t)(1ull << 32) + dlt);
  for (int64_t o : {(int64_t)0, (int64_t)1, (int64_t)1 << 33, (int64_t)1 << 44, (int64_t)1 << 62, INT64_MAX, (int64_t)-1, INT64_MIN, (int64_t)INT32_MIN}) offs.push_back(o);
  for (int64_t off : offs) for (int fn = 0; fn < NBFN; fn++) {
    if (!r.take()) continue;
    make_sparse();
    r.note(std::string("boundary offsets: ") + bfn_name[fn]);
    if (r.wants_desc()) r.desc(vf::fmt("%s with off = %lld on a sparse file of 2^32+10 bytes", bfn_name[fn], (long long)off));
    if (!sparse_ok) { r.evals--; r.ok("inapplicable:no-sparse-files"); continue; }
    bool seeks = fn >= BF_SEEK_READX_STR;
    if (fn == BF_SEEK_READ_ALL || fn == BF_FDOPEN_READ_ALL) { if (off < 0 || (uint64_t)off + 65536 < sp.size) { r.evals--; r.ok("inapplicable:rest-too-large"); continue; } }
    int fd = __real_open(sp.path.c_str(), O_RDONLY);
    if (seeks && (off < 0 || lseek(fd, (off_t)off, SEEK_SET) != (off_t)off)) { __real_close(fd); r.evals--; r.ok("inapplicable:offset-not-seekable"); continue; }
    r.nontriv();
    std::string got, what;
    bool exact = fn != BF_SEEK_READ && fn != BF_SEEK_READ_ALL && fn != BF_FDOPEN_READ_ALL;
    size_t want_len = fn == BF_FDOPEN_FGETCX ? 1 : 4;
    r.poison_errno();
    std::string out = vf::outcome([&] {
      switch (fn) {
        case BF_PREADX_STR: got = preadx(fd, 4, (off_t)off); break;
        case BF_PREADX_BUF: got.assign(4, 'Z'); preadx(fd, got.data(), 4, (off_t)off); break;
        case BF_PREADX_U32: got = bytes_of(preadx<uint32_t>(fd, (off_t)off)); break;
        case BF_SEEK_READX_STR: got = readx(fd, 4); break;
        case BF_SEEK_READX_U32: got = bytes_of(readx<uint32_t>(fd)); break;
        case BF_SEEK_READ: got = phosg::read(fd, 4); break;
        case BF_SEEK_READ_ALL: got = read_all(fd); break;
        case BF_FDOPEN_FREADX: { auto f = fdopen_unique(dup(fd)); got = freadx(f.get(), 4); break; }
        case BF_FDOPEN_FGETCX: { auto f = fdopen_shared(dup(fd)); got.push_back((char)fgetcx(f.get())); break; }
        case BF_FDOPEN_READ_ALL: { auto f = fdopen_unique(dup(fd)); got = read_all(f.get()); break; }
      }
    }, &what);
    __real_close(fd);
    bool inside = off >= 0 && (uint64_t)off + want_len <= sp.size;
    std::string want = off >= 0 ? (exact ? sp.ref((uint64_t)off, want_len) : sp.ref((uint64_t)off, fn == BF_SEEK_READ ? 4 : 1 << 20)) : "";
    auto d = [&](const std::string& why) { return vf::fmt("%s with off = %lld (2^31 = 2147483648, 2^32 = 4294967296, file size 2^32+10): %s", bfn_name[fn], (long long)off, why.c_str()); };
    if (out != "ok" && out != "runtime_error") r.fail("boundary-offset:unexpected-exception-type", [&] { return d("threw " + out + " (" + what + ")"); });
    else if (out == "ok" && exact && !inside) r.fail("boundary-offset:exact-read-beyond-eof-succeeds", [&] { return d("returned " + brief(got) + " although fewer than the requested bytes exist at that offset"); });
    else if (out == "ok" && got != want) r.fail("boundary-offset:wrong-bytes", [&] { return d("returned " + brief(got) + ", the file holds " + brief(want)); });
    else if (out != "ok" && (inside || (!exact && off >= 0))) r.fail("boundary-offset:throws-although-data-available", [&] { return d("threw (" + what + ")"); });
    else r.ok(inside ? "inside-the-file" : "beyond-the-end");
  }
  // (b) sizes far beyond the source (10 bytes; destination buffers of 16 bytes are never overrun because the source is shorter).
  // String-returning forms only for sizes above std::string::max_size() (refused at once with length_error); sizes in
  // between would only exercise the allocator (2 GiB and more; ASan aborts on them) and are not run.
  std::string small = content(10), spath = dir + "/small.bin";
  write_real(spath, small);
  const std::vector<uint64_t> huge = {(1ull << 31) - 1, 1ull << 31, (1ull << 32) - 1, 1ull << 32, (1ull << 32) + 4, (1ull << 32) + 10, (1ull << 33) + 10, (1ull << 62) + 10, 1ull << 62, (1ull << 63) - 1, 1ull << 63, SIZE_MAX - 1, SIZE_MAX};
  enum { HZ_READX_BUF, HZ_PREADX_BUF, HZ_FREADX_BUF_FILE, HZ_FREADX_BUF_MEM, HZ_READX_STR, HZ_PREADX_STR, HZ_FREADX_STR, HZ_READ_STR, HZ_FREAD_STR, NHZ };
  static const char* hz_name[] = {"readx(fd,buf,size)", "preadx(fd,buf,size,0)", "freadx(FILE*,buf,size) on a regular file", "freadx(FILE*,buf,size) on fmemopen", "readx(fd,size)", "preadx(fd,size,0)", "freadx(FILE*,size)", "read(fd,size)", "fread(FILE*,size)"};
  for (uint64_t sz : huge) for (int fn = 0; fn < NHZ; fn++) {
    if (!r.take()) continue;
    r.note(std::string("boundary sizes: ") + hz_name[fn]);
    if (r.wants_desc()) r.desc(vf::fmt("%s with size = %llu on a 10-byte source", hz_name[fn], (unsigned long long)sz));
    if (fn >= HZ_READX_STR && sz <= std::string().max_size()) { r.evals--; r.ok("inapplicable:would-allocate-gigabytes"); continue; }
    r.nontriv();
    // heap destination: whether the kernel accepts (address, count) must not depend on where ASLR put the stack
    std::unique_ptr<char[]> bufp(new char[16]);
    char* buf = bufp.get();
    memset(buf, 'Z', 16);
    std::string got, what;
    int fd = __real_open(spath.c_str(), O_RDONLY);
    std::string membuf = small;
    r.poison_errno();
    std::string out = vf::outcome([&] {
      switch (fn) {
        case HZ_READX_BUF: readx(fd, buf, (size_t)sz); break;
        case HZ_PREADX_BUF: preadx(fd, buf, (size_t)sz, 0); break;
        case HZ_FREADX_BUF_FILE: { auto f = fopen_unique(spath); freadx(f.get(), buf, (size_t)sz); break; }
        case HZ_FREADX_BUF_MEM: { auto f = fmemopen_unique(membuf.data(), membuf.size()); freadx(f.get(), buf, (size_t)sz); break; }
        case HZ_READX_STR: got = readx(fd, (size_t)sz); break;
        case HZ_PREADX_STR: got = preadx(fd, (size_t)sz, 0); break;
        case HZ_FREADX_STR: { auto f = fopen_unique(spath); got = freadx(f.get(), (size_t)sz); break; }
        case HZ_READ_STR: got = phosg::read(fd, (size_t)sz); break;
        case HZ_FREAD_STR: { auto f = fopen_unique(spath); got = phosg::fread(f.get(), (size_t)sz); break; }
      }
    }, &what);
    __real_close(fd);
    bool clamping = fn == HZ_READ_STR || fn == HZ_FREAD_STR;
    if (out == "ok" && !clamping) r.fail("boundary-size:exact-read-beyond-eof-succeeds", [&] { return vf::fmt("%s with size = %llu on a 10-byte source returned normally", hz_name[fn], (unsigned long long)sz); });
    else if (out == "ok" && got != small) r.fail("boundary-size:not-the-delivered-bytes", [&] { return vf::fmt("%s with size = %llu on a 10-byte source returned %s", hz_name[fn], (unsigned long long)sz, brief(got).c_str()); });
    else r.ok(out == "ok" ? "clamped" : "throws-" + out);
  }
  // (c) load_file on a FIFO: outside the statement (load_file is only specified through save_file) - executed, not compared.
  // The writer is a forked child that opens the FIFO for writing, writes 10 bytes and closes, so a load_file that reads to
  // the end of the stream terminates just like one that trusts st_size.
  for (int k = 0; k < 2; k++) {
    if (!r.take()) continue;
    r.note("load_file on a FIFO (executed, not compared)");
    if (r.wants_desc()) r.desc("load_file on a FIFO whose writer delivers 10 bytes: executed, not compared");
    std::string fifo = dir + "/fifo";
    ::unlink(fifo.c_str());
    mkfifo(fifo.c_str(), 0644);
    fflush(stdout);
    pid_t pid = fork();
    if (pid == 0) {
      signal(SIGPIPE, SIG_IGN);
      alarm(20);
      int w = __real_open(fifo.c_str(), O_WRONLY);
      if (w >= 0 && k) usleep(1000);
      if (w >= 0) { if (__real_write(w, small.data(), small.size())) {} __real_close(w); }
      _exit(0);
    }
    std::string got, what, out = vf::outcome([&] { got = load_file(fifo); }, &what);
    int st;
    while (waitpid(pid, &st, 0) < 0 && errno == EINTR) {}
    r.ok("dont-care:load_file-on-fifo");
    ::unlink(fifo.c_str());
  }
  rm_rf(dir);
  r.bound = "29 offsets (2^31-4..2^31+1, 2^32-4..2^32+11, 2^33, 2^44, 2^62, 2^63-1, -1, -2^31, -2^63) x 10 positioned read forms on a sparse 2^32+10-byte file; 13 sizes (2^31-1..SIZE_MAX, and 2^32+10, 2^33+10, 2^62+10 = source size modulo 2^32) x 9 size-taking read forms on a 10-byte source";
}
