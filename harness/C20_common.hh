// C20 — helpers shared by harness/C20.cc (integers, entropy, matrices) and harness/C20_vec.cc (vectors).
#pragma once
#include <math.h>
#include <setjmp.h>
#include <signal.h>
#include <stdint.h>

#include <array>
#include <limits>
#include <string>
#include <type_traits>
#include <vector>

#include "Vector.hh"
#include "vf.hh"

namespace c20 {

typedef unsigned __int128 u128;
typedef __int128 i128;

inline std::string s128(i128 v) {
  if (v == 0) return "0";
  bool neg = v < 0;
  u128 u = neg ? (u128)(-(v + 1)) + 1 : (u128)v;
  std::string s;
  while (u) { s.insert(s.begin(), (char)('0' + (int)(u % 10))); u /= 10; }
  return neg ? "-" + s : s;
}

template <class T> inline const char* tname();
#define C20_TN(T) template <> inline const char* tname<T>() { return #T; }
C20_TN(int8_t) C20_TN(uint8_t) C20_TN(int16_t) C20_TN(uint16_t) C20_TN(int32_t) C20_TN(uint32_t) C20_TN(int64_t) C20_TN(uint64_t)
C20_TN(float) C20_TN(double)
#undef C20_TN
template <> inline const char* tname<long long>() { return "long long"; }
template <> inline const char* tname<unsigned long long>() { return "unsigned long long"; }

// ---- arithmetic traps (SIGFPE from a division) become an ordinary outcome of the case ------------------------------
// trapped(f) runs f and returns 0, or the signal number when f raised SIGFPE.  The handler is armed only while f runs;
// a SIGFPE anywhere else falls through to the default action (engine crash attribution).
inline sigjmp_buf& trap_env() { static sigjmp_buf e; return e; }
inline volatile sig_atomic_t& trap_armed() { static volatile sig_atomic_t a = 0; return a; }
inline void trap_handler(int sig) {
  if (trap_armed()) {
    trap_armed() = 0;
    siglongjmp(trap_env(), sig);
  }
  signal(sig, SIG_DFL);
  raise(sig);
}
inline void trap_install() {
  static bool done = false;
  if (done) return;
  done = true;
  struct sigaction sa;
  memset(&sa, 0, sizeof(sa));
  sa.sa_handler = trap_handler;
  sa.sa_flags = SA_NODEFER;
  sigemptyset(&sa.sa_mask);
  sigaction(SIGFPE, &sa, nullptr);
}
template <class F>
__attribute__((noinline)) int trapped(F&& f) {
  trap_install();
  int sig = sigsetjmp(trap_env(), 1);
  if (sig) return sig;
  trap_armed() = 1;
  f();
  trap_armed() = 0;
  return 0;
}

// ---- vectors -------------------------------------------------------------------------------------------------------
template <class T, size_t N> struct VecOf;
template <class T> struct VecOf<T, 2> { typedef phosg::Vector2<T> type; };
template <class T> struct VecOf<T, 3> { typedef phosg::Vector3<T> type; };
template <class T> struct VecOf<T, 4> { typedef phosg::Vector4<T> type; };

template <class T> phosg::Vector2<T> mk(const std::array<T, 2>& c) { return phosg::Vector2<T>(c[0], c[1]); }
template <class T> phosg::Vector3<T> mk(const std::array<T, 3>& c) { return phosg::Vector3<T>(c[0], c[1], c[2]); }
template <class T> phosg::Vector4<T> mk(const std::array<T, 4>& c) { return phosg::Vector4<T>(c[0], c[1], c[2], c[3]); }
template <class T> std::array<T, 2> comps(const phosg::Vector2<T>& v) { return {v.x, v.y}; }
template <class T> std::array<T, 3> comps(const phosg::Vector3<T>& v) { return {v.x, v.y, v.z}; }
template <class T> std::array<T, 4> comps(const phosg::Vector4<T>& v) { return {v.x, v.y, v.z, v.w}; }

template <class T>
std::string vstr(T v) {
  if constexpr (std::is_floating_point_v<T>) return vf::fmt("%.17g", (double)v);
  else if constexpr (std::is_signed_v<T>) return s128((i128)v);
  else return s128((i128)(u128)v);
}
template <class T, size_t N>
std::string astr(const std::array<T, N>& a) {
  std::string s = "(";
  for (size_t i = 0; i < N; i++) s += (i ? "," : "") + vstr<T>(a[i]);
  return s + ")";
}

}  // namespace c20
