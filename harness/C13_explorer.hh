// C13_explorer.hh — the E-BFS explorer of C13 (shared by C13.cc and C13_ext.cc).
// C13 — KDTree equals a brute-force multiset under any insert / erase / erase-while-iterating history.
//
// E-BFS over the real phosg::KDTree (DESIGN.md §5 C13).  A state is an operation history replayed
// on a fresh tree; it is identified by a white-box pre-order serialisation of the real nodes
// (point, value, child shape — `dim` and `parent` are derivable because the structural scan checks
// dim == depth % D and the parent links in every state).  The search closes over every structure
// reachable with <= N live entries.  In every state the observable behaviour (size, iteration,
// at/exists for every grid point, within/exists for every box) is compared with a linear scan of a
// reference multiset, the ordering invariant is checked white-box, and the tree is destroyed.
// Structures that violate the ordering invariant are error states: reported, evaluated by the oracle,
// not expanded.
//
// Parallelism: see bfs.hh (level-synchronous search, workers forked per BFS level).  Every operation
// of the alphabet is applied in every state and every successor structure is enqueued if new:
// insert (and emplace when it compiles) of every grid point/value while fewer than N entries are
// live, erase of every grid point/value (present or absent), and a full traversal for every subset
// of visit positions at which erase_advance is called instead of ++.
#pragma once
#include <string.h>

#include <new>
#include <string>
#include <vector>

#include "KDTree.hh"
#include "Vector.hh"
#include "bfs.hh"
#include "vf.hh"

namespace c13x {

using namespace phosg;

using V2 = Vector2<int64_t>;
using V3 = Vector3<int64_t>;

// ---- the finite point / box universes ---------------------------------------------------------

// A grid maps small indices to coordinates through a strictly increasing map, so that the same closure can
// be run on the plain grid (IdMap) and on one whose coordinates sit at the limits of int64_t (ExtMap).
// pv(i): coordinate of grid index i (0 <= i < SIDE); cv(i): box corner i (0 <= i <= SIDE); inv: coordinate -> index.
struct IdMap {
  static int64_t pv(int i) { return i; }
  static int64_t cv(int i) { return i; }
  static int inv(int64_t v) { return (v >= 0 && v < 8) ? (int)v : -1; }
  static const char* text() { return "coordinates 0..SIDE-1"; }
};
template <int SIDE>
struct ExtMap {  // INT64_MIN, (-1,) INT64_MAX-1; corners additionally INT64_MAX
  static int64_t pv(int i) { return i == 0 ? INT64_MIN : (i == SIDE - 1 ? INT64_MAX - 1 : -1); }
  static int64_t cv(int i) { return i == SIDE ? INT64_MAX : pv(i); }
  static int inv(int64_t v) {
    for (int i = 0; i < SIDE; i++)
      if (pv(i) == v) return i;
    return -1;
  }
  static const char* text() { return SIDE == 3 ? "coordinates INT64_MIN, -1, INT64_MAX-1; box corners also INT64_MAX" : "coordinates INT64_MIN, INT64_MAX-1; box corners also INT64_MAX"; }
};

template <class Pt, template <int> class MpT>
struct Grid;

template <template <int> class MpT>
struct Grid<V2, MpT> {  // 3x3 grid: ties on both axes
  static constexpr int D = 2, NPTS = 9, SIDE = 3;
  using Mp = MpT<SIDE>;
  static V2 pt(int id) { return V2(Mp::pv(id / 3), Mp::pv(id % 3)); }
  static int id(const V2& p) {
    int x = Mp::inv(p.x), y = Mp::inv(p.y);
    if (x < 0 || x >= SIDE || y < 0 || y >= SIDE) return -1;
    return x * 3 + y;
  }
  static V2 corner(const int* c) { return V2(Mp::cv(c[0]), Mp::cv(c[1])); }
  static std::string show(const V2& p) { return vf::fmt("(%lld,%lld)", (long long)p.x, (long long)p.y); }
};

template <template <int> class MpT>
struct Grid<V3, MpT> {  // 2x2x2 cube
  static constexpr int D = 3, NPTS = 8, SIDE = 2;
  using Mp = MpT<SIDE>;
  static V3 pt(int id) { return V3(Mp::pv((id >> 2) & 1), Mp::pv((id >> 1) & 1), Mp::pv(id & 1)); }
  static int id(const V3& p) {
    int x = Mp::inv(p.x), y = Mp::inv(p.y), z = Mp::inv(p.z);
    if (x < 0 || x >= SIDE || y < 0 || y >= SIDE || z < 0 || z >= SIDE) return -1;
    return x * 4 + y * 2 + z;
  }
  static V3 corner(const int* c) { return V3(Mp::cv(c[0]), Mp::cv(c[1]), Mp::cv(c[2])); }
  static std::string show(const V3& p) { return vf::fmt("(%lld,%lld,%lld)", (long long)p.x, (long long)p.y, (long long)p.z); }
};

template <int SIDE>
struct IdMapT : IdMap {};

enum Kind { INS = 0, ERA = 1, TRV = 2, EMP = 3 };
inline uint32_t mk(Kind k, uint32_t arg) { return ((uint32_t)k << 16) | arg; }
inline Kind kind_of(uint32_t op) { return (Kind)(op >> 16); }
inline uint32_t arg_of(uint32_t op) { return op & 0xFFFF; }

struct Counts {
  uint8_t c[16][2];
  int n;
  Counts() { clear(); }
  void clear() { memset(c, 0, sizeof(c)); n = 0; }
  bool operator==(const Counts& o) const { return memcmp(c, o.c, sizeof(c)) == 0; }
  bool operator!=(const Counts& o) const { return !(*this == o); }
};

enum DtorState { UNKNOWN, SAFE, FATAL };

template <class Pt, template <int> class MpT = IdMapT>
struct Explorer {
  using Tree = KDTree<Pt, int64_t>;
  using Node = typename Tree::Node;
  using G = Grid<Pt, MpT>;
  static constexpr int D = G::D;

  struct Box {
    Pt lo, hi;
    uint16_t inside;  // bit per point id: lo <= p < hi on every axis (independent definition)
  };

  struct World {  // one real tree + the reference multiset; never copied
    alignas(Tree) unsigned char buf[sizeof(Tree)];
    Tree* t;
    Counts m;
    World() { t = new (buf) Tree(); }
    World(const World&) = delete;
    World& operator=(const World&) = delete;
    ~World() {
      if (t) { fprintf(stderr, "C13 harness bug: World not destroyed explicitly\n"); abort(); }
    }
  };

  struct Scan {
    bool well_formed = true;
    bool ordered = true;
    uint64_t key = 0;
    int nodes = 0;
    Counts cnt;
    std::string problem;  // only for malformed structures (rare)
    // first ordering violation, rendered on demand
    Pt bad_pt;
    int bad_depth = 0, bad_axis = 0;
    int64_t bad_lo = 0, bad_hi = 0;
    std::string ordering_problem() const {
      return "entry " + G::show(bad_pt) + vf::fmt(" at depth %d is on the wrong side of an ancestor that splits axis %d (allowed range on that axis: [%lld,%lld))", bad_depth, bad_axis, (long long)bad_lo, (long long)bad_hi);
    }
  };

  struct Ctx {
    bool report;
    const std::string* hist;
  };

  vf::Run& r;
  int nvals, N, full_subsets_upto;
  bool use_emplace;
  bool requery = false;  // run every observer before AND after each operation on the same object
  std::vector<Box> boxes;
  DtorState empty_dtor = UNKNOWN;
  int empty_dtor_status = 0;
  std::string note_buf;
  std::vector<std::string> names[4];  // operation names, precomputed (notes are written per transition)

  Explorer(vf::Run& run, int nvals_, int N_, int full_upto) : r(run), nvals(nvals_), N(N_), full_subsets_upto(full_upto) {
#ifdef C13_HAVE_EMPLACE
    use_emplace = true;
#else
    use_emplace = false;
#endif
    build_names();
    // every box [lo,hi) with corners in {0..SIDE}^D, empty and inverted ones included
    std::vector<uint32_t> radix(2 * D, G::SIDE + 1);
    for (vf::Odometer o(radix); !o.done; o.step()) {
      int lo[3], hi[3];
      for (int d = 0; d < D; d++) { lo[d] = o.d[d]; hi[d] = o.d[D + d]; }
      Box b{G::corner(lo), G::corner(hi), 0};
      for (int id = 0; id < G::NPTS; id++) {
        Pt p = G::pt(id);
        bool in = true;
        for (int d = 0; d < D; d++) {
          int64_t c = coord(p, d);
          if (c < coord(b.lo, d) || c >= coord(b.hi, d)) in = false;
        }
        if (in) b.inside |= (uint16_t)(1u << id);
      }
      boxes.push_back(b);
    }
  }

  // coordinate by axis, written against the named members (independent of Vector::at)
  static int64_t coord(const V2& p, int d) { return d == 0 ? p.x : p.y; }
  static int64_t coord(const V3& p, int d) { return d == 0 ? p.x : (d == 1 ? p.y : p.z); }

  template <class F>
  void fail(const Ctx& c, const std::string& key, F&& what) {
    if (!c.report) return;
    r.fail(key, [&] { return "after history [" + *c.hist + "]: " + what(); });
  }

  const std::string& op_name(uint32_t op) const { return names[kind_of(op)][arg_of(op)]; }
  void build_names() {
    for (uint32_t a = 0; a < 32; a++) {
      if ((int)(a >> 1) >= G::NPTS) break;
      for (Kind k : {INS, ERA, EMP}) names[k].push_back(make_name(mk(k, a)));
    }
    for (uint32_t a = 0; a < 128; a++) names[TRV].push_back(make_name(mk(TRV, a)));
  }
  // crash attribution: "<phase>:<function> <operation> after [<history>]"; the phase ("call" while the
  // operation runs, "dtor" while the resulting tree is destroyed) is patched in place
  void set_note(const char* fn, const std::string* opn, const std::string& hs) {
    note_buf.assign("call:");
    note_buf += fn;
    note_buf += ' ';
    if (opn) { note_buf += *opn; note_buf += ' '; }
    note_buf += "after [";
    note_buf += hs;
    note_buf += ']';
    r.note(note_buf);
  }
  void note_phase(const char* phase4) {
    memcpy((void*)r.slot->note, phase4, 4);
    r.slot->beat++;
  }
  std::string make_name(uint32_t op) const {
    uint32_t a = arg_of(op);
    switch (kind_of(op)) {
      case INS: return "insert(" + G::show(G::pt(a >> 1)) + vf::fmt(",%u)", a & 1);
      case EMP: return "emplace(" + G::show(G::pt(a >> 1)) + vf::fmt(",%u)", a & 1);
      case ERA: return "erase(" + G::show(G::pt(a >> 1)) + vf::fmt(",%u)", a & 1);
      case TRV: {
        std::string s = "traverse{erase_advance at visits";
        for (int i = 0; i < 16; i++) if (a >> i & 1) s += vf::fmt(" %d", i);
        return s + (a ? "}" : " (none)}");
      }
    }
    return "?";
  }
  static const char* kind_name(Kind k) {
    switch (k) {
      case INS: return "insert";
      case EMP: return "emplace";
      case ERA: return "erase";
      case TRV: return "erase_advance";
    }
    return "?";
  }
  std::string describe(const std::vector<uint32_t>& h) const {
    std::string s;
    for (size_t i = 0; i < h.size(); i++) s += (i ? " " : "") + op_name(h[i]);
    return s;
  }
  std::string show_counts(const Counts& m) const {
    std::string s = "{";
    for (int id = 0; id < G::NPTS; id++)
      for (int v = 0; v < 2; v++)
        for (int k = 0; k < m.c[id][v]; k++) s += G::show(G::pt(id)) + vf::fmt("=%d ", v);
    return s + "}";
  }

  // ---- white-box structural scan ---------------------------------------------------------------
  void scan_node(const Node* n, const Node* parent, int depth, int64_t* lo, int64_t* hi, Scan& s) const {
    if (!s.well_formed) return;
    if (s.nodes >= 7) { s.well_formed = false; s.problem = "more than 7 nodes reachable from root (cycle or count error)"; return; }
    int pos = s.nodes++;
    if (n->parent != parent) { s.well_formed = false; s.problem = "parent link does not point at the real parent"; return; }
    if (n->dim != (size_t)(depth % D)) { s.well_formed = false; s.problem = vf::fmt("node at depth %d has dim %zu", depth, n->dim); return; }
    int id = G::id(n->pt);
    if (id < 0 || n->value < 0 || n->value >= nvals) { s.well_formed = false; s.problem = "node holds a point/value that was never inserted: " + G::show(n->pt) + vf::fmt("=%lld", (long long)n->value); return; }
    s.cnt.c[id][n->value]++;
    s.cnt.n++;
    for (int d = 0; d < D; d++) {
      int64_t c = coord(n->pt, d);
      if (c < lo[d] || c >= hi[d]) {
        if (s.ordered) { s.bad_pt = n->pt; s.bad_depth = depth; s.bad_axis = d; s.bad_lo = lo[d]; s.bad_hi = hi[d]; }
        s.ordered = false;
      }
    }
    s.key |= (uint64_t)((unsigned)id | ((unsigned)n->value << 4) | (n->before ? 0x20u : 0u) | (n->after_or_equal ? 0x40u : 0u)) << (8 * pos);
    int d = (int)n->dim;
    int64_t c = coord(n->pt, d);
    if (n->before) {
      int64_t save = hi[d];
      if (c < hi[d]) hi[d] = c;  // strictly smaller than the split coordinate
      scan_node(n->before, n, depth + 1, lo, hi, s);
      hi[d] = save;
    }
    if (n->after_or_equal) {
      int64_t save = lo[d];
      if (c > lo[d]) lo[d] = c;  // greater or equal
      scan_node(n->after_or_equal, n, depth + 1, lo, hi, s);
      lo[d] = save;
    }
  }
  Scan scan(const Tree* t) const {
    Scan s;
    int64_t lo[3] = {INT64_MIN, INT64_MIN, INT64_MIN}, hi[3] = {INT64_MAX, INT64_MAX, INT64_MAX};
    if (t->root) scan_node(t->root, nullptr, 0, lo, hi, s);
    if (s.well_formed && (size_t)s.nodes != t->node_count) {
      s.well_formed = false;
      s.problem = vf::fmt("node_count is %zu but %d nodes are linked", t->node_count, s.nodes);
    }
    s.key |= (uint64_t)s.nodes << 56;
    return s;
  }

  // ---- destruction -----------------------------------------------------------------------------
  // Destroying an empty tree is fatal on some trees (null dereference).  It is tried once in a child
  // process; while it is known to be fatal it is reported and skipped, otherwise destruction always
  // runs in-process under ASan (a crash is then attributed by the supervisor through r.note).
  void destroy(World& w, const Ctx& c) {
    Tree* t = w.t;
    w.t = nullptr;
    if (t->root == nullptr) {
      if (empty_dtor == UNKNOWN) {
        empty_dtor_status = vf::in_child([&] { t->~Tree(); });
        empty_dtor = (empty_dtor_status == 0) ? SAFE : FATAL;
      }
      if (empty_dtor == FATAL) {
        fail(c, "~KDTree:crash-on-empty-tree", [&] {
          return vf::fmt("destroying the tree while it is empty (root == nullptr) killed the process (wait status 0x%x%s); expected: safe", empty_dtor_status,
              WIFSIGNALED(empty_dtor_status) ? vf::fmt(", signal %d", WTERMSIG(empty_dtor_status)).c_str() : "");
        });
        if (c.report) r.counters["empty_tree_destructions_skipped_known_fatal"]++;
        return;  // the storage is a local buffer and an empty tree owns nothing: no leak
      }
    }
    t->~Tree();
  }

  // ---- operations on (real tree, model) -------------------------------------------------------
  // false: the real call threw or misbehaved so badly that the world must not be used further
  bool apply(World& w, uint32_t op, const Ctx& c) {
    uint32_t a = arg_of(op);
    Kind k = kind_of(op);
    try {
      switch (k) {
        case INS:
        case EMP: {
          Pt p = G::pt(a >> 1);
          int64_t v = a & 1;
          bool ok;
          if (k == INS) {
            auto it = w.t->insert(p, v);
            ok = !c.report || ((it != w.t->end()) && it->first == p && it->second == v);
          } else {
#ifdef C13_HAVE_EMPLACE
            auto it = w.t->emplace(p, v);
            ok = !c.report || ((it != w.t->end()) && it->first == p && it->second == v);
#else
            return false;
#endif
          }
          w.m.c[a >> 1][v]++;
          w.m.n++;
          if (!ok) fail(c, std::string(kind_name(k)) + ":returned-iterator", [&] { return op_name(op) + " returned an iterator that does not designate the new entry"; });
          return true;
        }
        case ERA: {
          Pt p = G::pt(a >> 1);
          int64_t v = a & 1;
          bool expected = w.m.c[a >> 1][v] > 0;
          bool got = w.t->erase(p, v);
          if (expected) { w.m.c[a >> 1][v]--; w.m.n--; }
          if (got != expected)
            fail(c, expected ? "erase:false-for-present-entry" : "erase:true-for-absent-entry", [&] { return op_name(op) + vf::fmt(" returned %s, a linear scan says the entry %s", got ? "true" : "false", expected ? "exists" : "does not exist"); });
          return true;
        }
        case TRV: {
          Counts before = w.m, seen;
          int visits = 0, limit = 2 * before.n + 4;
          const char* site = a ? "erase_advance" : "iterate";
          auto it = w.t->begin();
          const auto end = w.t->end();
          while (it != end) {
            if (visits >= limit) {
              fail(c, std::string(site) + ":does-not-terminate", [&] { return op_name(op) + vf::fmt(": more than %d visits for %d live entries", limit, before.n); });
              return false;
            }
            Pt p = it->first;
            int64_t v = it->second;
            int id = G::id(p);
            if (id < 0 || v < 0 || v >= nvals) {
              fail(c, std::string(site) + ":foreign-entry", [&] { return op_name(op) + ": iterator yielded " + G::show(p) + vf::fmt("=%lld which was never inserted", (long long)v); });
              return false;
            }
            seen.c[id][v]++;
            seen.n++;
            if (a >> visits & 1) {
              w.t->erase_advance(it);
              if (w.m.c[id][v]) { w.m.c[id][v]--; w.m.n--; }
            } else {
              ++it;
            }
            visits++;
          }
          if (seen != before)
            fail(c, std::string(site) + ":visits", [&] { return op_name(op) + ": visited " + show_counts(seen) + ", every entry of " + show_counts(before) + " must be visited exactly once"; });
          return true;
        }
      }
    } catch (const std::exception& e) {
      std::string w2 = e.what();
      fail(c, std::string(kind_name(k)) + ":throws", [&] { return op_name(op) + " threw " + w2; });
      return false;
    } catch (...) {
      fail(c, std::string(kind_name(k)) + ":throws", [&] { return op_name(op) + " threw a non-standard exception"; });
      return false;
    }
    return false;
  }

  // replays a history without reporting; false if it cannot be replayed
  bool replay(World& w, const std::vector<uint32_t>& h) {
    static const std::string none;
    Ctx quiet{false, &none};
    for (uint32_t op : h)
      if (!apply(w, op, quiet)) return false;
    return true;
  }

  // ---- the per-state oracle (observers only) -----------------------------------------------------
  void check_state(World& w, const Scan& s0, const Ctx& c) {
    const Tree& t = *w.t;
    const Counts& m = w.m;
    if (t.size() != (size_t)m.n) fail(c, "size", [&] { return vf::fmt("size() == %zu, model holds %d entries", t.size(), m.n); });
    apply(w, mk(TRV, 0), c);  // plain iteration: every entry exactly once
    for (int id = 0; id < G::NPTS; id++) {
      Pt p = G::pt(id);
      bool present = m.c[id][0] + m.c[id][1] > 0;
      std::string oc = vf::outcome([&] {
        bool ex = t.exists(p);
        if (ex != present)
          fail(c, present ? "exists(pt):false-for-present-point" : "exists(pt):true-for-absent-point", [&] { return "exists(" + G::show(p) + vf::fmt(") == %s but the model %s; model = ", ex ? "true" : "false", present ? "holds it" : "does not hold it") + show_counts(m); });
      });
      if (oc != "ok") fail(c, "exists(pt):throws", [&] { return "exists(" + G::show(p) + ") threw " + oc; });
      int64_t got = -1;
      oc = vf::outcome([&] { got = t.at(p); });
      if (present) {
        if (oc != "ok") fail(c, "at:throws-for-present-point", [&] { return "at(" + G::show(p) + ") threw " + oc + " but the model holds that point; model = " + show_counts(m); });
        else if (got < 0 || got >= nvals || !m.c[id][got]) fail(c, "at:wrong-value", [&] { return "at(" + G::show(p) + vf::fmt(") == %lld, which is not the value of any entry at that point; model = ", (long long)got) + show_counts(m); });
      } else {
        if (oc == "ok") fail(c, "at:returns-for-absent-point", [&] { return "at(" + G::show(p) + vf::fmt(") returned %lld but no entry has that point", (long long)got); });
        else if (oc != "out_of_range") fail(c, "at:wrong-exception-class", [&] { return "at(" + G::show(p) + ") threw " + oc + ", expected out_of_range"; });
      }
    }
    for (const Box& b : boxes) {
      Counts exp;
      for (int id = 0; id < G::NPTS; id++)
        if (b.inside >> id & 1)
          for (int v = 0; v < 2; v++) { exp.c[id][v] = m.c[id][v]; exp.n += m.c[id][v]; }
      auto boxstr = [&] { return "[" + G::show(b.lo) + "," + G::show(b.hi) + ")"; };
      Counts got;
      bool foreign = false;
      std::string oc = vf::outcome([&] {
        for (const auto& e : t.within(b.lo, b.hi)) {
          int id = G::id(e.first);
          if (id < 0 || e.second < 0 || e.second >= nvals) foreign = true;
          else { got.c[id][e.second]++; got.n++; }
        }
      });
      if (oc != "ok") fail(c, "within:throws", [&] { return "within" + boxstr() + " threw " + oc + "; expected " + show_counts(exp) + " (model = " + show_counts(m) + ")"; });
      else if (foreign) fail(c, "within:foreign-entry", [&] { return "within" + boxstr() + " returned an entry that was never inserted"; });
      else if (got != exp) {
        bool missing = false;
        for (int id = 0; id < G::NPTS; id++)
          for (int v = 0; v < 2; v++)
            if (got.c[id][v] < exp.c[id][v]) missing = true;
        fail(c, missing ? "within:missing-entry" : "within:extra-entry", [&] { return "within" + boxstr() + " returned " + show_counts(got) + ", linear scan gives " + show_counts(exp) + " (model = " + show_counts(m) + ")"; });
      }
      bool ex = false;
      oc = vf::outcome([&] { ex = t.exists(b.lo, b.hi); });
      if (oc != "ok") fail(c, "exists(box):throws", [&] { return "exists" + boxstr() + " threw " + oc; });
      else if (ex != (exp.n > 0))
        fail(c, ex ? "exists(box):true-for-empty-box" : "exists(box):false-for-occupied-box", [&] { return "exists" + boxstr() + vf::fmt(" == %s, linear scan finds %d entries (model = ", ex ? "true" : "false", exp.n) + show_counts(m) + ")"; });
    }
    {
      (void)vf::outcome([&] { (void)t.depth(); });  // outside the statement: executed (memory safety), never compared
    }
    Scan s1 = scan(w.t);
    if (!s1.well_formed || s1.key != s0.key) fail(c, "observers:change-the-structure", [&] { return std::string("size/iteration/at/exists/within left a different structure behind: ") + s1.problem; });
  }

  static bool has_ties(const Counts& m) {
    // two live entries share a coordinate on some axis (duplicates included)
    for (int a = 0; a < G::NPTS; a++)
      for (int b = a; b < G::NPTS; b++) {
        int ca = m.c[a][0] + m.c[a][1], cb = m.c[b][0] + m.c[b][1];
        if (a == b ? ca < 2 : (!ca || !cb)) continue;
        Pt pa = G::pt(a), pb = G::pt(b);
        for (int d = 0; d < D; d++)
          if (coord(pa, d) == coord(pb, d)) return true;
      }
    return false;
  }

  // ---- the search ---------------------------------------------------------------------------------
  using Search = bfs::LevelSearch<uint64_t, bfs::HashU64>;

  // everything that is done for one state (runs inside a worker process)
  void expand(const Search& ls, uint32_t i, const typename Search::Emit& emit, bool mine) {
    std::vector<uint32_t> hist;
    ls.tab.history(i, hist);
    std::string hs = describe(hist);
    Ctx c{mine, &hs};
    if (mine && r.wants_desc()) r.desc(vf::fmt("state %u: ", i) + (hs.empty() ? "(empty tree)" : hs));
    Counts model;
    bool src_ordered;
    {
      World w;
      set_note("replay", nullptr, hs);
      bool ok = replay(w, hist);
      Scan s = scan(w.t);
      if (!ok || !s.well_formed || s.key != ls.tab.key(i)) {
        // replaying the stored history did not rebuild the stored canonical form: unowned nondeterminism
        fail(c, "replay:canonical-form-differs", [&] { return vf::fmt("stored key %016llx, replay gives %016llx %s", (unsigned long long)ls.tab.key(i), (unsigned long long)s.key, s.problem.c_str()); });
        if (mine) r.exhaustive = false;
        destroy(w, c);
        return;
      }
      model = w.m;
      src_ordered = s.ordered;
      if (mine) {
        r.states++;
        if (!s.ordered) r.counters["structures_violating_ordering_invariant"]++;
        set_note("observers", nullptr, hs);
        check_state(w, s, c);
      }
      note_phase("dtor");
      destroy(w, c);
    }
    if (!src_ordered) {
      // A structure that already violates the ordering invariant is an error state: the violation was
      // reported on the transition that produced it and its observable consequences by the oracle
      // above; like any error state it is not expanded further (on a tree without such violations this
      // prunes nothing).
      if (mine) r.ok(vf::fmt("error state with %d live entries (ordering invariant broken): oracle evaluated, not expanded", model.n));
      return;
    }
    bool ties = has_ties(model);
    // the alphabet in this state, simplest first
    std::vector<uint32_t> ops;
    if (model.n < N)
      for (int id = 0; id < G::NPTS; id++)
        for (int v = 0; v < nvals; v++) ops.push_back(mk(INS, (uint32_t)(id << 1 | v)));
    for (int id = 0; id < G::NPTS; id++)
      for (int v = 0; v < nvals; v++) ops.push_back(mk(ERA, (uint32_t)(id << 1 | v)));  // present or absent
    for (uint32_t mask = 0; mask < (1u << model.n); mask++) {
      int pc = __builtin_popcount(mask);
      // beyond the full-subset bound only: no erase, each single erase, each pair, all erased
      if (model.n > full_subsets_upto && !(pc <= 2 || pc == model.n)) continue;
      ops.push_back(mk(TRV, mask));
    }
    if (use_emplace && model.n < N)
      for (int id = 0; id < G::NPTS; id++)
        for (int v = 0; v < nvals; v++) ops.push_back(mk(EMP, (uint32_t)(id << 1 | v)));

    for (uint32_t op : ops) {
      World w;
      if (!replay(w, hist)) {
        fail(c, "replay:canonical-form-differs", [&] { return std::string("history stopped being replayable"); });
        Ctx q{false, &hs};
        destroy(w, q);
        break;
      }
      if (requery && mine) {
        set_note("observers-before", &op_name(op), hs);
        Scan pre = scan(w.t);
        check_state(w, pre, c);
      }
      set_note(kind_name(kind_of(op)), &op_name(op), hs);
      bool ok = apply(w, op, c);
      std::string kn = kind_name(kind_of(op));
      if (ok) {
        Scan s = scan(w.t);
        if (requery && mine && s.well_formed && s.cnt == w.m) {
          // the same object was observed before the operation: anything remembered from then must not show now
          std::string hs2 = hs + (hs.empty() ? "" : " ") + "<all observers> " + op_name(op);
          Ctx c2{c.report, &hs2};
          check_state(w, s, c2);
        }
        if (!s.well_formed) {
          // not enqueued; the tree is still destroyed below so that ASan/LSan judge it
          fail(c, kn + ":corrupts-structure", [&] { return op_name(op) + ": " + s.problem; });
        } else {
          if (w.t->size() != (size_t)w.m.n) fail(c, kn + ":size", [&] { return op_name(op) + vf::fmt(": size() == %zu afterwards, expected %d", w.t->size(), w.m.n); });
          if (s.cnt != w.m) {
            fail(c, kn + ":content", [&] { return op_name(op) + ": tree holds " + show_counts(s.cnt) + ", expected " + show_counts(w.m); });
          } else {
            if (!s.ordered) fail(c, kn + ":breaks-ordering-invariant", [&] { return op_name(op) + ": " + s.ordering_problem() + "; tree now holds " + show_counts(s.cnt); });
            emit(op, s.key);
          }
        }
      }
      note_phase("dtor");
      destroy(w, c);
      if (mine) {
        r.transitions++;
        r.evals++;
        if (ties) r.nontriv();
      }
    }
    if (mine) r.ok(vf::fmt("state with %d live entries", model.n));
  }

  void run(const char* scope_text, int workers) {
    Search ls(r, workers);
    uint64_t root;
    {
      std::string hs;
      World w;
      root = scan(w.t).key;
      set_note("~KDTree", nullptr, hs);
      Ctx quiet{false, &hs};
      destroy(w, quiet);  // also settles, in a child, whether destroying an empty tree is survivable
    }
    ls.run(root, [&](uint32_t i, const typename Search::Emit& emit, bool mine) { expand(ls, i, emit, mine); });
    if (!ls.replaying()) {
      r.counters["fixpoint_reached"] = ls.stopped_early ? 0 : 1;
      r.counters["structures_in_closure"] = ls.tab.size();
      r.counters["max_depth"] = ls.tab.max_depth;
      r.counters["bfs_levels"] = ls.levels;
      r.counters["workers"] = (uint64_t)workers;
      if (ls.stopped_early) r.exhaustive = false;
    }
    r.bound = vf::fmt("%s: closed over every structure reachable with <= %d live entries (fixpoint: %zu structures, max BFS depth %u); per structure: %d grid points, %zu boxes, "
                      "all 2^n erase subsets for n <= %d%s",
        scope_text, N, ls.tab.size(), ls.tab.max_depth, G::NPTS, boxes.size(), full_subsets_upto, use_emplace ? ", emplace included" : ", emplace does not compile on this tree (not executed)");
    r.bound += std::string("; ") + G::Mp::text();
    if (requery) r.bound += "; all observers run on the same object before and after every operation";
    if (!use_emplace) r.notes.push_back("KDTree::emplace is an ill-formed template on this tree (std::forward without template argument): it cannot be instantiated, so it is not part of the alphabet (compile-time defect, not decided)");
  }
};

}  // namespace c13x
