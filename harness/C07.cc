// C07 — canvas operations equal a per-pixel reference model for any arguments.
// E-ENUM + short operation histories (DESIGN.md §5 C07).
//
// Reference model: a canvas is a vector of (r,g,b,a) 64-bit samples.  The *affected set* of every
// rectangle operation is computed declaratively per destination pixel (no incremental clipping code
// that could share a mistake with clamp_blit_dimensions): dest pixel (dx,dy) is affected iff
//   0 <= dx-x < w'  and  0 <= dy-y < h'  and  (dx-x+sx, dy-y+sy) lies inside the source
// where w',h' are the requested extents (the source's when negative, as the blits document).
// Every pixel outside the affected set must be bit-identical afterwards, the source must be
// untouched, no std::out_of_range may escape, ASan must stay silent (all buffers are the library's
// own exact-size malloc blocks).  Inside the affected set the per-pixel *colour rule* of the variant
// applies; those rules are the library's own behaviour (Image.hh comments where they exist, the
// per-pixel statements of Image.cc otherwise - see C07.notes.md) and are only compared for 8-bit
// channels, where they are well defined.
#include "C07_ops.hh"


// =============================================================================================
// direct pixel access
VF_SECTION(pixels, 8, 8, 120) {
  r.note("read_pixel/write_pixel");
  const uint64_t VAL[2][4] = {{0x0102030405060708ull, 0x1112131415161718ull, 0x2122232425262728ull, 0x3132333435363738ull},
      {~0x0102030405060708ull, ~0x1112131415161718ull, ~0x2122232425262728ull, ~0x3132333435363738ull}};
  for (int w = 0; w <= 3; w++)
    for (int h = 0; h <= 3; h++)
      for (int alpha = 0; alpha < 2; alpha++)
        for (int cw : {8, 16, 32, 64}) {
          Model pat = pattern(w, h, alpha, cw, 0);
          // boundary coordinates: around the canvas edge, around +-2^31 / +-2^32 (a check done in 32 bits would alias 2^32+k to the in-canvas k), +-2^63
          const ll P31 = 1ll << 31, P32 = 1ll << 32, MAX = std::numeric_limits<ll>::max(), MIN = std::numeric_limits<ll>::min();
          vector<ll> xs = {MIN, -P32 - 1, -P32, -P32 + 1, -P31 - 1, -P31, -2, -1, 0, 1, w - 1, w, w + 1, P31 - 1, P31, P32 - 1, P32, P32 + 1, P32 + w - 1, MAX};
          vector<ll> ys = {MIN, -P32 - 1, -P32, -P32 + 1, -P31 - 1, -P31, -2, -1, 0, 1, h - 1, h, h + 1, P31 - 1, P31, P32 - 1, P32, P32 + 1, P32 + h - 1, MAX};
          for (ll x : xs)
            for (ll y : ys)
              for (int op = 0; op < 6; op++) {
                if (!r.take()) continue;
                const char* opn[] = {"read_pixel(x,y,&r,&g,&b,&a)", "read_pixel(x,y,&r,nullptr,&b)", "read_pixel(x,y) -> uint32", "write_pixel(x,y,r,g,b,a)", "write_pixel(x,y,~r,~g,~b,~a)", "write_pixel(x,y,uint32)"};
                auto what = [&] { return vf::fmt("%dx%d %s %d-bit canvas: %s at (%lld,%lld)", w, h, alpha ? "rgba" : "rgb", cw, opn[op], x, y); };
                if (r.wants_desc()) r.desc(what());
                r.nontriv();
                Image img = make_image(pat);
                Model exp = pat;
                bool in = pat.inside(x, y);
                uint64_t gr = 0xDEAD, gg = 0xDEAD, gb = 0xDEAD, ga = 0xDEAD;
                uint32_t g32 = 0;
                string o = vf::outcome([&] {
                  switch (op) {
                    case 0: img.read_pixel(x, y, &gr, &gg, &gb, &ga); break;
                    case 1: img.read_pixel(x, y, &gr, nullptr, &gb); break;
                    case 2: g32 = img.read_pixel(x, y); break;
                    case 3: img.write_pixel(x, y, VAL[0][0], VAL[0][1], VAL[0][2], VAL[0][3]); break;
                    case 4: img.write_pixel(x, y, VAL[1][0], VAL[1][1], VAL[1][2], VAL[1][3]); break;
                    case 5: img.write_pixel(x, y, (uint32_t)0xA1B2C3D4u); break;
                  }
                });
                string key = op < 3 ? "read_pixel" : "write_pixel";
                if (!in) {
                  if (o != "out_of_range") r.fail(key + ":outside-does-not-throw-out_of_range", [&] { return what() + ": outcome " + o; });
                  else if (!same(img, pat)) r.fail(key + ":outside-access-modifies-canvas", what);
                  else r.ok("outside:out_of_range");
                  continue;
                }
                if (o != "ok") { r.fail(key + ":inside-throws", [&] { return what() + ": threw " + o; }); continue; }
                Px q = pat.read(x, y);
                if (op == 0 && !(gr == q.c[0] && gg == q.c[1] && gb == q.c[2] && ga == q.c[3])) { r.fail("read_pixel:wrong-value", [&] { return what() + vf::fmt(": read (%llx,%llx,%llx,%llx), canvas holds %s", (unsigned long long)gr, (unsigned long long)gg, (unsigned long long)gb, (unsigned long long)ga, pat.dump().c_str()); }); continue; }
                if (op == 1 && !(gr == q.c[0] && gb == q.c[2])) { r.fail("read_pixel:wrong-value", [&] { return what() + ": partial read differs"; }); continue; }
                if (op == 2 && g32 != pack(q)) { r.fail("read_pixel:wrong-packed-value", [&] { return what() + vf::fmt(": read %08X, pixel packs to %08X", g32, pack(q)); }); continue; }
                if (op == 3) exp.write(x, y, VAL[0][0], VAL[0][1], VAL[0][2], VAL[0][3]);
                if (op == 4) exp.write(x, y, VAL[1][0], VAL[1][1], VAL[1][2], VAL[1][3]);
                if (op == 5) exp.write(x, y, 0xA1, 0xB2, 0xC3, 0xD4);
                if (!same(img, exp)) { r.fail(key + (op < 3 ? ":read-modifies-canvas" : ":stores-wrong-samples-or-touches-neighbours"), [&] { return what() + ": canvas after " + model_of(img).dump() + ", expected " + exp.dump(); }); continue; }
                if (op >= 3) {
                  // round trip through read_pixel
                  uint64_t a2 = 0;
                  img.read_pixel(x, y, &gr, &gg, &gb, &a2);
                  Px e = exp.read(x, y);
                  if (!(gr == e.c[0] && gg == e.c[1] && gb == e.c[2] && a2 == e.c[3])) { r.fail("write_pixel:read-back-differs", what); continue; }
                }
                r.ok(op < 3 ? "inside:read" : "inside:written-and-read-back");
              }
        }
  r.bound = "canvases 0..3 x 0..3 x alpha x {8,16,32,64} x coordinates {-2^63,-2^32-1,-2^32,-2^32+1,-2^31-1,-2^31,-2,-1,0,1,n-1,n,n+1,2^31-1,2^31,2^32-1,2^32,2^32+1,2^32+n-1,2^63-1}^2 x 6 access forms";
}

// =============================================================================================
// fill_rect: four-parameter product on every canvas size
VF_SECTION(fill_rect, 16, 16, 120) {
  r.note("fill_rect");
  int smax = r.thorough() ? 8 : 4;
  struct Col { uint64_t r, g, b, a; const char* name; bool packed; };
  uint64_t ncls[3] = {0, 0, 0};
  // the last two go through the fill_rect(x, y, w, h, uint32_t 0xRRGGBBAA) overload
  const Col cols[6] = {{0x11, 0x22, 0x33, 0xFF, "opaque", false}, {0xF0, 0x40, 0x08, 0x80, "a=0x80", false}, {0xFF, 0xFF, 0xFF, 0x01, "a=0x01", false}, {0x12, 0x34, 0x56, 0x00, "a=0", false},
      {0x21, 0x32, 0x43, 0xFF, "packed opaque", true}, {0xF0, 0x40, 0x08, 0x7F, "packed a=0x7F", true}};
  for (int cw : {8, 16, 32, 64})
    for (int W = 0; W <= smax; W++)
      for (int H = 0; H <= smax; H++)
        for (int alpha = 0; alpha < 2; alpha++) {
          if (cw != 8 && (W > 3 || H > 3)) continue;
          Model pat = pattern(W, H, alpha, cw, 0);
          Image img = make_image(pat);
          auto raw = pat.raw();
          vector<uint8_t> got(raw.size());
          Model exp;
          for (int ci = 0; ci < 6; ci++) {
            if (cw != 8 && ci != 0 && ci != 4) continue;  // the translucent rule is only defined for 8-bit channels
            const Col& col = cols[ci];
            for (ll x = -3; x <= W + 3; x++)
              for (ll y = -3; y <= H + 3; y++)
                for (ll w = -1; w <= W + 4; w++)
                  for (ll h = -1; h <= H + 4; h++) {
                    if (!r.take()) continue;
                    auto what = [&] { return vf::fmt("%dx%d %s %d-bit canvas: fill_rect(x=%lld, y=%lld, w=%lld, h=%lld, %s colour %llx,%llx,%llx,%llx)", W, H, alpha ? "rgba" : "rgb", cw, x, y, w, h, col.name,
                                          (unsigned long long)col.r, (unsigned long long)col.g, (unsigned long long)col.b, (unsigned long long)col.a); };
                    if (r.wants_desc()) r.desc(what());
                    if (!raw.empty()) memcpy(img.get_data(), raw.data(), raw.size());
                    Out o = O_OK;
                    try {
                      if (col.packed) img.fill_rect(x, y, w, h, (uint32_t)((col.r << 24) | (col.g << 16) | (col.b << 8) | col.a));
                      else img.fill_rect(x, y, w, h, col.r, col.g, col.b, col.a);
                    } catch (const std::out_of_range&) { o = O_OUT_OF_RANGE; } catch (...) { o = O_OTHER; }
                    exp = pat;
                    size_t naff = 0;
                    for (ll dy = 0; dy < H; dy++)
                      for (ll dx = 0; dx < W; dx++) {
                        if (dx - x < 0 || dx - x >= w || dy - y < 0 || dy - y >= h) continue;
                        naff++;
                        if (col.a == 0xFF) exp.write(dx, dy, col.r, col.g, col.b, col.a);  // Image.hh: drawing functions set alpha to the given value
                        else {
                          Px d = pat.read(dx, dy);  // Image.cc: translucent colours are blended with weight a/0xFF
                          exp.write(dx, dy, (col.a * col.r + (0xFF - col.a) * d.c[0]) / 0xFF, (col.a * col.g + (0xFF - col.a) * d.c[1]) / 0xFF,
                              (col.a * col.b + (0xFF - col.a) * d.c[2]) / 0xFF, (col.a * col.a + (0xFF - col.a) * d.c[3]) / 0xFF);
                        }
                      }
                    if (w > 0 && h > 0 && W > 0 && H > 0) r.nontriv();
                    if (o != O_OK) { r.fail(o == O_OUT_OF_RANGE ? "fill_rect:out_of_range-escapes" : "fill_rect:unexpected-exception", [&] { return what() + " threw " + out_name[o]; }); continue; }
                    if (!raw.empty()) {
                      exp.to_raw(got.data());
                      if (memcmp(img.get_data(), got.data(), got.size()) != 0) {
                        Model after = model_of(img);
                        bool off = false;
                        for (ll dy = 0; dy < H && !off; dy++)
                          for (ll dx = 0; dx < W && !off; dx++)
                            if (!(after.at(dx, dy) == pat.at(dx, dy)) && (dx - x < 0 || dx - x >= w || dy - y < 0 || dy - y >= h)) off = true;
                        bool missing = false;
                        for (ll dy = 0; dy < H && !missing; dy++)
                          for (ll dx = 0; dx < W && !missing; dx++)
                            if (!(exp.at(dx, dy) == pat.at(dx, dy)) && after.at(dx, dy) == pat.at(dx, dy)) missing = true;
                        r.fail(off ? "fill_rect:touches-pixel-outside-rectangle" : missing ? "fill_rect:leaves-pixel-of-rectangle-unfilled" : "fill_rect:wrong-colour-inside-rectangle",
                            [&] { return what() + ": before " + pat.dump() + ", after " + after.dump() + ", model " + exp.dump(); });
                        continue;
                      }
                    }
                    ncls[naff == 0 ? 0 : naff == (size_t)(w * h) ? 1 : 2]++;
                  }
          }
        }
  if (ncls[0]) r.hist["clipped-to-nothing"] += ncls[0];
  if (ncls[1]) r.hist["whole-rectangle"] += ncls[1];
  if (ncls[2]) r.hist["partially-clipped"] += ncls[2];
  r.bound = vf::fmt("every canvas 0..%d x 0..%d x alpha, x,y in [-3,size+3], w,h in [-1,size+4], 6 colours (opaque, a=0x80, a=1, a=0, and opaque / a=0x7F through the uint32 overload) for 8-bit; canvases 0..3 with the two opaque forms for 16/32/64-bit", smax, smax);
}

// =============================================================================================
// blit family: full six-parameter product
VF_SECTION(blits, 16, 16, 180) {
  for (int v : BLIT_VARIANTS) {
    r.note(vkey[v]);
    // quick: the complete {0,1,3}^4 size grid for blit (the clipping code is shared by all variants), {1,3}^4 for the others
    vector<int> sizes = r.thorough() ? vector<int>{0, 1, 2, 3} : v == V_BLIT ? vector<int>{0, 1, 3} : vector<int>{1, 3};
    for (int dw : sizes)
      for (int dh : sizes)
        for (int sw : sizes)
          for (int sh : sizes)
            for (int am = 0; am < (r.thorough() ? 2 : 1); am++)
              // quick: rgba -> rgba (all branches of every colour rule); thorough adds rgb -> rgb
              blit_product(r, v, dw, dh, sw, sh, am == 0, am == 0, 8, r.thorough() && am == 0, 2);
  }
  r.bound = vf::fmt("8 blit variants x dest and source sizes {%s}^4 x x,y in [-2,dw+2], sx,sy in [-2,sw+2], w,h in [-1,max+2] (full product)%s; mask image sizes source-1/+0/+1 %s",
      r.thorough() ? "0,1,2,3" : "0,1,3 for blit / 1,3 for the other variants", r.thorough() ? " x {rgba->rgba, rgb->rgb}" : ", rgba->rgba", r.thorough() ? "per axis (9 combinations, rgba pass; 2 on the rgb pass)" : "(source-1 and source size)");
}

// alpha-mode and channel-width combinations on a reduced parameter grid; sizes 4..8 one axis at a time
VF_SECTION(blit_modes, 16, 16, 180) {
  // (a) all four alpha-mode combinations, 8-bit
  for (int v = 0; v < NVARIANT; v++) {
    r.note(vkey[v]);
    for (int da = 0; da < 2; da++)
      for (int sa = 0; sa < 2; sa++)
        for (int dsz : {1, 2})
          for (int ssz : {1, 3})
            blit_product(r, v, dsz, dsz == 1 ? 2 : 1, ssz, ssz == 1 ? 2 : 1, da, sa, 8, false, 1);
  }
  // (b) wide channels: geometry only (which pixels may change), colour is a don't-care
  for (int v : BLIT_VARIANTS) {
    r.note(string(vkey[v]) + "/wide");
    for (int cw : {16, 32, 64})
      for (int da = 0; da < 2; da++) blit_product(r, v, 2, 1, 1, 2, da, da, cw, false, 1);
  }
  // (b') dest and source of different channel widths (every ordered pair): geometry only
  for (int v : BLIT_VARIANTS) {
    r.note(string(vkey[v]) + "/mixed-widths");
    for (int dcw : {8, 16, 32, 64})
      for (int scw : {8, 16, 32, 64})
        if (dcw != scw) blit_product(r, v, 2, 1, 1, 2, (dcw + scw) % 48 == 0, dcw < scw, dcw, false, 1, scw);
  }
  // (c) sizes 4..8, one axis swept completely while the other takes five representative settings
  if (r.thorough()) {
    const ll rep[5][3] = {{0, -1, 0}, {-1, 2, 0}, {1, 3, -1}, {2, 5, 2}, {-2, 9, 1}};  // (pos, extent, source pos)
    for (int v : BLIT_VARIANTS) {
      r.note(string(vkey[v]) + "/axis-sweep");
      for (int da_ = 4; da_ <= 8; da_++)
        for (int sa_ = 4; sa_ <= 8; sa_++)
          for (int axis = 0; axis < 2; axis++) {
            int dw = axis == 0 ? da_ : 3, dh = axis == 0 ? 3 : da_, sw = axis == 0 ? sa_ : 3, sh = axis == 0 ? 3 : sa_;
            Model dpat = pattern(dw, dh, true, 8, 0), spat = pattern(sw, sh, true, 8, 1), mpat = pattern(sw, sh, false, 8, 2);
            Image dimg = make_image(dpat), simg = make_image(spat), mimg = make_image(mpat);
            BlitCtx k;
            k.v = v; k.dpat = &dpat; k.spat = &spat; k.mpat = v == V_MASK_IMG ? &mpat : nullptr;
            k.dimg = &dimg; k.simg = &simg; k.mimg = &mimg;
            k.prepare();
            for (ll p = -2; p <= da_ + 2; p++)
              for (ll sp = -2; sp <= sa_ + 2; sp++)
                for (ll e = -1; e <= std::max(da_, sa_) + 2; e++)
                  for (int q = 0; q < 5; q++) {
                    if (!r.take()) continue;
                    Call c = axis == 0 ? Call{p, rep[q][0], e, rep[q][1], sp, rep[q][2]} : Call{rep[q][0], p, rep[q][1], e, rep[q][2], sp};
                    if (r.wants_desc()) r.desc(call_str(v, dpat, spat, k.mpat, c));
                    judge_blit(r, k, c);
                  }
            k.flush(r);
          }
    }
  }
  r.bound = string("13 variants (incl. uint32 colour-key overloads and blend_blit source_alpha 0x00/0x40/0xC0/0xFF) x 4 alpha-mode combinations x sizes {1x2,2x1}x{1x2,3x1} full product with margin 1; "
                   "wide channels 16/32/64 and all 12 ordered pairs of different dest/source channel widths geometry-only") +
      (r.thorough() ? "; sizes 4..8 per axis: full (pos, extent, source pos) product on one axis x 5 representative settings of the other (per-axis, not a full product)" : "");
}

// extreme coordinates substituted into every parameter position, one and two at a time
VF_SECTION(extremes, 16, 16, 120) {
  // around 2^31 and 2^32 (32-bit truncation would alias 2^32+1 and -(2^32-1) to the in-canvas coordinate 1), and 2^61 (sums of two stay below 2^63)
  const ll P31 = 1ll << 31, P32 = 1ll << 32, P61 = 1ll << 61;
  const vector<ll> E = {P31, -P31, P31 - 1, -(P31 - 1), P32 - 1, P32, P32 + 1, -(P32 - 1), -P32, -(P32 + 1), P61, -P61};
  const int NE = E.size();
  const Call bases[3] = {{0, 0, 3, 3, 0, 0}, {1, 1, 2, 2, 0, 1}, {-1, 0, -1, -1, 1, 1}};
  for (int v = 0; v < NVARIANT; v++) {
    r.note(string(vkey[v]) + "/extreme");
    for (int alpha = 0; alpha < 2; alpha++) {
      Model dpat = pattern(3, 3, alpha, 8, 0), spat = pattern(3, 2, alpha, 8, 1), mpat = pattern(3, 2, false, 8, 2);
      Image dimg = make_image(dpat), simg = make_image(spat), mimg = make_image(mpat);
      BlitCtx k;
      k.v = v; k.dpat = &dpat; k.spat = &spat; k.mpat = v == V_MASK_IMG ? &mpat : nullptr;
      k.dimg = &dimg; k.simg = &simg; k.mimg = &mimg;
      k.prepare();
      for (auto& b : bases)
        for (int i = 0; i < 6; i++)
          for (int j = i; j < 6; j++)
            for (int ei = 0; ei < NE; ei++)
              for (int ej = 0; ej < (i == j ? 1 : NE); ej++) {
                if (!r.take()) continue;
                ll a[6] = {b.x, b.y, b.w, b.h, b.sx, b.sy};
                a[i] = E[ei];
                if (j != i) a[j] = E[ej];
                Call c{a[0], a[1], a[2], a[3], a[4], a[5]};
                if (r.wants_desc()) r.desc(call_str(v, dpat, spat, k.mpat, c));
                judge_blit(r, k, c);
              }
      k.flush(r);
    }
  }
  // fill_rect and the line/text primitives with extreme arguments
  r.note("fill_rect/extreme");
  for (int alpha = 0; alpha < 2; alpha++) {
    Model pat = pattern(3, 3, alpha, 8, 0);
    const ll fb[2][4] = {{0, 0, 3, 3}, {1, -1, 2, 5}};
    for (auto& b : fb)
      for (int i = 0; i < 4; i++)
        for (int j = i; j < 4; j++)
          for (int ei = 0; ei < NE; ei++)
            for (int ej = 0; ej < (i == j ? 1 : NE); ej++)
              for (int form = 0; form < 3; form++) {
                if (!r.take()) continue;
                ll p[4] = {b[0], b[1], b[2], b[3]};
                p[i] = E[ei];
                if (j != i) p[j] = E[ej];
                GOp op = form == 0 ? op_fill(p[0], p[1], p[2], p[3], 0x11, 0x22, 0x33, 0xFF, 0) : form == 1 ? op_fill(p[0], p[1], p[2], p[3], 0x11, 0x22, 0x33, 0x80, 0) : op_fill(p[0], p[1], p[2], p[3], 0x11, 0x22, 0x33, 0x7F, 2);
                auto what = [&] { return vf::fmt("3x3 %s canvas: ", alpha ? "rgba" : "rgb") + op.name; };
                if (r.wants_desc()) r.desc(what());
                r.nontriv();
                Image img = make_image(pat);
                Model m = pat;
                string detail, fk = run_step(op, img, m, detail);
                if (fk == "out_of_range-escapes" || fk == "unexpected-outcome") r.fail("fill_rect:extreme-coordinates-throw", [&] { return what() + ": " + detail; });
                else if (!fk.empty()) r.fail("fill_rect:extreme-coordinates-wrong-pixels", [&] { return what() + ": " + detail; });
                else r.ok("fill_rect-extreme");
              }
  }
  r.note("lines-text/extreme");
  // prim 0..2: draw_line, prim 3..5 horizontal, 6..8 vertical (x 3 call forms: colour, default alpha, uint32), 9..14 the six draw_text forms
  for (int prim = 0; prim < 15; prim++) {
    Model pat = pattern(3, 3, true, 8, 0);
    const ll base[4][4] = {{0, 0, 2, 1}, {0, 2, 1, 0}, {1, 0, 2, 0}, {0, 0, 0, 0}};
    int fam = prim < 9 ? prim / 3 : 3, form = prim < 9 ? prim % 3 : prim - 9;
    int np = fam == 3 ? 2 : 4;
    for (int i = 0; i < np; i++)
      for (int j = i; j < np; j++)
        for (int ei = 0; ei < NE; ei++)
          for (int ej = 0; ej < (i == j ? 1 : NE); ej++) {
            if (!r.take()) continue;
            ll p[4] = {base[fam][0], base[fam][1], base[fam][2], base[fam][3]};
            p[i] = E[ei];
            if (j != i) p[j] = E[ej];
            GOp op;
            if (fam == 3) {
              TextArgs t;
              t.x = p[0]; t.y = p[1]; t.r = 1; t.g = 2; t.b = 3; t.a = 0xFF; t.br = 0x0A; t.bg = 0x0B; t.bb = 0x0C; t.ba = 0xFF; t.s = "A";
              op = op_text(form, t);
            } else {
              if (p[3] < 0) p[3] = 0;  // negative dash lengths are a don't-care class
              ll start = fam == 1 ? p[0] : p[1], end = fam == 1 ? p[1] : p[2];
              if (fam != 0 && p[3] > 0 && ((start / p[3]) & 1) && std::min(p[3], end - start) > (1 << 16)) {
                // the line starts inside a gap stretch of the dash pattern that is millions of pixels long: defined but not cheap
                r.ok("axis line starting in a huge dash gap (not executed)");
                continue;
              }
              op = op_line(fam, p[0], p[1], p[2], p[3], 1, 2, 3, 4, form);
            }
            auto what = [&] { return "3x3 rgba canvas: " + op.name; };
            if (r.wants_desc()) r.desc(what());
            r.nontriv();
            Image img = make_image(pat);
            Model m = pat;
            string detail, fk = run_step(op, img, m, detail);
            const char* fn[4] = {"draw_line", "draw_horizontal_line", "draw_vertical_line", "draw_text"};
            if (fk == "out_of_range-escapes" || fk == "unexpected-outcome") r.fail(string("extreme:") + fn[fam] + "-throws", [&] { return what() + ": " + detail; });
            else if (!fk.empty()) r.fail(string("extreme:") + fn[fam] + "-wrong-pixels", [&] { return what() + ": " + detail; });
            else r.ok("line-text-extreme");
          }
  }
  r.bound = "13 blit variants x 2 alpha modes x 3 base calls x {+-2^31, +-(2^31-1), 2^32-1, +-2^32, +-(2^32+1), -(2^32-1), +-2^61} substituted into 1 and 2 of the 6 parameters; same for fill_rect "
            "(4 parameters, opaque / translucent / uint32 forms), draw_line and both axis lines (3 call forms each; marked pixels must lie on the ideal segment and carry the colour) and the 6 draw_text forms (per-pixel model)";
}

// =============================================================================================
// clipping invariance: draw on a canvas enlarged by 8 pixels on every side, crop, compare
namespace {

Model crop(const Model& big, int ox, int oy, int w, int h) {
  Model m(w, h, big.alpha, big.cw);
  for (int y = 0; y < h; y++)
    for (int x = 0; x < w; x++) m.p[(size_t)y * w + x] = big.at(x + ox, y + oy);
  return m;
}

Model embed(const Model& small, int margin) {
  Model big = pattern(small.w + 2 * margin, small.h + 2 * margin, small.alpha, small.cw, 3);
  for (int y = 0; y < small.h; y++)
    for (int x = 0; x < small.w; x++) big.p[(size_t)(y + margin) * big.w + x + margin] = small.at(x, y);
  return big;
}

}  // namespace

VF_SECTION(clip, 16, 16, 180) {
  const int M = 12;
  vector<int> sizes = r.thorough() ? vector<int>{0, 1, 2, 5, 8, 13} : vector<int>{0, 1, 5, 8};
  for (int W : sizes)
    for (int H : sizes)
      for (int alpha = 0; alpha < 2; alpha++) {
        Model pat = pattern(W, H, alpha, 8, 0), big = embed(pat, M);
        Model spat = pattern(4, 3, true, 8, 1);
        Image simg = make_image(spat);
        for (int op = 0; op < 5; op++) {
          const char* opn[5] = {"fill_rect(opaque)", "fill_rect(a=0x80)", "blit", "draw_text(\"Aj\\n1\", opaque background)", "draw_text(\"Aj\\n1\", no background)"};
          r.note(string("clip-invariance/") + (op < 2 ? "fill_rect" : op == 2 ? "blit" : "draw_text"));
          for (ll x = -9; x <= W + 2; x++)
            for (ll y = -9; y <= H + 2; y++)
              for (int ext = 0; ext < (op < 3 ? 3 : 1); ext++) {
                if (!r.take()) continue;
                ll w = ext == 0 ? 3 : ext == 1 ? W + 11 : 1, h = ext == 0 ? 2 : ext == 1 ? 1 : H + 11;
                auto what = [&] { return vf::fmt("%dx%d %s canvas: %s at (%lld,%lld)%s", W, H, alpha ? "rgba" : "rgb", opn[op], x, y, op < 3 ? vf::fmt(" extent %lldx%lld", w, h).c_str() : ""); };
                if (r.wants_desc()) r.desc(what());
                r.nontriv();
                Image a = make_image(pat), b = make_image(big);
                auto draw = [&](Image& img, ll ox, ll oy) {
                  switch (op) {
                    case 0: img.fill_rect(x + ox, y + oy, w, h, 0x11, 0x22, 0x33, 0xFF); break;
                    case 1: img.fill_rect(x + ox, y + oy, w, h, 0xF0, 0x40, 0x08, 0x80); break;
                    case 2: img.blit(simg, x + ox, y + oy, w, h, 1, 0); break;
                    case 3: img.draw_text(x + ox, y + oy, 0x01, 0x02, 0x03, 0xFF, 0xA0, 0xB0, 0xC0, 0xFF, "Aj\n%d", 1); break;
                    case 4: img.draw_text(x + ox, y + oy, (uint32_t)0x010203FFu, "Aj\n%d", 1); break;
                  }
                };
                string o1 = vf::outcome([&] { draw(a, 0, 0); }), o2 = vf::outcome([&] { draw(b, M, M); });
                string key = op < 2 ? "fill_rect" : op == 2 ? "blit" : "draw_text";
                if (o1 != "ok" || o2 != "ok") { r.fail(key + ":throws", [&] { return what() + ": small canvas " + o1 + ", enlarged canvas " + o2; }); continue; }
                Model ma = model_of(a), mb = crop(model_of(b), M, M, W, H);
                if (ma.p != mb.p) { r.fail(key + ":clipping-variant", [&] { return what() + ": drawn on the canvas itself " + ma.dump() + " / drawn on the enlarged canvas and cropped " + mb.dump(); }); continue; }
                if (op >= 3) {
                  // text may only change pixels of its own box: 2 columns x 2 lines of 6x8 cells plus the 1-pixel frame
                  Model full = model_of(b);
                  bool stray = false;
                  for (ll yy = 0; yy < full.h && !stray; yy++)
                    for (ll xx = 0; xx < full.w && !stray; xx++)
                      if (!(full.at(xx, yy) == big.at(xx, yy)) && (xx < x + M - 1 || xx >= x + M + 12 || yy < y + M - 1 || yy >= y + M + 16)) stray = true;
                  if (stray) { r.fail("draw_text:pixel-outside-text-box", what); continue; }
                }
                r.ok(key + ":clip-invariant");
              }
        }
      }
  r.bound = vf::fmt("canvases {%s}^2 x alpha x offsets [-9,size+2]^2 x {fill_rect opaque/translucent, blit} x 3 extents, draw_text with/without background", r.thorough() ? "0,1,2,5,8,13" : "0,1,5,8");
}

// =============================================================================================
// lines
VF_SECTION(lines, 16, 16, 180) {
  vector<int> sizes = r.thorough() ? vector<int>{0, 1, 2, 3, 4, 5, 6} : vector<int>{0, 1, 2, 3, 5};
  const uint64_t LR = 0xE1, LG = 0xE2, LB = 0xE3, LA = 0xE4;
  r.note("draw_line");
  for (int W : sizes)
    for (int H : sizes) {
      Model pat(W, H, true, 8);  // black, alpha 0: any written pixel is visible
      Image img = make_image(pat);
      for (ll x1 = -3; x1 <= W + 3; x1++)
        for (ll y1 = -3; y1 <= H + 3; y1++)
          for (ll x2 = -3; x2 <= W + 3; x2++)
            for (ll y2 = -3; y2 <= H + 3; y2++) {
              if (!r.take()) continue;
              auto what = [&] { return vf::fmt("%dx%d canvas: draw_line(%lld,%lld -> %lld,%lld)", W, H, x1, y1, x2, y2); };
              if (r.wants_desc()) r.desc(what());
              r.nontriv();
              if (!pat.p.empty()) memset(img.get_data(), 0, pat.raw_size());
              string o = vf::outcome([&] { img.draw_line(x1, y1, x2, y2, LR, LG, LB, LA); });
              if (o != "ok") { r.fail("draw_line:throws", [&] { return what() + " threw " + o; }); continue; }
              Model after = model_of(img);
              ll adx = std::abs(x2 - x1), ady = std::abs(y2 - y1), n = std::max(adx, ady);
              vector<std::pair<ll, ll>> marked;
              bool bad_colour = false, off = false;
              for (ll y = 0; y < H; y++)
                for (ll x = 0; x < W; x++) {
                  const Px& q = after.at(x, y);
                  if (q.c[0] == 0 && q.c[1] == 0 && q.c[2] == 0 && q.c[3] == 0) continue;
                  if (!(q.c[0] == LR && q.c[1] == LG && q.c[2] == LB && q.c[3] == LA)) bad_colour = true;
                  marked.push_back({x, y});
                  // distance from the ideal segment, measured along the minor axis
                  bool ok1 = false;
                  if (n == 0) ok1 = (x == x1 && y == y1);
                  else {
                    for (int major_x = 0; major_x < 2 && !ok1; major_x++) {
                      if (major_x ? adx < ady : ady < adx) continue;  // that axis is not a major axis
                      ll t = major_x ? x - x1 : y - y1, T = major_x ? x2 - x1 : y2 - y1;
                      if ((T > 0 && (t < 0 || t > T)) || (T < 0 && (t > 0 || t < T))) continue;
                      double ideal = major_x ? y1 + (double)(y2 - y1) * t / T : x1 + (double)(x2 - x1) * t / T;
                      double minor = major_x ? y : x;
                      if (std::abs(minor - ideal) <= 0.5 + 1e-6) ok1 = true;
                    }
                  }
                  if (!ok1) off = true;
                }
              if (bad_colour) { r.fail("draw_line:wrong-colour", [&] { return what() + ": " + after.dump(); }); continue; }
              if (off) { r.fail("draw_line:pixel-off-the-ideal-segment", [&] { return what() + ": " + after.dump(); }); continue; }
              bool in1 = pat.inside(x1, y1), in2 = pat.inside(x2, y2);
              if (in1 && in2) {
                bool ends = std::find(marked.begin(), marked.end(), std::make_pair(x1, y1)) != marked.end() && std::find(marked.begin(), marked.end(), std::make_pair(x2, y2)) != marked.end();
                bool count = (ll)marked.size() == n + 1;
                // connectivity: order along the major axis, consecutive pixels are 8-neighbours
                bool major_x = adx >= ady;
                auto srt = marked;
                std::sort(srt.begin(), srt.end(), [&](auto& a, auto& b) { return major_x ? a.first < b.first : a.second < b.second; });
                bool conn = true;
                for (size_t i = 1; i < srt.size(); i++)
                  if (std::abs(srt[i].first - srt[i - 1].first) > 1 || std::abs(srt[i].second - srt[i - 1].second) > 1 || (major_x ? srt[i].first == srt[i - 1].first : srt[i].second == srt[i - 1].second)) conn = false;
                if (!ends || !count || !conn) { r.fail("draw_line:in-canvas-line-not-a-complete-connected-path", [&] { return what() + vf::fmt(": %zu pixels marked (expected %lld), both ends %s, connected %s: ", marked.size(), n + 1, ends ? "yes" : "no", conn ? "yes" : "no") + after.dump(); }); continue; }
                r.ok("both-ends-inside:complete-path");
              } else r.ok(marked.empty() ? "partly/fully outside:nothing drawn" : "partly outside:subset of ideal segment");
            }
    }
  r.note("draw_horizontal_line/draw_vertical_line");
  for (int W : sizes)
    for (int H : sizes) {
      Model pat(W, H, true, 8);
      Image img = make_image(pat);
      for (int vert = 0; vert < 2; vert++)
        for (ll a1 = -3; a1 <= (vert ? H : W) + 3; a1++)
          for (ll a2 = -3; a2 <= (vert ? H : W) + 3; a2++)
            for (ll c = -2; c <= (vert ? W : H) + 2; c++)
              for (ll dash = 0; dash <= 3; dash++) {
                if (!r.take()) continue;
                auto what = [&] { return vf::fmt("%dx%d canvas: %s(%lld..%lld at %lld, dash %lld)", W, H, vert ? "draw_vertical_line" : "draw_horizontal_line", a1, a2, c, dash); };
                if (r.wants_desc()) r.desc(what());
                r.nontriv();
                if (!pat.p.empty()) memset(img.get_data(), 0, pat.raw_size());
                string o = vf::outcome([&] {
                  if (vert) img.draw_vertical_line(c, a1, a2, dash, LR, LG, LB, LA);
                  else img.draw_horizontal_line(a1, a2, c, dash, LR, LG, LB, LA);
                });
                string key = vert ? "draw_vertical_line" : "draw_horizontal_line";
                if (o != "ok") { r.fail(key + ":throws", [&] { return what() + " threw " + o; }); continue; }
                Model after = model_of(img);
                bool off = false, bad_colour = false, missing = false;
                ll len = vert ? H : W, other = vert ? W : H;
                bool all_in = a1 >= 0 && a2 < len && a1 <= a2 && c >= 0 && c < other;
                for (ll y = 0; y < H; y++)
                  for (ll x = 0; x < W; x++) {
                    const Px& q = after.at(x, y);
                    bool m = !(q.c[0] == 0 && q.c[1] == 0 && q.c[2] == 0 && q.c[3] == 0);
                    ll along = vert ? y : x, across = vert ? x : y;
                    // documented dash rule: stretches of dash_length pixels alternate, starting "on" at coordinate 0
                    bool ideal = across == c && along >= a1 && along <= a2 && !(dash && ((along / dash) & 1));
                    if (m && !ideal) off = true;
                    if (m && !(q.c[0] == LR && q.c[1] == LG && q.c[2] == LB && q.c[3] == LA)) bad_colour = true;
                    if (!m && ideal && all_in) missing = true;
                  }
                if (off) r.fail(key + ":pixel-off-the-segment", [&] { return what() + ": " + after.dump(); });
                else if (bad_colour) r.fail(key + ":wrong-colour", [&] { return what() + ": " + after.dump(); });
                else if (missing) r.fail(key + ":in-canvas-segment-incomplete", [&] { return what() + ": " + after.dump(); });
                else r.ok(all_in ? "inside:exact-segment" : "partly outside:subset");
              }
    }
  r.bound = vf::fmt("canvases {%s}^2: every endpoint pair in [-3,size+3]^4 for draw_line; every (start,end,position,dash 0..3) for the axis lines", r.thorough() ? "0..6" : "0,1,2,3,5");
}

// =============================================================================================
// whole-image transforms: identities, single applications vs model, deep copies, short histories
namespace {

const int NOPS = 20;
const char* op_name[NOPS] = {"reverse_horizontal", "reverse_vertical", "invert", "set_has_alpha(true)", "set_has_alpha(false)", "set_channel_width(8)", "set_channel_width(16)",
    "set_channel_width(32)", "set_channel_width(64)", "fill_rect(-1,1,3,2,opaque)", "write_pixel(1,1)", "draw_horizontal_line(0,2,0)", "draw_vertical_line(2,0,2)", "draw_line(0,0,2,2)",
    "blit(src,1,-1,-1,-1,0,0)", "mask_blit(src,-1,1,3,3,0,0,key)", "copy-construct+copy-assign", "move-construct+move-assign", "clear", "set_alpha_from_mask_color(key)"};

struct Fixture {
  Model spat;
  Image simg;
  Fixture() : spat(pattern(3, 3, false, 8, 1)), simg(make_image(spat)) {}
};

void apply_real_op(int op, Image& img, const Fixture& fx) {
  switch (op) {
    case 0: img.reverse_horizontal(); break;
    case 1: img.reverse_vertical(); break;
    case 2: img.invert(); break;
    case 3: img.set_has_alpha(true); break;
    case 4: img.set_has_alpha(false); break;
    case 5: img.set_channel_width(8); break;
    case 6: img.set_channel_width(16); break;
    case 7: img.set_channel_width(32); break;
    case 8: img.set_channel_width(64); break;
    case 9: img.fill_rect(-1, 1, 3, 2, 0x11, 0x22, 0x33, 0xFF); break;
    case 10: img.write_pixel(1, 1, 0xA1, 0xB2, 0xC3, 0xD4); break;
    case 11: img.draw_horizontal_line(0, 2, 0, 0, 0xE1, 0xE2, 0xE3, 0xC0); break;
    case 12: img.draw_vertical_line(2, 0, 2, 0, 0xE1, 0xE2, 0xE3, 0xC0); break;
    case 13: img.draw_line(0, 0, 2, 2, 0xD1, 0xD2, 0xD3, 0xC0); break;
    case 14: img.blit(fx.simg, 1, -1, -1, -1, 0, 0); break;
    case 15: img.mask_blit(fx.simg, -1, 1, 3, 3, 0, 0, KEY[0], KEY[1], KEY[2]); break;
    case 16: { Image t(img); Image u; u = t; t.write_pixel(0, 0, 9, 9, 9, 9); img = u; u.write_pixel(0, 0, 7, 7, 7, 7); break; }
    case 17: { Image t(std::move(img)); Image u; u = std::move(t); img = std::move(u); break; }
    case 18: img.clear(0x55, 0x66, 0x77, 0x88); break;
    case 19: img.set_alpha_from_mask_color(KEY[0], KEY[1], KEY[2]); break;
  }
}

Model apply_model_op(int op, const Model& m, const Fixture& fx) {
  Model o = m;
  auto inside_write = [&](ll x, ll y, uint64_t r, uint64_t g, uint64_t b, uint64_t a) { if (o.inside(x, y)) o.write(x, y, r, g, b, a); };
  switch (op) {
    case 0: return m_reverse_h(m);
    case 1: return m_reverse_v(m);
    case 2: return m_invert(m);
    case 3: return m_set_alpha(m, true);
    case 4: return m_set_alpha(m, false);
    case 5: return m_set_width(m, 8);
    case 6: return m_set_width(m, 16);
    case 7: return m_set_width(m, 32);
    case 8: return m_set_width(m, 64);
    case 9: for (ll y = 1; y < 3; y++) for (ll x = -1; x < 2; x++) inside_write(x, y, 0x11, 0x22, 0x33, 0xFF); break;
    case 10: inside_write(1, 1, 0xA1, 0xB2, 0xC3, 0xD4); break;
    case 11: for (ll x = 0; x <= 2; x++) inside_write(x, 0, 0xE1, 0xE2, 0xE3, 0xC0); break;
    case 12: for (ll y = 0; y <= 2; y++) inside_write(2, y, 0xE1, 0xE2, 0xE3, 0xC0); break;
    case 13: for (ll i = 0; i <= 2; i++) inside_write(i, i, 0xD1, 0xD2, 0xD3, 0xC0); break;
    case 14:  // source has no alpha channel: every source pixel reads as opaque (0xFF) and is copied
      for (ll y = 0; y < 3; y++) for (ll x = 0; x < 3; x++) { const Px& s = fx.spat.at(x, y); inside_write(x + 1, y - 1, s.c[0], s.c[1], s.c[2], 0xFF); }
      break;
    case 15:
      for (ll y = 0; y < 3; y++) for (ll x = 0; x < 3; x++) {
        const Px& s = fx.spat.at(x, y);
        if (s.c[0] == KEY[0] && s.c[1] == KEY[1] && s.c[2] == KEY[2]) continue;
        inside_write(x - 1, y + 1, s.c[0], s.c[1], s.c[2], 0xFF);
      }
      break;
    case 16: case 17: break;
    case 18: for (ll y = 0; y < m.h; y++) for (ll x = 0; x < m.w; x++) o.write(x, y, 0x55, 0x66, 0x77, 0x88); break;
    case 19:
      for (ll y = 0; y < m.h; y++) for (ll x = 0; x < m.w; x++) {
        Px q = m.read(x, y);
        o.write(x, y, q.c[0], q.c[1], q.c[2], (q.c[0] == KEY[0] && q.c[1] == KEY[1] && q.c[2] == KEY[2]) ? 0 : m.maxv());
      }
      break;
  }
  return o;
}

string canon(const Model& m) {
  auto r = m.raw();
  return vf::fmt("%d,%d,%d,%d:", m.w, m.h, m.alpha, m.cw) + string((const char*)r.data(), r.size());
}

}  // namespace

VF_SECTION(transforms, 8, 8, 120) {
  Fixture fx;
  {
    probe_invert_convention();
    r.notes.push_back(string("invert() on an rgba image ") + (g_invert_touches_alpha ? "inverts" : "keeps") + " the alpha channel (convention probed on a 1x1 image, then required everywhere)");
  }
  r.note("transform-identities");
  int smax = 4;
  for (int W = 0; W <= smax; W++)
    for (int H = 0; H <= smax; H++)
      for (int alpha = 0; alpha < 2; alpha++)
        for (int cw : {8, 16, 32, 64})
          for (int salt = 0; salt < 2; salt++) {
            Model pat = pattern(W, H, alpha, cw, salt);
            if (salt == 1)
              for (size_t i = 0; i < pat.p.size(); i++)  // all-distinct byte lanes, so a lane permutation inside a sample is visible
                for (int c = 0; c < 3 + alpha; c++) pat.p[i].c[c] = (0x0102030405060708ull * (i * 4 + c + 1) ^ 0x8040201008040201ull) & pat.maxv();
            // single applications vs the model
            for (int op = 0; op <= 8; op++) {
              if (!r.take()) continue;
              auto what = [&] { return vf::fmt("%s on ", op_name[op]) + pat.dump(); };
              if (r.wants_desc()) r.desc(what());
              if (W && H) r.nontriv();
              Image img = make_image(pat);
              string o = vf::outcome([&] { apply_real_op(op, img, fx); });
              Model want = apply_model_op(op, pat, fx);
              if (o != "ok") r.fail(string(op_name[op]) + ":throws", [&] { return what() + " threw " + o; });
              else if (!same(img, want)) r.fail(string(op_name[op]) + ":differs-from-model", [&] { return what() + " gives " + model_of(img).dump() + ", model " + want.dump(); });
              else r.ok("single-application=model");
            }
            // identities
            for (int id = 0; id < 8; id++) {
              if (!r.take()) continue;
              const char* idn[8] = {"reverse_horizontal twice", "reverse_vertical twice", "invert twice", "toggle alpha channel and back", "widen to next width and back", "widen to 64 and back", "widen to 32 and back", "reverse_h;reverse_v;reverse_h;reverse_v"};
              auto what = [&] { return string(idn[id]) + " on " + pat.dump(); };
              if (r.wants_desc()) r.desc(what());
              if (W && H) r.nontriv();
              Image img = make_image(pat);
              bool applicable = true;
              string o = vf::outcome([&] {
                switch (id) {
                  case 0: img.reverse_horizontal(); img.reverse_horizontal(); break;
                  case 1: img.reverse_vertical(); img.reverse_vertical(); break;
                  case 2: img.invert(); img.invert(); break;
                  case 3:
                    // add-then-drop is an identity; drop-then-add loses the alpha values, so it is only applied to rgb images
                    if (alpha) { applicable = false; break; }
                    img.set_has_alpha(true); img.set_has_alpha(false); break;
                  case 4: if (cw == 64) { applicable = false; break; } img.set_channel_width(cw * 2); img.set_channel_width(cw); break;
                  case 5: if (cw == 64) { applicable = false; break; } img.set_channel_width(64); img.set_channel_width(cw); break;
                  case 6: if (cw >= 32) { applicable = false; break; } img.set_channel_width(32); img.set_channel_width(cw); break;
                  case 7: img.reverse_horizontal(); img.reverse_vertical(); img.reverse_horizontal(); img.reverse_vertical(); break;
                }
              });
              if (!applicable) { r.ok("identity-not-applicable"); continue; }
              if (o != "ok") r.fail(string("identity:") + idn[id] + ":throws", [&] { return what() + " threw " + o; });
              else if (!same(img, pat)) r.fail(string("identity:") + idn[id], [&] { return what() + " gives " + model_of(img).dump(); });
              else r.ok("identity-holds");
            }
            // deep copies
            for (int cp = 0; cp < 4; cp++) {
              if (!r.take()) continue;
              const char* cpn[4] = {"copy-construct", "copy-assign", "move-construct", "move-assign"};
              auto what = [&] { return string(cpn[cp]) + " of " + pat.dump(); };
              if (r.wants_desc()) r.desc(what());
              if (W && H) r.nontriv();
              bool ok1 = true, ok2 = true;
              string o = vf::outcome([&] {
                Image orig = make_image(pat);
                Image other(2, 2, !alpha, 8);
                if (cp == 0) { Image c(orig); ok1 = same(c, pat); if (W && H) { c.write_pixel(0, 0, 1, 2, 3, 4); c.invert(); } ok2 = same(orig, pat) && (!(W && H) || c.get_data() != orig.get_data()); }
                if (cp == 1) { other = orig; ok1 = same(other, pat); if (W && H) { orig.write_pixel(W - 1, H - 1, 1, 2, 3, 4); orig.invert(); } ok2 = same(other, pat); }
                if (cp == 2) { Image c(std::move(orig)); ok1 = same(c, pat); ok2 = true; }
                if (cp == 3) { other = std::move(orig); ok1 = same(other, pat); ok2 = true; }
              });
              if (o != "ok") r.fail(string(cpn[cp]) + ":throws", [&] { return what() + " threw " + o; });
              else if (!ok1) r.fail(string(cpn[cp]) + ":copy-differs", what);
              else if (!ok2) r.fail(string(cpn[cp]) + ":not-deep", [&] { return what() + ": mutating one image changed the other"; });
              else r.ok("copy-deep");
            }
          }
  // short histories on a 3x3 canvas: every sequence of <= depth operations, compared with the model after every step
  r.note("histories");
  int depth = r.thorough() ? 3 : 2;
  std::set<string> states;
  uint64_t transitions = 0;
  for (int alpha = 0; alpha < 2; alpha++) {
    Model start = pattern(3, 3, alpha, 8, 0);
    vector<int> h;
    std::function<void(const Model&)> rec = [&](const Model& m) {
      states.insert(canon(m));
      if ((int)h.size() == depth) return;
      for (int op = 0; op < NOPS; op++) {
        h.push_back(op);
        Model next = apply_model_op(op, m, fx);
        if (r.take()) {
          auto hist = [&] { string s = start.dump() + ":"; for (int o : h) s += string(" ") + op_name[o] + ";"; return s; };
          if (r.wants_desc()) r.desc("history " + hist());
          r.nontriv();
          // state = history: rebuild the object by replaying the whole history on a fresh image
          string o = "ok";
          Image img = make_image(start);
          Model mm = start;
          size_t step = 0;
          for (; step < h.size() && o == "ok"; step++) {
            o = vf::outcome([&] { apply_real_op(h[step], img, fx); });
            mm = apply_model_op(h[step], mm, fx);
            if (o == "ok" && !same(img, mm)) { o = "differs"; break; }
          }
          transitions += h.size();
          if (o == "differs") r.fail(string("history:") + op_name[h[step]] + ":differs-from-model", [&] { return hist() + vf::fmt(" after step %zu the image is ", step + 1) + model_of(img).dump() + ", model " + mm.dump(); });
          else if (o != "ok") r.fail(string("history:") + op_name[h[step - 1]] + ":throws", [&] { return hist() + " threw " + o; });
          else r.ok("history=model");
        }
        rec(next);
        h.pop_back();
      }
    };
    rec(start);
  }
  r.counters["history_states_distinct"] = r.shard == 0 ? states.size() : 0;
  r.counters["history_steps_replayed"] = transitions;
  r.bound = vf::fmt("canvases 0..4 x 0..4 x alpha x {8,16,32,64} x 2 contents: 9 single applications, 8 identities, 4 copy forms; all histories of <= %d operations from a 20-letter alphabet on 3x3 rgb and rgba canvases", depth);
}

VF_MAIN()
