// C02_writers.hh — BufferWriter (fixed caller buffer) and StringWriter (growable) positional and
// cursor writes (included by C02.cc).
#pragma once

namespace {

const size_t CAPS[] = {0, 1, 4, 8};

// caller buffer of capacity c in one of three placements
struct WBuf {
  const char* name;
  std::unique_ptr<vf::GuardBuf> g;
  std::unique_ptr<Exact> e;
  uint8_t* buf = nullptr;     // the c bytes handed to BufferWriter
  uint8_t* frame = nullptr;   // observable region (includes canaries for the framed placement)
  size_t framelen = 0, lead = 0, c = 0;
  WBuf(int which, size_t c_) : c(c_) {
    if (which == 0) {
      name = "exact-heap";
      e.reset(new Exact(c, 0xEE));
      buf = frame = e->p;
      framelen = c;
    } else if (which == 1) {
      name = "guard-page";
      g.reset(new vf::GuardBuf(c));
      memset(g->data, 0xEE, c);
      buf = frame = g->data;
      framelen = c;
    } else {
      name = "canary-frame";
      e.reset(new Exact(c + 32, 0xC7));
      frame = e->p;
      framelen = c + 32;
      lead = 16;
      buf = frame + 16;
      memset(buf, 0xEE, c);
    }
  }
  std::vector<uint8_t> snapshot() const { return std::vector<uint8_t>(frame, frame + framelen); }
};

// Judges one positional write of `w` bytes `bytes` at `off`: stores exactly there, or throws and
// changes nothing.
void judge_bw(const WBuf& wb, const std::string& name, uint64_t off, const uint8_t* bytes, size_t w, const std::function<void(BufferWriter&)>& call, CaseResult& res) {
  const bool in = in_range(off, w, wb.c);
  res.arm(name + (in ? ":memory-error-in-range" : ":out-of-range-not-rejected"), vf::fmt("BufferWriter over %zu bytes (%s): %s at offset %s, %zu bytes", wb.c, wb.name, name.c_str(), u64s(off).c_str(), w));
  std::vector<uint8_t> before = wb.snapshot(), model = before;
  if (in) memcpy(model.data() + wb.lead + off, bytes, w);
  BufferWriter bw(wb.buf, wb.c);
  std::string what;
  std::string oc = vf::outcome([&] { call(bw); }, &what);
  std::vector<uint8_t> after = wb.snapshot();
  memcpy(wb.frame, before.data(), wb.framelen);  // restore for the next call of the batch
  if (!in) {
    if (oc == "ok") res.fail(name + ":out-of-range-not-rejected", "offset+size exceeds the buffer, yet the call returned; buffer " + (after == before ? std::string("unchanged (the store went elsewhere)") : "now " + c01::hexb(after.data(), after.size())));
    else if (after != before) res.fail(name + ":stores-and-throws", "threw " + oc + " but changed the buffer to " + c01::hexb(after.data(), after.size()));
    else res.ok(name + "/rejects-out-of-range:" + oc);
    return;
  }
  if (oc != "ok") { res.fail(name + ":rejected-in-range", "write fits; got " + oc + " (" + what + ")"); return; }
  if (after != model) { res.fail(name + ":wrong-result", "buffer " + c01::hexb(after.data(), after.size()) + ", model " + c01::hexb(model.data(), model.size())); return; }
  res.ok(name + "/stored-in-range");
}

const char* WKINDS[] = {"u8", "u16b", "u32l", "u64b", "f32l", "f64b", "u16", "u32r"};

}  // namespace

VF_SECTION(bw_grid, 8, 8, 90) {
  for (size_t c : CAPS) {
    auto G = grid(c);
    for (int which = 0; which < 3; which++) {
      WBuf wb(which, c);
      // typed positional puts
      for (const char* kn : WKINDS) {
        const Kind* k = c01::kind(kn);
        r.note(std::string("BufferWriter::pput_") + kn);
        if (!r.take()) continue;
        if (r.wants_desc()) r.desc(vf::fmt("BufferWriter(%zu bytes, %s).pput_%s at every offset in G(%zu)", c, wb.name, kn, c));
        r.evals += G.size() - 1;
        r.nontrivial += G.size();
        uint64_t v = 0xA1B2C3D4E5F60718ull;
        uint8_t bytes[8];
        c01::enc(bytes, v, k->w, k->e);
        auto* res = c02::run_batch(r, G.size(), [&](size_t i, CaseResult& cr) {
          judge_bw(wb, "BufferWriter::pput<T>", G[i], bytes, k->w, [&](BufferWriter& bw) { k->bw_pput(bw, G[i], v); }, cr);
        });
        c02::fold(r, res, G.size());
      }
      // pwrite(offset, data, size) and pwrite(offset, string)
      for (size_t sz : std::vector<size_t>{0, 1, 2, c, c + 1}) {
        for (int form = 0; form < 2; form++) {
          r.note("BufferWriter::pwrite");
          if (!r.take()) continue;
          if (r.wants_desc()) r.desc(vf::fmt("BufferWriter(%zu bytes, %s).pwrite(every offset in G(%zu), %zu bytes%s)", c, wb.name, c, sz, form ? " as std::string" : ""));
          r.evals += G.size() - 1;
          r.nontrivial += G.size();
          Exact src(sz, 0);
          for (size_t i = 0; i < sz; i++) src.p[i] = (uint8_t)(0x31 + i);
          std::string ssrc((const char*)src.p, sz);
          auto* res = c02::run_batch(r, G.size(), [&](size_t i, CaseResult& cr) {
            judge_bw(wb, "BufferWriter::pwrite", G[i], src.p, sz, [&](BufferWriter& bw) { if (form) bw.pwrite(G[i], ssrc); else bw.pwrite(G[i], src.p, sz); }, cr);
          });
          c02::fold(r, res, G.size());
        }
      }
    }
  }
  r.counters["forks"] += c02::stats().forks;
  r.bound = "capacity in {0,1,4,8} x {exact-heap, guard-page, canary-frame} x {pput_u8/u16b/u32l/u64b/f32l/f64b/u16/u32r, pwrite(ptr,size in {0,1,2,c,c+1}), pwrite(string)} x every offset in G(c)";
}

// BufferWriter cursor histories: sequences of appends until and beyond overflow.
VF_SECTION(bw_hist, 8, 8, 90) {
  const size_t depth = r.thorough() ? 5 : 4;
  struct WOp { const char* name; int w; const char* kind; };  // kind == nullptr: write(block of w bytes)
  for (size_t c : CAPS) {
    std::vector<WOp> wops = {{"put_u8", 1, "u8"}, {"put_u16b", 2, "u16b"}, {"put_u32l", 4, "u32l"}, {"put_u64b", 8, "u64b"}, {"write(0 bytes)", 0, nullptr}, {"write(c bytes)", (int)c, nullptr}, {"write(c+1 bytes)", (int)c + 1, nullptr}};
    for (int which = 0; which < 3; which++) {
      WBuf wb(which, c);
      r.note("BufferWriter cursor histories");
      for (size_t plen = 0; plen < depth; plen++) {
        std::vector<uint32_t> pre(plen, 0);
        bool more = true;
        while (more) {
          if (r.take()) {
            auto hname = [&](const std::vector<uint32_t>& h) { std::string s; for (size_t i = 0; i < h.size(); i++) s += (i ? "; " : "") + std::string(wops[h[i]].name); return s.empty() ? std::string("(fresh)") : s; };
            if (r.wants_desc()) r.desc(vf::fmt("BufferWriter(%zu bytes, %s), history [%s] followed by every append", c, wb.name, hname(pre).c_str()));
            r.evals += wops.size() - 1;
            r.nontrivial += wops.size();
            r.states += wops.size();
            r.transitions += wops.size() * (plen + 1);
            auto* res = c02::run_batch(r, wops.size(), [&](size_t last, CaseResult& cr) {
              std::vector<uint32_t> h = pre;
              h.push_back((uint32_t)last);
              std::vector<uint8_t> before = wb.snapshot(), model = before;
              size_t cur = 0;
              bool last_fits = false;
              // model: an append that fits stores at the cursor and advances; one that does not throws and changes nothing
              for (size_t i = 0; i < h.size(); i++) {
                const WOp& o = wops[h[i]];
                bool fits = in_range(cur, o.w, c);
                if (fits) {
                  uint8_t bytes[16];
                  if (o.kind) c01::enc(bytes, 0xA1B2C3D4E5F60718ull + i, o.w, c01::kind(o.kind)->e);
                  else for (int q = 0; q < o.w; q++) bytes[q] = (uint8_t)(0x41 + i);
                  memcpy(model.data() + wb.lead + cur, bytes, o.w);
                  cur += o.w;
                }
                if (i + 1 == h.size()) last_fits = fits;
              }
              cr.arm(std::string("BufferWriter::write") + (last_fits ? ":memory-error-in-range" : ":out-of-range-not-rejected"), vf::fmt("BufferWriter over %zu bytes (%s), appends [%s]", c, wb.name, hname(h).c_str()));
              BufferWriter bw(wb.buf, c);
              std::string oc, what;
              for (size_t i = 0; i < h.size(); i++) {
                const WOp& o = wops[h[i]];
                oc = vf::outcome([&] {
                  if (o.kind) c01::kind(o.kind)->bw_put(bw, 0xA1B2C3D4E5F60718ull + i);
                  else { std::string blk(o.w, (char)(0x41 + i)); if (i & 1) bw.write(blk); else bw.write(blk.data(), blk.size()); }
                }, &what);
              }
              std::vector<uint8_t> after = wb.snapshot();
              memcpy(wb.frame, before.data(), wb.framelen);
              const std::string nm = "BufferWriter::write";
              if (!last_fits && oc == "ok") cr.fail(nm + ":out-of-range-not-rejected", "the last append does not fit behind the cursor, yet it returned; buffer " + c01::hexb(after.data(), after.size()));
              else if (last_fits && oc != "ok") cr.fail(nm + ":rejected-in-range", "the last append fits; got " + oc + " (" + what + ")");
              else if (after != model) cr.fail(nm + (last_fits ? ":wrong-result" : ":stores-and-throws"), "buffer " + c01::hexb(after.data(), after.size()) + ", model " + c01::hexb(model.data(), model.size()));
              else cr.ok(last_fits ? "append/stored" : "append/rejected:" + oc);
            });
            c02::fold(r, res, wops.size());
          }
          size_t i = plen;
          for (;;) {
            if (i == 0) { more = false; break; }
            i--;
            if (++pre[i] < wops.size()) break;
            pre[i] = 0;
          }
        }
      }
    }
  }
  r.counters["forks"] += c02::stats().forks;
  r.bound = vf::fmt("capacity in {0,1,4,8} x 3 placements: every sequence of <= %zu appends from {put_u8, put_u16b, put_u32l, put_u64b, write(0|c|c+1 bytes)}", depth);
}

// StringWriter::pput_*: grows to cover the write, or throws; never anything else.
VF_SECTION(sw_grid, 4, 4, 90) {
  for (size_t s : std::vector<size_t>{0, 3, 20, 40}) {
    // huge offsets start at 2^63-1: beyond every std::string::max_size() (2^62-1 or 2^63-2 depending on the
    // libstdc++ entry point), so a legitimate "cannot grow" is an immediate length_error, never an allocation
    std::vector<uint64_t> offs = {0, 1, s, s + 3, (1ull << 63) - 1, 1ull << 63, (1ull << 63) + 1};
    if (s) offs.push_back(s - 1);
    for (uint64_t k = 1; k <= 16; k++) offs.push_back(0 - k);
    for (uint64_t k = 0; k <= 8; k++) offs.push_back(0 - (uint64_t)s - k);
    std::sort(offs.begin(), offs.end());
    offs.erase(std::unique(offs.begin(), offs.end()), offs.end());
    for (const char* kn : WKINDS) {
      const Kind* k = c01::kind(kn);
      r.note(std::string("StringWriter::pput_") + kn);
      if (!r.take()) continue;
      if (r.wants_desc()) r.desc(vf::fmt("StringWriter holding %zu bytes: pput_%s at every boundary offset", s, kn));
      r.evals += offs.size() - 1;
      r.nontrivial += offs.size();
      auto* res = c02::run_batch(r, offs.size(), [&](size_t i, CaseResult& cr) {
        const uint64_t off = offs[i];
        const bool huge = off >= (1ull << 63) - 1;
        const std::string nm = "StringWriter::pput<T>";
        cr.arm(nm + (huge ? ":neither-grows-nor-throws" : ":memory-error"), vf::fmt("StringWriter holding %zu bytes: pput_%s(offset=%s)", s, kn, u64s(off).c_str()));
        std::unique_ptr<StringWriter> sw(new StringWriter());
        std::string init;
        for (size_t q = 0; q < s; q++) init += (char)(0x41 + q);
        sw->write(init);
        sw->str().shrink_to_fit();  // exact-size heap block for contents beyond the small-string buffer
        uint64_t v = 0xA1B2C3D4E5F60718ull;
        uint8_t bytes[8];
        c01::enc(bytes, v, k->w, k->e);
        std::string what;
        std::string oc = vf::outcome([&] { k->sw_pput(*sw, off, v); }, &what);
        const std::string& now = sw->str();
        if (oc != "ok") {
          if (now != init) cr.fail(nm + ":stores-and-throws", "threw " + oc + " and changed the contents to " + c01::hexb(now.data(), std::min<size_t>(now.size(), 64)));
          else if (!huge) cr.fail(nm + ":rejected-in-range", "a write at a small offset can always grow the buffer; got " + oc + " (" + what + ")");
          else cr.ok("pput/cannot-grow:" + oc);
          return;
        }
        // returned: the buffer must now cover [off, off+w) and hold the value there
        if (huge || (u128)now.size() < (u128)off + k->w) { cr.fail(nm + ":neither-grows-nor-throws", vf::fmt("returned normally with size() = %zu, which does not cover offset+%d", now.size(), k->w)); return; }
        std::string model = init;
        if (model.size() < off + k->w) model.resize(off + k->w, '\0');
        memcpy(model.data() + off, bytes, k->w);
        if (now != model) { cr.fail(nm + ":wrong-result", "contents " + c01::hexb(now.data(), now.size()) + ", model " + c01::hexb(model.data(), model.size())); return; }
        cr.ok(off + k->w <= s ? "pput/overwrite" : "pput/grew");
      });
      c02::fold(r, res, offs.size());
    }
  }
  r.counters["forks"] += c02::stats().forks;
  r.bound = "StringWriter holding 0/3/20/40 bytes x pput_{u8,u16b,u32l,u64b,f32l,f64b,u16,u32r} x offsets {0,1,size-1,size,size+3, 2^63-1, 2^63, 2^63+1, 2^64-size-8..2^64-size, 2^64-16..2^64-1}";
}
