// C02_writers.hh — BufferWriter (fixed caller buffer) and StringWriter (growable) positional and
// cursor writes (included by C02.cc).
#pragma once

namespace {

const size_t CAPS[] = {0, 1, 4, 8, 16};

// caller buffer of capacity c in one of three placements
struct WBuf {
  const char* name;
  std::unique_ptr<vf::GuardBuf> g;
  std::unique_ptr<Exact> e;
  uint8_t* buf = nullptr;     // the c bytes handed to BufferWriter
  uint8_t* frame = nullptr;   // observable region (includes canaries for the framed placement)
  size_t framelen = 0, lead = 0, c = 0;
  WBuf(int which, size_t c_) : c(c_) {
    if (which == 0) {
      name = "exact-heap";
      e.reset(new Exact(c, 0xEE));
      buf = frame = e->p;
      framelen = c;
    } else if (which == 1) {
      name = "guard-page";
      g.reset(new vf::GuardBuf(c));
      memset(g->data, 0xEE, c);
      buf = frame = g->data;
      framelen = c;
    } else {
      name = "canary-frame";
      e.reset(new Exact(c + 32, 0xC7));
      frame = e->p;
      framelen = c + 32;
      lead = 16;
      buf = frame + 16;
      memset(buf, 0xEE, c);
    }
  }
  std::vector<uint8_t> snapshot() const { return std::vector<uint8_t>(frame, frame + framelen); }
};

// Judges one positional write of `w` bytes `bytes` at `off`: stores exactly there, or throws and
// changes nothing.
void judge_bw(const WBuf& wb, const std::string& name, uint64_t off, const uint8_t* bytes, size_t w, const std::function<void(BufferWriter&)>& call, CaseResult& res) {
  const bool in = in_range(off, w, wb.c);
  res.arm(name + (in ? ":memory-error-in-range" : ":out-of-range-not-rejected"), vf::fmt("BufferWriter over %zu bytes (%s): %s at offset %s, %zu bytes", wb.c, wb.name, name.c_str(), u64s(off).c_str(), w));
  std::vector<uint8_t> before = wb.snapshot(), model = before;
  if (in) memcpy(model.data() + wb.lead + off, bytes, w);
  BufferWriter bw(wb.buf, wb.c);
  std::string what;
  std::string oc = vf::outcome([&] { call(bw); }, &what);
  std::vector<uint8_t> after = wb.snapshot();
  memcpy(wb.frame, before.data(), wb.framelen);  // restore for the next call of the batch
  if (!in) {
    if (oc == "ok") res.fail(name + ":out-of-range-not-rejected", "offset+size exceeds the buffer, yet the call returned; buffer " + (after == before ? std::string("unchanged (the store went elsewhere)") : "now " + c01::hexb(after.data(), after.size())));
    else if (after != before) res.fail(name + ":stores-and-throws", "threw " + oc + " but changed the buffer to " + c01::hexb(after.data(), after.size()));
    else res.ok(name + "/rejects-out-of-range:" + oc);
    return;
  }
  if (oc != "ok") { res.fail(name + ":rejected-in-range", "write fits; got " + oc + " (" + what + ")"); return; }
  if (after != model) { res.fail(name + ":wrong-result", "buffer " + c01::hexb(after.data(), after.size()) + ", model " + c01::hexb(model.data(), model.size())); return; }
  res.ok(name + "/stored-in-range");
}

// every kind that has a put_/pput_ accessor (34: all but the read-only 24/48-bit ones)
std::vector<const Kind*> wkinds() {
  std::vector<const Kind*> v;
  for (auto& k : c01::kinds())
    if (!k.readonly) v.push_back(&k);
  return v;
}

}  // namespace

VF_SECTION(bw_grid, 8, 8, 90) {
  for (size_t c : CAPS) {
    auto G = grid(c);
    for (int which = 0; which < 3; which++) {
      WBuf wb(which, c);
      // typed positional puts
      for (const Kind* k : wkinds()) {
        const char* kn = k->name;
        r.note(std::string("BufferWriter::pput_") + kn);
        if (!r.take()) continue;
        if (r.wants_desc()) r.desc(vf::fmt("BufferWriter(%zu bytes, %s).pput_%s at every offset in G(%zu)", c, wb.name, kn, c));
        r.evals += G.size() - 1;
        r.nontrivial += G.size();
        uint64_t v = 0xA1B2C3D4E5F60718ull;
        uint8_t bytes[8];
        c01::enc(bytes, v, k->w, k->e);
        auto* res = c02::run_batch(r, G.size(), [&](size_t i, CaseResult& cr) {
          judge_bw(wb, "BufferWriter::pput<T>", G[i], bytes, k->w, [&](BufferWriter& bw) { k->bw_pput(bw, G[i], v); }, cr);
        });
        c02::fold(r, res, G.size());
      }
      // typed cursor puts (every put_* wrapper) with the cursor at 0, at the last position that fits and one beyond
      for (const Kind* k : wkinds()) {
        r.note(std::string("BufferWriter::put_") + k->name);
        if (!r.take()) continue;
        if (r.wants_desc()) r.desc(vf::fmt("BufferWriter(%zu bytes, %s): put_%s with the cursor at 0, c-%d, c-%d+1", c, wb.name, k->name, k->w, k->w));
        std::vector<uint64_t> curs = {0};
        if (c >= (size_t)k->w) curs.push_back(c - k->w);
        if (c + 1 >= (size_t)k->w) curs.push_back(c + 1 - k->w);
        r.evals += curs.size() - 1;
        r.nontrivial += curs.size();
        uint64_t v = 0xA1B2C3D4E5F60718ull;
        uint8_t bytes[8];
        c01::enc(bytes, v, k->w, k->e);
        auto* res = c02::run_batch(r, curs.size(), [&](size_t i, CaseResult& cr) {
          const uint64_t cur = curs[i];
          const bool in = in_range(cur, k->w, c);
          const std::string name = "BufferWriter::put<T>";
          cr.arm(name + (in ? ":memory-error-in-range" : ":out-of-range-not-rejected"), vf::fmt("BufferWriter over %zu bytes (%s): write(%llu filler bytes) then put_%s", c, wb.name, (unsigned long long)cur, k->name));
          std::vector<uint8_t> before = wb.snapshot(), model = before;
          memset(model.data() + wb.lead, 0x2E, cur);
          if (in) memcpy(model.data() + wb.lead + cur, bytes, k->w);
          BufferWriter bw(wb.buf, c);
          std::string filler(cur, '\x2E'), what;
          bw.write(filler);
          std::string oc = vf::outcome([&] { k->bw_put(bw, v); }, &what);
          std::vector<uint8_t> after = wb.snapshot();
          memcpy(wb.frame, before.data(), wb.framelen);
          if (!in && oc == "ok") cr.fail(name + ":out-of-range-not-rejected", "the value does not fit behind the cursor, yet the call returned; buffer " + c01::hexb(after.data(), after.size()));
          else if (in && oc != "ok") cr.fail(name + ":rejected-in-range", "the value fits; got " + oc + " (" + what + ")");
          else if (after != model) cr.fail(name + (in ? ":wrong-result" : ":stores-and-throws"), "buffer " + c01::hexb(after.data(), after.size()) + ", model " + c01::hexb(model.data(), model.size()));
          else cr.ok(in ? name + "/stored-in-range" : name + "/rejects-out-of-range:" + oc);
        });
        c02::fold(r, res, curs.size());
      }
      // pwrite(offset, data, size) over the whole grid G(c) x G(c): sizes that can never fit come with a one-byte
      // source (a correct writer throws before it copies)
      {
        Exact tiny(1, 0x21);
        Exact big(c + 2, 0);
        for (size_t i = 0; i < c + 2; i++) big.p[i] = (uint8_t)(0x31 + i);
        for (uint64_t off : G) {
          r.note("BufferWriter::pwrite");
          if (!r.take()) continue;
          if (r.wants_desc()) r.desc(vf::fmt("BufferWriter(%zu bytes, %s).pwrite(%s, ptr, every size in G(%zu))", c, wb.name, u64s(off).c_str(), c));
          r.evals += G.size() - 1;
          r.nontrivial += G.size();
          auto* res = c02::run_batch(r, G.size(), [&](size_t i, CaseResult& cr) {
            const uint64_t sz = G[i];
            const uint8_t* src = sz <= c + 2 ? big.p : tiny.p;
            judge_bw(wb, "BufferWriter::pwrite", off, src, sz, [&](BufferWriter& bw) { bw.pwrite(off, src, sz); }, cr);
          });
          c02::fold(r, res, G.size());
        }
      }
      // pwrite(offset, data, size) and pwrite(offset, string)
      for (size_t sz : std::vector<size_t>{0, 1, 2, c, c + 1}) {
        for (int form = 0; form < 2; form++) {
          r.note("BufferWriter::pwrite");
          if (!r.take()) continue;
          if (r.wants_desc()) r.desc(vf::fmt("BufferWriter(%zu bytes, %s).pwrite(every offset in G(%zu), %zu bytes%s)", c, wb.name, c, sz, form ? " as std::string" : ""));
          r.evals += G.size() - 1;
          r.nontrivial += G.size();
          Exact src(sz, 0);
          for (size_t i = 0; i < sz; i++) src.p[i] = (uint8_t)(0x31 + i);
          std::string ssrc((const char*)src.p, sz);
          auto* res = c02::run_batch(r, G.size(), [&](size_t i, CaseResult& cr) {
            judge_bw(wb, "BufferWriter::pwrite", G[i], src.p, sz, [&](BufferWriter& bw) { if (form) bw.pwrite(G[i], ssrc); else bw.pwrite(G[i], src.p, sz); }, cr);
          });
          c02::fold(r, res, G.size());
        }
      }
    }
  }
  r.counters["forks"] += c02::stats().forks;
  r.bound = "capacity in {0,1,4,8,16} x {exact-heap, guard-page, canary-frame} x {all 34 typed pput_*, pwrite(ptr,size in {0,1,2,c,c+1}), pwrite(string)} x every offset in G(c); pwrite(off,ptr,size) on G(c) x G(c); all 34 typed put_* with the cursor at {0, c-w, c-w+1}";
}

// BufferWriter cursor histories: sequences of appends until and beyond overflow.
VF_SECTION(bw_hist, 8, 8, 90) {
  const size_t depth = r.thorough() ? 5 : 4;
  struct WOp { const char* name; int w; const char* kind; };  // kind == nullptr: write(block of w bytes)
  for (size_t c : CAPS) {
    std::vector<WOp> wops = {{"put_u8", 1, "u8"}, {"put_u16b", 2, "u16b"}, {"put_u32l", 4, "u32l"}, {"put_u64b", 8, "u64b"}, {"write(0 bytes)", 0, nullptr}, {"write(c bytes)", (int)c, nullptr}, {"write(c+1 bytes)", (int)c + 1, nullptr}};
    for (int which = 0; which < 3; which++) {
      WBuf wb(which, c);
      r.note("BufferWriter cursor histories");
      const size_t A = wops.size();
      for (size_t len = 1; len <= depth; len++) {
        const size_t plen = len > 2 ? len - 2 : 0, tlen = len - plen, ntail = tlen == 1 ? A : A * A;
        std::vector<uint32_t> pre(plen, 0);
        bool more = true;
        while (more) {
          if (r.take()) {
            auto hname = [&](const std::vector<uint32_t>& h) { std::string s; for (size_t i = 0; i < h.size(); i++) s += (i ? "; " : "") + std::string(wops[h[i]].name); return s.empty() ? std::string("(fresh)") : s; };
            if (r.wants_desc()) r.desc(vf::fmt("BufferWriter(%zu bytes, %s), history [%s] followed by every sequence of %zu appends", c, wb.name, hname(pre).c_str(), tlen));
            r.evals += ntail - 1;
            r.nontrivial += ntail;
            r.states += ntail;
            r.transitions += ntail * len;
            auto* res = c02::run_batch(r, ntail, [&](size_t tail, CaseResult& cr) {
              std::vector<uint32_t> h = pre;
              if (tlen == 2) h.push_back((uint32_t)(tail / A));
              h.push_back((uint32_t)(tail % A));
              std::vector<uint8_t> before = wb.snapshot(), model = before;
              size_t cur = 0;
              bool last_fits = false;
              // model: an append that fits stores at the cursor and advances; one that does not throws and changes nothing
              for (size_t i = 0; i < h.size(); i++) {
                const WOp& o = wops[h[i]];
                bool fits = in_range(cur, o.w, c);
                if (fits) {
                  uint8_t bytes[32];
                  if (o.kind) c01::enc(bytes, 0xA1B2C3D4E5F60718ull + i, o.w, c01::kind(o.kind)->e);
                  else for (int q = 0; q < o.w; q++) bytes[q] = (uint8_t)(0x41 + i);
                  memcpy(model.data() + wb.lead + cur, bytes, o.w);
                  cur += o.w;
                }
                if (i + 1 == h.size()) last_fits = fits;
              }
              cr.arm(std::string("BufferWriter::write") + (last_fits ? ":memory-error-in-range" : ":out-of-range-not-rejected"), vf::fmt("BufferWriter over %zu bytes (%s), appends [%s]", c, wb.name, hname(h).c_str()));
              BufferWriter bw(wb.buf, c);
              std::string oc, what;
              for (size_t i = 0; i < h.size(); i++) {
                const WOp& o = wops[h[i]];
                oc = vf::outcome([&] {
                  if (o.kind) c01::kind(o.kind)->bw_put(bw, 0xA1B2C3D4E5F60718ull + i);
                  else { std::string blk(o.w, (char)(0x41 + i)); if (i & 1) bw.write(blk); else bw.write(blk.data(), blk.size()); }
                }, &what);
              }
              std::vector<uint8_t> after = wb.snapshot();
              memcpy(wb.frame, before.data(), wb.framelen);
              const std::string nm = "BufferWriter::write";
              if (!last_fits && oc == "ok") cr.fail(nm + ":out-of-range-not-rejected", "the last append does not fit behind the cursor, yet it returned; buffer " + c01::hexb(after.data(), after.size()));
              else if (last_fits && oc != "ok") cr.fail(nm + ":rejected-in-range", "the last append fits; got " + oc + " (" + what + ")");
              else if (after != model) cr.fail(nm + (last_fits ? ":wrong-result" : ":stores-and-throws"), "buffer " + c01::hexb(after.data(), after.size()) + ", model " + c01::hexb(model.data(), model.size()));
              else cr.ok(last_fits ? "append/stored" : "append/rejected:" + oc);
            });
            c02::fold(r, res, ntail);
          }
          size_t i = plen;
          for (;;) {
            if (i == 0) { more = false; break; }
            i--;
            if (++pre[i] < wops.size()) break;
            pre[i] = 0;
          }
        }
      }
    }
  }
  r.counters["forks"] += c02::stats().forks;
  r.bound = vf::fmt("capacity in {0,1,4,8,16} x 3 placements: every sequence of <= %zu appends from {put_u8, put_u16b, put_u32l, put_u64b, write(0|c|c+1 bytes)}", depth);
}

// StringWriter::pput_*: grows to cover the write, or throws; never anything else.
VF_SECTION(sw_grid, 4, 4, 90) {
  for (size_t s : std::vector<size_t>{0, 3, 20, 40}) {
    // huge offsets start at 2^63-1: beyond every std::string::max_size() (2^62-1 or 2^63-2 depending on the
    // libstdc++ entry point), so a legitimate "cannot grow" is an immediate length_error, never an allocation
    std::vector<uint64_t> offs = {0, 1, s, s + 3, (1ull << 63) - 1, 1ull << 63, (1ull << 63) + 1};
    if (s) offs.push_back(s - 1);
    for (uint64_t k = 1; k <= 16; k++) offs.push_back(0 - k);
    for (uint64_t k = 0; k <= 8; k++) offs.push_back(0 - (uint64_t)s - k);
    std::sort(offs.begin(), offs.end());
    offs.erase(std::unique(offs.begin(), offs.end()), offs.end());
    for (const Kind* k : wkinds()) {
      const char* kn = k->name;
      r.note(std::string("StringWriter::pput_") + kn);
      if (!r.take()) continue;
      if (r.wants_desc()) r.desc(vf::fmt("StringWriter holding %zu bytes: pput_%s at every boundary offset", s, kn));
      r.evals += offs.size();
      r.nontrivial += offs.size() + 1;
      auto* res = c02::run_batch(r, offs.size() + 1, [&](size_t i, CaseResult& cr) {
        if (i == offs.size()) {
          // the cursor form of the same kind: put_* appends exactly its bytes
          const std::string nm = "StringWriter::put<T>";
          cr.arm(nm + ":memory-error", vf::fmt("StringWriter holding %zu bytes: put_%s", s, kn));
          StringWriter sw;
          std::string init;
          for (size_t q = 0; q < s; q++) init += (char)(0x41 + q);
          sw.write(init.data(), init.size());
          sw.str().shrink_to_fit();
          uint64_t v = 0xA1B2C3D4E5F60718ull;
          uint8_t bytes[8];
          c01::enc(bytes, v, k->w, k->e);
          std::string what;
          std::string oc = vf::outcome([&] { k->sw_put(sw, v); }, &what);
          if (oc != "ok") cr.fail(nm + ":rejected-in-range", "an append can always grow the buffer; got " + oc + " (" + what + ")");
          else if (sw.str() != init + std::string((const char*)bytes, k->w) || sw.size() != s + k->w) cr.fail(nm + ":wrong-result", "contents " + c01::hexb(sw.str().data(), sw.str().size()));
          else cr.ok("put/appended");
          return;
        }
        const uint64_t off = offs[i];
        const bool huge = off >= (1ull << 63) - 1;
        const std::string nm = "StringWriter::pput<T>";
        cr.arm(nm + (huge ? ":neither-grows-nor-throws" : ":memory-error"), vf::fmt("StringWriter holding %zu bytes: pput_%s(offset=%s)", s, kn, u64s(off).c_str()));
        std::unique_ptr<StringWriter> sw(new StringWriter());
        std::string init;
        for (size_t q = 0; q < s; q++) init += (char)(0x41 + q);
        sw->write(init);
        sw->str().shrink_to_fit();  // exact-size heap block for contents beyond the small-string buffer
        uint64_t v = 0xA1B2C3D4E5F60718ull;
        uint8_t bytes[8];
        c01::enc(bytes, v, k->w, k->e);
        std::string what;
        std::string oc = vf::outcome([&] { k->sw_pput(*sw, off, v); }, &what);
        const std::string& now = sw->str();
        if (oc != "ok") {
          if (now != init) cr.fail(nm + ":stores-and-throws", "threw " + oc + " and changed the contents to " + c01::hexb(now.data(), std::min<size_t>(now.size(), 64)));
          else if (!huge) cr.fail(nm + ":rejected-in-range", "a write at a small offset can always grow the buffer; got " + oc + " (" + what + ")");
          else cr.ok("pput/cannot-grow:" + oc);
          return;
        }
        // returned: the buffer must now cover [off, off+w) and hold the value there
        if (huge || (u128)now.size() < (u128)off + k->w) { cr.fail(nm + ":neither-grows-nor-throws", vf::fmt("returned normally with size() = %zu, which does not cover offset+%d", now.size(), k->w)); return; }
        std::string model = init;
        if (model.size() < off + k->w) model.resize(off + k->w, '\0');
        memcpy(model.data() + off, bytes, k->w);
        if (now != model) { cr.fail(nm + ":wrong-result", "contents " + c01::hexb(now.data(), now.size()) + ", model " + c01::hexb(model.data(), model.size())); return; }
        cr.ok(off + k->w <= s ? "pput/overwrite" : "pput/grew");
      });
      c02::fold(r, res, offs.size() + 1);
    }
  }
  r.counters["forks"] += c02::stats().forks;
  r.bound = "StringWriter holding 0/3/20/40 bytes x all 34 typed pput_* x offsets {0,1,size-1,size,size+3, 2^63-1, 2^63, 2^63+1, 2^64-size-8..2^64-size, 2^64-16..2^64-1}; all 34 typed put_* appended to each";
}

// ---------------------------------------------------------------------------------------------------
// Cursor histories with sizes from the wrap grid, relative to the *current* cursor (round 2).
// A history is a sequence of letters; every call is judged against the model (an append or positional
// store that fits succeeds and stores exactly there; one that does not throws and changes nothing;
// positional stores never move the cursor), and the final buffer (canary frame included) is compared.
namespace {

struct T3 { uint8_t b[3]; };
struct T16 { uint8_t b[16]; };

enum BLType { BL_PUT, BL_PUT3, BL_PUT16, BL_WRITE, BL_WRITESTR, BL_PWRITE, BL_PPUT };
// symbolic values over capacity c and current cursor cur
enum BSym { S0, S1, SREMm1, SREM, SREMp1, S2_31, S2_32, S2_63m1, S2_63, SWRAPm1, SWRAP, SWRAPp1, SCAPWRAP, SMAXm1, SMAX, SCUR, SCAP, SCAPp1, SCAPm1, SCAPm3, SCAPm4, SM3, SM4, NBSYM };
const char* bsym_name[] = {"0", "1", "c-cur-1", "c-cur", "c-cur+1", "2^31", "2^32", "2^63-1", "2^63", "2^64-cur-1", "2^64-cur", "2^64-cur+1", "2^64-c", "2^64-2", "2^64-1", "cur", "c", "c+1", "c-1", "c-3", "c-4", "2^64-3", "2^64-4"};
uint64_t bval(int s, uint64_t c, uint64_t cur) {
  switch (s) {
    case S0: return 0;
    case S1: return 1;
    case SREMm1: return c - cur - 1;
    case SREM: return c - cur;
    case SREMp1: return c - cur + 1;
    case S2_31: return 1ull << 31;
    case S2_32: return 1ull << 32;
    case S2_63m1: return (1ull << 63) - 1;
    case S2_63: return 1ull << 63;
    case SWRAPm1: return 0 - cur - 1;
    case SWRAP: return 0 - cur;
    case SWRAPp1: return 0 - cur + 1;
    case SCAPWRAP: return 0 - c;
    case SMAXm1: return ~0ull - 1;
    case SMAX: return ~0ull;
    case SCUR: return cur;
    case SCAP: return c;
    case SCAPp1: return c + 1;
    case SCAPm1: return c - 1;
    case SCAPm3: return c - 3;
    case SCAPm4: return c - 4;
    case SM3: return 0 - 3ull;
    default: return 0 - 4ull;
  }
}

struct BLetter {
  BLType t;
  const Kind* k;
  int so, ss;  // offset symbol (positional forms), size symbol
  std::string name;
  const char* stem;
};

std::vector<BLetter> bw_letters() {
  std::vector<BLetter> L;
  for (const char* kn : {"u8", "u16b", "u32l", "u64b", "s16r", "f64l"}) L.push_back({BL_PUT, c01::kind(kn), 0, 0, std::string("put_") + kn, "BufferWriter::put<T>"});
  L.push_back({BL_PUT3, nullptr, 0, 0, "put<3-byte struct>", "BufferWriter::put<T>"});
  L.push_back({BL_PUT16, nullptr, 0, 0, "put<16-byte struct>", "BufferWriter::put<T>"});
  for (int s = S0; s <= SMAX; s++) L.push_back({BL_WRITE, nullptr, 0, s, std::string("write(ptr, ") + bsym_name[s] + ")", "BufferWriter::write"});
  for (int s : {S0, S1, SREM, SREMp1}) L.push_back({BL_WRITESTR, nullptr, 0, s, std::string("write(string of ") + bsym_name[s] + ")", "BufferWriter::write(string)"});
  const int pw[][2] = {{SCUR, SREM}, {SCUR, SREMp1}, {SCUR, SWRAP}, {S1, SMAX}, {SMAX, S1}, {SCAP, S0}, {SCAPp1, S0}, {S0, SCAP}};
  for (auto& p : pw) L.push_back({BL_PWRITE, nullptr, p[0], p[1], std::string("pwrite(") + bsym_name[p[0]] + ", ptr, " + bsym_name[p[1]] + ")", "BufferWriter::pwrite"});
  for (int s : {SCUR, SCAPm1, SCAP, SMAX}) L.push_back({BL_PPUT, c01::kind("u8"), s, 0, std::string("pput_u8(") + bsym_name[s] + ")", "BufferWriter::pput<T>"});
  for (int s : {SCUR, SCAPm4, SCAPm3, SM4, SM3}) L.push_back({BL_PPUT, c01::kind("u32l"), s, 0, std::string("pput_u32l(") + bsym_name[s] + ")", "BufferWriter::pput<T>"});
  return L;
}

// what a letter means in the state (c, cur): target offset, width, and whether it moves the cursor
struct BAct { uint64_t off, w; bool cursor; };
BAct bw_act(const BLetter& l, uint64_t c, uint64_t cur) {
  switch (l.t) {
    case BL_PUT: return {cur, (uint64_t)l.k->w, true};
    case BL_PUT3: return {cur, 3, true};
    case BL_PUT16: return {cur, 16, true};
    case BL_WRITE: case BL_WRITESTR: return {cur, bval(l.ss, c, cur), true};
    case BL_PWRITE: return {bval(l.so, c, cur), bval(l.ss, c, cur), false};
    default: return {bval(l.so, c, cur), (uint64_t)l.k->w, false};
  }
}

struct BwSources {
  // src[i][k]: k bytes for step i (k <= c+17); tiny: one byte, handed over with sizes that can never fit
  std::vector<std::vector<std::unique_ptr<Exact>>> src;
  Exact tiny;
  size_t maxk;
  BwSources(size_t c, size_t steps) : tiny(1, 0x21), maxk(c + 17) {
    src.resize(steps);
    for (size_t i = 0; i < steps; i++)
      for (size_t k = 0; k <= maxk; k++) {
        src[i].emplace_back(new Exact(k, 0));
        for (size_t q = 0; q < k; q++) src[i][k]->p[q] = (uint8_t)(0x41 + 0x20 * i + q);
      }
  }
  const uint8_t* get(size_t step, uint64_t k) const { return k <= maxk ? src[step][k]->p : tiny.p; }
};

std::string bw_hist_desc(const WBuf& wb, const std::vector<BLetter>& L, const std::vector<uint32_t>& h, int ctx) {
  std::string s = vf::fmt("BufferWriter over %zu bytes (%s):", wb.c, wb.name);
  uint64_t cur = 0;
  for (size_t i = 0; i < h.size(); i++) {
    BAct a = bw_act(L[h[i]], wb.c, cur);
    bool fits = in_range(a.off, a.w, wb.c);
    s += vf::fmt("%s %s [cursor %llu: %s bytes at %s, %s]", i ? ";" : "", L[h[i]].name.c_str(), (unsigned long long)cur, u64s(a.w).c_str(), u64s(a.off).c_str(), fits ? "fits" : "does not fit");
    if (fits && a.cursor) cur += a.w;
  }
  return s + c02::ctx_name(ctx);
}

void run_bw_history(const WBuf& wb, const BwSources& S, const std::vector<BLetter>& L, const std::vector<uint32_t>& h, int ctx, CaseResult& cr) {
  const size_t c = wb.c;
  std::vector<uint8_t> before = wb.snapshot(), model = before;
  BufferWriter bw(wb.buf, c);
  uint64_t cur = 0;
  std::string failure_key, failure;
  for (size_t i = 0; i < h.size() && failure.empty(); i++) {
    const BLetter& l = L[h[i]];
    const BAct a = bw_act(l, c, cur);
    const bool fits = in_range(a.off, a.w, c);
    uint8_t bytes[32];
    const uint8_t* srcp = bytes;
    const uint64_t v = 0xA1B2C3D4E5F60718ull + 0x0101010101010101ull * i;
    if (l.t == BL_PUT || l.t == BL_PPUT) c01::enc(bytes, v, l.k->w, l.k->e);
    else if (l.t == BL_PUT3 || l.t == BL_PUT16) { for (size_t q = 0; q < a.w; q++) bytes[q] = (uint8_t)(0xB0 + 0x10 * i + q); }
    else srcp = S.get(i, a.w);
    if (fits) memcpy(model.data() + wb.lead + a.off, srcp, a.w);
    cr.arm_key(fits ? (std::string(l.stem) + ":memory-error-in-range").c_str() : (std::string(l.stem) + ":out-of-range-not-rejected").c_str());
    std::string what, oc;
    auto call = [&] {
      oc = vf::outcome([&] {
        switch (l.t) {
          case BL_PUT: l.k->bw_put(bw, v); break;
          case BL_PUT3: { T3 t; memcpy(t.b, bytes, 3); bw.put<T3>(t); break; }
          case BL_PUT16: { T16 t; memcpy(t.b, bytes, 16); bw.put(t); break; }
          case BL_WRITE: bw.write(srcp, a.w); break;
          case BL_WRITESTR: { std::string str((const char*)srcp, a.w <= S.maxk ? a.w : 0); bw.write(str); break; }
          case BL_PWRITE: bw.pwrite(a.off, srcp, a.w); break;
          case BL_PPUT: l.k->bw_pput(bw, a.off, v); break;
        }
      }, &what);
    };
    if (i + 1 == h.size()) c02::in_context(ctx, call);
    else call();
    if (fits && oc != "ok") { failure_key = std::string(l.stem) + ":rejected-in-range"; failure = vf::fmt("step %zu (%s) fits; got %s (%s)", i + 1, l.name.c_str(), oc.c_str(), what.c_str()); }
    else if (!fits && oc == "ok") { failure_key = std::string(l.stem) + ":out-of-range-not-rejected"; failure = vf::fmt("step %zu (%s): offset+size exceeds the buffer, yet the call returned", i + 1, l.name.c_str()); }
    if (fits && a.cursor) cur += a.w;
  }
  std::vector<uint8_t> after = wb.snapshot();
  memcpy(wb.frame, before.data(), wb.framelen);  // restore for the next history of the batch
  if (failure.empty() && after != model) {
    const BLetter& l = L[h.back()];
    BAct a{0, 0, false};
    uint64_t cc = 0;
    for (size_t i = 0; i < h.size(); i++) { a = bw_act(L[h[i]], c, cc); if (in_range(a.off, a.w, c) && a.cursor) cc += a.w; }
    failure_key = std::string(l.stem) + (in_range(a.off, a.w, c) ? ":wrong-result" : ":stores-and-throws");
    failure = "buffer " + c01::hexb(after.data(), after.size()) + ", model " + c01::hexb(model.data(), model.size());
  }
  if (!failure.empty()) {
    cr.set(cr.msg, sizeof(cr.msg), bw_hist_desc(wb, L, h, ctx));
    cr.fail(failure_key, failure);
  } else cr.ok(vf::fmt("history of %zu/%s", h.size(), in_range(bw_act(L[h.back()], c, cur).off, 0, c) ? "ends inside" : "ends outside"));
}

// enumerates histories of length len as (prefix of max(0,len-2) letters) x (tail of min(len,2) letters):
// one case = one prefix with every tail
template <class F>
void for_each_prefix(size_t nletters, size_t plen, F&& f) {
  std::vector<uint32_t> pre(plen, 0);
  for (;;) {
    f(pre);
    size_t i = plen;
    for (;;) {
      if (i == 0) return;
      i--;
      if (++pre[i] < nletters) break;
      pre[i] = 0;
    }
  }
}

}  // namespace

VF_SECTION(bw_cursor, 16, 16, 90) {
  const auto L = bw_letters();
  const size_t A = L.size();
  const size_t depth = 3;
  for (size_t c : CAPS) {
    BwSources S(c, 4);
    for (int which = 0; which < 3; which++) {
      WBuf wb(which, c);
      r.note(vf::fmt("BufferWriter cursor histories c=%zu %s", c, wb.name));
      // thorough: one more level on the guard-page placement
      const size_t maxlen = (r.thorough() && which == 1) ? depth + 1 : depth;
      for (size_t len = 1; len <= maxlen; len++) {
        const size_t plen = len > 2 ? len - 2 : 0, tlen = len - plen;
        const size_t ntail = tlen == 1 ? A : A * A;
        for (int ctx = 0; ctx < (len <= 2 ? (int)c02::NCTX : 1); ctx++) {
          for_each_prefix(A, plen, [&](const std::vector<uint32_t>& pre) {
            if (!r.take()) return;
            auto hist_of = [&](size_t t) {
              std::vector<uint32_t> h = pre;
              if (tlen == 2) h.push_back((uint32_t)(t / A));
              h.push_back((uint32_t)(t % A));
              return h;
            };
            if (r.wants_desc()) r.desc(bw_hist_desc(wb, L, pre, ctx) + vf::fmt(" followed by every sequence of %zu letters (%zu letters)", tlen, A));
            r.evals += ntail - 1;
            r.nontrivial += ntail;
            r.states += ntail;
            r.transitions += ntail * len;
            auto* res = c02::run_batch(r, ntail, [&](size_t t, CaseResult& cr) { run_bw_history(wb, S, L, hist_of(t), ctx, cr); },
                [&](size_t t) { return bw_hist_desc(wb, L, hist_of(t), ctx); });
            c02::fold(r, res, ntail);
          });
        }
      }
    }
  }
  if (r.shard == 0) r.counters["letters"] += A;
  r.counters["forks"] += c02::stats().forks;
  r.bound = vf::fmt("capacity in {0,1,4,8,16} x {exact-heap, guard-page, canary-frame}: every sequence of <= 3 letters%s from the %zu-letter alphabet {put_u8/u16b/u32l/u64b/s16r/f64l, put<3-byte T>, put<16-byte T>; write(ptr, k) for k in {0,1,c-cur-1,c-cur,c-cur+1,2^31,2^32,2^63-1,2^63,2^64-cur-1,2^64-cur,2^64-cur+1,2^64-c,2^64-2,2^64-1}; write(string of 0|1|c-cur|c-cur+1); pwrite(off,ptr,k) at 8 (off,k) boundary pairs incl. (cur,2^64-cur), (1,2^64-1), (2^64-1,1); pput_u8 / pput_u32l at cur, c-4..c, 2^64-4..2^64-1}, sizes relative to the current cursor; histories of <= 2 letters also with the last call inside a catch handler / during unwinding / with errno set", r.thorough() ? " (4 on the guard-page placement)" : "", A);
}

// ---------------------------------------------------------------------------------------------------
// StringWriter histories: appends, positional puts, extension and reset on a writer that already holds
// data.  Model: a std::string.  Small writes grow the data to cover the write; a write that cannot be
// covered (size or offset at or beyond 2^63-1, or wrapping) must throw and leave the contents alone.
namespace {

enum SLType { SL_PUT, SL_PUT3, SL_WRITE, SL_WRITESTR, SL_PPUT, SL_EXTBY, SL_EXTTO, SL_RESET };
enum SSym { Z0, Z1, Z5, Z16, Z2_63m1, Z2_63, ZWRAPm1, ZWRAP, ZWRAPp1, ZMAXm1, ZMAX, ZSZm1, ZSZ, ZSZp2, ZSZp3, ZWRAPm8, ZM8, NSSYM };
const char* ssym_name[] = {"0", "1", "5", "16", "2^63-1", "2^63", "2^64-size-1", "2^64-size", "2^64-size+1", "2^64-2", "2^64-1", "size-1", "size", "size+2", "size+3", "2^64-size-8", "2^64-8"};
uint64_t sval(int s, uint64_t size) {
  switch (s) {
    case Z0: return 0;
    case Z1: return 1;
    case Z5: return 5;
    case Z16: return 16;
    case Z2_63m1: return (1ull << 63) - 1;
    case Z2_63: return 1ull << 63;
    case ZWRAPm1: return 0 - size - 1;
    case ZWRAP: return 0 - size;
    case ZWRAPp1: return 0 - size + 1;
    case ZMAXm1: return ~0ull - 1;
    case ZMAX: return ~0ull;
    case ZSZm1: return size - 1;
    case ZSZ: return size;
    case ZSZp2: return size + 2;
    case ZSZp3: return size + 3;
    case ZWRAPm8: return 0 - size - 8;
    default: return 0 - 8ull;
  }
}
struct SLetter {
  SLType t;
  const Kind* k;
  int sym;
  std::string name;
  const char* stem;
};
std::vector<SLetter> sw_letters() {
  std::vector<SLetter> L;
  for (const char* kn : {"u8", "u16b", "u32l", "u64b", "s32r", "f32"}) L.push_back({SL_PUT, c01::kind(kn), 0, std::string("put_") + kn, "StringWriter::put<T>"});
  L.push_back({SL_PUT3, nullptr, 0, "put<3-byte struct>", "StringWriter::put<T>"});
  for (int s : {Z0, Z1, Z5, Z16, Z2_63m1, Z2_63, ZWRAPm1, ZWRAP, ZWRAPp1, ZMAXm1, ZMAX}) L.push_back({SL_WRITE, nullptr, s, std::string("write(ptr, ") + ssym_name[s] + ")", "StringWriter::write"});
  for (int s : {Z0, Z1, Z16}) L.push_back({SL_WRITESTR, nullptr, s, std::string("write(string of ") + ssym_name[s] + ")", "StringWriter::write(string)"});
  for (const char* kn : {"u8", "u32l", "u64b"})
    for (int s : {Z0, ZSZm1, ZSZ, ZSZp3, Z2_63m1, Z2_63, ZWRAPm8, ZWRAPm1, ZWRAP, ZM8, ZMAX}) L.push_back({SL_PPUT, c01::kind(kn), s, std::string("pput_") + kn + "(" + ssym_name[s] + ")", "StringWriter::pput<T>"});
  for (int s : {Z0, Z1, Z5, Z2_63, ZWRAP, ZMAX}) L.push_back({SL_EXTBY, nullptr, s, std::string("extend_by(") + ssym_name[s] + ")", "StringWriter::extend_by"});
  for (int s : {Z0, ZSZ, ZSZp2}) L.push_back({SL_EXTTO, nullptr, s, std::string("extend_to(") + ssym_name[s] + ")", "StringWriter::extend_to"});
  L.push_back({SL_RESET, nullptr, 0, "reset()", "StringWriter::reset"});
  return L;
}

const uint64_t SW_SMALL = 64;                  // everything the alphabet can legitimately ask for is below this
const uint64_t SW_HUGE = (1ull << 63) - 1;     // at or above: beyond every std::string::max_size()

std::string sw_hist_desc(size_t init, int mode, const std::vector<SLetter>& L, const std::vector<uint32_t>& h, int ctx) {
  std::string s = vf::fmt("StringWriter holding %zu bytes%s:", init, mode ? " (heap block shrunk to fit before every call)" : "");
  for (size_t i = 0; i < h.size(); i++) s += (i ? "; " : " ") + L[h[i]].name;
  return s + c02::ctx_name(ctx);
}

void run_sw_history(size_t init, int mode, const Exact& src, const Exact& tiny, const std::vector<SLetter>& L, const std::vector<uint32_t>& h, int ctx, CaseResult& cr) {
  StringWriter sw;
  std::string model;
  for (size_t q = 0; q < init; q++) model += (char)(0x41 + q);
  sw.write(model);
  std::string failure_key, failure;
  auto describe_step = [&](size_t i) { return vf::fmt("step %zu (%s, size() was %zu)", i + 1, L[h[i]].name.c_str(), model.size()); };
  for (size_t i = 0; i < h.size() && failure.empty(); i++) {
    const SLetter& l = L[h[i]];
    const uint64_t size = model.size();
    const uint64_t x = sval(l.sym, size);
    const uint64_t v = 0xA1B2C3D4E5F60718ull + 0x0101010101010101ull * i;
    uint8_t bytes[8];
    if (l.k) c01::enc(bytes, v, l.k->w, l.k->e);
    if (mode) sw.str().shrink_to_fit();
    // expectation: 'G' grows/stores per `want`, 'T' must throw with contents unchanged, 'D' don't-care (executed; model follows the object)
    char expect = 'G';
    std::string want = model;
    switch (l.t) {
      case SL_PUT: want.append((const char*)bytes, l.k->w); break;
      case SL_PUT3: want.append("\xC1\xC2\xC3", 3); break;
      case SL_WRITE: case SL_WRITESTR:
        if (x <= SW_SMALL) want.append((const char*)src.p, x);
        else expect = x >= SW_HUGE ? 'T' : 'D';
        break;
      case SL_PPUT:
        if (x <= SW_SMALL + size) {
          if (want.size() < x + l.k->w) want.resize(x + l.k->w, '\0');
          memcpy(want.data() + x, bytes, l.k->w);
        } else expect = x >= SW_HUGE ? 'T' : 'D';
        break;
      case SL_EXTBY:
        // extension is not a write of caller data; the statement is silent about sums that wrap or exceed max_size
        if (x <= SW_SMALL) want.resize(size + x, '\0');
        else expect = 'D';
        break;
      case SL_EXTTO:
        if (x >= size && x <= size + SW_SMALL) want.resize(x, '\0');
        else expect = 'D';  // shrinking through extend_to: not a write
        break;
      case SL_RESET: expect = 'D'; break;
    }
    cr.arm_key((std::string(l.stem) + (expect == 'T' ? ":neither-grows-nor-throws" : ":memory-error")).c_str());
    std::string what, oc;
    auto call = [&] {
      oc = vf::outcome([&] {
        switch (l.t) {
          case SL_PUT: l.k->sw_put(sw, v); break;
          case SL_PUT3: { T3 t{{0xC1, 0xC2, 0xC3}}; sw.put(t); break; }
          case SL_WRITE: sw.write(x <= SW_SMALL ? src.p : tiny.p, x); break;
          case SL_WRITESTR: { std::string str((const char*)src.p, x <= SW_SMALL ? x : 0); sw.write(str); break; }
          case SL_PPUT: l.k->sw_pput(sw, x, v); break;
          case SL_EXTBY: sw.extend_by(x); break;
          case SL_EXTTO: sw.extend_to(x); break;
          case SL_RESET: sw.reset(); break;
        }
      }, &what);
    };
    if (i + 1 == h.size()) c02::in_context(ctx, call);
    else call();
    const std::string& now = sw.str();
    if (now.size() != sw.size()) { failure_key = std::string(l.stem) + ":wrong-result"; failure = describe_step(i) + vf::fmt(": size() = %zu but str().size() = %zu", sw.size(), now.size()); break; }
    if (now.size() > 4096) { failure_key = std::string(l.stem) + ":wrong-result"; failure = describe_step(i) + vf::fmt(": the writer now holds %zu bytes", now.size()); break; }
    if (expect == 'D') { model = now; continue; }
    if (expect == 'T') {
      if (oc == "ok") { failure_key = std::string(l.stem) + ":neither-grows-nor-throws"; failure = describe_step(i) + vf::fmt(": cannot be covered, yet the call returned; size() = %zu", now.size()); }
      else if (now != model) { failure_key = std::string(l.stem) + ":stores-and-throws"; failure = describe_step(i) + ": threw " + oc + " and changed the contents to " + c01::hexb(now.data(), std::min<size_t>(now.size(), 64)); }
      continue;
    }
    if (oc != "ok") { failure_key = std::string(l.stem) + ":rejected-in-range"; failure = describe_step(i) + ": a small write can always grow the buffer; got " + oc + " (" + what + ")"; }
    else if (now.size() < want.size()) { failure_key = std::string(l.stem) + ":neither-grows-nor-throws"; failure = describe_step(i) + vf::fmt(": returned normally with size() = %zu, which does not cover the write (model %zu)", now.size(), want.size()); }
    else if (now != want) { failure_key = std::string(l.stem) + ":wrong-result"; failure = describe_step(i) + ": contents " + c01::hexb(now.data(), std::min<size_t>(now.size(), 96)) + ", model " + c01::hexb(want.data(), std::min<size_t>(want.size(), 96)); }
    model = want;
  }
  if (!failure.empty()) {
    cr.set(cr.msg, sizeof(cr.msg), sw_hist_desc(init, mode, L, h, ctx));
    cr.fail(failure_key, failure);
  } else cr.ok(vf::fmt("history of %zu/final size %s", h.size(), model.size() <= 15 ? "small-string" : "heap"));
}

}  // namespace

VF_SECTION(sw_hist, 16, 16, 90) {
  const auto L = sw_letters();
  const size_t A = L.size();
  Exact src(SW_SMALL, 0), tiny(1, 0x21);
  for (size_t q = 0; q < SW_SMALL; q++) src.p[q] = (uint8_t)(0x61 + q % 26);
  for (size_t init : std::vector<size_t>{0, 3, 20}) {
    for (int mode = 0; mode < 2; mode++) {
      r.note(vf::fmt("StringWriter histories init=%zu mode=%d", init, mode));
      const size_t maxlen = (r.thorough() && mode == 1 && init == 3) ? 4 : 3;
      for (size_t len = 1; len <= maxlen; len++) {
        const size_t plen = len > 2 ? len - 2 : 0, tlen = len - plen;
        const size_t ntail = tlen == 1 ? A : A * A;
        for (int ctx = 0; ctx < (len <= 2 ? (int)c02::NCTX : 1); ctx++) {
          for_each_prefix(A, plen, [&](const std::vector<uint32_t>& pre) {
            if (!r.take()) return;
            auto hist_of = [&](size_t t) {
              std::vector<uint32_t> h = pre;
              if (tlen == 2) h.push_back((uint32_t)(t / A));
              h.push_back((uint32_t)(t % A));
              return h;
            };
            if (r.wants_desc()) r.desc(sw_hist_desc(init, mode, L, pre, ctx) + vf::fmt(" followed by every sequence of %zu letters (%zu letters)", tlen, A));
            r.evals += ntail - 1;
            r.nontrivial += ntail;
            r.states += ntail;
            r.transitions += ntail * len;
            auto* res = c02::run_batch(r, ntail, [&](size_t t, CaseResult& cr) { run_sw_history(init, mode, src, tiny, L, hist_of(t), ctx, cr); },
                [&](size_t t) { return sw_hist_desc(init, mode, L, hist_of(t), ctx); });
            c02::fold(r, res, ntail);
          });
        }
      }
    }
  }
  if (r.shard == 0) r.counters["letters"] += A;
  r.counters["forks"] += c02::stats().forks;
  r.bound = vf::fmt("StringWriter holding 0/3/20 bytes x {as grown, heap block shrunk to fit before every call}: every sequence of <= 3 letters%s from the %zu-letter alphabet {put_u8/u16b/u32l/u64b/s32r/f32, put<3-byte T>; write(ptr, k) for k in {0,1,5,16,2^63-1,2^63,2^64-size-1,2^64-size,2^64-size+1,2^64-2,2^64-1}; write(string of 0|1|16); pput_u8/u32l/u64b at {0,size-1,size,size+3,2^63-1,2^63,2^64-size-8,2^64-size-1,2^64-size,2^64-8,2^64-1}; extend_by, extend_to, reset()}, sizes and offsets relative to the current size; histories of <= 2 letters also with the last call inside a catch handler / during unwinding / with errno set", r.thorough() ? " (4 on the shrunk variant holding 3 bytes)" : "", A);
}
