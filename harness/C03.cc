// C03 — endian-explicit scalar wrappers behave as native values stored in the named byte order;
// bswap helpers reverse the low N bits' byte lanes and are involutions; sign_extend/ext24/ext48
// replicate the top bit.
//
// E-ENUM.  Oracle for the wrappers = the same C++ operator applied to a native T variable (this is
// the property's definition) plus an independent byte encoder (compiler byte-swap intrinsic +
// memcpy) for the raw object bytes.  Oracle for the bswap helpers = a byte-lane loop.
//
// Every wrapper case runs on a wrapper object that sits between two canary bytes in a packed cell
// (so the object is misaligned and any write outside sizeof(T) bytes is visible); the prior state is
// installed through the independent encoder, never through the code under test.
#include <math.h>
#include <string.h>

#include <limits>
#include <new>
#include <string>
#include <type_traits>
#include <vector>

#include "Encoding.hh"
#include "vf.hh"

using namespace phosg;

namespace {

enum Order { ORD_BE, ORD_LE };
#if defined(__BYTE_ORDER__) && (__BYTE_ORDER__ == __ORDER_LITTLE_ENDIAN__)
constexpr Order ORD_RE = ORD_BE;  // "reverse" of the host
constexpr Order ORD_HOST = ORD_LE;
#else
constexpr Order ORD_RE = ORD_LE;
constexpr Order ORD_HOST = ORD_BE;
#endif
const char* order_name(Order o) { return o == ORD_BE ? "big-endian" : "little-endian"; }

template <size_t N> struct UIntFor;
template <> struct UIntFor<1> { using type = uint8_t; };
template <> struct UIntFor<2> { using type = uint16_t; };
template <> struct UIntFor<4> { using type = uint32_t; };
template <> struct UIntFor<8> { using type = uint64_t; };

template <class T>
__attribute__((always_inline)) inline uint64_t bits_of(T v) {
  typename UIntFor<sizeof(T)>::type u;
  memcpy(&u, &v, sizeof(T));
  return u;
}
template <class T>
__attribute__((always_inline)) inline T from_bits(uint64_t b) {
  typename UIntFor<sizeof(T)>::type u = static_cast<typename UIntFor<sizeof(T)>::type>(b);
  T v;
  memcpy(&v, &u, sizeof(T));
  return v;
}

// Independent encoder: value -> the integer whose in-memory image is the sizeof(T) bytes of the value
// in the named order (compiler intrinsic, not phosg).
template <class T>
__attribute__((always_inline)) inline typename UIntFor<sizeof(T)>::type encode_u(T v, Order o) {
  typename UIntFor<sizeof(T)>::type u;
  memcpy(&u, &v, sizeof(T));
  if (o != ORD_HOST) {
    if constexpr (sizeof(T) == 2) u = __builtin_bswap16(u);
    else if constexpr (sizeof(T) == 4) u = __builtin_bswap32(u);
    else if constexpr (sizeof(T) == 8) u = __builtin_bswap64(u);
  }
  return u;
}

// Independent lane reversal of the low n bytes (byte loop; used for the bswap helpers).
inline uint64_t rev_lanes(uint64_t v, int n) {
  uint64_t r = 0;
  for (int i = 0; i < n; i++) r |= ((v >> (8 * i)) & 0xFFull) << (8 * (n - 1 - i));
  return r;
}
// Independent sign extension of the low `bits` bits to 64 bits (arithmetic, not mask-or).
inline int64_t sext(uint64_t v, int bits) {
  if (bits < 64) v &= (1ull << bits) - 1;
  int64_t x = static_cast<int64_t>(v);
  if (bits < 64 && ((v >> (bits - 1)) & 1)) x -= (static_cast<int64_t>(1) << bits);
  return x;
}

std::string hexv(uint64_t b, size_t bytes) { return vf::fmt("0x%0*llX", (int)(bytes * 2), (unsigned long long)b); }
std::string hexbytes(uint64_t img, size_t n) {
  uint8_t p[8];
  memcpy(p, &img, 8);  // host is little-endian or big-endian: the image was taken with memcpy of the low n bytes
  if (ORD_HOST == ORD_BE) memmove(p, p + 8 - n, n);
  std::string s;
  for (size_t i = 0; i < n; i++) s += vf::fmt("%s%02X", i ? " " : "", p[i]);
  return s;
}

enum Op {
  OP_CTOR, OP_ASSIGN, OP_STORE,
  OP_ADD, OP_SUB, OP_MUL, OP_DIV, OP_MOD, OP_AND, OP_OR, OP_XOR,
  OP_SHL, OP_SHR,
  OP_PREINC, OP_POSTINC, OP_PREDEC, OP_POSTDEC,
  NOPS
};
// stable key stems (replay file names are derived from keys; punctuation would collide there)
const char* op_key[NOPS] = {"ctor", "assign", "store", "add_assign", "sub_assign", "mul_assign", "div_assign", "mod_assign",
    "and_assign", "or_assign", "xor_assign", "shl_assign", "shr_assign", "preinc", "postinc", "predec", "postdec"};
const char* op_name[NOPS] = {"ctor", "operator=", "store", "operator+=", "operator-=", "operator*=", "operator/=", "operator%=",
    "operator&=", "operator|=", "operator^=", "operator<<=", "operator>>=", "operator++()", "operator++(int)", "operator--()", "operator--(int)"};

template <class W>
struct __attribute__((packed)) Cell {
  uint8_t pre;
  W w;
  uint8_t post;
};

const char* fail_kind(int f) {
  switch (f) {
    case 1: return "stored-value";
    case 2: return "returned-value";
    case 3: return "writes-outside-object";
    default: return "returned-reference";
  }
}

struct Obs {
  int fail = 0;  // 0 ok, 1 stored value, 2 returned value, 3 wrote outside its bytes, 4 returned reference is not the object
  bool skipped = false;
  uint64_t want, want_ret, got_load, got_conv, got_ret, got_rawval;
  uint64_t raw_img, want_raw_img;  // memory images (host integers) of the object bytes observed / expected
  uint8_t pre, post;
};

// Compares everything observable about the wrapper with the native result.
template <class W, class T>
__attribute__((always_inline)) inline void finish(Cell<W>& c, Order o, T n, T ret_n, T ret_w, bool ref_ok, bool nan_relax, Obs& ob) {
  using U = typename UIntFor<sizeof(T)>::type;
  W& w = c.w;
  T ld = w.load();
  T cv = static_cast<T>(w);
  if constexpr (std::is_floating_point_v<T>) {
    // NaN produced by arithmetic: only NaN-ness is demanded (payload/sign of a computed NaN is not
    // part of "what the operator yields"); a stored NaN (ctor/=/store) stays bit-exact.
    if (nan_relax && n != n && ld != ld) n = ld;
    if (nan_relax && ret_n != ret_n && ret_w != ret_w) ret_n = ret_w;
  }
  // everything is computed in locals; the observation record is only filled in for a failing case
  uint64_t want = bits_of(n), want_ret = bits_of(ret_n), got_load = bits_of(ld), got_conv = bits_of(cv), got_ret = bits_of(ret_w);
  U want_img = encode_u(n, o);
  U raw_img;
  memcpy(&raw_img, reinterpret_cast<const void*>(&w), sizeof(T));  // the object's bytes
  auto rawv = w.load_raw();
  static_assert(sizeof(rawv) == sizeof(T), "StoredT must have the size of ExposedT");
  U rawv_img;
  memcpy(&rawv_img, &rawv, sizeof(T));
  int f;
  if (c.pre != 0xC3 || c.post != 0x3C) f = 3;
  else if (got_load != want || got_conv != want || raw_img != want_img || rawv_img != want_img) f = 1;
  else if (got_ret != want_ret) f = 2;
  else if (!ref_ok) f = 4;
  else f = 0;
  ob.fail = f;
  if (__builtin_expect(f != 0, 0)) {
    ob.want = want;
    ob.want_ret = want_ret;
    ob.got_load = got_load;
    ob.got_conv = got_conv;
    ob.got_ret = got_ret;
    ob.raw_img = raw_img;
    ob.want_raw_img = want_img;
    ob.got_rawval = rawv_img;
    ob.pre = c.pre;
    ob.post = c.post;
  }
}

template <class W, class T>
__attribute__((always_inline)) inline void install(Cell<W>& c, Order o, T before) {
  c.pre = 0xC3;
  c.post = 0x3C;
  auto img = encode_u(before, o);
  memcpy(reinterpret_cast<void*>(&c.w), &img, sizeof(T));
}

// ctor / operator=(T) / store(T): prior state `prior`, new value `nv`.
template <class W, class T>
__attribute__((always_inline)) inline void run_assign(Cell<W>& c, Order o, int op, T prior, T nv, Obs& ob) {
  ob.skipped = false;
  install<W, T>(c, o, prior);
  T ret_w = nv;
  bool ref_ok = true;
  switch (op) {
    case OP_CTOR:
      new (reinterpret_cast<void*>(&c.w)) W(nv);
      break;
    case OP_ASSIGN: {
      auto&& rr = (c.w = nv);
      ref_ok = (reinterpret_cast<const void*>(&rr) == reinterpret_cast<const void*>(&c.w));
      ret_w = static_cast<T>(rr);
      break;
    }
    default:
      c.w.store(nv);
      break;
  }
  finish<W, T>(c, o, nv, nv, ret_w, ref_ok, false, ob);
}

template <class T, class D>
__attribute__((always_inline)) inline bool binop_defined(int op, T a, D d) {
  if constexpr (std::is_floating_point_v<T>) {
    return op == OP_ADD || op == OP_SUB || op == OP_MUL || op == OP_DIV;
  } else {
    using P = decltype(a + d);  // type the arithmetic is carried out in
    P pa = static_cast<P>(a), pd = static_cast<P>(d), tmp;
    switch (op) {
      case OP_ADD: return std::is_unsigned_v<P> || !__builtin_add_overflow(pa, pd, &tmp);
      case OP_SUB: return std::is_unsigned_v<P> || !__builtin_sub_overflow(pa, pd, &tmp);
      case OP_MUL: return std::is_unsigned_v<P> || !__builtin_mul_overflow(pa, pd, &tmp);
      case OP_DIV:
      case OP_MOD:
        if (pd == 0) return false;
        if constexpr (std::is_signed_v<P>) {
          if (pa == std::numeric_limits<P>::min() && pd == static_cast<P>(-1)) return false;
        }
        return true;
      case OP_SHL:
      case OP_SHR: return d >= 0 && static_cast<uint64_t>(d) < sizeof(T) * 8;
      default: return true;
    }
  }
}

// x op= d on either a native T or a wrapper; returns the value of the expression.
template <class T, class X, class D>
__attribute__((always_inline)) inline T apply_binop(int op, X& x, D d, bool& ref_ok) {
#define VF_BIN(OPTOK)                                                                              \
  {                                                                                                \
    auto&& rr = (x OPTOK d); /* auto&&: a by-value return still compiles and is judged */                                                                        \
    ref_ok = (reinterpret_cast<const void*>(&rr) == reinterpret_cast<const void*>(&x));            \
    return static_cast<T>(rr);                                                                     \
  }
  switch (op) {
    case OP_ADD: VF_BIN(+=)
    case OP_SUB: VF_BIN(-=)
    case OP_MUL: VF_BIN(*=)
    case OP_DIV: VF_BIN(/=)
    default: break;
  }
  if constexpr (std::is_integral_v<T>) {
    switch (op) {
      case OP_MOD: VF_BIN(%=)
      case OP_AND: VF_BIN(&=)
      case OP_OR: VF_BIN(|=)
      case OP_XOR: VF_BIN(^=)
      case OP_SHL: VF_BIN(<<=)
      case OP_SHR: VF_BIN(>>=)
      default: break;
    }
  }
#undef VF_BIN
  __builtin_trap();
}

template <class W, class T, class D>
__attribute__((always_inline)) inline void run_binop(Cell<W>& c, Order o, int op, T before, D d, Obs& ob) {
  ob.skipped = false;
  if (!binop_defined<T, D>(op, before, d)) {
    ob.skipped = true;
    ob.fail = 0;
    return;
  }
  install<W, T>(c, o, before);
  T n = before;
  bool ref_n = true, ref_w = true;
  T ret_n = apply_binop<T, T, D>(op, n, d, ref_n);
  T ret_w = apply_binop<T, W, D>(op, c.w, d, ref_w);
  finish<W, T>(c, o, n, ret_n, ret_w, ref_w, true, ob);
}

template <class T>
__attribute__((always_inline)) inline bool incdec_defined(int op, T a) {
  if constexpr (std::is_integral_v<T> && std::is_signed_v<T> && sizeof(T) >= sizeof(int)) {
    if (op == OP_PREINC || op == OP_POSTINC) return a != std::numeric_limits<T>::max();
    return a != std::numeric_limits<T>::min();
  }
  return true;
}

template <class W, class T>
__attribute__((always_inline)) inline void run_incdec(Cell<W>& c, Order o, int op, T before, Obs& ob) {
  ob.skipped = false;
  if (!incdec_defined<T>(op, before)) {
    ob.skipped = true;
    ob.fail = 0;
    return;
  }
  install<W, T>(c, o, before);
  T n = before;
  T ret_n, ret_w;
  switch (op) {
    case OP_PREINC: ret_n = ++n; ret_w = ++c.w; break;
    case OP_POSTINC: ret_n = n++; ret_w = c.w++; break;
    case OP_PREDEC: ret_n = --n; ret_w = --c.w; break;
    default: ret_n = n--; ret_w = c.w--; break;
  }
  finish<W, T>(c, o, n, ret_n, ret_w, true, true, ob);
}

template <class T>
std::string show_val(uint64_t bits) {
  if constexpr (std::is_floating_point_v<T>) return vf::fmt("%s(%.9g)", hexv(bits, sizeof(T)).c_str(), (double)from_bits<T>(bits));
  else if constexpr (std::is_signed_v<T>) return vf::fmt("%s(%lld)", hexv(bits, sizeof(T)).c_str(), (long long)from_bits<T>(bits));
  else return hexv(bits, sizeof(T));
}

template <class T>
std::string describe_head(const char* wname, Order o, int op, uint64_t before_bits, const std::string& operand, const Obs& ob) {
  std::string s = vf::fmt("%s (%s %d-bit) holding %s: %s", wname, order_name(o), (int)sizeof(T) * 8, show_val<T>(before_bits).c_str(), op_name[op]);
  if (!operand.empty()) s += " operand " + operand;
  if (ob.skipped) return s + " [native result undefined: not compared]";
  return s;
}
// full observation; only valid for a failing case (finish() fills the record only then)
template <class T>
std::string describe(const char* wname, Order o, int op, uint64_t before_bits, const std::string& operand, const Obs& ob) {
  std::string s = describe_head<T>(wname, o, op, before_bits, operand, ob);
  if (ob.skipped || !ob.fail) return s;
  s += vf::fmt(" | native: value %s, expression yields %s | wrapper: load() %s, conversion %s, raw bytes [%s] (expected [%s]), load_raw() %s, expression yields %s, canaries %02X/%02X",
      show_val<T>(ob.want).c_str(), show_val<T>(ob.want_ret).c_str(), show_val<T>(ob.got_load).c_str(), show_val<T>(ob.got_conv).c_str(),
      hexbytes(ob.raw_img, sizeof(T)).c_str(), hexbytes(ob.want_raw_img, sizeof(T)).c_str(), hexv(ob.got_rawval, sizeof(T)).c_str(), show_val<T>(ob.got_ret).c_str(), ob.pre, ob.post);
  return s;
}

struct Tally {
  uint64_t ok[NOPS] = {0}, skipped[NOPS] = {0}, failed[NOPS][5] = {{0}};
  // first failure of a kind goes through r.fail (describes the minimal case); repeats are only counted
  template <class F>
  inline void fail(vf::Run& r, int op, int kind, F&& describe_fn) {
    if (failed[op][kind]++ == 0) r.fail(std::string(op_key[op]) + ":" + fail_kind(kind), describe_fn);
  }
  void flush(vf::Run& r, const char* prefix) {
    for (int i = 0; i < NOPS; i++) {
      for (int k = 0; k < 5; k++) {
        if (failed[i][k] > 1) {
          std::string key = std::string(op_key[i]) + ":" + fail_kind(k);
          r.viol[key].count += failed[i][k] - 1;
          r.hist["VIOLATION:" + key] += failed[i][k] - 1;
        }
      }
    }
    for (int i = 0; i < NOPS; i++) {
      if (ok[i]) r.hist[std::string(prefix) + op_name[i] + ":equals-native"] += ok[i];
      if (skipped[i]) r.hist[std::string(prefix) + op_name[i] + ":native-undefined(not compared)"] += skipped[i];
    }
  }
};

template <class T, class OperandFn>
inline void account(vf::Run& r, Tally& t, int op, const Obs& ob, const char* wname, Order o, uint64_t before_bits, OperandFn&& operand_fn) {
  if (ob.skipped) {
    t.skipped[op]++;
    return;
  }
  r.nontriv();
  if (ob.fail) t.fail(r, op, ob.fail, [&] { return describe<T>(wname, o, op, before_bits, operand_fn(), ob); });
  else t.ok[op]++;
}

// ---- value sets -------------------------------------------------------------------------------
const uint8_t L9[9] = {0x00, 0x01, 0x7F, 0x80, 0xFF, 0x02, 0x81, 0xFE, 0xA5};
const uint8_t L5[5] = {0x00, 0x01, 0x7F, 0x80, 0xFF};

// all byte-lane combinations from `lanes` over `nbytes` bytes, then walking one / walking zero,
// then the all-distinct pattern and its complement.  Simplest (all-zero) first.
std::vector<uint64_t> lane_set(const uint8_t* lanes, size_t nl, int nbytes) {
  std::vector<uint64_t> v;
  uint64_t total = 1;
  for (int i = 0; i < nbytes; i++) total *= nl;
  v.reserve(total + 2 * nbytes * 8 + 2);
  for (uint64_t k = 0; k < total; k++) {
    uint64_t x = k, val = 0;
    for (int i = 0; i < nbytes; i++) {
      val |= static_cast<uint64_t>(lanes[x % nl]) << (8 * i);
      x /= nl;
    }
    v.push_back(val);
  }
  uint64_t mask = nbytes == 8 ? ~0ull : ((1ull << (8 * nbytes)) - 1);
  for (int b = 0; b < nbytes * 8; b++) v.push_back(1ull << b);
  for (int b = 0; b < nbytes * 8; b++) v.push_back(~(1ull << b) & mask);
  v.push_back(0x0102030405060708ull & mask);
  v.push_back(~0x0102030405060708ull & mask);
  return v;
}

template <class T>
std::vector<T> typed(const std::vector<uint64_t>& bits) {
  std::vector<T> v;
  v.reserve(bits.size());
  for (uint64_t b : bits) v.push_back(from_bits<T>(b));
  return v;
}

// Integer wrapper driver: per-case take().
template <class W, class T, class D>
void drive_int(vf::Run& r, const char* wname, Order o, const std::vector<T>& values, const std::vector<T>& assign_values,
    const std::vector<D>& operands, const std::vector<int>& shifts) {
  r.note(wname);
  Tally t;
  Cell<W> cell;
  Obs ob;
  if (r.take()) {
    if (r.wants_desc()) r.desc(vf::fmt("sizeof(%s) == sizeof(native) == %zu", wname, sizeof(T)));
    r.nontriv();
    if (sizeof(W) != sizeof(T) || sizeof(Cell<W>) != sizeof(T) + 2) r.fail("layout:sizeof", [&] { return vf::fmt("sizeof(%s) = %zu, packed cell = %zu, native = %zu", wname, sizeof(W), sizeof(Cell<W>), sizeof(T)); });
    else r.ok("layout:sizeof-equals-native");
  }
  for (int op = OP_CTOR; op <= OP_STORE; op++) {
    for (T nv : assign_values) {
      if (!r.take()) continue;
      T prior = from_bits<T>(~bits_of(nv));
      run_assign<W, T>(cell, o, op, prior, nv, ob);
      if (r.wants_desc()) r.desc(describe_head<T>(wname, o, op, bits_of(prior), show_val<T>(bits_of(nv)), ob));
      account<T>(r, t, op, ob, wname, o, bits_of(prior), [&] { return std::string(show_val<T>(bits_of(nv))); });
    }
  }
  for (int op = OP_ADD; op <= OP_XOR; op++) {
    for (D d : operands) {
      for (T v : values) {
        if (!r.take()) continue;
          run_binop<W, T, D>(cell, o, op, v, d, ob);
        if (r.wants_desc()) r.desc(describe_head<T>(wname, o, op, bits_of(v), vf::fmt("%lld", (long long)d), ob));
        account<T>(r, t, op, ob, wname, o, bits_of(v), [&] { return std::string(vf::fmt("%lld (0x%llX)", (long long)d, (unsigned long long)d)); });
      }
    }
  }
  for (int op = OP_SHL; op <= OP_SHR; op++) {
    for (int d : shifts) {
      for (T v : values) {
        if (!r.take()) continue;
          run_binop<W, T, int>(cell, o, op, v, d, ob);
        account<T>(r, t, op, ob, wname, o, bits_of(v), [&] { return std::string(vf::fmt("%d", d)); });
      }
    }
  }
  for (int op = OP_PREINC; op <= OP_POSTDEC; op++) {
    for (T v : values) {
      if (!r.take()) continue;
      run_incdec<W, T>(cell, o, op, v, ob);
      account<T>(r, t, op, ob, wname, o, bits_of(v), [&] { return std::string(""); });
    }
  }
  t.flush(r, (std::string(wname) + "/").c_str());
}

// Float wrapper driver.
template <class W, class T>
void drive_float(vf::Run& r, const char* wname, Order o, const std::vector<T>& values, const std::vector<T>& operands) {
  r.note(wname);
  Tally t;
  Cell<W> cell;
  Obs ob;
  if (r.take()) {
    r.nontriv();
    if (sizeof(W) != sizeof(T) || sizeof(Cell<W>) != sizeof(T) + 2) r.fail("layout:sizeof", [&] { return vf::fmt("sizeof(%s) = %zu, packed cell = %zu, native = %zu", wname, sizeof(W), sizeof(Cell<W>), sizeof(T)); });
    else r.ok("layout:sizeof-equals-native");
  }
  for (int op = OP_CTOR; op <= OP_STORE; op++) {
    for (T nv : values) {
      if (!r.take()) continue;
      T prior = from_bits<T>(~bits_of(nv));
      run_assign<W, T>(cell, o, op, prior, nv, ob);
      if (r.wants_desc()) r.desc(describe_head<T>(wname, o, op, bits_of(prior), show_val<T>(bits_of(nv)), ob));
      account<T>(r, t, op, ob, wname, o, bits_of(prior), [&] { return std::string(show_val<T>(bits_of(nv))); });
    }
  }
  for (int op = OP_ADD; op <= OP_DIV; op++) {
    for (T d : operands) {
      for (T v : values) {
        if (!r.take()) continue;
          run_binop<W, T, T>(cell, o, op, v, d, ob);
        account<T>(r, t, op, ob, wname, o, bits_of(v), [&] { return std::string(show_val<T>(bits_of(d))); });
      }
    }
  }
  for (int op = OP_PREINC; op <= OP_POSTDEC; op++) {
    for (T v : values) {
      if (!r.take()) continue;
      run_incdec<W, T>(cell, o, op, v, ob);
      account<T>(r, t, op, ob, wname, o, bits_of(v), [&] { return std::string(""); });
    }
  }
  t.flush(r, (std::string(wname) + "/").c_str());
}

// Block driver (thorough): one case = 65 536 consecutive 32-bit patterns, 7 value-only operators each.
template <class W, class T>
void drive_block32(vf::Run& r, const char* wname, Order o) {
  r.note(wname);
  Tally t;
  Cell<W> cell;
  Obs ob;
  for (uint32_t hi = 0; hi < 0x10000; hi++) {
    if (!r.take()) continue;
    if (r.wants_desc()) r.desc(vf::fmt("%s: ctor(+load/conversion/raw bytes), ++x, x++, --x, x-- on all 65536 bit patterns 0x%04X0000..0x%04XFFFF", wname, hi, hi));
    uint64_t done = 0;
    for (uint32_t lo = 0; lo < 0x10000; lo++) {
      uint32_t bits = (hi << 16) | lo;
      T v = from_bits<T>(bits);
      T prior = from_bits<T>(~static_cast<uint64_t>(bits));
      // operators spelled out with constant operator codes so the dispatch folds away
#define C03_STEP(OP, CALL, BEFORE, OPERAND)                                                                     \
  CALL;                                                                                                         \
  if (ob.skipped) t.skipped[OP]++;                                                                              \
  else {                                                                                                        \
    done++;                                                                                                     \
    if (ob.fail) t.fail(r, OP, ob.fail, [&] { return describe<T>(wname, o, OP, bits_of(BEFORE), OPERAND, ob); }); \
    else t.ok[OP]++;                                                                                            \
  }
      C03_STEP(OP_CTOR, (run_assign<W, T>(cell, o, OP_CTOR, prior, v, ob)), prior, show_val<T>(bits))
      C03_STEP(OP_PREINC, (run_incdec<W, T>(cell, o, OP_PREINC, v, ob)), v, std::string())
      C03_STEP(OP_POSTINC, (run_incdec<W, T>(cell, o, OP_POSTINC, v, ob)), v, std::string())
      C03_STEP(OP_PREDEC, (run_incdec<W, T>(cell, o, OP_PREDEC, v, ob)), v, std::string())
      C03_STEP(OP_POSTDEC, (run_incdec<W, T>(cell, o, OP_POSTDEC, v, ob)), v, std::string())
#undef C03_STEP
    }
    r.evals += done - 1;
    r.nontrivial += done;
  }
  t.flush(r, (std::string(wname) + "/").c_str());
}

template <class T>
std::vector<T> int_operands() {
  std::vector<uint64_t> b = {0, 1, 2, 3, 7, 15, 0x7F, 0x80, 0xFF, 0x100, 0x7FFF, 0x8000, 0xFFFF};
  if (sizeof(T) >= 4) {
    b.insert(b.end(), {0x10000, 0x7FFFFFFFull, 0x80000000ull, 0xFFFFFFFFull});
  }
  if (sizeof(T) >= 8) {
    b.insert(b.end(), {0x100000000ull, 0x7FFFFFFFFFFFFFFFull, 0x8000000000000000ull, 0xFFFFFFFFFFFFFFFFull});
  }
  std::vector<T> v;
  for (auto x : b) v.push_back(from_bits<T>(x));
  return v;
}

std::vector<float> f32_specials() {
  std::vector<float> v = {0.0f, -0.0f, 1.0f, -1.0f, 0.5f, 1.5f, 2.0f, 3.0f, 0.1f, 2.6f, 16777215.0f, 16777216.0f, -16777216.0f, 1e10f, 1e-10f,
      std::numeric_limits<float>::max(), std::numeric_limits<float>::lowest(), std::numeric_limits<float>::min(), std::numeric_limits<float>::denorm_min(),
      std::numeric_limits<float>::infinity(), -std::numeric_limits<float>::infinity(), std::numeric_limits<float>::epsilon()};
  return v;
}
std::vector<double> f64_specials() {
  std::vector<double> v = {0.0, -0.0, 1.0, -1.0, 0.5, 1.5, 2.0, 3.0, 0.1, 3.1, 9007199254740991.0, 9007199254740992.0, -9007199254740992.0, 1e100, 1e-100,
      std::numeric_limits<double>::max(), std::numeric_limits<double>::lowest(), std::numeric_limits<double>::min(), std::numeric_limits<double>::denorm_min(),
      std::numeric_limits<double>::infinity(), -std::numeric_limits<double>::infinity(), std::numeric_limits<double>::epsilon()};
  return v;
}

}  // namespace

// ---------------------------------------------------------------------------------------------
// 16-bit wrappers: ALL 65 536 stored values x every operator x operand set, int operands.
#define C03_W16(X)                      \
  X(le_uint16_t, uint16_t, ORD_LE)      \
  X(be_uint16_t, uint16_t, ORD_BE)      \
  X(re_uint16_t, uint16_t, ORD_RE)      \
  X(le_int16_t, int16_t, ORD_LE)        \
  X(be_int16_t, int16_t, ORD_BE)        \
  X(re_int16_t, int16_t, ORD_RE)

VF_SECTION(w16, 16, 16, 120) {
  std::vector<int> operands = {0, 1, 2, 3, 7, 15, 0x7F, 0x80, 0xFF, 0x100, 0x7FFF, 0x8000, 0xFFFF, -1, -0x8000};
  std::vector<int> shifts = {0, 1, 2, 3, 7, 8, 15};
  std::vector<uint64_t> all;
  for (uint32_t v = 0; v < 0x10000; v++) all.push_back(v);
#define X(W, T, O)                                                            \
  {                                                                           \
    auto vals = typed<T>(all);                                                \
    drive_int<W, T, int>(r, #W, O, vals, vals, operands, shifts);             \
  }
  C03_W16(X)
#undef X
  r.bound = "6 wrapper types (le/be/re x u16/s16) x all 65536 stored values x {ctor,=,store} + 8 compound operators x 15 int operands + 2 shifts x 7 counts + 4 inc/dec";
}

// 32-bit wrappers: lane set L9^4 + walking bits + all-distinct, operands of the exposed type.
#define C03_W32(X)                      \
  X(le_uint32_t, uint32_t, ORD_LE)      \
  X(be_uint32_t, uint32_t, ORD_BE)      \
  X(re_uint32_t, uint32_t, ORD_RE)      \
  X(le_int32_t, int32_t, ORD_LE)        \
  X(be_int32_t, int32_t, ORD_BE)        \
  X(re_int32_t, int32_t, ORD_RE)

VF_SECTION(w32, 16, 16, 120) {
  std::vector<int> shifts = {0, 1, 2, 3, 7, 8, 15, 16, 24, 31};
  auto bits = lane_set(L9, 9, 4);
#define X(W, T, O)                                                                    \
  {                                                                                   \
    auto vals = typed<T>(bits);                                                       \
    drive_int<W, T, T>(r, #W, O, vals, vals, int_operands<T>(), shifts);              \
  }
  C03_W32(X)
#undef X
  r.bound = "6 wrapper types x (L9^4 = 6561 lane values + 64 walking-bit + 2 all-distinct) x {ctor,=,store} + 8 compound operators x 17 operands + 2 shifts x 10 counts + 4 inc/dec; signed pairs with undefined native result not compared";
}

// 64-bit wrappers: L5^8 + walking bits + all-distinct.
#define C03_W64(X)                      \
  X(le_uint64_t, uint64_t, ORD_LE)      \
  X(be_uint64_t, uint64_t, ORD_BE)      \
  X(re_uint64_t, uint64_t, ORD_RE)      \
  X(le_int64_t, int64_t, ORD_LE)        \
  X(be_int64_t, int64_t, ORD_BE)        \
  X(re_int64_t, int64_t, ORD_RE)

VF_SECTION(w64, 16, 16, 120) {
  std::vector<int> shifts = {0, 1, 7, 8, 31, 32, 33, 56, 63};
  auto bits = lane_set(L5, 5, 8);
  // binary operators: quick uses the L5 lanes in the four outer-most/inner-most bytes only
  // (L5^4 spread over bytes 0,3,4,7) + walking + all-distinct; thorough uses the full L5^8 set.
  std::vector<uint64_t> bin_bits;
  if (r.thorough()) bin_bits = bits;
  else {
    for (uint64_t k = 0; k < 625; k++) {
      uint64_t x = k, val = 0;
      static const int pos[4] = {0, 3, 4, 7};
      for (int i = 0; i < 4; i++) {
        val |= static_cast<uint64_t>(L5[x % 5]) << (8 * pos[i]);
        x /= 5;
      }
      bin_bits.push_back(val);
    }
    bin_bits.insert(bin_bits.end(), bits.begin() + 390625, bits.end());
  }
#define X(W, T, O)                                                                                  \
  {                                                                                                 \
    drive_int<W, T, T>(r, #W, O, typed<T>(bin_bits), typed<T>(bits), int_operands<T>(), shifts);    \
  }
  C03_W64(X)
#undef X
  r.bound = r.thorough()
      ? "6 wrapper types x (L5^8 = 390625 lane values + 128 walking-bit + 2 all-distinct) x {ctor,=,store}, 8 compound operators x 21 operands, 2 shifts x 9 counts, 4 inc/dec"
      : "6 wrapper types x {ctor,=,store} on L5^8 + walking + all-distinct (390755 values); compound/shift/inc/dec on 625 lane values (L5 in bytes 0,3,4,7) + 128 walking-bit + 2 all-distinct x 21 operands / 9 shift counts";
}

// float / double wrappers (bit-exact).
VF_SECTION(wfloat, 8, 8, 120) {
  {
    auto bits = lane_set(L9, 9, 4);  // includes NaNs (quiet and signalling), infinities, denormals, -0
    auto vals = typed<float>(bits);
    for (float f : f32_specials()) vals.push_back(f);
    std::vector<float> operands = f32_specials();
    drive_float<le_float, float>(r, "le_float", ORD_LE, vals, operands);
    drive_float<be_float, float>(r, "be_float", ORD_BE, vals, operands);
    drive_float<re_float, float>(r, "re_float", ORD_RE, vals, operands);
  }
  {
    std::vector<uint64_t> bits;
    // L5 lanes in bytes 0,1,6,7 (sign/exponent and low mantissa) x {00,A5} fill of the middle bytes
    for (uint64_t k = 0; k < 625; k++) {
      uint64_t x = k, val = 0;
      static const int pos[4] = {0, 1, 6, 7};
      for (int i = 0; i < 4; i++) {
        val |= static_cast<uint64_t>(L5[x % 5]) << (8 * pos[i]);
        x /= 5;
      }
      bits.push_back(val);
      bits.push_back(val | 0x0000A5A5A5A50000ull);
    }
    auto wb = lane_set(L5, 1, 8);  // just {0} + walking + all-distinct
    bits.insert(bits.end(), wb.begin() + 1, wb.end());
    auto vals = typed<double>(bits);
    for (double f : f64_specials()) vals.push_back(f);
    std::vector<double> operands = f64_specials();
    drive_float<le_double, double>(r, "le_double", ORD_LE, vals, operands);
    drive_float<be_double, double>(r, "be_double", ORD_BE, vals, operands);
    drive_float<re_double, double>(r, "re_double", ORD_RE, vals, operands);
  }
  r.bound = "le/be/re float: L9^4 bit patterns + walking + all-distinct + 22 special values x {ctor,=,store,++x,x++,--x,x--} and {+=,-=,*=,/=} x 22 non-NaN operands; le/be/re double: 1250 lane patterns + walking + all-distinct + 22 specials, same operators";
}

// Thorough only: ALL 2^32 bit patterns for the value-only operators, 6 integer + 3 float wrapper types.
VF_SECTION(w32all, 0, 16, 300) {
  // re_* is the same reverse_endian<> instantiation that be_* derives from on this host and is
  // covered by the lane sets in w32 / wfloat; the 2^32 sweep runs the le_ and be_ families.
  drive_block32<le_uint32_t, uint32_t>(r, "le_uint32_t", ORD_LE);
  drive_block32<be_uint32_t, uint32_t>(r, "be_uint32_t", ORD_BE);
  drive_block32<le_int32_t, int32_t>(r, "le_int32_t", ORD_LE);
  drive_block32<be_int32_t, int32_t>(r, "be_int32_t", ORD_BE);
  drive_block32<le_float, float>(r, "le_float", ORD_LE);
  drive_block32<be_float, float>(r, "be_float", ORD_BE);
  r.bound = "6 wrapper types (le/be x u32/s32/float) x all 2^32 bit patterns x {ctor (with load/conversion/load_raw/raw bytes),++x,x++,--x,x--} (one indexed case = 65536 consecutive patterns)";
}

// ---------------------------------------------------------------------------------------------
// bswap helpers, ext24/ext48, sign_extend
namespace {

struct FnTally {
  std::map<std::string, uint64_t> n;
  void flush(vf::Run& r) {
    for (auto& [k, v] : n) r.hist[k] += v;
  }
};

// one (function, input) check: `got` vs `want`, with an optional involution observation
inline void judge(vf::Run& r, uint64_t& okc, const char* fn, const char* kind, bool bad, uint64_t in, uint64_t got, uint64_t want, const char* keyfn = nullptr) {
  r.nontriv();
  if (bad) r.fail(std::string(keyfn ? keyfn : fn) + ":" + kind, [&] { return vf::fmt("%s(0x%llX) = 0x%llX, expected 0x%llX", fn, (unsigned long long)in, (unsigned long long)got, (unsigned long long)want); });
  else okc++;
}

template <class R, class S>
void check_sign_extend(vf::Run& r, const char* name, const std::vector<uint64_t>& inputs) {
  uint64_t okc = 0;
  for (uint64_t in : inputs) {
    if (!r.take()) continue;
    S src = from_bits<S>(in);
    R got = sign_extend<R, S>(src);
    R want = static_cast<R>(sext(in, sizeof(S) * 8));
    if (r.wants_desc()) r.desc(vf::fmt("%s(0x%llX)", name, (unsigned long long)in));
    judge(r, okc, name, "wrong-value", bits_of(got) != bits_of(want), in, bits_of(got), bits_of(want), "sign_extend");
  }
  r.hist[std::string(name) + ":top-bit-replicated"] += okc;
}

void check_small(vf::Run& r) {
  uint64_t ok16 = 0, ok8 = 0;
  r.note("bswap16");
  for (uint32_t v = 0; v < 0x10000; v++) {
    if (!r.take()) continue;
    uint16_t x = static_cast<uint16_t>(v);
    uint16_t got = bswap16(x);
    uint64_t want = rev_lanes(x, 2);
    if (r.wants_desc()) r.desc(vf::fmt("bswap16(0x%04X)", v));
    bool bad = got != want;
    judge(r, ok16, "bswap16", "wrong-value", bad, v, got, want);
    if (!bad) {
      if (bswap16(got) != x) r.fail("bswap16:not-involution", [&] { return vf::fmt("bswap16(bswap16(0x%04X)) = 0x%04X", v, bswap16(got)); });
      if (bswap<uint16_t>(x) != want || static_cast<uint16_t>(bswap<int16_t>(static_cast<int16_t>(x))) != want)
        r.fail("bswap<16-bit>:wrong-value", [&] { return vf::fmt("bswap<uint16_t>(0x%04X) = 0x%04X, bswap<int16_t> = 0x%04X, expected 0x%04llX", v, bswap<uint16_t>(x), (uint16_t)bswap<int16_t>((int16_t)x), (unsigned long long)want); });
    }
  }
  r.hist["bswap16:lanes-reversed+involution"] += ok16;
  r.note("bswap8");
  for (uint32_t v = 0; v < 0x100; v++) {
    if (!r.take()) continue;
    uint8_t x = static_cast<uint8_t>(v);
    judge(r, ok8, "bswap8", "wrong-value", bswap8(x) != x || bswap<uint8_t>(x) != x || static_cast<uint8_t>(bswap<int8_t>(static_cast<int8_t>(x))) != x, v, bswap8(x), v);
  }
  r.hist["bswap8:identity"] += ok8;
}

// 32-bit helpers on one input; returns the key suffix of the first failure or nullptr
inline const char* check32(uint32_t x, uint64_t& got, uint64_t& want) {
  want = rev_lanes(x, 4);
  uint32_t g = bswap32(x);
  got = g;
  if (g != want) return "bswap32:wrong-value";
  if (bswap32(g) != x) { got = bswap32(g); want = x; return "bswap32:not-involution"; }
  uint32_t g2 = bswap<uint32_t>(x);
  if (g2 != want) { got = g2; return "bswap<32-bit>:wrong-value"; }
  uint32_t g3 = static_cast<uint32_t>(bswap<int32_t>(static_cast<int32_t>(x)));
  if (g3 != want) { got = g3; return "bswap<32-bit>:wrong-value"; }
  // uint32 -> float: the float's bit pattern is the reversed input
  float f = bswap32f(x);
  if (bits_of(f) != want) { got = bits_of(f); return "bswap32f(uint32):wrong-value"; }
  float f2 = bswap<uint32_t, float>(x);
  if (bits_of(f2) != want) { got = bits_of(f2); return "bswap<uint32,float>:wrong-value"; }
  // float -> uint32: reversed bit pattern of the float
  float fx = from_bits<float>(x);
  uint32_t u = bswap32f(fx);
  if (u != want) { got = u; return "bswap32f(float):wrong-value"; }
  uint32_t u2 = bswap<float, uint32_t>(fx);
  if (u2 != want) { got = u2; return "bswap<float,uint32>:wrong-value"; }
  // round trip float -> raw -> float is bit exact
  float back = bswap32f(u);
  if (bits_of(back) != x) { got = bits_of(back); want = x; return "bswap32f:not-involution"; }
  // sign_extend from 32 bits
  int64_t se = static_cast<int64_t>(static_cast<int32_t>(x));
  uint64_t s1 = static_cast<uint64_t>(sign_extend<int64_t, uint32_t>(x));
  uint64_t s2 = sign_extend<uint64_t, uint32_t>(x);
  uint64_t s3 = static_cast<uint64_t>(sign_extend<int64_t, int32_t>(static_cast<int32_t>(x)));
  want = static_cast<uint64_t>(sext(x, 32));
  if (static_cast<uint64_t>(se) != want) __builtin_trap();  // the two reference formulations agree
  if (s1 != want) { got = s1; return "sign_extend:wrong-value"; }
  if (s2 != want) { got = s2; return "sign_extend:wrong-value"; }
  if (s3 != want) { got = s3; return "sign_extend:wrong-value"; }
  return nullptr;
}

}  // namespace

VF_SECTION(bswap_small, 4, 4, 120) {
  check_small(r);
  std::vector<uint64_t> all8, all16;
  for (uint32_t v = 0; v < 0x100; v++) all8.push_back(v);
  for (uint32_t v = 0; v < 0x10000; v++) all16.push_back(v);
  r.note("sign_extend");
#define SE(R, S, SET) check_sign_extend<R, S>(r, "sign_extend<" #R "," #S ">", SET);
  SE(int16_t, uint8_t, all8) SE(uint16_t, uint8_t, all8) SE(int32_t, uint8_t, all8) SE(uint32_t, uint8_t, all8) SE(int64_t, uint8_t, all8) SE(uint64_t, uint8_t, all8)
  SE(int16_t, int8_t, all8) SE(uint16_t, int8_t, all8) SE(int32_t, int8_t, all8) SE(uint32_t, int8_t, all8) SE(int64_t, int8_t, all8) SE(uint64_t, int8_t, all8)
  SE(int32_t, uint16_t, all16) SE(uint32_t, uint16_t, all16) SE(int64_t, uint16_t, all16) SE(uint64_t, uint16_t, all16)
  SE(int32_t, int16_t, all16) SE(uint32_t, int16_t, all16) SE(int64_t, int16_t, all16) SE(uint64_t, int16_t, all16)
#undef SE
  r.bound = "bswap8: all 256; bswap16 + bswap<u16/s16>: all 65536; sign_extend<R,S>: all values of S in {int8,uint8,int16,uint16} x every strictly wider R in {16,32,64-bit signed/unsigned}";
}

VF_SECTION(bswap24, 16, 16, 120) {
  uint64_t ok_b = 0, ok_s = 0, ok_e = 0, ok_g = 0;
  r.note("bswap24");
  for (uint32_t v = 0; v < 0x1000000; v++) {
    if (!r.take()) continue;
    if (r.wants_desc()) r.desc(vf::fmt("bswap24 / bswap24s / ext24 on 0x%06X", v));
    uint64_t want = rev_lanes(v, 3);
    uint32_t got = bswap24(v);
    bool bad = got != want;
    judge(r, ok_b, "bswap24", "wrong-value", bad, v, got, want);
    if (!bad && bswap24(got) != v) r.fail("bswap24:not-involution", [&] { return vf::fmt("bswap24(bswap24(0x%06X)) = 0x%06X", v, bswap24(got)); });
    // signed form: input given zero-extended and sign-extended (both denote the same 24-bit value)
    int32_t wants = static_cast<int32_t>(sext(want, 24));
    int32_t sx = static_cast<int32_t>(sext(v, 24));
    int32_t gs1 = bswap24s(static_cast<int32_t>(v));
    int32_t gs2 = bswap24s(sx);
    bool bads = gs1 != wants || gs2 != wants;
    judge(r, ok_s, "bswap24s", "wrong-value", bads, v, static_cast<uint32_t>(gs1 != wants ? gs1 : gs2), static_cast<uint32_t>(wants));
    if (!bads && bswap24s(gs2) != sx) r.fail("bswap24s:not-involution", [&] { return vf::fmt("bswap24s(bswap24s(%d)) = %d", sx, bswap24s(gs2)); });
    int32_t ge = ext24(v);
    judge(r, ok_e, "ext24", "wrong-value", ge != sx, v, static_cast<uint32_t>(ge), static_cast<uint32_t>(sx));
  }
  // bits above bit 23 are ignored by bswap24 ("reverses the low 24 bits")
  r.note("bswap24-high-garbage");
  auto lanes = lane_set(L9, 9, 3);
  static const uint32_t garbage[4] = {0x01000000u, 0x80000000u, 0xA5000000u, 0xFF000000u};
  for (uint64_t l : lanes) {
    for (uint32_t g : garbage) {
      if (!r.take()) continue;
      uint32_t in = static_cast<uint32_t>(l) | g;
      uint64_t want = rev_lanes(l, 3);
      uint32_t got = bswap24(in);
      judge(r, ok_g, "bswap24", "high-bits-not-ignored", got != want, in, got, want);
      int32_t gs = bswap24s(static_cast<int32_t>(in));
      if (gs != static_cast<int32_t>(sext(want, 24))) r.fail("bswap24s:high-bits-not-ignored", [&] { return vf::fmt("bswap24s(0x%08X) = 0x%08X, expected 0x%08X", in, (uint32_t)gs, (uint32_t)sext(want, 24)); });
    }
  }
  r.hist["bswap24:lanes-reversed+involution"] += ok_b;
  r.hist["bswap24s:reversed+sign-extended+involution"] += ok_s;
  r.hist["ext24:top-bit-replicated"] += ok_e;
  r.hist["bswap24/24s:bits-above-23-ignored"] += ok_g;
  r.bound = "bswap24, bswap24s (zero- and sign-extended argument), ext24: all 2^24 values; bswap24/24s with 4 garbage patterns above bit 23 x (L9^3 + walking + all-distinct)";
}

VF_SECTION(bswap32, 4, 4, 120) {
  uint64_t okc = 0;
  r.note("bswap32");
  auto vals = lane_set(L9, 9, 4);
  for (uint64_t v : vals) {
    if (!r.take()) continue;
    uint32_t x = static_cast<uint32_t>(v);
    if (r.wants_desc()) r.desc(vf::fmt("bswap32 / bswap32f (both directions) / bswap<> / sign_extend<64,32> on 0x%08X", x));
    uint64_t got = 0, want = 0;
    const char* k = check32(x, got, want);
    r.nontriv();
    if (k) r.fail(k, [&] { return vf::fmt("%s: input 0x%08X: observed 0x%llX, expected 0x%llX", k, x, (unsigned long long)got, (unsigned long long)want); });
    else okc++;
  }
  r.hist["32-bit helpers:all-laws-hold"] += okc;
  r.bound = "bswap32, bswap32f(uint32), bswap32f(float), generic bswap<> forms, sign_extend<int64/uint64, uint32/int32>: L9^4 lane values + 64 walking-bit + 2 all-distinct";
}

VF_SECTION(bswap32all, 0, 16, 300) {
  uint64_t okc = 0;
  r.note("bswap32");
  for (uint32_t hi = 0; hi < 0x10000; hi++) {
    if (!r.take()) continue;
    if (r.wants_desc()) r.desc(vf::fmt("32-bit helpers on all 65536 values 0x%04X0000..0x%04XFFFF", hi, hi));
    for (uint32_t lo = 0; lo < 0x10000; lo++) {
      uint32_t x = (hi << 16) | lo;
      uint64_t got = 0, want = 0;
      const char* k = check32(x, got, want);
      if (k) r.fail(k, [&] { return vf::fmt("%s: input 0x%08X: observed 0x%llX, expected 0x%llX", k, x, (unsigned long long)got, (unsigned long long)want); });
      else okc++;
    }
    r.evals += 0xFFFF;
    r.nontrivial += 0x10000;
  }
  r.hist["32-bit helpers:all-laws-hold"] += okc;
  r.bound = "bswap32, bswap32f (both directions), generic bswap<> forms, sign_extend<int64/uint64, uint32/int32>: all 2^32 values (one indexed case = 65536 values)";
}

VF_SECTION(bswap48_64, 8, 8, 120) {
  uint64_t ok48 = 0, ok48s = 0, oke = 0, ok64 = 0, okg = 0;
  r.note("bswap48");
  auto v48 = lane_set(L5, 5, 6);
  for (uint64_t v : v48) {
    if (!r.take()) continue;
    if (r.wants_desc()) r.desc(vf::fmt("bswap48 / bswap48s / ext48 on 0x%012llX", (unsigned long long)v));
    uint64_t want = rev_lanes(v, 6);
    uint64_t got = bswap48(v);
    bool bad = got != want;
    judge(r, ok48, "bswap48", "wrong-value", bad, v, got, want);
    if (!bad && bswap48(got) != v) r.fail("bswap48:not-involution", [&] { return vf::fmt("bswap48(bswap48(0x%012llX)) = 0x%012llX", (unsigned long long)v, (unsigned long long)bswap48(got)); });
    int64_t wants = sext(want, 48);
    int64_t sx = sext(v, 48);
    int64_t gs1 = bswap48s(static_cast<int64_t>(v));
    int64_t gs2 = bswap48s(sx);
    bool bads = gs1 != wants || gs2 != wants;
    judge(r, ok48s, "bswap48s", "wrong-value", bads, v, static_cast<uint64_t>(gs1 != wants ? gs1 : gs2), static_cast<uint64_t>(wants));
    if (!bads && bswap48s(gs2) != sx) r.fail("bswap48s:not-involution", [&] { return vf::fmt("bswap48s(bswap48s(%lld)) = %lld", (long long)sx, (long long)bswap48s(gs2)); });
    r.note("ext48");
    int64_t ge = ext48(v);
    judge(r, oke, "ext48", "wrong-value", ge != sx, v, static_cast<uint64_t>(ge), static_cast<uint64_t>(sx));
    r.note("bswap48");
  }
  static const uint64_t garbage[4] = {0x0001000000000000ull, 0x8000000000000000ull, 0xA5A5000000000000ull, 0xFFFF000000000000ull};
  for (uint64_t l : v48) {
    for (uint64_t g : garbage) {
      if (!r.take()) continue;
      uint64_t in = l | g;
      uint64_t want = rev_lanes(l, 6);
      uint64_t got = bswap48(in);
      judge(r, okg, "bswap48", "high-bits-not-ignored", got != want, in, got, want);
      int64_t gs = bswap48s(static_cast<int64_t>(in));
      if (gs != sext(want, 48)) r.fail("bswap48s:high-bits-not-ignored", [&] { return vf::fmt("bswap48s(0x%016llX) = 0x%016llX, expected 0x%016llX", (unsigned long long)in, (unsigned long long)gs, (unsigned long long)sext(want, 48)); });
    }
  }
  r.note("bswap64");
  auto v64 = lane_set(L5, 5, 8);
  for (uint64_t v : v64) {
    if (!r.take()) continue;
    uint64_t want = rev_lanes(v, 8);
    uint64_t got = bswap64(v);
    r.nontriv();
    const char* k = nullptr;
    uint64_t g = got;
    if (got != want) k = "bswap64:wrong-value";
    else if (bswap64(got) != v) { k = "bswap64:not-involution"; g = bswap64(got); }
    else if ((g = bswap<uint64_t>(v)) != want || (g = static_cast<uint64_t>(bswap<int64_t>(static_cast<int64_t>(v)))) != want) k = "bswap<64-bit>:wrong-value";
    else if ((g = bits_of(bswap64f(v))) != want) k = "bswap64f(uint64):wrong-value";
    else if ((g = bits_of(bswap<uint64_t, double>(v))) != want) k = "bswap<uint64,double>:wrong-value";
    else if ((g = bswap64f(from_bits<double>(v))) != want) k = "bswap64f(double):wrong-value";
    else if ((g = bswap<double, uint64_t>(from_bits<double>(v))) != want) k = "bswap<double,uint64>:wrong-value";
    else if ((g = bits_of(bswap64f(bswap64f(from_bits<double>(v))))) != v) k = "bswap64f:not-involution";
    if (k) r.fail(k, [&] { return vf::fmt("%s: input 0x%016llX: observed 0x%016llX, lane-reversed input is 0x%016llX", k, (unsigned long long)v, (unsigned long long)g, (unsigned long long)want); });
    else ok64++;
  }
  r.hist["bswap48:lanes-reversed+involution"] += ok48;
  r.hist["bswap48s:reversed+sign-extended+involution"] += ok48s;
  r.hist["ext48:top-bit-replicated"] += oke;
  r.hist["bswap48/48s:bits-above-47-ignored"] += okg;
  r.hist["64-bit helpers:all-laws-hold"] += ok64;
  r.bound = "bswap48, bswap48s, ext48: L5^6 = 15625 lane values + 96 walking-bit + 2 all-distinct (+ 4 garbage patterns above bit 47 for bswap48/48s); bswap64, bswap64f (both directions), generic bswap<> forms: L5^8 = 390625 + 128 walking-bit + 2 all-distinct";
}

VF_MAIN()
