// C03 — endian-explicit scalar wrappers behave as native values stored in the named byte order;
// bswap helpers reverse the low N bits' byte lanes and are involutions; sign_extend/ext24/ext48
// replicate the top bit.
//
// E-ENUM.  Oracle for the wrappers = the same C++ operator applied to a native T variable (this is
// the property's definition) plus an independent byte encoder (compiler byte-swap intrinsic +
// memcpy) for the raw object bytes.  Oracle for the bswap helpers = a byte-lane loop.
//
// Every wrapper case runs on a wrapper object that sits between two canary bytes in a packed cell
// (so the object is misaligned and any write outside sizeof(T) bytes is visible); the prior state is
// installed through the independent encoder, never through the code under test.
#include "C03_common.hh"

// ---------------------------------------------------------------------------------------------
// 16-bit wrappers: ALL 65 536 stored values x every operator x operand set, int operands.

VF_SECTION(w16, 16, 16, 120) {
  std::vector<int> operands = {0, 1, 2, 3, 7, 15, 0x7F, 0x80, 0xFF, 0x100, 0x7FFF, 0x8000, 0xFFFF, -1, -0x8000};
  // every count the native operator defines: the 16-bit left operand is promoted to int, so 0..31
  // (counts 16..31 shift everything out: 0 for unsigned, 0 / -1 for signed)
  std::vector<int> shifts = all_shift_counts_of<uint16_t>();
  if (r.thorough()) add_pow2_ints(operands);  // every int operand 2^k-1, 2^k, 2^k+1 and its negative (k = 0..32)
  std::vector<uint64_t> all;
  for (uint32_t v = 0; v < 0x10000; v++) all.push_back(v);
#define X(W, T, O)                                                            \
  {                                                                           \
    auto vals = typed<T>(all);                                                \
    drive_int<W, T, int>(r, #W, O, vals, vals, operands, shifts);             \
  }
  C03_W16(X)
#undef X
  r.bound = r.thorough()
      ? vf::fmt("6 wrapper types (le/be/re x u16/s16) x all 65536 stored values x {ctor,=,store} + 8 compound operators x %zu int operands (the quick set plus every 2^k-1, 2^k, 2^k+1 and negative, k = 0..32) + 2 shifts x all 32 counts 0..31 (promoted width) + 4 inc/dec", operands.size())
      : "6 wrapper types (le/be/re x u16/s16) x all 65536 stored values x {ctor,=,store} + 8 compound operators x 15 int operands + 2 shifts x all 32 counts 0..31 (every count defined for the promoted operand) + 4 inc/dec";
}

// 32-bit wrappers: lane set L9^4 + walking bits + all-distinct, operands of the exposed type.

VF_SECTION(w32, 16, 16, 120) {
  std::vector<int> shifts = all_shift_counts_of<uint32_t>();  // 0..31
  auto bits = lane_set(L9, 9, 4);
#define X(W, T, O)                                                                    \
  {                                                                                   \
    auto vals = typed<T>(bits);                                                       \
    drive_int<W, T, T>(r, #W, O, vals, vals, int_operands<T>(), shifts);              \
  }
  C03_W32(X)
#undef X
  r.bound = "6 wrapper types x (L9^4 = 6561 lane values + 64 walking-bit + 2 all-distinct) x {ctor,=,store} + 8 compound operators x 17 operands + 2 shifts x all 32 counts + 4 inc/dec; signed pairs with undefined native result not compared";
}

// 64-bit wrappers: L5^8 + walking bits + all-distinct.

VF_SECTION(w64, 16, 16, 120) {
  std::vector<int> shifts = all_shift_counts_of<uint64_t>();  // 0..63
  auto bits = lane_set(L5, 5, 8);
  // binary operators: quick uses the L5 lanes in the four outer-most/inner-most bytes only
  // (L5^4 spread over bytes 0,3,4,7) + walking + all-distinct; thorough uses the full L5^8 set.
  std::vector<uint64_t> bin_bits;
  if (r.thorough()) bin_bits = bits;
  else {
    for (uint64_t k = 0; k < 625; k++) {
      uint64_t x = k, val = 0;
      static const int pos[4] = {0, 3, 4, 7};
      for (int i = 0; i < 4; i++) {
        val |= static_cast<uint64_t>(L5[x % 5]) << (8 * pos[i]);
        x /= 5;
      }
      bin_bits.push_back(val);
    }
    bin_bits.insert(bin_bits.end(), bits.begin() + 390625, bits.end());
  }
#define X(W, T, O)                                                                                  \
  {                                                                                                 \
    drive_int<W, T, T>(r, #W, O, typed<T>(bin_bits), typed<T>(bits), int_operands<T>(), shifts);    \
  }
  C03_W64(X)
#undef X
  r.bound = r.thorough()
      ? "6 wrapper types x (L5^8 = 390625 lane values + 128 walking-bit + 2 all-distinct) x {ctor,=,store}, 8 compound operators x 21 operands, 2 shifts x all 64 counts, 4 inc/dec"
      : "6 wrapper types x {ctor,=,store} on L5^8 + walking + all-distinct (390755 values); compound/shift/inc/dec on 625 lane values (L5 in bytes 0,3,4,7) + 128 walking-bit + 2 all-distinct x 21 operands / all 64 shift counts";
}

// float / double wrappers (bit-exact).
VF_SECTION(wfloat, 8, 8, 120) {
  {
    auto bits = lane_set(L9, 9, 4);  // includes NaNs (quiet and signalling), infinities, denormals, -0
    auto vals = typed<float>(bits);
    for (float f : f32_specials()) vals.push_back(f);
    std::vector<float> operands = f32_specials();
    drive_float<le_float, float>(r, "le_float", ORD_LE, vals, operands);
    drive_float<be_float, float>(r, "be_float", ORD_BE, vals, operands);
    drive_float<re_float, float>(r, "re_float", ORD_RE, vals, operands);
  }
  {
    std::vector<uint64_t> bits;
    // L5 lanes in bytes 0,1,6,7 (sign/exponent and low mantissa) x {00,A5} fill of the middle bytes
    for (uint64_t k = 0; k < 625; k++) {
      uint64_t x = k, val = 0;
      static const int pos[4] = {0, 1, 6, 7};
      for (int i = 0; i < 4; i++) {
        val |= static_cast<uint64_t>(L5[x % 5]) << (8 * pos[i]);
        x /= 5;
      }
      bits.push_back(val);
      bits.push_back(val | 0x0000A5A5A5A50000ull);
    }
    auto wb = lane_set(L5, 1, 8);  // just {0} + walking + all-distinct
    bits.insert(bits.end(), wb.begin() + 1, wb.end());
    auto vals = typed<double>(bits);
    for (double f : f64_specials()) vals.push_back(f);
    std::vector<double> operands = f64_specials();
    drive_float<le_double, double>(r, "le_double", ORD_LE, vals, operands);
    drive_float<be_double, double>(r, "be_double", ORD_BE, vals, operands);
    drive_float<re_double, double>(r, "re_double", ORD_RE, vals, operands);
  }
  r.bound = "le/be/re float: L9^4 bit patterns + walking + all-distinct + 22 special values x {ctor,=,store,++x,x++,--x,x--} and {+=,-=,*=,/=} x 22 non-NaN operands; le/be/re double: 1250 lane patterns + walking + all-distinct + 22 specials, same operators";
}

// Thorough only: ALL 2^32 bit patterns for the value-only operators, 6 integer + 3 float wrapper types.
VF_SECTION(w32all, 0, 16, 300) {
  // re_* is the same reverse_endian<> instantiation that be_* derives from on this host and is
  // covered by the lane sets in w32 / wfloat; the 2^32 sweep runs the le_ and be_ families.
  drive_block32<le_uint32_t, uint32_t>(r, "le_uint32_t", ORD_LE);
  drive_block32<be_uint32_t, uint32_t>(r, "be_uint32_t", ORD_BE);
  drive_block32<le_int32_t, int32_t>(r, "le_int32_t", ORD_LE);
  drive_block32<be_int32_t, int32_t>(r, "be_int32_t", ORD_BE);
  drive_block32<le_float, float>(r, "le_float", ORD_LE);
  drive_block32<be_float, float>(r, "be_float", ORD_BE);
  r.bound = "6 wrapper types (le/be x u32/s32/float) x all 2^32 bit patterns x {ctor (with load/conversion/load_raw/raw bytes),++x,x++,--x,x--} (one indexed case = 65536 consecutive patterns)";
}

VF_MAIN()
