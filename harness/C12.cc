// C12 — LRUSet / LRUMap behave as a reference recency list under every operation history.
//
// The machinery (operations, reference recency list, canonical form, systems under test, checker, search,
// un-merged runs, alphabets) is in C12_core.hh.  This file: the int-keyed scopes of round 1 (fixpoints
// set_bfs / map_m1_bfs / map_m2_bfs and the un-merged runs set_seq / map_seq that validate the merging).
// C12_types.cc: std::string keys and values, one-bucket keys, move-only values, heap objects of a derived
// class, aliased key arguments.  C12_big.cc: 64-bit boundary sizes, execution contexts.
#include "C12_core.hh"

using namespace c12;

namespace {

const std::vector<uint64_t> S012 = {0, 1, 2};
const std::vector<uint64_t> S12 = {1, 2};

using SetSys = SetSysT<IntKey>;
using MapSys = MapSysT<IntKey, IntVal>;

}  // namespace

// two LRUSet instances; every operation on X plus the three swaps; 226^2 list pairs
VF_SECTION(set_bfs, 1, 1, 180) {
  Checker<SetSys> c(r, set_alphabet(S012, true));
  c.bfs_section("LRUSet<int>, instances X and Y, keys {0,1,2}, sizes {0,1,2}", 10);
}

// M1: one LRUMap instance, sizes {0,1,2}, values {10,11}
VF_SECTION(map_m1_bfs, 1, 1, 180) {
  Checker<MapSys> c(r, map_alphabet(S012, {10, 11}, false));
  c.bfs_section("LRUMap<int,int> scope M1: one instance, keys {0,1,2}, sizes {0,1,2}, values {10,11}", 2);
  insert_constref_note(r);
}

// M2: two LRUMap instances with swap, sizes {1,2}, one value
VF_SECTION(map_m2_bfs, 1, 1, 180) {
  Checker<MapSys> c(r, map_alphabet(S12, {10}, true));
  c.bfs_section("LRUMap<int,int> scope M2: instances X and Y with swap, keys {0,1,2}, sizes {1,2}, value 10", 3);
}

// un-merged runs
VF_SECTION(set_seq, 12, 16, 120) {
  {
    Checker<SetSys> c(r, set_alphabet(S012, false));
    c.sequences(4, "LRUSet full one-instance alphabet");
  }
  if (r.thorough()) {
    Checker<SetSys> c(r, set_medium());
    c.sequences(5, "LRUSet medium alphabet");
  }
  {
    Checker<SetSys> c(r, set_reduced());
    c.sequences(r.thorough() ? 7 : 6, "LRUSet reduced alphabet with swap");
  }
}

VF_SECTION(map_seq, 12, 16, 120) {
  {
    Checker<MapSys> c(r, map_alphabet(S012, {10, 11}, false));
    c.sequences(3, "LRUMap full one-instance alphabet");
  }
  {
    Checker<MapSys> c(r, map_medium());
    c.sequences(r.thorough() ? 5 : 4, "LRUMap medium alphabet");
  }
  {
    Checker<MapSys> c(r, map_reduced());
    c.sequences(r.thorough() ? 7 : 6, "LRUMap reduced alphabet with swap");
  }
}

VF_MAIN()
