// C12 — LRUSet / LRUMap behave as a reference recency list under every operation history.
//
// E-BFS over the real containers (DESIGN.md §5 C12).  A state is an operation history replayed on
// fresh objects (two instances X and Y, so that swap is covered); it is identified by a canonical
// string read through the *real* head/next links (white-box) plus total_size.  The abstract space
// is finite (3 keys, 3 sizes, 2 values), so the search runs to a FIXPOINT.  In every state reached:
// the return value / exception class of the operation, the list order, sizes, values and total
// read through the links, size()/count()/peek()/empty(), and the white-box link invariant are
// compared with a reference recency list; every state is finally drained with evict_object and
// destroyed under ASan/LSan.
//
// The merging of states is validated by un-merged runs (sections *_seq): every operation sequence
// up to a length bound is executed from scratch with the same per-step oracle, and every state it
// passes through must be a state of the closure at BFS depth <= the number of steps taken.
#include <string.h>

#include <string>
#include <utility>
#include <vector>

#include "LRUMap.hh"
#include "LRUSet.hh"
#include "bfs.hh"
#include "vf.hh"

using namespace phosg;

namespace {

// ---- operations -----------------------------------------------------------------------------------

enum Kind : uint8_t {
  INSERT, INSERT_DEF, INSERT_C, EMPLACE, ERASE, TOUCH, TOUCH_SZ, CHANGE_SIZE, CHANGE_SIZE_F,
  AT, AT_CONST, AT_WRITE, ITEM_SIZE, EVICT, PEEK, CLEAR, SWAP_XY, SWAP_YX, SWAP_XX
};

struct Op {
  Kind kind;
  int k = 0, s = 0, v = 0;
  bool touch = false;
};

const char* fn_name(Kind k) {
  switch (k) {
    case INSERT: case INSERT_DEF: return "insert";
    case INSERT_C: return "insert(const&)";
    case EMPLACE: return "emplace";
    case ERASE: return "erase";
    case TOUCH: case TOUCH_SZ: return "touch";
    case CHANGE_SIZE: case CHANGE_SIZE_F: return "change_size";
    case AT: case AT_WRITE: return "at";
    case AT_CONST: return "at-const";
    case ITEM_SIZE: return "item_size";
    case EVICT: return "evict_object";
    case PEEK: return "peek";
    case CLEAR: return "clear";
    case SWAP_XY: case SWAP_YX: case SWAP_XX: return "swap";
  }
  return "?";
}

std::string op_text(const Op& o, bool is_map) {
  switch (o.kind) {
    case INSERT: return is_map ? vf::fmt("X.insert(%d,%d,%d)", o.k, o.v, o.s) : vf::fmt("X.insert(%d,%d)", o.k, o.s);
    case INSERT_DEF: return is_map ? vf::fmt("X.insert(%d,%d)", o.k, o.v) : vf::fmt("X.insert(%d)", o.k);
    case INSERT_C: return vf::fmt("X.insert(const& %d,const& %d,%d)", o.k, o.v, o.s);
    case EMPLACE: return is_map ? vf::fmt("X.emplace(%d,%d,%d)", o.k, o.v, o.s) : vf::fmt("X.emplace(%d,%d)", o.k, o.s);
    case ERASE: return vf::fmt("X.erase(%d)", o.k);
    case TOUCH: return vf::fmt("X.touch(%d)", o.k);
    case TOUCH_SZ: return vf::fmt("X.touch(%d,%d)", o.k, o.s);
    case CHANGE_SIZE: return vf::fmt("X.change_size(%d,%d)", o.k, o.s);
    case CHANGE_SIZE_F: return vf::fmt("X.change_size(%d,%d,%s)", o.k, o.s, o.touch ? "true" : "false");
    case AT: return vf::fmt("X.at(%d)", o.k);
    case AT_CONST: return vf::fmt("const X.at(%d)", o.k);
    case AT_WRITE: return vf::fmt("X.at(%d)=%d", o.k, o.v);
    case ITEM_SIZE: return vf::fmt("X.item_size(%d)", o.k);
    case EVICT: return "X.evict_object()";
    case PEEK: return "X.peek()";
    case CLEAR: return "X.clear()";
    case SWAP_XY: return "X.swap(Y)";
    case SWAP_YX: return "Y.swap(X)";
    case SWAP_XX: return "X.swap(X)";
  }
  return "?";
}

// result of one call: void / bool / entry / value / size / exception class
struct Res {
  enum Code { VOID, BOOL, ENTRY, VALUE, SIZE, OUT_OF_RANGE, OTHER_EXCEPTION } code = VOID;
  long a = 0, b = 0, c = 0;
  bool operator==(const Res& o) const { return code == o.code && a == o.a && b == o.b && c == o.c; }
  std::string str(bool is_map) const {
    switch (code) {
      case VOID: return "(returns)";
      case BOOL: return a ? "true" : "false";
      case ENTRY: return is_map ? vf::fmt("{key %ld, value %ld, size %ld}", a, b, c) : vf::fmt("{key %ld, size %ld}", a, c);
      case VALUE: return vf::fmt("value %ld", a);
      case SIZE: return vf::fmt("size %ld", a);
      case OUT_OF_RANGE: return "throws out_of_range";
      case OTHER_EXCEPTION: return "throws something other than out_of_range";
    }
    return "?";
  }
};
Res rbool(bool b) { Res r; r.code = Res::BOOL; r.a = b; return r; }
Res rentry(long k, long v, long s) { Res r; r.code = Res::ENTRY; r.a = k; r.b = v; r.c = s; return r; }
Res rvalue(long v) { Res r; r.code = Res::VALUE; r.a = v; return r; }
Res rsize(long v) { Res r; r.code = Res::SIZE; r.a = v; return r; }
Res rcode(Res::Code c) { Res r; r.code = c; return r; }

// ---- the reference model: a recency list, front = most recently used ------------------------------
// (a fixed array instead of std::list only to keep allocation out of the 10^8-step un-merged runs;
//  at most 3 keys exist)

struct Entry {
  int k = 0, v = 0;
  size_t s = 0;
};

struct RecencyList {
  Entry e[4];
  int n = 0;
  int find(int k) const {
    for (int i = 0; i < n; i++) if (e[i].k == k) return i;
    return -1;
  }
  void push_front(const Entry& x) {
    for (int i = n; i > 0; i--) e[i] = e[i - 1];
    e[0] = x;
    n++;
  }
  void remove(int i) {
    for (; i + 1 < n; i++) e[i] = e[i + 1];
    n--;
  }
  void to_front(int i) {
    Entry x = e[i];
    remove(i);
    push_front(x);
  }
  size_t total() const {
    size_t t = 0;
    for (int i = 0; i < n; i++) t += e[i].s;
    return t;
  }
};

// Which operations refresh recency is the library's own documented behaviour (LRUSet-inl.hh comment
// "item already existed ... just update the size and move the item to the front of the lru", touch;
// LRUMap.hh: at() touches, insert on an existing key touches, change_size(touch = true), touch();
// emplace on an existing key "returns false" and changes nothing).
Res model_apply(RecencyList& X, RecencyList& Y, const Op& o, bool is_map) {
  int i = X.find(o.k);
  switch (o.kind) {
    case INSERT: case INSERT_DEF: case INSERT_C: case EMPLACE: {
      size_t s = (o.kind == INSERT_DEF) ? (is_map ? 1 : 0) : (size_t)o.s;
      if (i < 0) {
        Entry x;
        x.k = o.k; x.v = o.v; x.s = s;
        X.push_front(x);
        return rbool(true);
      }
      if (is_map && o.kind == EMPLACE) return rbool(false);  // existing key: untouched
      X.e[i].s = s;
      if (is_map) X.e[i].v = o.v;
      X.to_front(i);
      return rbool(false);
    }
    case ERASE:
      if (i < 0) return rbool(false);
      X.remove(i);
      return rbool(true);
    case TOUCH: case TOUCH_SZ:
      if (i < 0) return rbool(false);
      if (o.kind == TOUCH_SZ) X.e[i].s = (size_t)o.s;
      X.to_front(i);
      return rbool(true);
    case CHANGE_SIZE: case CHANGE_SIZE_F: {
      if (i < 0) return rbool(false);
      X.e[i].s = (size_t)o.s;
      bool touch = is_map && (o.kind == CHANGE_SIZE || o.touch);  // LRUSet::change_size never touches
      if (touch) X.to_front(i);
      return rbool(true);
    }
    case AT: case AT_CONST: case AT_WRITE: {
      if (i < 0) return rcode(Res::OUT_OF_RANGE);
      if (o.kind == AT_WRITE) X.e[i].v = o.v;
      long v = X.e[i].v;
      X.to_front(i);
      return o.kind == AT_WRITE ? rcode(Res::VOID) : rvalue(v);
    }
    case ITEM_SIZE:
      if (i < 0) return rcode(Res::OUT_OF_RANGE);
      return rsize((long)X.e[i].s);
    case EVICT: case PEEK: {
      if (X.n == 0) return rcode(Res::OUT_OF_RANGE);
      Entry x = X.e[X.n - 1];  // least recently used
      if (o.kind == EVICT) X.remove(X.n - 1);
      return rentry(x.k, is_map ? x.v : 0, (long)x.s);
    }
    case CLEAR: X.n = 0; return rcode(Res::VOID);
    case SWAP_XY: case SWAP_YX: std::swap(X, Y); return rcode(Res::VOID);
    case SWAP_XX: return rcode(Res::VOID);
  }
  return rcode(Res::VOID);
}

// ---- canonical form ------------------------------------------------------------------------------

struct Canon {
  char b[80];
  Canon() { memset(b, 0, sizeof(b)); }
  bool operator==(const Canon& o) const { return memcmp(b, o.b, sizeof(b)) == 0; }
  bool operator!=(const Canon& o) const { return !(*this == o); }
  std::string str() const { return std::string(b); }
};
struct HashCanon {
  uint64_t operator()(const Canon& c) const {
    uint64_t h = 0xCBF29CE484222325ull;
    for (size_t i = 0; i < sizeof(c.b) && c.b[i]; i++) h = (h ^ (unsigned char)c.b[i]) * 0x100000001B3ull;
    return bfs::mix64(h);
  }
};
struct CanonWriter {
  Canon& c;
  size_t n = 0;
  explicit CanonWriter(Canon& cc) : c(cc) {}
  void ch(char x) { if (n + 1 < sizeof(c.b)) c.b[n++] = x; }
  void num(unsigned long long v) {
    char t[24];
    int m = 0;
    do { t[m++] = (char)('0' + v % 10); v /= 10; } while (v);
    while (m) ch(t[--m]);
  }
  void entry(long k, long v, size_t s, bool is_map) {
    ch('k'); num((unsigned long long)k);
    if (is_map) { ch('v'); num((unsigned long long)v); }
    ch('s'); num(s);
    ch(' ');
  }
};

void model_canon_one(const RecencyList& L, CanonWriter& w, bool is_map) {
  for (int i = 0; i < L.n; i++) w.entry(L.e[i].k, L.e[i].v, L.e[i].s, is_map);
  w.ch('|');
  w.num(L.total());
}

// ---- the two systems under test --------------------------------------------------------------------

struct SetSys {
  static constexpr bool is_map = false;
  static const char* cname() { return "LRUSet"; }
  using C = LRUSet<int>;
  struct World {
    C X, Y;
    RecencyList MX, MY;
  };

  static Res real(World& w, const Op& o) {
    try {
      switch (o.kind) {
        case INSERT: return rbool(w.X.insert(o.k, (size_t)o.s));
        case INSERT_DEF: return rbool(w.X.insert(o.k));
        case EMPLACE: { int kk = o.k; return rbool(w.X.emplace(std::move(kk), (size_t)o.s)); }
        case ERASE: return rbool(w.X.erase(o.k));
        case TOUCH: return rbool(w.X.touch(o.k));
        case TOUCH_SZ: return rbool(w.X.touch(o.k, (ssize_t)o.s));
        case CHANGE_SIZE: return rbool(w.X.change_size(o.k, (size_t)o.s));
        case EVICT: { auto p = w.X.evict_object(); return rentry(p.first, 0, (long)p.second); }
        case PEEK: { auto p = w.X.peek(); return rentry(p.first, 0, (long)p.second); }
        case CLEAR: w.X.clear(); return rcode(Res::VOID);
        case SWAP_XY: w.X.swap(w.Y); return rcode(Res::VOID);
        case SWAP_YX: w.Y.swap(w.X); return rcode(Res::VOID);
        case SWAP_XX: w.X.swap(w.X); return rcode(Res::VOID);
        default: break;
      }
    } catch (const std::out_of_range&) { return rcode(Res::OUT_OF_RANGE);
    } catch (...) { return rcode(Res::OTHER_EXCEPTION); }
    return rcode(Res::VOID);
  }

  // white-box walk through the real links; false + problem when the link invariant is broken
  static bool inspect_one(C& L, CanonWriter& out, std::string& problem) {
    size_t n = L.items.size(), steps = 0, sum = 0;
    if ((L.head == nullptr) != (L.tail == nullptr)) { problem = "head and tail are not null together"; return false; }
    if ((n == 0) != (L.head == nullptr)) { problem = "head is null iff the map is empty does not hold"; return false; }
    if (L.head && L.head->prev) { problem = "head->prev is not null"; return false; }
    if (L.tail && L.tail->next) { problem = "tail->next is not null"; return false; }
    C::Item* prev = nullptr;
    for (C::Item* i = L.head; i; prev = i, i = i->next) {
      if (++steps > n) { problem = "list is longer than the map (cycle or stale node)"; return false; }
      if (i->prev != prev) { problem = "prev link does not mirror next link"; return false; }
      if (!i->key) { problem = "node has a null key pointer"; return false; }
      auto it = L.items.find(*i->key);
      if (it == L.items.end() || &it->second != i) { problem = "linked node is not the map's node for its key"; return false; }
      if (i->key != &it->first) { problem = "key pointer does not point at the node's own map key"; return false; }
      sum += i->size;
      out.entry(*i->key, 0, i->size, false);
    }
    if (prev != L.tail) { problem = "tail is not the last node reached from head"; return false; }
    if (steps != n) { problem = "list is shorter than the map"; return false; }
    out.ch('|');
    out.num(L.total_size);
    if (sum != L.total_size) { problem = vf::fmt("total_size is %zu but the entries sum to %zu", L.total_size, sum); return false; }
    return true;
  }
  static bool observe_one(C& L, const RecencyList& M, const char* which, std::string& what) {
    if (L.size() != M.total()) { what = vf::fmt("size:%s.size() == %zu, expected %zu", which, L.size(), M.total()); return false; }
    if (L.count() != (size_t)M.n) { what = vf::fmt("count:%s.count() == %zu, expected %d", which, L.count(), M.n); return false; }
    // peek() on an empty set must throw; that is decided by the PEEK letter of the alphabet (and by the
    // drain of every BFS state), not re-thrown after each of the ~10^8 steps (C++ throws are slow under ASan)
    if (M.n == 0) return true;
    Res got;
    try { auto p = L.peek(); got = rentry(p.first, 0, (long)p.second);
    } catch (const std::out_of_range&) { got = rcode(Res::OUT_OF_RANGE);
    } catch (...) { got = rcode(Res::OTHER_EXCEPTION); }
    Res exp = rentry(M.e[M.n - 1].k, 0, (long)M.e[M.n - 1].s);
    if (!(got == exp)) { what = std::string("peek:") + which + ".peek(): " + got.str(false) + ", expected " + exp.str(false); return false; }
    return true;
  }
  static Res evict(C& L) {
    try { auto p = L.evict_object(); return rentry(p.first, 0, (long)p.second);
    } catch (const std::out_of_range&) { return rcode(Res::OUT_OF_RANGE);
    } catch (...) { return rcode(Res::OTHER_EXCEPTION); }
  }
};

struct MapSys {
  static constexpr bool is_map = true;
  static const char* cname() { return "LRUMap"; }
  using C = LRUMap<int, int>;
  struct World {
    C X, Y;
    RecencyList MX, MY;
  };

  static Res real(World& w, const Op& o) {
    try {
      int kk = o.k, vv = o.v;
      switch (o.kind) {
        case INSERT: return rbool(w.X.insert(std::move(kk), std::move(vv), (size_t)o.s));
        case INSERT_DEF: return rbool(w.X.insert(std::move(kk), std::move(vv)));
        case INSERT_C: {
#ifdef C12_HAVE_INSERT_CONSTREF
          const int& kr = kk;
          const int& vr = vv;
          return rbool(w.X.insert(kr, vr, (size_t)o.s));
#else
          return rcode(Res::OTHER_EXCEPTION);
#endif
        }
        case EMPLACE: return rbool(w.X.emplace(std::move(kk), std::move(vv), (size_t)o.s));
        case ERASE: return rbool(w.X.erase(o.k));
        case TOUCH: return rbool(w.X.touch(o.k));
        case TOUCH_SZ: return rbool(w.X.touch(o.k, (ssize_t)o.s));
        case CHANGE_SIZE: return rbool(w.X.change_size(o.k, (size_t)o.s));
        case CHANGE_SIZE_F: return rbool(w.X.change_size(o.k, (size_t)o.s, o.touch));
        case AT: { int& ref = w.X.at(o.k); return rvalue(ref); }
        case AT_CONST: {
#ifdef C12_HAVE_AT_CONST
          const C& cx = w.X;
          const int& ref = cx.at(o.k);
          return rvalue(ref);
#else
          return rcode(Res::OTHER_EXCEPTION);
#endif
        }
        case AT_WRITE: w.X.at(o.k) = o.v; return rcode(Res::VOID);
        case ITEM_SIZE: return rsize((long)w.X.item_size(o.k));
        case EVICT: { auto e = w.X.evict_object(); return rentry(e.key, e.value, (long)e.size); }
        case CLEAR: w.X.clear(); return rcode(Res::VOID);
        case SWAP_XY: w.X.swap(w.Y); return rcode(Res::VOID);
        case SWAP_YX: w.Y.swap(w.X); return rcode(Res::VOID);
        case SWAP_XX: w.X.swap(w.X); return rcode(Res::VOID);
        default: break;
      }
    } catch (const std::out_of_range&) { return rcode(Res::OUT_OF_RANGE);
    } catch (...) { return rcode(Res::OTHER_EXCEPTION); }
    return rcode(Res::VOID);
  }

  static bool inspect_one(C& L, CanonWriter& out, std::string& problem) {
    size_t n = L.items.size(), steps = 0, sum = 0;
    if ((L.head == nullptr) != (L.tail == nullptr)) { problem = "head and tail are not null together"; return false; }
    if ((n == 0) != (L.head == nullptr)) { problem = "head is null iff the map is empty does not hold"; return false; }
    if (L.head && L.head->prev) { problem = "head->prev is not null"; return false; }
    if (L.tail && L.tail->next) { problem = "tail->next is not null"; return false; }
    C::Item* prev = nullptr;
    for (C::Item* i = L.head; i; prev = i, i = i->next) {
      if (++steps > n) { problem = "list is longer than the map (cycle or stale node)"; return false; }
      if (i->prev != prev) { problem = "prev link does not mirror next link"; return false; }
      if (!i->key) { problem = "node has a null key pointer"; return false; }
      auto it = L.items.find(*i->key);
      if (it == L.items.end() || &it->second != i) { problem = "linked node is not the map's node for its key"; return false; }
      if (i->key != &it->first) { problem = "key pointer does not point at the node's own map key"; return false; }
      sum += i->size;
      out.entry(*i->key, i->value, i->size, true);
    }
    if (prev != L.tail) { problem = "tail is not the last node reached from head"; return false; }
    if (steps != n) { problem = "list is shorter than the map"; return false; }
    out.ch('|');
    out.num(L.total_size);
    if (sum != L.total_size) { problem = vf::fmt("total_size is %zu but the entries sum to %zu", L.total_size, sum); return false; }
    return true;
  }
  static bool observe_one(C& L, const RecencyList& M, const char* which, std::string& what) {
    if (L.size() != M.total()) { what = vf::fmt("size:%s.size() == %zu, expected %zu", which, L.size(), M.total()); return false; }
    if (L.count() != (size_t)M.n) { what = vf::fmt("count:%s.count() == %zu, expected %d", which, L.count(), M.n); return false; }
    if (L.empty() != (M.n == 0)) { what = vf::fmt("empty:%s.empty() == %d with %d entries", which, (int)L.empty(), M.n); return false; }
    return true;
  }
  static Res evict(C& L) {
    try { auto e = L.evict_object(); return rentry(e.key, e.value, (long)e.size);
    } catch (const std::out_of_range&) { return rcode(Res::OUT_OF_RANGE);
    } catch (...) { return rcode(Res::OTHER_EXCEPTION); }
  }
};

// ---- checker shared by the BFS and the un-merged runs ------------------------------------------------

template <class Sys>
struct Checker {
  using World = typename Sys::World;
  using Table = bfs::Table<Canon, HashCanon>;
  struct Ctx {  // the history text is only rendered when a failure is described
    bool report;
    const std::vector<uint32_t>* hist;
    size_t len;
  };

  vf::Run& r;
  std::vector<Op> alpha;
  std::vector<std::string> names;
  std::string note_buf;

  Checker(vf::Run& run, std::vector<Op> a) : r(run), alpha(std::move(a)) {
    for (auto& o : alpha) names.push_back(op_text(o, Sys::is_map));
  }

  template <class F>
  void fail(const Ctx& c, const std::string& key, F&& what) {
    if (!c.report) return;
    r.fail(key, [&] { return "after history [" + describe(*c.hist, c.len) + "]: " + what(); });
  }
  std::string key_of(const Op& o, const char* kind) const { return std::string(Sys::cname()) + "::" + fn_name(o.kind) + ":" + kind; }

  static bool inspect(World& w, Canon& c, std::string& problem) {
    CanonWriter cw(c);
    if (!Sys::inspect_one(w.X, cw, problem)) { problem = "X: " + problem; return false; }
    cw.ch('/');
    if (!Sys::inspect_one(w.Y, cw, problem)) { problem = "Y: " + problem; return false; }
    return true;
  }
  static Canon model_canon(const World& w) {
    Canon c;
    CanonWriter cw(c);
    model_canon_one(w.MX, cw, Sys::is_map);
    cw.ch('/');
    model_canon_one(w.MY, cw, Sys::is_map);
    return c;
  }

  void set_note(const Op* o, const std::string* name, const std::string& hs) {
    note_buf.assign("call:");
    note_buf += Sys::cname();
    note_buf += "::";
    note_buf += o ? fn_name(o->kind) : "replay";
    note_buf += ' ';
    if (name) { note_buf += *name; note_buf += ' '; }
    note_buf += "after [";
    note_buf += hs;
    note_buf += ']';
    r.note(note_buf);
  }

  // One operation on the real objects and on the model, followed by every per-step check.
  // false: the objects must not be used any further (invariant broken / diverged from the model).
  bool step(World& w, size_t letter, const Ctx& c, Canon* out) {
    const Op& o = alpha[letter];
    Res got = Sys::real(w, o);
    Res exp = model_apply(w.MX, w.MY, o, Sys::is_map);
    if (!(got == exp)) fail(c, key_of(o, "result"), [&] { return names[letter] + ": " + got.str(Sys::is_map) + ", expected " + exp.str(Sys::is_map); });
    Canon cr;
    std::string problem;
    if (!inspect(w, cr, problem)) {
      fail(c, key_of(o, "link-invariant"), [&] { return names[letter] + " leaves " + problem; });
      return false;
    }
    Canon cm = model_canon(w);
    if (cr != cm) {
      fail(c, key_of(o, "state"), [&] { return names[letter] + ": lists read through the real links (head..tail|total_size, X/Y) are [" + cr.str() + "], reference recency list is [" + cm.str() + "]"; });
      return false;
    }
    std::string what;
    if (!Sys::observe_one(w.X, w.MX, "X", what) || !Sys::observe_one(w.Y, w.MY, "Y", what)) {
      size_t colon = what.find(':');
      fail(c, std::string(Sys::cname()) + "::" + what.substr(0, colon) + ":after-" + fn_name(o.kind), [&] { return "after " + names[letter] + ": " + what.substr(colon + 1); });
      return false;
    }
    // observers must not move anything
    Canon c2;
    if (!inspect(w, c2, problem) || c2 != cr) {
      fail(c, std::string(Sys::cname()) + "::observers:change-state", [&] { return "size()/count()/peek()/empty() after " + names[letter] + " changed the lists to [" + c2.str() + "] " + problem; });
      return false;
    }
    if (out) *out = cr;
    return true;
  }

  // Rebuilds a state: operations only, no per-step checks (every step of every stored history was
  // checked when it was first taken; the rebuilt canonical form is compared once per state).
  bool replay(World& w, const std::vector<uint32_t>& h) {
    for (uint32_t l : h) {
      Sys::real(w, alpha[l]);
      model_apply(w.MX, w.MY, alpha[l], Sys::is_map);
    }
    return true;
  }

  // final drain: repeated evict_object must hand back the model's entries from least to most recent
  // past_the_end: also demand that one more evict_object on the emptied container throws out_of_range
  void drain_one(typename Sys::C& L, RecencyList& M, const char* which, const Ctx& c, bool past_the_end) {
    for (int guard = 0; guard < 8; guard++) {
      if (!M.n && !past_the_end) break;
      Res exp = M.n ? rentry(M.e[M.n - 1].k, Sys::is_map ? M.e[M.n - 1].v : 0, (long)M.e[M.n - 1].s) : rcode(Res::OUT_OF_RANGE);
      if (M.n) M.remove(M.n - 1);
      Res got = Sys::evict(L);
      if (!(got == exp)) {
        fail(c, std::string(Sys::cname()) + "::drain:evict_object", [&] { return std::string("draining ") + which + ": evict_object " + got.str(Sys::is_map) + ", expected " + exp.str(Sys::is_map); });
        return;
      }
      if (exp.code == Res::OUT_OF_RANGE) break;
    }
    if (L.size() != 0 || L.count() != 0)
      fail(c, std::string(Sys::cname()) + "::drain:not-empty", [&] { return std::string("after draining ") + which + vf::fmt(": size() == %zu, count() == %zu", L.size(), L.count()); });
  }
  void drain(World& w, const Ctx& c, bool past_the_end) {
    drain_one(w.X, w.MX, "X", c, past_the_end);
    drain_one(w.Y, w.MY, "Y", c, past_the_end);
    Canon cr;
    std::string problem;
    if (!inspect(w, cr, problem)) fail(c, std::string(Sys::cname()) + "::drain:link-invariant", [&] { return "drained containers: " + problem; });
  }

  std::string describe(const std::vector<uint32_t>& h, size_t len) const {
    std::string s;
    for (size_t i = 0; i < len && i < h.size(); i++) { if (i) s += "; "; s += names[h[i]]; }
    return s;
  }

  // ---- search to fixpoint ---------------------------------------------------------------------------
  using Search = bfs::LevelSearch<Canon, HashCanon>;

  static Canon root_key() {
    World w;
    Canon c0;
    std::string problem;
    inspect(w, c0, problem);
    return c0;
  }

  // everything that is done for one state (runs inside a worker process, see bfs.hh)
  void expand(const Search& ls, uint32_t i, const typename Search::Emit& emit, bool mine) {
    std::vector<uint32_t> hist;
    ls.tab.history(i, hist);
    std::string hs = describe(hist, hist.size());
    Ctx c{mine, &hist, hist.size()};
    if (mine && r.wants_desc()) r.desc(vf::fmt("state %u [%s]: ", i, ls.tab.key(i).str().c_str()) + (hs.empty() ? "(fresh containers)" : hs));
    int nx = 0;
    {
      // replay: the canonical form must be reproduced; then drain and destroy
      World w;
      set_note(nullptr, nullptr, hs);
      replay(w, hist);
      Canon cr;
      std::string problem;
      if (!inspect(w, cr, problem) || cr != ls.tab.key(i)) {
        fail(c, std::string(Sys::cname()) + "::replay:canonical-form-differs", [&] { return "stored [" + ls.tab.key(i).str() + "], replay gives [" + cr.str() + "] " + problem; });
        if (mine) r.exhaustive = false;
        return;
      }
      nx = w.MX.n;
      if (mine) {
        r.states++;
        drain(w, c, true);
      }
    }
    for (size_t l = 0; l < alpha.size(); l++) {
      World w;
      replay(w, hist);
      set_note(&alpha[l], &names[l], hs);
      Canon cn;
      if (step(w, l, c, &cn)) emit((uint32_t)l, cn);
      if (mine) {
        r.transitions++;
        r.evals++;
        if (nx >= 2) r.nontriv();
      }
    }
    if (mine) r.ok(vf::fmt("state with %d entries in X", nx));
  }

  void bfs_section(const char* text, int workers) {
    Search ls(r, workers);
    ls.run(root_key(), [&](uint32_t i, const typename Search::Emit& emit, bool mine) { expand(ls, i, emit, mine); });
    if (!ls.replaying()) {
      r.counters["fixpoint_reached"] = ls.stopped_early ? 0 : 1;
      r.counters["states_in_closure"] = ls.tab.size();
      r.counters["max_depth"] = ls.tab.max_depth;
      r.counters["alphabet_size"] = alpha.size();
      r.counters["workers"] = (uint64_t)workers;
      if (ls.stopped_early) r.exhaustive = false;
    }
    r.bound = vf::fmt("%s: fixpoint, %zu states (pairs of lists X/Y), %zu operations applied in each, max BFS depth %u; every state drained and destroyed", text, ls.tab.size(), alpha.size(), ls.tab.max_depth);
  }

  // quiet sequential closure of this alphabet (no reporting): the reference set for the un-merged runs
  void quiet_closure(Table& tab) {
    std::vector<uint32_t> hist;
    tab.add_root(root_key());
    for (uint32_t i = 0; i < tab.size(); i++) {
      tab.history(i, hist);
      Ctx quiet{false, &hist, hist.size()};
      for (size_t l = 0; l < alpha.size(); l++) {
        World w;
        replay(w, hist);
        Canon cn;
        if (step(w, l, quiet, &cn)) tab.add(cn, i, (uint32_t)l);
      }
    }
  }

  // ---- un-merged exhaustive sequences -----------------------------------------------------------------
  // Every sequence over the alphabet with length <= maxlen, each executed from scratch (E-ENUM style,
  // sharded by r.take()); every state passed through must lie in the closure at depth <= steps taken.
  void sequences(size_t maxlen, const char* text) {
    Table tab;
    quiet_closure(tab);
    r.note(std::string("unmerged:") + Sys::cname());
    uint64_t nseq = 0;
    std::vector<uint32_t> seq;
    const std::string bad_label = vf::fmt("%s: stopped at a violation", text);
    for (size_t len = 0; len <= maxlen; len++) {
      const std::string ok_label = vf::fmt("%s: length-%zu sequence agrees with the model at every step", text, len);
      seq.assign(len, 0);
      for (;;) {
        nseq++;
        if (r.take()) {
          if (r.wants_desc()) r.desc(vf::fmt("%s: ", text) + (len ? describe(seq, len) : std::string("(empty sequence)")));
          World w;
          bool ok = true, nontrivial = false;
          for (size_t sidx = 0; sidx < len && ok; sidx++) {
            if (w.MX.n >= 2) nontrivial = true;
            Ctx c{true, &seq, sidx};
            Canon cn;
            ok = step(w, seq[sidx], c, &cn);
            if (ok) {
              int64_t at = tab.set.find(cn);
              if (at < 0 || tab.recs[(size_t)at].depth > sidx + 1) {
                fail(c, std::string(Sys::cname()) + "::unmerged:state-outside-closure", [&] {
                  return names[seq[sidx]] + " reaches [" + cn.str() + "], which " + (at < 0 ? std::string("the merged search never found") : vf::fmt("the merged search only found at depth %u", (unsigned)tab.recs[(size_t)at].depth));
                });
                ok = false;
              }
            }
          }
          if (ok) {
            Ctx c{true, &seq, len};
            drain(w, c, false);
          }
          if (nontrivial) r.nontriv();
          r.ok(ok ? ok_label : bad_label);
        }
        size_t p = 0;
        for (; p < len; p++) {
          if (++seq[p] < alpha.size()) break;
          seq[p] = 0;
        }
        if (p == len) break;
      }
    }
    if (!r.bound.empty()) r.bound += "; ";
    r.bound += vf::fmt("%s: all %llu sequences of length <= %zu over %zu letters, un-merged (closure of this alphabet: %zu states)", text, (unsigned long long)nseq, maxlen, alpha.size(), tab.size());
  }
};

// ---- alphabets (simplest first) ------------------------------------------------------------------------

Op mk(Kind kind, int k = 0, int s = 0, int v = 0, bool touch = false) {
  Op o;
  o.kind = kind; o.k = k; o.s = s; o.v = v; o.touch = touch;
  return o;
}

std::vector<Op> set_alphabet(bool with_swap) {
  std::vector<Op> a;
  for (int k = 0; k < 3; k++) for (int s = 0; s < 3; s++) a.push_back(mk(INSERT, k, s));
  for (int k = 0; k < 3; k++) a.push_back(mk(INSERT_DEF, k));
  for (int k = 0; k < 3; k++) for (int s = 0; s < 3; s++) a.push_back(mk(EMPLACE, k, s));
  for (int k = 0; k < 3; k++) a.push_back(mk(ERASE, k));
  for (int k = 0; k < 3; k++) a.push_back(mk(TOUCH, k));
  for (int k = 0; k < 3; k++) for (int s = 0; s < 3; s++) a.push_back(mk(TOUCH_SZ, k, s));
  for (int k = 0; k < 3; k++) for (int s = 0; s < 3; s++) a.push_back(mk(CHANGE_SIZE, k, s));
  a.push_back(mk(EVICT));
  a.push_back(mk(PEEK));
  a.push_back(mk(CLEAR));
  if (with_swap) { a.push_back(mk(SWAP_XY)); a.push_back(mk(SWAP_YX)); a.push_back(mk(SWAP_XX)); }
  return a;
}
std::vector<Op> set_medium() {  // 33 letters for the length-5 runs
  std::vector<Op> a;
  for (int k = 0; k < 3; k++) for (int s = 1; s < 3; s++) a.push_back(mk(INSERT, k, s));
  for (int k = 0; k < 3; k++) a.push_back(mk(EMPLACE, k, 0));
  for (int k = 0; k < 3; k++) a.push_back(mk(EMPLACE, k, 2));
  for (int k = 0; k < 3; k++) a.push_back(mk(ERASE, k));
  for (int k = 0; k < 3; k++) a.push_back(mk(TOUCH, k));
  for (int k = 0; k < 3; k++) a.push_back(mk(TOUCH_SZ, k, 0));
  for (int k = 0; k < 3; k++) a.push_back(mk(TOUCH_SZ, k, 1));
  for (int k = 0; k < 3; k++) a.push_back(mk(CHANGE_SIZE, k, 2));
  for (int k = 0; k < 3; k++) a.push_back(mk(CHANGE_SIZE, k, 0));
  a.push_back(mk(EVICT));
  a.push_back(mk(PEEK));
  a.push_back(mk(CLEAR));
  return a;
}
std::vector<Op> set_reduced() {  // 12 letters for the length-7 runs
  return {mk(INSERT, 0, 1), mk(INSERT, 1, 2), mk(EMPLACE, 2, 0), mk(INSERT, 0, 2), mk(ERASE, 0), mk(ERASE, 1), mk(TOUCH, 0),
      mk(TOUCH_SZ, 1, 1), mk(CHANGE_SIZE, 2, 1), mk(EVICT), mk(SWAP_XY), mk(CLEAR)};
}

std::vector<Op> map_alphabet(const std::vector<int>& sizes, const std::vector<int>& values, bool with_swap) {
  std::vector<Op> a;
  bool def_size_in_scope = false;
  for (int s : sizes) if (s == 1) def_size_in_scope = true;
  for (int k = 0; k < 3; k++) for (int v : values) for (int s : sizes) a.push_back(mk(INSERT, k, s, v));
  if (def_size_in_scope) for (int k = 0; k < 3; k++) for (int v : values) a.push_back(mk(INSERT_DEF, k, 0, v));
#ifdef C12_HAVE_INSERT_CONSTREF
  for (int k = 0; k < 3; k++) for (int v : values) for (int s : sizes) a.push_back(mk(INSERT_C, k, s, v));
#endif
  for (int k = 0; k < 3; k++) for (int v : values) for (int s : sizes) a.push_back(mk(EMPLACE, k, s, v));
  for (int k = 0; k < 3; k++) a.push_back(mk(ERASE, k));
  for (int k = 0; k < 3; k++) a.push_back(mk(AT, k));
#ifdef C12_HAVE_AT_CONST
  for (int k = 0; k < 3; k++) a.push_back(mk(AT_CONST, k));
#endif
  for (int k = 0; k < 3; k++) for (int v : values) a.push_back(mk(AT_WRITE, k, 0, v));
  for (int k = 0; k < 3; k++) a.push_back(mk(ITEM_SIZE, k));
  for (int k = 0; k < 3; k++) for (int s : sizes) a.push_back(mk(CHANGE_SIZE, k, s));
  for (int k = 0; k < 3; k++) for (int s : sizes) for (int t = 0; t < 2; t++) a.push_back(mk(CHANGE_SIZE_F, k, s, 0, t != 0));
  for (int k = 0; k < 3; k++) a.push_back(mk(TOUCH, k));
  for (int k = 0; k < 3; k++) for (int s : sizes) a.push_back(mk(TOUCH_SZ, k, s));
  a.push_back(mk(EVICT));
  a.push_back(mk(CLEAR));
  if (with_swap) { a.push_back(mk(SWAP_XY)); a.push_back(mk(SWAP_YX)); a.push_back(mk(SWAP_XX)); }
  return a;
}
std::vector<Op> map_medium() {  // ~31 letters for the length-5 runs
  std::vector<Op> a;
  for (int k = 0; k < 3; k++) a.push_back(mk(INSERT, k, 1, 10));
  for (int k = 0; k < 3; k++) a.push_back(mk(INSERT, k, 2, 11));
#ifdef C12_HAVE_INSERT_CONSTREF
  for (int k = 0; k < 3; k++) a.push_back(mk(INSERT_C, k, 2, 11));
#endif
  for (int k = 0; k < 3; k++) a.push_back(mk(EMPLACE, k, 2, 10));
  for (int k = 0; k < 3; k++) a.push_back(mk(ERASE, k));
  for (int k = 0; k < 3; k++) a.push_back(mk(AT, k));
#ifdef C12_HAVE_AT_CONST
  a.push_back(mk(AT_CONST, 0));
#endif
  a.push_back(mk(ITEM_SIZE, 0));
  for (int k = 0; k < 3; k++) a.push_back(mk(CHANGE_SIZE_F, k, 2, 0, false));
  for (int k = 0; k < 3; k++) a.push_back(mk(CHANGE_SIZE_F, k, 1, 0, true));
  for (int k = 0; k < 3; k++) a.push_back(mk(TOUCH, k));
  for (int k = 0; k < 3; k++) a.push_back(mk(TOUCH_SZ, k, 2));
  a.push_back(mk(EVICT));
  a.push_back(mk(CLEAR));
  return a;
}
std::vector<Op> map_reduced() {  // 13 letters for the length-7 runs
  std::vector<Op> a = {mk(INSERT, 0, 1, 10), mk(INSERT, 1, 2, 11), mk(EMPLACE, 2, 0, 10), mk(INSERT, 0, 2, 11), mk(EMPLACE, 1, 1, 10), mk(ERASE, 0),
      mk(AT, 1), mk(AT, 0), mk(CHANGE_SIZE_F, 2, 2, 0, false), mk(TOUCH_SZ, 0, 1), mk(EVICT), mk(SWAP_XY), mk(CLEAR)};
#ifdef C12_HAVE_AT_CONST
  a[7] = mk(AT_CONST, 0);
#endif
#ifdef C12_HAVE_INSERT_CONSTREF
  a[3] = mk(INSERT_C, 0, 2, 11);
#endif
  return a;
}

void insert_constref_note(vf::Run& r) {
#ifndef C12_HAVE_INSERT_CONSTREF
  r.notes.push_back("LRUMap::insert(const KeyT&, const ValueT&, size_t) is an ill-formed template on this tree (assigns a pair to an iterator; `i.total_size`): it cannot be instantiated, so only insert(KeyT&&, ValueT&&, size_t) is executed (compile-time defect, not decided)");
#else
  r.notes.push_back("LRUMap::insert(const KeyT&, const ValueT&, size_t) compiles on this tree and is part of every LRUMap alphabet");
#endif
#ifndef C12_HAVE_AT_CONST
  r.notes.push_back("LRUMap::at(const KeyT&) const is an ill-formed template on this tree (binds Item& to a const map element): it cannot be instantiated, so only the non-const at() is executed (compile-time defect, not decided)");
#else
  r.notes.push_back("LRUMap::at(const KeyT&) const compiles on this tree and is part of every LRUMap alphabet");
#endif
}

}  // namespace

// two LRUSet instances; every operation on X plus the three swaps; 226^2 list pairs
VF_SECTION(set_bfs, 1, 1, 180) {
  Checker<SetSys> c(r, set_alphabet(true));
  c.bfs_section("LRUSet<int>, instances X and Y, keys {0,1,2}, sizes {0,1,2}", 10);
}

// M1: one LRUMap instance, sizes {0,1,2}, values {10,11}
VF_SECTION(map_m1_bfs, 1, 1, 180) {
  Checker<MapSys> c(r, map_alphabet({0, 1, 2}, {10, 11}, false));
  c.bfs_section("LRUMap<int,int> scope M1: one instance, keys {0,1,2}, sizes {0,1,2}, values {10,11}", 2);
  insert_constref_note(r);
}

// M2: two LRUMap instances with swap, sizes {1,2}, one value
VF_SECTION(map_m2_bfs, 1, 1, 180) {
  Checker<MapSys> c(r, map_alphabet({1, 2}, {10}, true));
  c.bfs_section("LRUMap<int,int> scope M2: instances X and Y with swap, keys {0,1,2}, sizes {1,2}, value 10", 3);
}

// un-merged runs
VF_SECTION(set_seq, 12, 16, 120) {
  {
    Checker<SetSys> c(r, set_alphabet(false));
    c.sequences(4, "LRUSet full one-instance alphabet");
  }
  if (r.thorough()) {
    Checker<SetSys> c(r, set_medium());
    c.sequences(5, "LRUSet medium alphabet");
  }
  if (r.thorough()) {
    Checker<SetSys> c(r, set_reduced());
    c.sequences(7, "LRUSet reduced alphabet with swap");
  }
}

VF_SECTION(map_seq, 12, 16, 120) {
  {
    Checker<MapSys> c(r, map_alphabet({0, 1, 2}, {10, 11}, false));
    c.sequences(3, "LRUMap full one-instance alphabet");
  }
  {
    Checker<MapSys> c(r, map_medium());
    c.sequences(r.thorough() ? 5 : 4, "LRUMap medium alphabet");
  }
  if (r.thorough()) {
    Checker<MapSys> c(r, map_reduced());
    c.sequences(7, "LRUMap reduced alphabet with swap");
  }
}

VF_MAIN()
