// C05 — JSON parser is total and standard-conformant; strict mode = no extensions.
//
// E-ENUM over the real phosg::JSON::parse (all three entry points x {default, strict}) on
//   bytes16 / bytes28 : every byte string over a reduced / the full alphabet up to a length bound
//   grammar           : every derivation of the RFC 8259 grammar up to a token bound, three whitespace
//                       renderings, every truncation, delimiter/junk suffixes
//   ext               : the same documents rewritten with each documented extension
//   mutate            : every single-byte substitution / insertion / deletion of a document corpus
//   deep              : 500-deep lists / dictionaries / mixed, every truncation
// against the reference models R_std / R_ext of C04_jsonref.hh.  One oracle (check_text) is used for
// every text; the sections differ only in what they enumerate.
//
// Inputs live in exact-size malloc() blocks without terminator, so a read past the end is an ASan
// report (attributed to the case by check.py).
#include <stdlib.h>
#include <string.h>

#include <map>
#include <string>
#include <vector>

#include "C04_jsonref.hh"
#include "JSON.hh"
#include "vf.hh"

using namespace phosg;

namespace {

enum Entry { E_READER = 0, E_PTR = 1, E_STRING = 2 };
const char* entry_name[] = {"reader", "ptr", "string"};

struct Obs {
  int status = 0;  // 0 returned, 1 parse_error, 2 out_of_range, 3 anything else
  std::string exc;
  JSON value;
  size_t where = 0;
};

Obs run_parse(Entry e, const char* buf, size_t n, bool strict) {
  Obs o;
  try {
    switch (e) {
      case E_READER: {
        StringReader rd(buf, n);
        try {
          o.value = JSON::parse(rd, strict);
        } catch (...) {
          o.where = rd.where();
          throw;
        }
        o.where = rd.where();
        break;
      }
      case E_PTR:
        o.value = JSON::parse(buf, n, strict);
        break;
      case E_STRING: {
        std::string s(buf, n);
        o.value = JSON::parse(s, strict);
        break;
      }
    }
  } catch (const JSON::parse_error&) {
    o.status = 1;
  } catch (const std::out_of_range&) {
    o.status = 2;
  } catch (const JSON::type_error&) {
    o.status = 3;
    o.exc = "JSON::type_error";
  } catch (const std::bad_alloc&) {
    o.status = 3;
    o.exc = "bad_alloc";
  } catch (const std::logic_error&) {
    o.status = 3;
    o.exc = "logic_error";
  } catch (const std::runtime_error&) {
    o.status = 3;
    o.exc = "runtime_error";
  } catch (const std::exception&) {
    o.status = 3;
    o.exc = "std::exception";
  } catch (...) {
    o.status = 3;
    o.exc = "non-std";
  }
  return o;
}

const char* status_name(const Obs& o) {
  switch (o.status) {
    case 0: return "returned";
    case 1: return "parse_error";
    case 2: return "out_of_range";
  }
  return o.exc.c_str();
}

bool safe_follower(const std::string& s, size_t i) {
  if (i >= s.size()) return true;
  char c = s[i];
  return c == ' ' || c == '\t' || c == '\n' || c == '\r' || c == ',' || c == ']' || c == '}';
}

// coarse content tag for "rejected" keys, so that the two known causes do not share a key
const char* feature(const jref::Val& v) {
  if (v.has_empty_container()) return "empty-container";
  if (v.has_exp_number()) return "exponent-number";
  return "other";
}

std::string show_obs(const Obs& o) {
  if (o.status) return std::string("threw ") + status_name(o);
  std::string t;
  try {
    t = o.value.serialize(JSON::SerializeOption::SORT_DICT_KEYS);
  } catch (...) {
    t = "(unserializable)";
  }
  if (t.size() > 120) t = t.substr(0, 120) + "...";
  return "returned " + std::string(o.value.is_int() ? "int " : o.value.is_float() ? "float " : "") + t;
}

std::string show_ref(const jref::Result& r) {
  if (!r.prefix_ok) return std::string("rejects (") + r.why + " at " + std::to_string(r.err_pos) + ")";
  std::string c = jref::canon(r.value);
  if (c.size() > 120) c = c.substr(0, 120) + "...";
  return std::string(r.accepted ? "accepts" : "value prefix") + " value=" + c + " extent=" + std::to_string(r.value_end);
}

constexpr double TOL = 1e-9;

// [eE][+-]?[0-9]{7,}
bool huge_exponent(const std::string& s) {
  for (size_t i = 0; i + 7 < s.size(); i++) {
    if (s[i] != 'e' && s[i] != 'E') continue;
    size_t j = i + 1;
    if (j < s.size() && (s[j] == '+' || s[j] == '-')) j++;
    size_t d = 0;
    while (j + d < s.size() && s[j + d] >= '0' && s[j + d] <= '9') d++;
    if (d >= 7) return true;
  }
  return false;
}

std::string brief(const std::string& s) {
  if (s.size() <= 160) return vf::show(s);
  return vf::show(s.substr(0, 60)) + vf::fmt("...(%zu bytes)...", s.size()) + vf::show(s.substr(s.size() - 40));
}

// The single oracle.  `s` is the text; dat (may be null) receives the Python-binding line.
void check_text(vf::Run& r, const std::string& s, FILE* dat) {
  const size_t n = s.size();
  jref::Result st = jref::parse(s, false);
  jref::Result ex = st.accepted ? st : jref::parse(s, true);
  jref::dat_line(dat, s, st);
  if (dat) r.counters["texts_written_for_python"]++;

  if (huge_exponent(s)) {
    // outside the statement (beyond double range) and the parser's exponent loop is O(10^digits): a 2^31-iteration
    // loop terminates but takes seconds, so these are classified, bound to Python, and not executed
    r.ok("not-executed:exponent-of-7+-digits(outside double range; exponent loop is linear in the exponent)");
    return;
  }
  char* buf = (char*)malloc(n);  // exact size, no terminator
  if (n) memcpy(buf, s.data(), n);

  bool any_returned = false, any_fail = false;
  auto bad = [&](const std::string& key, const Obs& o, const char* mode, Entry e, const jref::Result& ref, const char* expect) {
    any_fail = true;
    r.fail(key, [&] {
      return vf::fmt("parse(%s) via %s entry, %s mode: %s; expected: %s [reference %s: %s]", brief(s).c_str(), entry_name[e], mode,
          (show_obs(o) + (e == E_READER && !o.status ? vf::fmt(" where()=%zu", o.where) : std::string())).c_str(), expect,
          &ref == &st ? "R_std" : "R_ext", show_ref(ref).c_str());
    });
  };

  for (int strict = 0; strict < 2; strict++) {
    const char* M = strict ? "strict" : "default";
    const jref::Result& P = strict ? st : ex;  // what this mode is documented to understand
    for (int ei = 0; ei < 3; ei++) {
      Entry e = (Entry)ei;
      Obs o = run_parse(e, buf, n, strict);
      r.transitions++;
      if (o.status == 0) any_returned = true;
      // (1) totality: only the documented exception types
      if (o.status == 3) {
        bad("undocumented-exception:" + o.exc, o, M, e, P, "a value, JSON::parse_error or std::out_of_range");
        continue;
      }
      // a value mismatch in a number/string leaf is the same defect whether or not the document also uses an
      // extension; mismatches in what extensions produce (ints, constants, shape) are keyed by the extension
      auto value_key = [&](const std::string& tag, unsigned extmask) {
        if (extmask && tag != "float" && tag != "float-exp" && tag != "string") return std::string("extension:wrong-value:") + jref::ext_name(extmask);
        return "standard:wrong-value:" + tag;
      };
      if (e != E_READER) {
        // (2) string entry points
        if (st.accepted && !st.outside()) {
          if (o.status) bad(std::string("standard:rejected:") + M + ":" + feature(st.value), o, M, e, st, "accepted (standard JSON)");
          else {
            std::string t = jref::differs(o.value, st.value, TOL, false);
            if (!t.empty()) bad(value_key(t, 0), o, M, e, st, "the reference value");
          }
        } else if (!st.accepted && ex.accepted && !ex.outside()) {
          if (!strict) {
            if (o.status) bad(std::string("extension:rejected-by-default:") + jref::ext_name(ex.ext_used), o, M, e, ex, "accepted (documented extension)");
            else {
              std::string t = jref::differs(o.value, ex.value, TOL, false);
              if (!t.empty()) bad(value_key(t, ex.ext_used), o, M, e, ex, "the documented meaning");
            }
          } else if (o.status == 0) {
            bad(std::string("extension:accepted-by-strict:") + jref::ext_name(ex.ext_used), o, M, e, ex, "rejected (disable_extensions=true)");
          }
        } else if (P.prefix_ok && P.junk_after && !P.outside() && safe_follower(s, P.value_end)) {
          // complete value, delimiter, then something that is neither whitespace nor (default mode) a comment
          if (o.status == 0) bad(std::string("trailing-data-accepted:") + M, o, M, e, P, "rejected (non-whitespace after the value)");
        }
      } else {
        // (3) reader entry point: exactly the extent of one value
        if (P.prefix_ok && !P.outside() && safe_follower(s, P.value_end)) {
          if (o.status) {
            if (P.ext_in_value) bad(std::string("extension:rejected-by-default:") + jref::ext_name(P.ext_in_value), o, M, e, P, "a value (documented extension)");
            else bad(std::string("standard:rejected:") + M + ":" + feature(P.value), o, M, e, P, "a value (standard JSON)");
          } else {
            std::string t = jref::differs(o.value, P.value, TOL, false);
            if (!t.empty()) bad(value_key(t, P.ext_in_value), o, M, e, P, "the reference value");
            else if (o.where != P.value_end) bad(std::string("reader:wrong-extent:") + M, o, M, e, P, "where() == extent of the value");
          }
        } else if (strict && ex.prefix_ok && ex.ext_in_value && !ex.outside() && safe_follower(s, ex.value_end)) {
          if (o.status == 0 && o.where == ex.value_end)
            bad(std::string("extension:accepted-by-strict:") + jref::ext_name(ex.ext_in_value), o, M, e, ex, "an exception or an earlier stop (disable_extensions=true)");
        }
      }
    }
  }
  free(buf);

  if (any_returned || ex.prefix_ok) r.nontriv();
  if (any_fail) return;
  const char* cls;
  if (st.accepted) cls = st.outside() ? "standard-but-outside-statement(totality-only)" : "standard:accepted-with-reference-value";
  else if (ex.accepted) cls = ex.outside() ? "extension-but-outside-statement(totality-only)" : "extension:default-accepts,strict-rejects";
  else if (ex.prefix_ok && !ex.outside() && safe_follower(s, ex.value_end)) cls = "value+trailing-data:reader-extent-checked,string-entries-reject";
  else if (any_returned) cls = "reference-rejects,library-lenient(dont-care)";
  else cls = "reference-rejects,library-rejects";
  r.ok(cls);
}

inline void text_case(vf::Run& r, const std::string& s, FILE* dat) {
  if (r.wants_desc()) r.desc("text " + vf::show(s.size() > 300 ? s.substr(0, 300) : s) + (s.size() > 300 ? vf::fmt("... (%zu bytes)", s.size()) : std::string()));
  check_text(r, s, dat);
}

// ---- alphabets --------------------------------------------------------------------------------

const std::string SIGMA16 = std::string("{}[],:\"\\/01-.en\n");
const std::string SIGMA28 = std::string("{}[],:\"\\/01-+.exntfulars \n") + std::string(1, '\0') + std::string(1, '\x80');

void bytes_section(vf::Run& r, const std::string& sigma, size_t maxlen, size_t dat_maxlen) {
  FILE* dat = jref::dat_open(r.section, r.shard);
  r.note("JSON::parse");
  vf::all_strings(sigma, maxlen, [&](const std::string& s) {
    if (!r.take()) return;
    text_case(r, s, s.size() <= dat_maxlen ? dat : nullptr);
  });
  if (dat) fclose(dat);
  r.bound = vf::fmt("all byte strings over %zu symbols, length 0..%zu, x {default,strict} x {reader,ptr+size,std::string}", sigma.size(), maxlen);
}

// ---- grammar-generated documents --------------------------------------------------------------

typedef std::vector<std::string> Toks;

struct Gen {
  std::vector<std::string> atoms, keys;
  std::map<int, std::vector<Toks>> V, L, D;

  static Toks cat(const Toks& a, const Toks& b) {
    Toks t = a;
    t.insert(t.end(), b.begin(), b.end());
    return t;
  }
  const std::vector<Toks>& values(int n) {
    auto it = V.find(n);
    if (it != V.end()) return it->second;
    std::vector<Toks> out;
    if (n == 1) for (auto& a : atoms) out.push_back({a});
    if (n == 2) { out.push_back({"[", "]"}); out.push_back({"{", "}"}); }
    if (n >= 3) {
      for (auto& body : lists(n - 2)) out.push_back(cat(cat({"["}, body), {"]"}));
      for (auto& body : dicts(n - 2)) out.push_back(cat(cat({"{"}, body), {"}"}));
    }
    return V[n] = std::move(out);
  }
  const std::vector<Toks>& lists(int m) {  // non-empty element sequences with exactly m tokens
    auto it = L.find(m);
    if (it != L.end()) return it->second;
    std::vector<Toks> out;
    if (m >= 1) {
      for (auto& v : values(m)) out.push_back(v);
      for (int a = 1; a + 2 <= m; a++)
        for (auto& v : values(a))
          for (auto& rest : lists(m - a - 1)) out.push_back(cat(cat(v, {","}), rest));
    }
    return L[m] = std::move(out);
  }
  const std::vector<Toks>& dicts(int m) {  // non-empty member sequences with exactly m tokens
    auto it = D.find(m);
    if (it != D.end()) return it->second;
    std::vector<Toks> out;
    if (m >= 3) {
      for (auto& k : keys)
        for (auto& v : values(m - 2)) out.push_back(cat({k, ":"}, v));
      for (int a = 1; a + 2 + 1 + 3 <= m; a++)
        for (auto& k : keys)
          for (auto& v : values(a))
            for (auto& rest : dicts(m - a - 3)) {
              if (rest[0] == k) continue;  // keep keys unique among neighbours (duplicates are outside the statement)
              out.push_back(cat(cat(cat({k, ":"}, v), {","}), rest));
            }
    }
    return D[m] = std::move(out);
  }
};

const std::vector<std::string> NUMBERS = {"0", "-0", "1", "10", "-1", "1.5", "5e-1", "1E+2", "1e2", "-1.25e-3", "0.000001", "1e20", "1e-7", "2.5e-308",
    "1.7976931348623157e308", "123456789012345678901.5", "9223372036854775807", "-9223372036854775808", "0.0", "-0.0", "0e0", "1.0E-2"};
const std::vector<std::string> STRINGS = {"\"\"", "\"a\"", "\"\\\"\"", "\"\\\\\"", "\"\\/\"", "\"\\b\"", "\"\\f\"", "\"\\n\"", "\"\\r\"", "\"\\t\"",
    "\"\\u0041\"", "\"\\u00e9\"", "\"\\u00E9\"", "\"\\u0000\"", "\"\xC3\xA9\"", "\"\x7F\"", "\"\xFF\"", "\"a\\\"b\\\\c\"", "\"//\"", "\"0x1\"", "\" \"", "\"[1,]\""};
const std::vector<std::string> LITERALS = {"true", "false", "null"};

Gen make_gen(bool full) {
  Gen g;
  if (full) {
    g.atoms = NUMBERS;
    g.atoms.insert(g.atoms.end(), STRINGS.begin(), STRINGS.end());
    g.atoms.insert(g.atoms.end(), LITERALS.begin(), LITERALS.end());
    g.keys = {"\"\"", "\"a\"", "\"b\"", "\"\\\"\"", "\"\\n\"", "\"\\u00e9\"", "\"\xC3\xA9\"", "\"\xFF\"", "\"a\\\"b\\\\c\"", "\"\\u0000\"", "\"//\"", "\" \""};
  } else {
    g.atoms = {"0", "-1.25e-3", "5e-1", "9223372036854775807", "\"a\"", "\"\\n\"", "\"\\u00e9\"", "true", "false", "null"};
    g.keys = {"\"a\"", "\"b\"", "\"\"", "\"\\u00e9\""};
  }
  return g;
}

std::string render(const Toks& t, int ws) {
  static const char* cyc[] = {"\n", "\t", "\r\n", "  ", " "};
  std::string s;
  for (size_t k = 0; k <= t.size(); k++) {
    if (ws == 1) s += ' ';
    else if (ws == 2) s += cyc[k % 5];
    if (k < t.size()) s += t[k];
  }
  return s;
}

// All generated documents of the tier, simplest first.
std::vector<Toks> grammar_docs(bool thorough) {
  std::vector<Toks> docs;
  Gen full = make_gen(true), rep = make_gen(false);
  int full_max = thorough ? 7 : 5, rep_max = thorough ? 9 : 7;
  for (int n = 1; n <= rep_max; n++) {
    if (n <= full_max) for (auto& d : full.values(n)) docs.push_back(d);
    else for (auto& d : rep.values(n)) docs.push_back(d);
  }
  return docs;
}

const std::vector<std::string> SUFFIXES = {" ", ",", "]", "}", " x", "\n1", " \t\r\n", " \"a\"", ",1", " //c", " //c\nx"};

}  // namespace

VF_SECTION(bytes16, 16, 16, 120) {
  bytes_section(r, SIGMA16, r.thorough() ? 6 : 5, 5);
}

VF_SECTION(bytes28, 0, 16, 120) {
  bytes_section(r, SIGMA28, 5, 4);
}

VF_SECTION(grammar, 16, 16, 120) {
  FILE* dat = jref::dat_open(r.section, r.shard);
  r.note("JSON::parse");
  std::vector<Toks> docs = grammar_docs(r.thorough());
  uint64_t ndocs = 0;
  for (auto& d : docs) {
    for (int ws = 0; ws < 3; ws++) {
      std::string text = render(d, ws);
      ndocs++;
      // the document itself; the generator and R_std must agree that it is standard JSON
      if (r.take()) {
        jref::Result st = jref::parse(text, false);
        if (!st.accepted) r.fail("self-check:reference-rejects-generated-document", [&] { return vf::show(text) + ": " + st.why; });
        text_case(r, text, dat);
      }
      // every proper truncation
      for (size_t k = 0; k < text.size(); k++) {
        if (!r.take()) continue;
        text_case(r, text.substr(0, k), dat);
      }
      // value followed by a delimiter / whitespace / junk (reader extent, trailing-data rule)
      if (ws != 1) {
        for (auto& suf : SUFFIXES) {
          if (!r.take()) continue;
          text_case(r, text + suf, dat);
        }
      }
    }
  }
  if (dat) fclose(dat);
  r.counters["documents"] += r.shard == 0 ? ndocs : 0;
  r.bound = r.thorough() ? "all RFC 8259 derivations: <=7 tokens over 47 atoms/12 keys, 8-9 tokens over 10 atoms/4 keys; x3 whitespace renderings; every truncation; 11 suffixes"
                         : "all RFC 8259 derivations: <=5 tokens over 47 atoms/12 keys, 6-7 tokens over 10 atoms/4 keys; x3 whitespace renderings; every truncation; 11 suffixes";
}

namespace {

bool is_int_token(const std::string& t) {
  if (t.empty() || t[0] == '"') return false;
  size_t i = t[0] == '-' ? 1 : 0;
  if (i >= t.size()) return false;
  for (; i < t.size(); i++) if (t[i] < '0' || t[i] > '9') return false;
  return true;
}

std::string hex_token(const std::string& t, bool lower) {
  bool neg = t[0] == '-';
  uint64_t m = strtoull(t.c_str() + (neg ? 1 : 0), nullptr, 10);
  return vf::fmt(lower ? "%s0x%llx" : "%s0x%llX", neg ? "-" : "", (unsigned long long)m);
}

std::string join(const Toks& t) { return render(t, 0); }

// documents rewritten with documented extensions
std::vector<std::string> ext_variants(const Toks& d) {
  std::vector<std::string> out;
  // (a) trailing commas before every close of a non-empty container; and before the last one only
  {
    Toks all, last = d;
    bool any = false;
    for (size_t k = 0; k < d.size(); k++) {
      if ((d[k] == "]" || d[k] == "}") && k > 0 && d[k - 1] != "[" && d[k - 1] != "{") { all.push_back(","); any = true; }
      all.push_back(d[k]);
    }
    if (any) {
      out.push_back(join(all));
      out.push_back(render(all, 1));
      for (size_t k = d.size(); k-- > 0;)
        if ((d[k] == "]" || d[k] == "}") && k > 0 && d[k - 1] != "[" && d[k - 1] != "{") {
          last.insert(last.begin() + k, ",");
          out.push_back(join(last));
          break;
        }
    }
  }
  // (b) hexadecimal integers
  {
    Toks up = d, lo = d;
    bool any = false;
    for (size_t k = 0; k < d.size(); k++)
      if (is_int_token(d[k])) { up[k] = hex_token(d[k], false); lo[k] = hex_token(d[k], true); any = true; }
    if (any) { out.push_back(join(up)); out.push_back(render(lo, 2)); }
  }
  // (c) one-character constants
  {
    Toks t = d;
    bool any = false;
    for (auto& x : t) {
      if (x == "null") { x = "n"; any = true; }
      else if (x == "true") { x = "t"; any = true; }
      else if (x == "false") { x = "f"; any = true; }
    }
    if (any) { out.push_back(join(t)); out.push_back(render(t, 1)); }
  }
  // (d) a comment at each token boundary
  for (size_t k = 0; k <= d.size(); k++) {
    Toks t = d;
    t.insert(t.begin() + k, k % 2 ? "//c\n" : "// \"[{\n");
    out.push_back(join(t));
  }
  out.push_back(join(d) + "//");
  out.push_back(join(d) + " // c");
  out.push_back("//\n" + join(d));
  return out;
}

const std::vector<std::string> EXT_CORPUS = {"[1,]", "[1 , ]", "{\"a\":1,}", "[[1,],]", "[{\"a\":[],},]", "0x1F", "-0x10", "0x7FFFFFFFFFFFFFFF", "-0x8000000000000000", "0xff",
    "[0x0,0x1]", "{\"a\":0xA}", "n", "t", "f", "[t,f,n]", "{\"a\":n}", "// c\n1", "1 // c", "1//", "[1, // c\n 2]", "{\"a\": // c\n 1}", "{ // c\n\"a\":1}", "[n,0x1,] // c"};

const std::vector<std::string> STD_CORPUS = {"0", "-0", "10", "-1", "1.5", "5e-1", "1E+2", "1e2", "-1.25e-3", "0.000001", "1e20", "9223372036854775807", "-9223372036854775808",
    "true", "false", "null", "\"\"", "\"a\"", "\"\\\"\"", "\"\\\\\"", "\"\\/\"", "\"\\b\\f\\n\\r\\t\"", "\"\\u0041\"", "\"\\u00e9\"", "\"\xC3\xA9\"", "\"a\\\"b\\\\c\"",
    "[]", "{}", "[1]", "[1,2]", "[[]]", "[{}]", "{\"a\":1}", "{\"a\":1,\"b\":2}", "{\"a\":[]}", "{\"a\":{}}", "[1,[2,[3]]]", "{\"a\":{\"b\":{\"c\":null}}}",
    " [ 1 , 2 ] ", "\n{\n\"a\" : true\n}\n", "[\"a\",1.5,null,true,false,{}]", "{\"\":\"\"}", "[-1.5e+3,0.5]", "[\"\\u00e9\",\"//\"]"};

}  // namespace

VF_SECTION(ext, 8, 16, 120) {
  FILE* dat = jref::dat_open(r.section, r.shard);  // R_std rejects all of these; so must Python
  r.note("JSON::parse");
  std::vector<Toks> docs = grammar_docs(r.thorough());
  for (auto& c : EXT_CORPUS) {
    if (!r.take()) continue;
    jref::Result ex = jref::parse(c, true), st = jref::parse(c, false);
    if (!ex.accepted || st.accepted || !ex.ext_used) r.fail("self-check:extension-corpus-not-extension", [&] { return vf::show(c); });
    text_case(r, c, dat);
  }
  for (auto& d : docs) {
    // the number of variants is a pure function of the token list, so every shard indexes identically
    for (auto& text : ext_variants(d)) {
      if (!r.take()) continue;
      jref::Result ex = jref::parse(text, true);
      if (!ex.accepted || !ex.ext_used) r.fail("self-check:reference-rejects-extension-document", [&] { return vf::show(text) + ": " + ex.why; });
      text_case(r, text, dat);
    }
  }
  if (dat) fclose(dat);
  r.bound = "every generated document rewritten with: trailing commas, hexadecimal integers (upper/lower), one-character constants, a // comment at each token boundary and at the end";
}

VF_SECTION(mutate, 16, 16, 120) {
  FILE* dat = jref::dat_open(r.section, r.shard);
  r.note("JSON::parse");
  std::vector<std::string> corpus = STD_CORPUS;
  corpus.insert(corpus.end(), EXT_CORPUS.begin(), EXT_CORPUS.end());
  const std::string& sigma = SIGMA28;
  std::string extra = r.thorough() ? std::string("2589EFabcd\t\r'#*") : std::string();
  std::string alphabet = sigma + extra;
  for (auto& doc : corpus) {
    if (r.take()) text_case(r, doc, dat);
    for (size_t i = 0; i <= doc.size(); i++) {
      for (char c : alphabet) {  // insertion before position i
        if (!r.take()) continue;
        std::string m = doc;
        m.insert(m.begin() + i, c);
        text_case(r, m, dat);
      }
      if (i == doc.size()) break;
      for (char c : alphabet) {  // substitution
        if (c == doc[i]) continue;
        if (!r.take()) continue;
        std::string m = doc;
        m[i] = c;
        text_case(r, m, dat);
      }
      if (r.take()) {  // deletion
        std::string m = doc;
        m.erase(i, 1);
        text_case(r, m, dat);
      }
    }
  }
  if (dat) fclose(dat);
  r.counters["corpus_documents"] += r.shard == 0 ? corpus.size() : 0;
  r.bound = vf::fmt("every single-byte insertion/substitution/deletion (alphabet of %zu bytes) at every position of a %zu-document corpus (standard + extension documents)", alphabet.size(), corpus.size());
}

VF_SECTION(deep, 8, 8, 180) {
  FILE* dat = jref::dat_open(r.section, r.shard);
  r.note("JSON::parse");
  auto rep = [](const std::string& s, int n) { std::string o; for (int i = 0; i < n; i++) o += s; return o; };
  std::vector<std::pair<std::string, bool>> docs;  // text, enumerate-every-truncation
  for (int depth : {499, 500}) {
    docs.push_back({rep("[", depth) + rep("]", depth), depth == 500});
    docs.push_back({rep("[", depth) + "1" + rep("]", depth), false});
    docs.push_back({rep("{\"a\":", depth) + "1" + rep("}", depth), depth == 500});
    docs.push_back({rep("{\"a\":", depth - 1) + "{}" + rep("}", depth - 1), false});
    docs.push_back({rep("[{\"k\":", depth / 2) + "5e-1" + rep("}]", depth / 2), depth == 500});
    docs.push_back({rep("[1,", depth - 1) + "[2]" + rep("]", depth - 1), false});
    docs.push_back({rep(" [ ", depth) + rep(" ] ", depth), false});
    // extension forms at depth
    docs.push_back({rep("[", depth) + "1" + rep(",]", depth), false});
    docs.push_back({rep("[//c\n", depth) + "n" + rep("]", depth), false});
  }
  // beyond the statement's nesting bound: totality only (R_std flags too_deep)
  docs.push_back({rep("[", 501) + rep("]", 501), false});
  docs.push_back({rep("[", 600) + rep("]", 600), false});
  docs.push_back({rep("{\"a\":", 600) + "1" + rep("}", 600), false});
  docs.push_back({rep("[", 600), false});
  docs.push_back({rep("{\"a\":", 600), false});
  for (auto& [text, trunc] : docs) {
    if (r.take()) text_case(r, text, dat);
    for (auto suf : {",", " x", "]"}) {
      if (!r.take()) continue;
      text_case(r, text + suf, dat);
    }
    if (!trunc) continue;
    for (size_t k = 0; k < text.size(); k++) {
      if (!r.take()) continue;
      text_case(r, text.substr(0, k), dat);
    }
  }
  if (dat) fclose(dat);
  r.bound = "lists / dictionaries / mixed / whitespace-padded / extension forms nested 499 and 500 deep (+ 3 suffixes each), every truncation of the 500-deep list, dictionary and mixed documents; 501 and 600 deep for totality only";
}

VF_MAIN()
